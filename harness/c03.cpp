// C03 harness.  Two modes.
//
//  (default)  line protocol, one answer line per op line, same ops go to the Lean driver drv_c03:
//     tbl o2i d | tbl cout s d | tbl cin s d | tbl mask m | tbl pin d | tbl idx d      real table functions
//     outdir mx my mz i j k                real DensitySubGrid::get_output_direction
//     new nx ny nz mx my mz px py pz       real DensitySubGridCreator< DensitySubGrid > (+ initialize)
//     pos i | row i | ngb6 i               get_grid_position / the 27 _ngbs of subgrid i / get_neighbours
//     copies l0 l1 ...                     create_copies (first time) / update_copies (afterwards)
//     range i                              iterator::get_copies
//     fold                                 update_original_counters: (original, copy) pairs visited
//     upd d mx my mz hx hy hz px py pz     real update_photon_position (doubles as bit patterns)
//   ORACLE lines: the property itself evaluated on the real objects (mutuality, copies, fold).
//
//  trace      (argv[1] == "trace") split-vs-unsplit ray tracing through REAL subgrids, no model involved:
//     trace seed nx ny nz mx my mz px py pz boxkind npackets maxlevel
//   builds the grid split into nx*ny*nz subgrids (optionally with copies) and the same grid as a single
//   block, shoots the same seeded packets through both (hand-over exactly as PhotonTraversalTaskContext:
//   get_neighbour / output_to_input_direction / interact), folds the copies with the real
//   update_original_counters and compares per-cell estimators, absorption/escape decisions and positions.
#include "common.hpp"
#include <algorithm>
#include <cfloat>
#include <fstream>
#include <map>
#include <omp.h>
#define private public
#define protected public
#include "DensitySubGridCreator.hpp"
#include "HomogeneousDensityFunction.hpp"
#include "PhotonPacket.hpp"
#include "TravelDirections.hpp"
#undef private
#undef protected
#include "c03_names.hpp"

// ------------------------------------------------------------------------------------------------
// subgrid type that logs the fold (the creator is a template over the subgrid type; everything else
// is the real DensitySubGrid)
struct FoldLog {
  std::vector< std::pair< const void *, const void * > > calls;
};
static FoldLog fold_log;

class LoggingSubGrid : public DensitySubGrid {
public:
  LoggingSubGrid(const double *box, const CoordinateVector< int_fast32_t > ncell)
      : DensitySubGrid(box, ncell) {}
  LoggingSubGrid(const LoggingSubGrid &o) : DensitySubGrid(o) {}
  inline void update_intensities(const LoggingSubGrid &copy) {
    fold_log.calls.push_back(std::make_pair((const void *)this, (const void *)&copy));
    DensitySubGrid::update_intensities(copy);
  }
};

static std::string ent(uint_fast32_t v) {
  return v == NEIGHBOUR_OUTSIDE ? std::string("x") : std::to_string(v);
}

// ------------------------------------------------------------------------------------------------
// protocol mode

template < class C > static std::string rowOf(C &c, size_t i) {
  std::ostringstream s;
  s << "row";
  if (i >= c._subgrids.size()) {
    s << " none";
    return s.str();
  }
  for (int d = 0; d < TRAVELDIRECTION_NUMBER; ++d)
    s << " " << ent(c._subgrids[i]->get_neighbour(d));
  return s.str();
}

static int protocol_mode() {
  typedef DensitySubGridCreator< DensitySubGrid > Creator;
  typedef DensitySubGridCreator< LoggingSubGrid > LCreator;
  Creator *gc = nullptr;
  LCreator *lc = nullptr;
  bool has_copies = false;
  std::vector< uint_fast8_t > levels;
  int nsub[3] = {0, 0, 0};
  std::string line;
  uint64_t lineno = 0;
  HomogeneousDensityFunction density_function;
  while (std::getline(std::cin, line)) {
    ++lineno;
    auto w = words(line);
    std::ostringstream bad;
    if (w.empty()) {
      std::cout << "bad-op\n";
      continue;
    }
    if (w[0] == "tbl" && w.size() >= 3) {
      const std::string &k = w[1];
      if (k == "o2i") {
        const long d = std::stol(w[2]);
        const long r = TravelDirections::output_to_input_direction(d);
        std::cout << "tbl " << r << "\n";
        // ---- property oracle: involution that fixes INSIDE only, and mirrors the named offset
        if (r < 0 || r >= TRAVELDIRECTION_NUMBER || TravelDirections::output_to_input_direction(r) != d)
          bad << " output_to_input_direction-is-not-an-involution(d=" << d << ")";
        else if ((r == d) != (d == TRAVELDIRECTION_INSIDE))
          bad << " output_to_input_direction-fixed-point(d=" << d << ")";
        else {
          const NamedDirection *a = named_direction(d), *b = named_direction(r);
          if (!a || !b || a->off[0] != -b->off[0] || a->off[1] != -b->off[1] || a->off[2] != -b->off[2])
            bad << " output_to_input_direction-is-not-the-opposite-label(d=" << d << ",got=" << r << ")";
        }
      } else if ((k == "cout" || k == "cin") && w.size() == 4) {
        const int s = std::stoi(w[2]);
        const CoordinateVector<> dir(s / 9 - 1, (s / 3) % 3 - 1, s % 3 - 1);
        const bool r = k == "cout" ? TravelDirections::is_compatible_output_direction(dir, std::stol(w[3]))
                                   : TravelDirections::is_compatible_input_direction(dir, std::stol(w[3]));
        std::cout << "tbl " << (r ? 1 : 0) << "\n";
        // ---- property oracle: the function is the sign condition of the label's named offset, and what may leave
        // through o may enter through output_to_input_direction(o)
        const long d = std::stol(w[3]);
        const NamedDirection *nd = named_direction(d);
        bool expect = nd != nullptr;
        for (int ax = 0; ax < 3 && nd; ++ax) {
          const int sg = ax == 0 ? s / 9 - 1 : (ax == 1 ? (s / 3) % 3 - 1 : s % 3 - 1);
          const int need = k == "cout" ? nd->off[ax] : -nd->off[ax];
          if (need != 0 && sg != need)
            expect = false;
        }
        if (r != expect)
          bad << " compatibility-is-not-the-sign-condition-of-the-label(" << k << ",signs=" << s << ",d=" << d << ")";
        if (k == "cout" &&
            r != TravelDirections::is_compatible_input_direction(dir, TravelDirections::output_to_input_direction(d)))
          bad << " leaving-through-o-but-not-entering-through-opposite(signs=" << s << ",o=" << d << ")";
      } else if (k == "mask") {
        const long m = std::stol(w[2]);
        const long r = long(TravelDirections::get_output_direction(m));
        std::cout << "tbl " << r << "\n";
        // ---- property oracle: valid masks (no axis both low and high) give the label with that offset, others -1
        const int hi[3] = {int((m >> 5) & 1), int((m >> 3) & 1), int((m >> 1) & 1)};
        const int lo[3] = {int((m >> 4) & 1), int((m >> 2) & 1), int(m & 1)};
        const bool valid = !(hi[0] && lo[0]) && !(hi[1] && lo[1]) && !(hi[2] && lo[2]);
        const NamedDirection *nd = r >= 0 ? named_direction(r) : nullptr;
        if (valid != (r >= 0))
          bad << " mask-validity(mask=" << m << ")";
        else if (valid && (!nd || nd->off[0] != hi[0] - lo[0] || nd->off[1] != hi[1] - lo[1] || nd->off[2] != hi[2] - lo[2]))
          bad << " mask-gives-wrong-label(mask=" << m << ",got=" << r << ")";
      } else if (k == "pin" || k == "idx") {
        const double box[6] = {0., 0., 0., 4., 5., 7.};
        DensitySubGrid g(box, CoordinateVector< int_fast32_t >(4, 5, 7));
        const long d = std::stol(w[2]);
        std::cout << "tbl";
        if (k == "pin") {
          CoordinateVector<> p(1.5, 1.5, 1.5);
          g.update_photon_position(d, p);
          for (int ax = 0; ax < 3; ++ax)
            std::cout << " " << (p[ax] == 1.5 ? 0 : (p[ax] == 0. ? 1 : (p[ax] == g._number_of_cells[ax] * g._cell_size[ax] ? 2 : 9)));
        } else {
          const long r[3] = {long(g.get_x_index(1.5, d)), long(g.get_y_index(1.5, d)), long(g.get_z_index(1.5, d))};
          for (int ax = 0; ax < 3; ++ax)
            std::cout << " " << (r[ax] == 1 ? 0 : (r[ax] == 0 ? 1 : (r[ax] == g._number_of_cells[ax] - 1 ? 2 : 9)));
        }
        std::cout << "\n";
        // ---- property oracle: entering through label d pins / fixes exactly the walls the label names
        {
          const NamedDirection *nd = named_direction(d);
          CoordinateVector<> p(1.5, 1.5, 1.5);
          g.update_photon_position(d, p);
          const long r[3] = {long(g.get_x_index(1.5, d)), long(g.get_y_index(1.5, d)), long(g.get_z_index(1.5, d))};
          for (int ax = 0; ax < 3 && nd; ++ax) {
            const double up = g._number_of_cells[ax] * g._cell_size[ax];
            const double ep = nd->off[ax] == 0 ? 1.5 : (nd->off[ax] < 0 ? 0. : up);
            const long er = nd->off[ax] == 0 ? 1 : (nd->off[ax] < 0 ? 0 : g._number_of_cells[ax] - 1);
            if (k == "pin" && p[ax] != ep)
              bad << " entry-position-not-on-the-wall-of-the-label(d=" << d << ",axis=" << ax << ")";
            if (k == "idx" && r[ax] != er)
              bad << " start-index-not-at-the-wall-of-the-label(d=" << d << ",axis=" << ax << ")";
          }
        }
      } else
        std::cout << "bad-op\n";
    } else if (w[0] == "outdir" && w.size() == 7) {
      const long m[3] = {std::stol(w[1]), std::stol(w[2]), std::stol(w[3])};
      const double box[6] = {0., 0., 0., 1., 1., 1.};
      DensitySubGrid g(box, CoordinateVector< int_fast32_t >(m[0], m[1], m[2]));
      std::cout << "outdir "
                << long(g.get_output_direction(CoordinateVector< int_fast32_t >(std::stol(w[4]), std::stol(w[5]), std::stol(w[6]))))
                << "\n";
    } else if (w[0] == "upd" && w.size() == 11) {
      const long d = std::stol(w[1]);
      const long m[3] = {std::stol(w[2]), std::stol(w[3]), std::stol(w[4])};
      const double h[3] = {dbl(w[5]), dbl(w[6]), dbl(w[7])};
      // a subgrid whose cell sizes are exactly h: overwrite the derived members
      const double box[6] = {0., 0., 0., 1., 1., 1.};
      DensitySubGrid g(box, CoordinateVector< int_fast32_t >(m[0], m[1], m[2]));
      for (int ax = 0; ax < 3; ++ax)
        g._cell_size[ax] = h[ax];
      CoordinateVector<> p(dbl(w[8]), dbl(w[9]), dbl(w[10]));
      g.update_photon_position(d, p);
      std::cout << "upd " << showF(p[0]) << " " << showF(p[1]) << " " << showF(p[2]) << "\n";
    } else if (w[0] == "new" && w.size() == 10) {
      delete gc;
      delete lc;
      for (int i = 0; i < 3; ++i)
        nsub[i] = std::stoi(w[1 + i]);
      const CoordinateVector< int_fast32_t > ns(nsub[0], nsub[1], nsub[2]);
      const CoordinateVector< int_fast32_t > m(std::stoi(w[4]), std::stoi(w[5]), std::stoi(w[6]));
      const CoordinateVector< int_fast32_t > nc(ns[0] * m[0], ns[1] * m[1], ns[2] * m[2]);
      const CoordinateVector< bool > per(w[7] == "1", w[8] == "1", w[9] == "1");
      const Box<> box(CoordinateVector<>(0.), CoordinateVector<>(1.));
      gc = new Creator(box, nc, ns, per);
      gc->initialize(density_function);
      lc = new LCreator(box, nc, ns, per);
      lc->initialize(density_function);
      has_copies = false;
      levels.assign(gc->number_of_original_subgrids(), 0);
      std::cout << "new " << gc->number_of_original_subgrids() << "\n";
      // ---- property oracle on the real tables: mutuality and geometry of the wiring
      const size_t n = gc->number_of_original_subgrids();
      for (size_t s = 0; s < n && bad.str().empty(); ++s) {
        const CoordinateVector< int_fast32_t > p = gc->get_grid_position(s);
        for (int d = 0; d < TRAVELDIRECTION_NUMBER; ++d) {
          const uint_fast32_t t = gc->_subgrids[s]->get_neighbour(d);
          if (t == NEIGHBOUR_OUTSIDE) {
            // must really point outside the box on a non-periodic axis
            const NamedDirection *nd0 = named_direction(d);
            bool outside = false;
            for (int ax = 0; ax < 3 && nd0; ++ax) {
              const long c = p[ax] + nd0->off[ax];
              const bool per_ax = ax == 0 ? gc->_periodicity.x() : (ax == 1 ? gc->_periodicity.y() : gc->_periodicity.z());
              if ((c < 0 || c >= nsub[ax]) && !per_ax)
                outside = true;
            }
            if (!outside)
              bad << " neighbour-missing(s=" << s << ",d=" << d << ")";
            continue;
          }
          if (t >= n) {
            bad << " neighbour-index-out-of-range(s=" << s << ",d=" << d << ",t=" << t << ")";
            break;
          }
          const long back = TravelDirections::output_to_input_direction(d);
          if (gc->_subgrids[t]->get_neighbour(back) != s) {
            bad << " neighbour-not-mutual(s=" << s << ",d=" << d << ",t=" << t << ")";
            break;
          }
          // geometry: t sits at pos s + (offset the label names) per axis, modulo the layout on periodic axes
          const CoordinateVector< int_fast32_t > q = gc->get_grid_position(t);
          for (int ax = 0; ax < 3 && bad.str().empty(); ++ax) {
            const NamedDirection *nd = named_direction(d);
            const int a = nd ? nd->off[ax] : 0;
            long expect = p[ax] + a;
            if (expect < 0 || expect >= nsub[ax])
              expect = ((expect % nsub[ax]) + nsub[ax]) % nsub[ax];
            if (q[ax] != expect)
              bad << " neighbour-not-geometric(s=" << s << ",d=" << d << ",t=" << t << ")";
          }
        }
      }
    } else if (!gc) {
      std::cout << "bad-op\n";
    } else if (w[0] == "pos" && w.size() == 2) {
      const CoordinateVector< int_fast32_t > p = gc->get_grid_position(u64(w[1]));
      std::cout << "pos " << p[0] << " " << p[1] << " " << p[2] << "\n";
    } else if (w[0] == "row" && w.size() == 2) {
      const std::string a = rowOf(*gc, u64(w[1])), b = rowOf(*lc, u64(w[1]));
      std::cout << a << "\n";
      if (a != b)
        bad << " logging-creator-differs";
    } else if (w[0] == "ngb6" && w.size() == 2) {
      size_t ngbs[6];
      const unsigned nn = gc->get_neighbours(u64(w[1]), ngbs);
      std::cout << "ngb6";
      for (unsigned i = 0; i < nn; ++i)
        std::cout << " " << ngbs[i];
      std::cout << "\n";
    } else if (w[0] == "copies") {
      const size_t n = gc->number_of_original_subgrids();
      if (w.size() != n + 1) {
        std::cout << "bad-op\n";
        continue;
      }
      for (size_t i = 0; i < n; ++i)
        levels[i] = std::stoi(w[1 + i]);
      if (!has_copies) {
        gc->create_copies(levels);
        lc->create_copies(levels);
      } else {
        gc->update_copies(levels);
        lc->update_copies(levels);
      }
      has_copies = true;
      std::cout << "copies " << gc->number_of_actual_subgrids() << " |";
      for (size_t i = 0; i < gc->_copies.size(); ++i)
        std::cout << " " << gc->_copies[i];
      std::cout << " |";
      for (size_t i = 0; i < gc->_originals.size(); ++i)
        std::cout << " " << gc->_originals[i];
      std::cout << "\n";
      // ---- property oracle: every neighbour of a copy is the original or a copy of the true neighbour
      const size_t tot = gc->_subgrids.size();
      auto orig_of = [&](size_t idx) { return idx < n ? idx : gc->_originals[idx - n]; };
      size_t expect_tot = n;
      for (size_t i = 0; i < n; ++i)
        expect_tot += (size_t(1) << levels[i]) - 1;
      if (tot != expect_tot || gc->_originals.size() != tot - n)
        bad << " wrong-number-of-copies";
      for (size_t c = n; c < tot && bad.str().empty(); ++c) {
        const size_t s = orig_of(c);
        if (s >= n) {
          bad << " original-out-of-range(copy=" << c << ")";
          break;
        }
        if (gc->_subgrids[c]->get_neighbour(0) != c)
          bad << " copy-self-reference-wrong(copy=" << c << ")";
        for (int d = 1; d < TRAVELDIRECTION_NUMBER; ++d) {
          const uint_fast32_t t = gc->_subgrids[s]->get_neighbour(d);
          const uint_fast32_t e = gc->_subgrids[c]->get_neighbour(d);
          if (t == NEIGHBOUR_OUTSIDE) {
            if (e != NEIGHBOUR_OUTSIDE)
              bad << " copy-has-neighbour-where-original-has-none(copy=" << c << ",d=" << d << ")";
          } else if (e == NEIGHBOUR_OUTSIDE || e >= tot || orig_of(e) != t) {
            bad << " copy-neighbour-is-not-a-copy-of-the-true-neighbour(copy=" << c << ",d=" << d << ",got=" << ent(e) << ",true=" << t << ")";
          }
          if (!bad.str().empty())
            break;
        }
      }
      // onto: when the neighbour has at most as many copies, every member of the neighbour's family is used
      for (size_t s = 0; s < n && bad.str().empty(); ++s) {
        for (int d = 1; d < TRAVELDIRECTION_NUMBER && bad.str().empty(); ++d) {
          const uint_fast32_t t = gc->_subgrids[s]->get_neighbour(d);
          if (t == NEIGHBOUR_OUTSIDE || levels[t] > levels[s])
            continue;
          std::map< size_t, int > used;
          used[gc->_subgrids[s]->get_neighbour(d)]++;
          for (size_t c = n; c < tot; ++c)
            if (orig_of(c) == s)
              used[gc->_subgrids[c]->get_neighbour(d)]++;
          size_t members = 1;
          for (size_t c = n; c < tot; ++c)
            if (orig_of(c) == t)
              ++members;
          if (used.size() != members)
            bad << " neighbour-copy-never-reached(s=" << s << ",d=" << d << ",t=" << t << ")";
        }
      }
    } else if (w[0] == "range" && w.size() == 2) {
      auto it = gc->get_subgrid(size_t(u64(w[1])));
      auto pr = it.get_copies();
      std::cout << "range " << pr.first.get_index() << " " << pr.second.get_index() << "\n";
    } else if (w[0] == "fold") {
      const size_t n = gc->number_of_original_subgrids();
      // (a) exact log through the logging subgrid type
      fold_log.calls.clear();
      lc->update_original_counters();
      std::map< const void *, size_t > index;
      for (size_t i = 0; i < lc->_subgrids.size(); ++i)
        index[lc->_subgrids[i]] = i;
      std::cout << "fold";
      std::vector< int > seen(lc->_subgrids.size(), 0);
      for (auto &c : fold_log.calls) {
        const size_t a = index.count(c.first) ? index[c.first] : size_t(-1);
        const size_t b = index.count(c.second) ? index[c.second] : size_t(-1);
        std::cout << " " << a << ":" << b;
        if (b < seen.size())
          ++seen[b];
        if (b < n || b >= seen.size() || a >= n || lc->_originals[b - n] != a)
          bad << " copy-folded-into-wrong-original(" << a << ":" << b << ")";
      }
      std::cout << "\n";
      for (size_t i = n; i < seen.size(); ++i)
        if (seen[i] != 1)
          bad << " copy-folded-" << seen[i] << "-times(copy=" << i << ")";
      // (b) the same on the real DensitySubGrid type through marker values: copy c carries c+1 in cell 0
      for (size_t i = 0; i < gc->_subgrids.size(); ++i) {
        gc->_subgrids[i]->reset_intensities();
        if (i >= n)
          gc->_subgrids[i]->_ionization_variables[0].set_mean_intensity(ION_H_n, double(i + 1));
      }
      gc->update_original_counters();
      for (size_t s = 0; s < n; ++s) {
        double expect = 0.;
        for (size_t c = n; c < gc->_subgrids.size(); ++c)
          if (gc->_originals[c - n] == s)
            expect += double(c + 1);
        if (gc->_subgrids[s]->_ionization_variables[0].get_mean_intensity(ION_H_n) != expect)
          bad << " folded-sum-wrong(original=" << s << ")";
      }
    } else {
      std::cout << "bad-op\n";
    }
    if (!bad.str().empty())
      std::cout << "ORACLE line=" << lineno << bad.str() << "\n";
  }
  delete gc;
  delete lc;
  return 0;
}

// ------------------------------------------------------------------------------------------------
// trace mode

struct Rng {
  uint64_t s;
  explicit Rng(uint64_t seed) : s(seed) {}
  uint64_t next() {
    uint64_t z = (s += 0x9E3779B97F4A7C15ull);
    z = (z ^ (z >> 30)) * 0xBF58476D1CE4E5B9ull;
    z = (z ^ (z >> 27)) * 0x94D049BB133111EBull;
    return z ^ (z >> 31);
  }
  double uni() { return (next() >> 11) * (1. / 9007199254740992.); }
  uint64_t below(uint64_t n) { return next() % n; }
};

static uint64_t hash3(uint64_t seed, long i, long j, long k) {
  Rng r(seed ^ (uint64_t(i) * 0x100000001B3ull) ^ (uint64_t(j) << 21) ^ (uint64_t(k) << 42));
  r.next();
  return r.next();
}

// density as a function of the GLOBAL cell (so that the split and the unsplit grid hold the same field)
class HashDensity : public DensityFunction {
public:
  uint64_t seed;
  CoordinateVector<> anchor, cell;
  bool allow_empty;
  double nscale;
  virtual DensityValues operator()(const Cell &c) {
    const CoordinateVector<> p = c.get_cell_midpoint();
    const long i = std::floor((p[0] - anchor[0]) / cell[0]);
    const long j = std::floor((p[1] - anchor[1]) / cell[1]);
    const long k = std::floor((p[2] - anchor[2]) / cell[2]);
    const uint64_t h = hash3(seed, i, j, k);
    DensityValues v;
    // periodic boxes (allow_empty == false) are kept opaque enough that a packet wraps around a few hundred times
    // at most (accumulated round-off grows with the number of hand-overs)
    double n = nscale * ((allow_empty ? 0.25 : 0.5) + (h & 0xffff) / 65536. * (allow_empty ? 1.5 : 1.0));
    if (allow_empty && ((h >> 16) & 7) == 0)
      n = 0.;
    v.set_number_density(n);
    for (int ion = 0; ion < NUMBER_OF_IONNAMES; ++ion)
      v.set_ionic_fraction(ion, 0.);
    v.set_ionic_fraction(ION_H_n, (allow_empty ? 0.1 : 0.5) + ((h >> 20) & 0xff) / 256. * (allow_empty ? 0.9 : 0.5));
#ifdef HAS_HELIUM
    v.set_ionic_fraction(ION_He_n, ((h >> 28) & 0xff) / 256. * 0.5);
#endif
    v.set_temperature(8000.);
    return v;
  }
};

struct PacketSpec {
  CoordinateVector<> pos, dir;
  double tau;
  int kind;
};

struct Outcome {
  int absorbed; // 1 absorbed, 0 escaped, -1 did not terminate
  CoordinateVector<> pos;
  double tau_left;
  long handovers;
};

typedef DensitySubGridCreator< DensitySubGrid > Creator;

static const long HANDOVER_CAP = 200000;

// one packet through a grid of real subgrids, hand-over as in PhotonTraversalTaskContext::execute.
// `pick` chooses the member (original or copy) the packet starts in.
static Outcome shoot(Creator &gc, const PacketSpec &ps, uint64_t pick, const Box<> &box,
                     const CoordinateVector< bool > &per, std::vector< long > *dirhist,
                     std::ostringstream &bad, double sigmaH, double sigmaHe) {
  PhotonPacket photon;
  photon.set_position(ps.pos);
  photon.set_direction(ps.dir);
  photon.set_target_optical_depth(ps.tau);
  for (int ion = 0; ion < NUMBER_OF_IONNAMES; ++ion)
    photon.set_photoionization_cross_section(ion, 0.25 * sigmaH * (ion + 1));
  photon.set_photoionization_cross_section(ION_H_n, sigmaH);
#ifdef HAS_HELIUM
  photon.set_photoionization_cross_section(ION_He_n, sigmaHe);
#endif
  photon.set_energy(4.e15);
  photon.set_weight(1.);
  photon.set_type(PHOTONTYPE_PRIMARY);
  photon.set_scatter_counter(0);

  auto first = gc.get_subgrid(ps.pos);
  size_t cur = first.get_index();
  {
    // start in the original or one of its copies (as DistributedPhotonSource distributes them)
    auto cp = first.get_copies();
    std::vector< size_t > fam(1, cur);
    if (cp.first != gc.all_end())
      for (auto it = cp.first; it != cp.second; ++it)
        fam.push_back(it.get_index());
    cur = fam[pick % fam.size()];
  }
  int_fast32_t indir = TRAVELDIRECTION_INSIDE;
  Outcome o;
  o.handovers = 0;
  o.absorbed = -1;
  const CoordinateVector<> sides = box.get_sides();
  while (o.handovers < HANDOVER_CAP) {
    DensitySubGrid &g = *gc._subgrids[cur];
    if (!TravelDirections::is_compatible_input_direction(photon.get_direction(), indir)) {
      bad << " input-direction-incompatible-with-travel-direction(in=" << indir << ")";
      break;
    }
    const int_fast32_t out = g.interact(photon, indir);
    if (out < 0 || out >= TRAVELDIRECTION_NUMBER) {
      bad << " invalid-output-direction";
      break;
    }
    if (!TravelDirections::is_compatible_output_direction(photon.get_direction(), out)) {
      bad << " output-direction-incompatible-with-travel-direction(out=" << out << ")";
      break;
    }
    if (out == TRAVELDIRECTION_INSIDE) {
      o.absorbed = 1;
      break;
    }
    const uint_fast32_t ngb = g.get_neighbour(out);
    if (ngb == NEIGHBOUR_OUTSIDE) {
      o.absorbed = 0;
      break;
    }
    if (ngb >= gc._subgrids.size()) {
      bad << " neighbour-index-out-of-range";
      break;
    }
    indir = TravelDirections::output_to_input_direction(out);
    if (dirhist)
      ++(*dirhist)[out];
    // ---- hand-over oracle: the position the neighbour will start from is the same physical point
    {
      DensitySubGrid &t = *gc._subgrids[ngb];
      const CoordinateVector<> P = photon.get_position();
      CoordinateVector<> local = P - t._anchor;
      t.update_photon_position(indir, local);
      const CoordinateVector<> Q = local + t._anchor;
      for (int ax = 0; ax < 3; ++ax) {
        const double tol = 1.e-12 * (std::fabs(box.get_anchor()[ax]) + sides[ax]);
        double best = std::fabs(Q[ax] - P[ax]);
        if (per[ax])
          best = std::min(best, std::min(std::fabs(Q[ax] - P[ax] - sides[ax]), std::fabs(Q[ax] - P[ax] + sides[ax])));
        if (!(best <= tol))
          bad << " hand-over-moves-the-packet(axis=" << ax << ",out=" << out << ",from=" << cur << ",to=" << ngb << ")";
        const double lo = t._anchor[ax], hi = t._anchor[ax] + t._cell_size[ax] * t._number_of_cells[ax];
        if (!(Q[ax] >= lo - tol && Q[ax] <= hi + tol))
          bad << " hand-over-position-outside-the-neighbour(axis=" << ax << ",out=" << out << ",from=" << cur << ",to=" << ngb << ")";
      }
      if (!bad.str().empty())
        break;
    }
    cur = ngb;
    ++o.handovers;
  }
  o.pos = photon.get_position();
  o.tau_left = photon.get_target_optical_depth();
  return o;
}

static int trace_mode() {
  omp_set_num_threads(1);
  std::string line;
  uint64_t lineno = 0;
  while (std::getline(std::cin, line)) {
    ++lineno;
    auto w = words(line);
    if (w.size() != 14 || w[0] != "trace") {
      std::cout << "bad-op\n";
      continue;
    }
    const uint64_t seed = u64(w[1]);
    const CoordinateVector< int_fast32_t > ns(std::stoi(w[2]), std::stoi(w[3]), std::stoi(w[4]));
    const CoordinateVector< int_fast32_t > m(std::stoi(w[5]), std::stoi(w[6]), std::stoi(w[7]));
    const CoordinateVector< bool > per(w[8] == "1", w[9] == "1", w[10] == "1");
    const int boxkind = std::stoi(w[11]);
    const long npk = std::stol(w[12]);
    const int maxlevel = std::stoi(w[13]);
    const CoordinateVector< int_fast32_t > nc(ns[0] * m[0], ns[1] * m[1], ns[2] * m[2]);
    Rng rng(seed);
    std::ostringstream bad;

    // ---- the box: dyadic (cell size a power of two, anchor a multiple of it) or generic
    CoordinateVector<> anchor, sides, cell;
    if (boxkind == 0) {
      const double h = std::ldexp(1., int(rng.below(5)) - 2);
      for (int ax = 0; ax < 3; ++ax) {
        cell[ax] = h;
        sides[ax] = h * nc[ax];
        anchor[ax] = h * (long(rng.below(9)) - 4) * nc[ax];
      }
    } else {
      for (int ax = 0; ax < 3; ++ax) {
        sides[ax] = 0.3 + 2.7 * rng.uni();
        anchor[ax] = (rng.uni() - 0.5) * 4.;
        cell[ax] = sides[ax] / nc[ax];
      }
    }
    const Box<> box(anchor, sides);
    const bool anyper = per[0] || per[1] || per[2];

    HashDensity dens;
    dens.seed = seed * 7919 + 13;
    dens.anchor = anchor;
    dens.cell = cell;
    dens.allow_empty = !anyper;
    dens.nscale = 1.;
    const double hmean = (cell[0] + cell[1] + cell[2]) / 3.;
    const double ncmean = (nc[0] + nc[1] + nc[2]) / 3.;
    // optical depth of ~0.15 per cell .. a few per box
    const double sigmaH = anyper ? (0.3 + 0.7 * rng.uni()) / hmean
                                 : (0.05 + 0.6 * rng.uni()) / hmean / std::max(1., ncmean / 6.);
    const double sigmaHe = 0.3 * sigmaH;

    Creator split(box, nc, ns, per);
    split.initialize(dens);
    Creator whole(box, nc, CoordinateVector< int_fast32_t >(1, 1, 1), per);
    whole.initialize(dens);

    // ---- copies of the split grid
    const size_t n = split.number_of_original_subgrids();
    std::vector< uint_fast8_t > levels(n, 0);
    long ncopies = 0;
    if (maxlevel > 0) {
      for (size_t i = 0; i < n; ++i) {
        levels[i] = rng.below(3) == 0 ? rng.below(maxlevel + 1) : 0;
        ncopies += (1l << levels[i]) - 1;
      }
      split.create_copies(levels);
      if (rng.below(2) == 0) {
        // a second assignment through update_copies (stale _copies entries stay behind)
        ncopies = 0;
        for (size_t i = 0; i < n; ++i) {
          levels[i] = rng.below(3) == 0 ? rng.below(maxlevel + 1) : 0;
          ncopies += (1l << levels[i]) - 1;
        }
        split.update_copies(levels);
      }
    }
    for (size_t i = 0; i < split._subgrids.size(); ++i)
      split._subgrids[i]->reset_intensities();
    whole._subgrids[0]->reset_intensities();

    // ---- packets
    std::vector< long > dirhist(TRAVELDIRECTION_NUMBER, 0);
    long nabs = 0, nesc = 0, nhand = 0, nkind[4] = {0, 0, 0, 0};
    double maxpos = 0., maxtau = 0.;
    for (long ip = 0; ip < npk && bad.str().empty(); ++ip) {
      PacketSpec ps;
      int kind = int(rng.below(boxkind == 0 ? 4 : 2));
      if (kind == 3)
        kind = 2;
      ps.kind = kind;
      if (kind == 0) {
        for (int ax = 0; ax < 3; ++ax)
          ps.pos[ax] = anchor[ax] + sides[ax] * rng.uni();
        const double ct = 2. * rng.uni() - 1., st = std::sqrt(std::max(0., 1. - ct * ct)), ph = 2. * M_PI * rng.uni();
        ps.dir = CoordinateVector<>(st * std::cos(ph), st * std::sin(ph), ct);
      } else if (kind == 1) {
        for (int ax = 0; ax < 3; ++ax)
          ps.pos[ax] = anchor[ax] + sides[ax] * rng.uni();
        ps.dir = CoordinateVector<>(0.);
        ps.dir[rng.below(3)] = rng.below(2) ? 1. : -1.;
      } else {
        // lattice packets in a dyadic box: start at a cell centre or a (lower) cell corner, direction with
        // dyadic components, so that edges and corners of cells and subgrids are hit exactly
        const bool corner = rng.below(3) == 0;
        for (int ax = 0; ax < 3; ++ax)
          ps.pos[ax] = anchor[ax] + cell[ax] * (double(rng.below(nc[ax])) + (corner ? 0. : 0.5));
        static const double comps[7] = {-1., 1., -1., 1., 0., 0.5, -2.};
        do {
          for (int ax = 0; ax < 3; ++ax)
            ps.dir[ax] = comps[rng.below(7)];
        } while (ps.dir[0] == 0. && ps.dir[1] == 0. && ps.dir[2] == 0.);
      }
      ++nkind[kind];
      ps.tau = -std::log(1. - rng.uni()) * (rng.below(4) == 0 ? 4. : 1.) + 1.e-3;
      const uint64_t pick = rng.next();

      const Outcome a = shoot(split, ps, pick, box, per, &dirhist, bad, sigmaH, sigmaHe);
      const Outcome b = shoot(whole, ps, 0, box, per, nullptr, bad, sigmaH, sigmaHe);
      std::ostringstream id;
      id << "(packet=" << ip << ",kind=" << kind << ")";
      if (a.absorbed < 0 || b.absorbed < 0) {
        if (bad.str().empty())
          bad << " packet-does-not-terminate" << id.str();
        break;
      }
      if (a.absorbed != b.absorbed) {
        bad << " absorption/escape-decision-differs(split=" << a.absorbed << ",whole=" << b.absorbed << ")" << id.str();
        break;
      }
      for (int ax = 0; ax < 3; ++ax) {
        double dpos = std::fabs(a.pos[ax] - b.pos[ax]);
        if (per[ax])
          dpos = std::min(dpos, std::fabs(dpos - sides[ax]));
        const double scale = std::fabs(anchor[ax]) + sides[ax];
        maxpos = std::max(maxpos, dpos / scale);
        // round-off accumulates with every hand-over (tau_target - tau_done is re-rounded): 1e-10 per 1000 hand-overs
        if (!(dpos <= 1.e-10 * scale * (1. + a.handovers / 1000.)))
          bad << " final-position-differs(axis=" << ax << ",split=" << a.pos[ax] << ",whole=" << b.pos[ax] << ")" << id.str();
      }
      {
        const double dt = std::fabs(a.tau_left - b.tau_left);
        maxtau = std::max(maxtau, dt / ps.tau);
        // a position error of relative size eps shifts the optical depth by eps * (optical depth across the box scale)
        double scmax = 0.;
        for (int ax = 0; ax < 3; ++ax)
          scmax = std::max(scmax, std::fabs(anchor[ax]) + sides[ax]);
        if (!(dt <= 1.e-10 * (ps.tau + 2. * sigmaH * scmax) * (1. + a.handovers / 1000.)))
          bad << " remaining-optical-depth-differs(split=" << a.tau_left << ",whole=" << b.tau_left << ")" << id.str();
      }
      nabs += a.absorbed;
      nesc += 1 - a.absorbed;
      nhand += a.handovers;
    }

    // ---- fold the copies (real code) and compare the estimators of every global cell
    if (maxlevel > 0)
      split.update_original_counters();
    double maxrel = 0.;
    long ncellcmp = 0, nnonzero = 0;
    if (bad.str().empty()) {
      DensitySubGrid &W = *whole._subgrids[0];
      for (size_t s = 0; s < n && bad.str().empty(); ++s) {
        const CoordinateVector< int_fast32_t > p = split.get_grid_position(s);
        DensitySubGrid &S = *split._subgrids[s];
        for (long i = 0; i < m[0]; ++i)
          for (long j = 0; j < m[1]; ++j)
            for (long k = 0; k < m[2]; ++k) {
              const long li = i * m[1] * m[2] + j * m[2] + k;
              const long gi = (p[0] * m[0] + i) * nc[1] * nc[2] + (p[1] * m[1] + j) * nc[2] + (p[2] * m[2] + k);
              const IonizationVariables &x = S._ionization_variables[li];
              const IonizationVariables &y = W._ionization_variables[gi];
              if (x.get_number_density() != y.get_number_density() ||
                  x.get_ionic_fraction(ION_H_n) != y.get_ionic_fraction(ION_H_n)) {
                bad << " harness-error:density-fields-differ";
                break;
              }
              ++ncellcmp;
              for (int q = 0; q < NUMBER_OF_IONNAMES + NUMBER_OF_HEATINGTERMS; ++q) {
                const double u = q < NUMBER_OF_IONNAMES ? x.get_mean_intensity(q) : x.get_heating(q - NUMBER_OF_IONNAMES);
                const double v = q < NUMBER_OF_IONNAMES ? y.get_mean_intensity(q) : y.get_heating(q - NUMBER_OF_IONNAMES);
                // floor: one part in 1e12 of the contribution of a single packet crossing the cell
                const double unit = (q < NUMBER_OF_IONNAMES ? 1. : 4.e15) * sigmaH * hmean;
                const double d = std::fabs(u - v);
                if (q == 0 && (u != 0. || v != 0.))
                  ++nnonzero;
                if (d > 0.)
                  maxrel = std::max(maxrel, d / (std::max(std::fabs(u), std::fabs(v)) + 1.e-2 * unit));
                if (!(d <= 1.e-10 * std::max(std::fabs(u), std::fabs(v)) + 1.e-12 * unit)) {
                  bad << " per-cell-estimator-differs(subgrid=" << s << ",cell=" << i << "," << j << "," << k << ",quantity=" << q
                      << ",split=" << u << ",whole=" << v << ")";
                  break;
                }
              }
            }
      }
    }
    std::cout << "trace packets=" << npk << " absorbed=" << nabs << " escaped=" << nesc << " handovers=" << nhand
              << " copies=" << ncopies << " kinds=" << nkind[0] << "," << nkind[1] << "," << nkind[2]
              << " cells=" << ncellcmp << " nonzero=" << nnonzero << " maxrel=" << maxrel << " maxpos=" << maxpos
              << " maxtau=" << maxtau << " dirs=";
    for (int d = 0; d < TRAVELDIRECTION_NUMBER; ++d)
      std::cout << (d ? "," : "") << dirhist[d];
    std::cout << "\n";
    if (!bad.str().empty())
      std::cout << "ORACLE line=" << lineno << bad.str() << "\n";
  }
  return 0;
}

int main(int argc, char **argv) {
  omp_set_num_threads(1);
  if (argc > 1 && std::string(argv[1]) == "trace")
    return trace_mode();
  return protocol_mode();
}
