// C03 harness.  Two modes.
//
//  (default)  line protocol, one answer line per op line, same ops go to the Lean driver drv_c03:
//     tbl o2i d | tbl cout s d | tbl cin s d | tbl mask m | tbl pin d | tbl idx d      real table functions
//     outdir mx my mz i j k                real DensitySubGrid::get_output_direction
//     new nx ny nz mx my mz px py pz       real DensitySubGridCreator< DensitySubGrid > (+ initialize)
//     pos i | row i | ngb6 i               get_grid_position / the 27 _ngbs of subgrid i / get_neighbours
//     copies l0 l1 ...                     create_copies (first time) / update_copies (afterwards)
//     range i                              iterator::get_copies
//     fold                                 update_original_counters: (original, copy) pairs visited
//     upd d mx my mz hx hy hz px py pz     real update_photon_position (doubles as bit patterns)
//   ORACLE lines: the property itself evaluated on the real objects (mutuality, copies, fold).
//
//  trace      (argv[1] == "trace") split-vs-unsplit ray tracing through REAL subgrids, no model involved:
//     trace seed nx ny nz mx my mz px py pz boxkind npackets maxlevel
//   builds the grid split into nx*ny*nz subgrids (optionally with copies) and the same grid as a single
//   block, shoots the same seeded packets through both (hand-over exactly as PhotonTraversalTaskContext:
//   get_neighbour / output_to_input_direction / interact), folds the copies with the real
//   update_original_counters and compares per-cell estimators, absorption/escape decisions and positions.
#include "common.hpp"
#include <algorithm>
#include <cfloat>
#include <fstream>
#include <map>
#include <omp.h>
#define private public
#define protected public
#include "DensitySubGridCreator.hpp"
#include "HomogeneousDensityFunction.hpp"
#include "MemorySpace.hpp"
#include "PhotonPacket.hpp"
#include "PhotonTraversalTaskContext.hpp"
#include "PhotonTraversalThreadContext.hpp"
#include "PrematureLaunchTaskContext.hpp"
#include "Task.hpp"
#include "TaskQueue.hpp"
#include "ThreadSafeVector.hpp"
#include "TravelDirections.hpp"
#undef private
#undef protected
#include "c03_names.hpp"

// ------------------------------------------------------------------------------------------------
// subgrid type that logs the fold (the creator is a template over the subgrid type; everything else
// is the real DensitySubGrid)
struct FoldLog {
  std::vector< std::pair< const void *, const void * > > calls;
};
static FoldLog fold_log;

class LoggingSubGrid : public DensitySubGrid {
public:
  LoggingSubGrid(const double *box, const CoordinateVector< int_fast32_t > ncell)
      : DensitySubGrid(box, ncell) {}
  LoggingSubGrid(const LoggingSubGrid &o) : DensitySubGrid(o) {}
  inline void update_intensities(const LoggingSubGrid &copy) {
    fold_log.calls.push_back(std::make_pair((const void *)this, (const void *)&copy));
    DensitySubGrid::update_intensities(copy);
  }
};

static std::string ent(uint_fast32_t v) {
  return v == NEIGHBOUR_OUTSIDE ? std::string("x") : std::to_string(v);
}

// ------------------------------------------------------------------------------------------------
// protocol mode

template < class C > static std::string rowOf(C &c, size_t i) {
  std::ostringstream s;
  s << "row";
  if (i >= c._subgrids.size()) {
    s << " none";
    return s.str();
  }
  for (int d = 0; d < TRAVELDIRECTION_NUMBER; ++d)
    s << " " << ent(c._subgrids[i]->get_neighbour(d));
  return s.str();
}

static int protocol_mode() {
  typedef DensitySubGridCreator< DensitySubGrid > Creator;
  typedef DensitySubGridCreator< LoggingSubGrid > LCreator;
  Creator *gc = nullptr;
  LCreator *lc = nullptr;
  bool has_copies = false;
  std::vector< uint_fast8_t > levels;
  int nsub[3] = {0, 0, 0};
  std::string line;
  uint64_t lineno = 0;
  HomogeneousDensityFunction density_function;
  while (std::getline(std::cin, line)) {
    ++lineno;
    auto w = words(line);
    std::ostringstream bad;
    if (w.empty()) {
      std::cout << "bad-op\n";
      continue;
    }
    if (w[0] == "tbl" && w.size() >= 3) {
      const std::string &k = w[1];
      if (k == "o2i") {
        const long d = std::stol(w[2]);
        const long r = TravelDirections::output_to_input_direction(d);
        std::cout << "tbl " << r << "\n";
        // ---- property oracle: involution that fixes INSIDE only, and mirrors the named offset
        if (r < 0 || r >= TRAVELDIRECTION_NUMBER || TravelDirections::output_to_input_direction(r) != d)
          bad << " output_to_input_direction-is-not-an-involution(d=" << d << ")";
        else if ((r == d) != (d == TRAVELDIRECTION_INSIDE))
          bad << " output_to_input_direction-fixed-point(d=" << d << ")";
        else {
          const NamedDirection *a = named_direction(d), *b = named_direction(r);
          if (!a || !b || a->off[0] != -b->off[0] || a->off[1] != -b->off[1] || a->off[2] != -b->off[2])
            bad << " output_to_input_direction-is-not-the-opposite-label(d=" << d << ",got=" << r << ")";
        }
      } else if ((k == "cout" || k == "cin") && w.size() == 4) {
        const int s = std::stoi(w[2]);
        const CoordinateVector<> dir(s / 9 - 1, (s / 3) % 3 - 1, s % 3 - 1);
        const bool r = k == "cout" ? TravelDirections::is_compatible_output_direction(dir, std::stol(w[3]))
                                   : TravelDirections::is_compatible_input_direction(dir, std::stol(w[3]));
        std::cout << "tbl " << (r ? 1 : 0) << "\n";
        // ---- property oracle: the function is the sign condition of the label's named offset, and what may leave
        // through o may enter through output_to_input_direction(o)
        const long d = std::stol(w[3]);
        const NamedDirection *nd = named_direction(d);
        bool expect = nd != nullptr;
        for (int ax = 0; ax < 3 && nd; ++ax) {
          const int sg = ax == 0 ? s / 9 - 1 : (ax == 1 ? (s / 3) % 3 - 1 : s % 3 - 1);
          const int need = k == "cout" ? nd->off[ax] : -nd->off[ax];
          if (need != 0 && sg != need)
            expect = false;
        }
        if (r != expect)
          bad << " compatibility-is-not-the-sign-condition-of-the-label(" << k << ",signs=" << s << ",d=" << d << ")";
        if (k == "cout" &&
            r != TravelDirections::is_compatible_input_direction(dir, TravelDirections::output_to_input_direction(d)))
          bad << " leaving-through-o-but-not-entering-through-opposite(signs=" << s << ",o=" << d << ")";
      } else if (k == "mask") {
        const long m = std::stol(w[2]);
        const long r = long(TravelDirections::get_output_direction(m));
        std::cout << "tbl " << r << "\n";
        // ---- property oracle: valid masks (no axis both low and high) give the label with that offset, others -1
        const int hi[3] = {int((m >> 5) & 1), int((m >> 3) & 1), int((m >> 1) & 1)};
        const int lo[3] = {int((m >> 4) & 1), int((m >> 2) & 1), int(m & 1)};
        const bool valid = !(hi[0] && lo[0]) && !(hi[1] && lo[1]) && !(hi[2] && lo[2]);
        const NamedDirection *nd = r >= 0 ? named_direction(r) : nullptr;
        if (valid != (r >= 0))
          bad << " mask-validity(mask=" << m << ")";
        else if (valid && (!nd || nd->off[0] != hi[0] - lo[0] || nd->off[1] != hi[1] - lo[1] || nd->off[2] != hi[2] - lo[2]))
          bad << " mask-gives-wrong-label(mask=" << m << ",got=" << r << ")";
      } else if (k == "pin" || k == "idx") {
        const double box[6] = {0., 0., 0., 4., 5., 7.};
        DensitySubGrid g(box, CoordinateVector< int_fast32_t >(4, 5, 7));
        const long d = std::stol(w[2]);
        std::cout << "tbl";
        if (k == "pin") {
          CoordinateVector<> p(1.5, 1.5, 1.5);
          g.update_photon_position(d, p);
          for (int ax = 0; ax < 3; ++ax)
            std::cout << " " << (p[ax] == 1.5 ? 0 : (p[ax] == 0. ? 1 : (p[ax] == g._number_of_cells[ax] * g._cell_size[ax] ? 2 : 9)));
        } else {
          const long r[3] = {long(g.get_x_index(1.5, d)), long(g.get_y_index(1.5, d)), long(g.get_z_index(1.5, d))};
          for (int ax = 0; ax < 3; ++ax)
            std::cout << " " << (r[ax] == 1 ? 0 : (r[ax] == 0 ? 1 : (r[ax] == g._number_of_cells[ax] - 1 ? 2 : 9)));
        }
        std::cout << "\n";
        // ---- property oracle: entering through label d pins / fixes exactly the walls the label names
        {
          const NamedDirection *nd = named_direction(d);
          CoordinateVector<> p(1.5, 1.5, 1.5);
          g.update_photon_position(d, p);
          const long r[3] = {long(g.get_x_index(1.5, d)), long(g.get_y_index(1.5, d)), long(g.get_z_index(1.5, d))};
          for (int ax = 0; ax < 3 && nd; ++ax) {
            const double up = g._number_of_cells[ax] * g._cell_size[ax];
            const double ep = nd->off[ax] == 0 ? 1.5 : (nd->off[ax] < 0 ? 0. : up);
            const long er = nd->off[ax] == 0 ? 1 : (nd->off[ax] < 0 ? 0 : g._number_of_cells[ax] - 1);
            if (k == "pin" && p[ax] != ep)
              bad << " entry-position-not-on-the-wall-of-the-label(d=" << d << ",axis=" << ax << ")";
            if (k == "idx" && r[ax] != er)
              bad << " start-index-not-at-the-wall-of-the-label(d=" << d << ",axis=" << ax << ")";
          }
        }
      } else
        std::cout << "bad-op\n";
    } else if (w[0] == "outdir" && w.size() == 7) {
      const long m[3] = {std::stol(w[1]), std::stol(w[2]), std::stol(w[3])};
      const double box[6] = {0., 0., 0., 1., 1., 1.};
      DensitySubGrid g(box, CoordinateVector< int_fast32_t >(m[0], m[1], m[2]));
      std::cout << "outdir "
                << long(g.get_output_direction(CoordinateVector< int_fast32_t >(std::stol(w[4]), std::stol(w[5]), std::stol(w[6]))))
                << "\n";
    } else if (w[0] == "upd" && w.size() == 11) {
      const long d = std::stol(w[1]);
      const long m[3] = {std::stol(w[2]), std::stol(w[3]), std::stol(w[4])};
      const double h[3] = {dbl(w[5]), dbl(w[6]), dbl(w[7])};
      // a subgrid whose cell sizes are exactly h: overwrite the derived members
      const double box[6] = {0., 0., 0., 1., 1., 1.};
      DensitySubGrid g(box, CoordinateVector< int_fast32_t >(m[0], m[1], m[2]));
      for (int ax = 0; ax < 3; ++ax)
        g._cell_size[ax] = h[ax];
      CoordinateVector<> p(dbl(w[8]), dbl(w[9]), dbl(w[10]));
      g.update_photon_position(d, p);
      std::cout << "upd " << showF(p[0]) << " " << showF(p[1]) << " " << showF(p[2]) << "\n";
    } else if (w[0] == "new" && w.size() == 10) {
      delete gc;
      delete lc;
      for (int i = 0; i < 3; ++i)
        nsub[i] = std::stoi(w[1 + i]);
      const CoordinateVector< int_fast32_t > ns(nsub[0], nsub[1], nsub[2]);
      const CoordinateVector< int_fast32_t > m(std::stoi(w[4]), std::stoi(w[5]), std::stoi(w[6]));
      const CoordinateVector< int_fast32_t > nc(ns[0] * m[0], ns[1] * m[1], ns[2] * m[2]);
      const CoordinateVector< bool > per(w[7] == "1", w[8] == "1", w[9] == "1");
      const Box<> box(CoordinateVector<>(0.), CoordinateVector<>(1.));
      gc = new Creator(box, nc, ns, per);
      gc->initialize(density_function);
      lc = new LCreator(box, nc, ns, per);
      lc->initialize(density_function);
      has_copies = false;
      levels.assign(gc->number_of_original_subgrids(), 0);
      std::cout << "new " << gc->number_of_original_subgrids() << "\n";
      // ---- property oracle on the real tables: mutuality and geometry of the wiring
      const size_t n = gc->number_of_original_subgrids();
      for (size_t s = 0; s < n && bad.str().empty(); ++s) {
        const CoordinateVector< int_fast32_t > p = gc->get_grid_position(s);
        for (int d = 0; d < TRAVELDIRECTION_NUMBER; ++d) {
          const uint_fast32_t t = gc->_subgrids[s]->get_neighbour(d);
          if (t == NEIGHBOUR_OUTSIDE) {
            // must really point outside the box on a non-periodic axis
            const NamedDirection *nd0 = named_direction(d);
            bool outside = false;
            for (int ax = 0; ax < 3 && nd0; ++ax) {
              const long c = p[ax] + nd0->off[ax];
              const bool per_ax = ax == 0 ? gc->_periodicity.x() : (ax == 1 ? gc->_periodicity.y() : gc->_periodicity.z());
              if ((c < 0 || c >= nsub[ax]) && !per_ax)
                outside = true;
            }
            if (!outside)
              bad << " neighbour-missing(s=" << s << ",d=" << d << ")";
            continue;
          }
          if (t >= n) {
            bad << " neighbour-index-out-of-range(s=" << s << ",d=" << d << ",t=" << t << ")";
            break;
          }
          const long back = TravelDirections::output_to_input_direction(d);
          if (gc->_subgrids[t]->get_neighbour(back) != s) {
            bad << " neighbour-not-mutual(s=" << s << ",d=" << d << ",t=" << t << ")";
            break;
          }
          // geometry: t sits at pos s + (offset the label names) per axis, modulo the layout on periodic axes
          const CoordinateVector< int_fast32_t > q = gc->get_grid_position(t);
          for (int ax = 0; ax < 3 && bad.str().empty(); ++ax) {
            const NamedDirection *nd = named_direction(d);
            const int a = nd ? nd->off[ax] : 0;
            long expect = p[ax] + a;
            if (expect < 0 || expect >= nsub[ax])
              expect = ((expect % nsub[ax]) + nsub[ax]) % nsub[ax];
            if (q[ax] != expect)
              bad << " neighbour-not-geometric(s=" << s << ",d=" << d << ",t=" << t << ")";
          }
        }
      }
    } else if (!gc) {
      std::cout << "bad-op\n";
    } else if (w[0] == "pos" && w.size() == 2) {
      const CoordinateVector< int_fast32_t > p = gc->get_grid_position(u64(w[1]));
      std::cout << "pos " << p[0] << " " << p[1] << " " << p[2] << "\n";
    } else if (w[0] == "row" && w.size() == 2) {
      const std::string a = rowOf(*gc, u64(w[1])), b = rowOf(*lc, u64(w[1]));
      std::cout << a << "\n";
      if (a != b)
        bad << " logging-creator-differs";
    } else if (w[0] == "ngb6" && w.size() == 2) {
      size_t ngbs[6];
      const unsigned nn = gc->get_neighbours(u64(w[1]), ngbs);
      std::cout << "ngb6";
      for (unsigned i = 0; i < nn; ++i)
        std::cout << " " << ngbs[i];
      std::cout << "\n";
    } else if (w[0] == "copies") {
      const size_t n = gc->number_of_original_subgrids();
      if (w.size() != n + 1) {
        std::cout << "bad-op\n";
        continue;
      }
      for (size_t i = 0; i < n; ++i)
        levels[i] = std::stoi(w[1 + i]);
      if (!has_copies) {
        gc->create_copies(levels);
        lc->create_copies(levels);
      } else {
        gc->update_copies(levels);
        lc->update_copies(levels);
      }
      has_copies = true;
      std::cout << "copies " << gc->number_of_actual_subgrids() << " |";
      for (size_t i = 0; i < gc->_copies.size(); ++i)
        std::cout << " " << gc->_copies[i];
      std::cout << " |";
      for (size_t i = 0; i < gc->_originals.size(); ++i)
        std::cout << " " << gc->_originals[i];
      std::cout << "\n";
      // ---- property oracle: every neighbour of a copy is the original or a copy of the true neighbour
      const size_t tot = gc->_subgrids.size();
      auto orig_of = [&](size_t idx) { return idx < n ? idx : gc->_originals[idx - n]; };
      size_t expect_tot = n;
      for (size_t i = 0; i < n; ++i)
        expect_tot += (size_t(1) << levels[i]) - 1;
      if (tot != expect_tot || gc->_originals.size() != tot - n)
        bad << " wrong-number-of-copies";
      for (size_t c = n; c < tot && bad.str().empty(); ++c) {
        const size_t s = orig_of(c);
        if (s >= n) {
          bad << " original-out-of-range(copy=" << c << ")";
          break;
        }
        if (gc->_subgrids[c]->get_neighbour(0) != c)
          bad << " copy-self-reference-wrong(copy=" << c << ")";
        for (int d = 1; d < TRAVELDIRECTION_NUMBER; ++d) {
          const uint_fast32_t t = gc->_subgrids[s]->get_neighbour(d);
          const uint_fast32_t e = gc->_subgrids[c]->get_neighbour(d);
          if (t == NEIGHBOUR_OUTSIDE) {
            if (e != NEIGHBOUR_OUTSIDE)
              bad << " copy-has-neighbour-where-original-has-none(copy=" << c << ",d=" << d << ")";
          } else if (e == NEIGHBOUR_OUTSIDE || e >= tot || orig_of(e) != t) {
            bad << " copy-neighbour-is-not-a-copy-of-the-true-neighbour(copy=" << c << ",d=" << d << ",got=" << ent(e) << ",true=" << t << ")";
          }
          if (!bad.str().empty())
            break;
        }
      }
      // onto: when the neighbour has at most as many copies, every member of the neighbour's family is used
      for (size_t s = 0; s < n && bad.str().empty(); ++s) {
        for (int d = 1; d < TRAVELDIRECTION_NUMBER && bad.str().empty(); ++d) {
          const uint_fast32_t t = gc->_subgrids[s]->get_neighbour(d);
          if (t == NEIGHBOUR_OUTSIDE || levels[t] > levels[s])
            continue;
          std::map< size_t, int > used;
          used[gc->_subgrids[s]->get_neighbour(d)]++;
          for (size_t c = n; c < tot; ++c)
            if (orig_of(c) == s)
              used[gc->_subgrids[c]->get_neighbour(d)]++;
          size_t members = 1;
          for (size_t c = n; c < tot; ++c)
            if (orig_of(c) == t)
              ++members;
          if (used.size() != members)
            bad << " neighbour-copy-never-reached(s=" << s << ",d=" << d << ",t=" << t << ")";
        }
      }
    } else if (w[0] == "range" && w.size() == 2) {
      auto it = gc->get_subgrid(size_t(u64(w[1])));
      auto pr = it.get_copies();
      std::cout << "range " << pr.first.get_index() << " " << pr.second.get_index() << "\n";
    } else if (w[0] == "fold") {
      const size_t n = gc->number_of_original_subgrids();
      // (a) exact log through the logging subgrid type
      fold_log.calls.clear();
      lc->update_original_counters();
      std::map< const void *, size_t > index;
      for (size_t i = 0; i < lc->_subgrids.size(); ++i)
        index[lc->_subgrids[i]] = i;
      std::cout << "fold";
      std::vector< int > seen(lc->_subgrids.size(), 0);
      for (auto &c : fold_log.calls) {
        const size_t a = index.count(c.first) ? index[c.first] : size_t(-1);
        const size_t b = index.count(c.second) ? index[c.second] : size_t(-1);
        std::cout << " " << a << ":" << b;
        if (b < seen.size())
          ++seen[b];
        if (b < n || b >= seen.size() || a >= n || lc->_originals[b - n] != a)
          bad << " copy-folded-into-wrong-original(" << a << ":" << b << ")";
      }
      std::cout << "\n";
      for (size_t i = n; i < seen.size(); ++i)
        if (seen[i] != 1)
          bad << " copy-folded-" << seen[i] << "-times(copy=" << i << ")";
      // (b) the same on the real DensitySubGrid type through marker values: copy c carries c+1 in cell 0
      for (size_t i = 0; i < gc->_subgrids.size(); ++i) {
        gc->_subgrids[i]->reset_intensities();
        if (i >= n)
          gc->_subgrids[i]->_ionization_variables[0].set_mean_intensity(ION_H_n, double(i + 1));
      }
      gc->update_original_counters();
      for (size_t s = 0; s < n; ++s) {
        double expect = 0.;
        for (size_t c = n; c < gc->_subgrids.size(); ++c)
          if (gc->_originals[c - n] == s)
            expect += double(c + 1);
        if (gc->_subgrids[s]->_ionization_variables[0].get_mean_intensity(ION_H_n) != expect)
          bad << " folded-sum-wrong(original=" << s << ")";
      }
    } else if ((w[0] == "foldcells" || w[0] == "pushcells") && w.size() == 2) {
      // cell level of the fold / of "push the state to the copies": marker values in EVERY cell of every subgrid
      const uint64_t sd = u64(w[1]);
      const size_t n = gc->number_of_original_subgrids();
      const bool fold = w[0] == "foldcells";
      for (size_t i = 0; i < gc->_subgrids.size(); ++i) {
        DensitySubGrid &g = *gc->_subgrids[i];
        g.reset_intensities();
        const long tot = g._number_of_cells[0] * g._number_of_cells[1] * g._number_of_cells[2];
        for (long j = 0; j < tot; ++j) {
          const double mk = double((131 * i + 17 * j + sd) % 997 + 1);
          if (fold) {
            for (int ion = 0; ion < NUMBER_OF_IONNAMES; ++ion)
              g._ionization_variables[j].set_mean_intensity(ion, mk * (ion + 1));
          } else {
            g._ionization_variables[j].set_number_density(mk);
            for (int ion = 0; ion < NUMBER_OF_IONNAMES; ++ion)
              g._ionization_variables[j].set_ionic_fraction(ion, (mk + ion) / 2048.);
          }
        }
      }
      if (fold)
        gc->update_original_counters();
      else
        gc->update_copy_properties();
      std::cout << w[0] << " ";
      for (size_t i = 0; i < gc->_subgrids.size(); ++i) {
        DensitySubGrid &g = *gc->_subgrids[i];
        const long tot = g._number_of_cells[0] * g._number_of_cells[1] * g._number_of_cells[2];
        if (i)
          std::cout << "|";
        for (long j = 0; j < tot; ++j) {
          const double v = fold ? g._ionization_variables[j].get_mean_intensity(ION_H_n)
                                : g._ionization_variables[j].get_number_density();
          std::cout << (j ? "," : "") << (long)v;
          if (v != double((long)v))
            bad << " non-integer-cell-value";
        }
      }
      std::cout << "\n";
      // oracle on the other fields: every ion's counter folded the same way / every copy equal to its original
      for (size_t i = 0; i < gc->_subgrids.size() && bad.str().empty(); ++i) {
        DensitySubGrid &g = *gc->_subgrids[i];
        const long tot = g._number_of_cells[0] * g._number_of_cells[1] * g._number_of_cells[2];
        for (long j = 0; j < tot && bad.str().empty(); ++j) {
          if (fold) {
            for (int ion = 1; ion < NUMBER_OF_IONNAMES; ++ion)
              if (g._ionization_variables[j].get_mean_intensity(ion) !=
                  (ion + 1) * g._ionization_variables[j].get_mean_intensity(ION_H_n))
                bad << " counters-of-different-ions-folded-differently(subgrid=" << i << ",cell=" << j << ")";
          } else if (i >= n) {
            const IonizationVariables &o = gc->_subgrids[gc->_originals[i - n]]->_ionization_variables[j];
            bool same = g._ionization_variables[j].get_number_density() == o.get_number_density();
            for (int ion = 0; ion < NUMBER_OF_IONNAMES; ++ion)
              same = same && g._ionization_variables[j].get_ionic_fraction(ion) == o.get_ionic_fraction(ion);
            if (!same)
              bad << " copy-differs-from-its-original-after-update_copy_properties(copy=" << i << ",cell=" << j << ")";
          }
        }
      }
    } else {
      std::cout << "bad-op\n";
    }
    if (!bad.str().empty())
      std::cout << "ORACLE line=" << lineno << bad.str() << "\n";
  }
  delete gc;
  delete lc;
  return 0;
}

// ------------------------------------------------------------------------------------------------
// trace mode

struct Rng {
  uint64_t s;
  explicit Rng(uint64_t seed) : s(seed) {}
  uint64_t next() {
    uint64_t z = (s += 0x9E3779B97F4A7C15ull);
    z = (z ^ (z >> 30)) * 0xBF58476D1CE4E5B9ull;
    z = (z ^ (z >> 27)) * 0x94D049BB133111EBull;
    return z ^ (z >> 31);
  }
  double uni() { return (next() >> 11) * (1. / 9007199254740992.); }
  uint64_t below(uint64_t n) { return next() % n; }
};

static uint64_t hash3(uint64_t seed, long i, long j, long k) {
  Rng r(seed ^ (uint64_t(i) * 0x100000001B3ull) ^ (uint64_t(j) << 21) ^ (uint64_t(k) << 42));
  r.next();
  return r.next();
}

// density as a function of the GLOBAL cell (so that the split and the unsplit grid hold the same field)
class HashDensity : public DensityFunction {
public:
  uint64_t seed;
  CoordinateVector<> anchor, cell;
  bool allow_empty;
  double nscale;
  virtual DensityValues operator()(const Cell &c) {
    const CoordinateVector<> p = c.get_cell_midpoint();
    const long i = std::floor((p[0] - anchor[0]) / cell[0]);
    const long j = std::floor((p[1] - anchor[1]) / cell[1]);
    const long k = std::floor((p[2] - anchor[2]) / cell[2]);
    const uint64_t h = hash3(seed, i, j, k);
    DensityValues v;
    // periodic boxes (allow_empty == false) are kept opaque enough that a packet wraps around a few hundred times
    // at most (accumulated round-off grows with the number of hand-overs)
    double n = nscale * ((allow_empty ? 0.25 : 0.5) + (h & 0xffff) / 65536. * (allow_empty ? 1.5 : 1.0));
    if (allow_empty && ((h >> 16) & 7) == 0)
      n = 0.;
    v.set_number_density(n);
    for (int ion = 0; ion < NUMBER_OF_IONNAMES; ++ion)
      v.set_ionic_fraction(ion, 0.);
    v.set_ionic_fraction(ION_H_n, (allow_empty ? 0.1 : 0.5) + ((h >> 20) & 0xff) / 256. * (allow_empty ? 0.9 : 0.5));
#ifdef HAS_HELIUM
    v.set_ionic_fraction(ION_He_n, ((h >> 28) & 0xff) / 256. * 0.5);
#endif
    v.set_temperature(8000.);
    return v;
  }
};

struct PacketSpec {
  CoordinateVector<> pos, dir;
  double tau;
  int kind;
};

struct Outcome {
  int absorbed; // 1 absorbed, 0 escaped, -1 did not terminate
  CoordinateVector<> pos;
  double tau_left;
  long handovers;
};

typedef DensitySubGridCreator< DensitySubGrid > Creator;

static const long HANDOVER_CAP = 200000;

// one packet through a grid of real subgrids, hand-over as in PhotonTraversalTaskContext::execute.
// `pick` chooses the member (original or copy) the packet starts in.
static Outcome shoot(Creator &gc, const PacketSpec &ps, uint64_t pick, const Box<> &box,
                     const CoordinateVector< bool > &per, std::vector< long > *dirhist,
                     std::ostringstream &bad, double sigmaH, double sigmaHe) {
  PhotonPacket photon;
  photon.set_position(ps.pos);
  photon.set_direction(ps.dir);
  photon.set_target_optical_depth(ps.tau);
  for (int ion = 0; ion < NUMBER_OF_IONNAMES; ++ion)
    photon.set_photoionization_cross_section(ion, 0.25 * sigmaH * (ion + 1));
  photon.set_photoionization_cross_section(ION_H_n, sigmaH);
#ifdef HAS_HELIUM
  photon.set_photoionization_cross_section(ION_He_n, sigmaHe);
#endif
  photon.set_energy(4.e15);
  photon.set_weight(1.);
  photon.set_type(PHOTONTYPE_PRIMARY);
  photon.set_scatter_counter(0);

  auto first = gc.get_subgrid(ps.pos);
  size_t cur = first.get_index();
  {
    // start in the original or one of its copies (as DistributedPhotonSource distributes them)
    auto cp = first.get_copies();
    std::vector< size_t > fam(1, cur);
    if (cp.first != gc.all_end())
      for (auto it = cp.first; it != cp.second; ++it)
        fam.push_back(it.get_index());
    cur = fam[pick % fam.size()];
  }
  int_fast32_t indir = TRAVELDIRECTION_INSIDE;
  Outcome o;
  o.handovers = 0;
  o.absorbed = -1;
  const CoordinateVector<> sides = box.get_sides();
  while (o.handovers < HANDOVER_CAP) {
    DensitySubGrid &g = *gc._subgrids[cur];
    if (!TravelDirections::is_compatible_input_direction(photon.get_direction(), indir)) {
      bad << " input-direction-incompatible-with-travel-direction(in=" << indir << ")";
      break;
    }
    const int_fast32_t out = g.interact(photon, indir);
    if (out < 0 || out >= TRAVELDIRECTION_NUMBER) {
      bad << " invalid-output-direction";
      break;
    }
    if (!TravelDirections::is_compatible_output_direction(photon.get_direction(), out)) {
      bad << " output-direction-incompatible-with-travel-direction(out=" << out << ")";
      break;
    }
    if (out == TRAVELDIRECTION_INSIDE) {
      o.absorbed = 1;
      break;
    }
    const uint_fast32_t ngb = g.get_neighbour(out);
    if (ngb == NEIGHBOUR_OUTSIDE) {
      o.absorbed = 0;
      break;
    }
    if (ngb >= gc._subgrids.size()) {
      bad << " neighbour-index-out-of-range";
      break;
    }
    indir = TravelDirections::output_to_input_direction(out);
    if (dirhist)
      ++(*dirhist)[out];
    // ---- hand-over oracle: the position the neighbour will start from is the same physical point
    {
      DensitySubGrid &t = *gc._subgrids[ngb];
      const CoordinateVector<> P = photon.get_position();
      CoordinateVector<> local = P - t._anchor;
      t.update_photon_position(indir, local);
      const CoordinateVector<> Q = local + t._anchor;
      for (int ax = 0; ax < 3; ++ax) {
        const double tol = 1.e-12 * (std::fabs(box.get_anchor()[ax]) + sides[ax]);
        double best = std::fabs(Q[ax] - P[ax]);
        if (per[ax])
          best = std::min(best, std::min(std::fabs(Q[ax] - P[ax] - sides[ax]), std::fabs(Q[ax] - P[ax] + sides[ax])));
        if (!(best <= tol))
          bad << " hand-over-moves-the-packet(axis=" << ax << ",out=" << out << ",from=" << cur << ",to=" << ngb << ")";
        const double lo = t._anchor[ax], hi = t._anchor[ax] + t._cell_size[ax] * t._number_of_cells[ax];
        if (!(Q[ax] >= lo - tol && Q[ax] <= hi + tol))
          bad << " hand-over-position-outside-the-neighbour(axis=" << ax << ",out=" << out << ",from=" << cur << ",to=" << ngb << ")";
      }
      if (!bad.str().empty())
        break;
    }
    cur = ngb;
    ++o.handovers;
  }
  o.pos = photon.get_position();
  o.tau_left = photon.get_target_optical_depth();
  return o;
}

// ------------------------------------------------------------------------------------------------
// the split grid is traversed by the REAL task code, driven from one thread as the photon loop of
// TaskBasedIonizationSimulation drives it: real MemorySpace (slots are recycled), real
// ThreadSafeVector<Task>, real TaskQueues, real PhotonTraversalTaskContext::execute (+ its
// PhotonTraversalThreadContext), real PrematureLaunchTaskContext::execute when the queues run dry.
struct PacketFinal {
  bool seen;
  CoordinateVector<> pos;
  double tau_left;
  long handovers;
};

struct RealRun {
  Creator &gc;
  MemorySpace buffers;
  ThreadSafeVector< Task > tasks;
  std::vector< TaskQueue * > queues;
  TaskQueue shared;
  AtomicValue< uint_fast32_t > ndone;
  PhotonTraversalTaskContext< DensitySubGrid > ctx;
  PrematureLaunchTaskContext< DensitySubGrid > premature;
  ThreadContext *tctx;
  size_t pool;
  long ninjected, ntasks, npremature, noverflow_hint;

  RealRun(Creator &g, size_t poolsize)
      : gc(g), buffers(poolsize), tasks(poolsize, "Tasks"), shared(poolsize, "shared"), ndone(0),
        ctx(buffers, g, tasks, ndone, nullptr, false), premature(buffers, g, tasks, queues, shared),
        pool(poolsize), ninjected(0), ntasks(0), npremature(0), noverflow_hint(0) {
    queues.push_back(new TaskQueue(poolsize, "queue0"));
    tctx = ctx.get_thread_context();
    reset_subgrids();
  }
  ~RealRun() {
    delete tctx;
    delete queues[0];
  }
  // what the simulation does before every photon loop
  void reset_subgrids() {
    for (size_t i = 0; i < gc._subgrids.size(); ++i) {
      for (int d = 0; d < TRAVELDIRECTION_NUMBER; ++d)
        gc._subgrids[i]->set_active_buffer(d, NEIGHBOUR_OUTSIDE);
      gc._subgrids[i]->set_owning_thread(0);
      gc._subgrids[i]->set_largest_buffer(TRAVELDIRECTION_NUMBER, 0);
    }
  }
  // what SourceDiscretePhotonTaskContext does with a batch of new packets of one subgrid
  void inject(size_t subgrid, const std::vector< PhotonPacket > &pk) {
    size_t i = 0;
    while (i < pk.size()) {
      const size_t ib = buffers.get_free_buffer();
      PhotonBuffer &b = buffers[ib];
      b.set_subgrid_index(subgrid);
      b.set_direction(TRAVELDIRECTION_INSIDE);
      b.reset();
      while (i < pk.size() && b.size() < PHOTONBUFFER_SIZE) {
        const uint_fast32_t k = b.get_next_free_photon();
        b[k] = pk[i++];
      }
      const size_t it = tasks.get_free_element();
      Task &t = tasks[it];
      t.set_type(TASKTYPE_PHOTON_TRAVERSAL);
      t.set_subgrid(subgrid);
      t.set_buffer(ib);
      t.set_dependency(gc._subgrids[subgrid]->get_dependency());
      queues[gc._subgrids[subgrid]->get_owning_thread()]->add_task(it);
      ninjected += b.size();
    }
  }
  size_t get_task() {
    size_t t = queues[0]->get_task(tasks);
    if (t == NO_TASK)
      t = shared.get_task(tasks);
    return t;
  }
  // the photon loop; `before(buffer)` / `after(slot, n)` observe the input buffer of every traversal task
  template < class B, class A > bool pump(B before, A after, std::ostringstream &bad) {
    uint_fast32_t tasks_to_add[TRAVELDIRECTION_NUMBER];
    int_fast32_t queues_to_add[TRAVELDIRECTION_NUMBER];
    long guard = 0;
    size_t cur = get_task();
    while (true) {
      if (cur == NO_TASK) {
        premature.execute();
        ++npremature;
        cur = get_task();
        if (cur == NO_TASK)
          break;
      }
      while (cur != NO_TASK) {
        if (++guard > 20000000) {
          bad << " task-loop-does-not-end";
          return false;
        }
        if (buffers.get_number_of_active_buffers() + 2 * TRAVELDIRECTION_NUMBER + 2 > pool) {
          bad << " harness-error:buffer-pool-too-small";
          return false;
        }
        Task &task = tasks[cur];
        const size_t ib = task.get_buffer();
        const uint_fast32_t nin = buffers[ib].size();
        if (task.get_type() != TASKTYPE_PHOTON_TRAVERSAL) {
          bad << " unexpected-task-type(" << task.get_type() << ")";
          return false;
        }
        if (!before(buffers[ib]))
          return false;
        task.start(0);
        const uint_fast32_t nnew = ctx.execute(0, tctx, tasks_to_add, queues_to_add, task);
        task.stop();
        task.unlock_dependency();
        tasks.free_element(cur);
        ++ntasks;
        // the input buffer was freed by execute(); its slot still holds the packets as interact() left them
        after(buffers._memory_space._vector[ib], nin);
        for (uint_fast32_t i = 0; i < nnew; ++i) {
          if (queues_to_add[i] < 0)
            shared.add_task(tasks_to_add[i]);
          else
            queues[queues_to_add[i]]->add_task(tasks_to_add[i]);
        }
        cur = get_task();
      }
    }
    return true;
  }
};

struct TraceEnv {
  Box<> box;
  CoordinateVector<> anchor, sides, cell;
  CoordinateVector< bool > per;
  CoordinateVector< int_fast32_t > nc, m;
  double sigmaH, sigmaHe, hmean;
};

static PhotonPacket make_packet(const PacketSpec &ps, const TraceEnv &E, unsigned id) {
  PhotonPacket photon;
  photon.set_position(ps.pos);
  photon.set_direction(ps.dir);
  photon.set_target_optical_depth(ps.tau);
  for (int ion = 0; ion < NUMBER_OF_IONNAMES; ++ion)
    photon.set_photoionization_cross_section(ion, 0.25 * E.sigmaH * (ion + 1));
  photon.set_photoionization_cross_section(ION_H_n, E.sigmaH);
#ifdef HAS_HELIUM
  photon.set_photoionization_cross_section(ION_He_n, E.sigmaHe);
#endif
  photon.set_energy(4.e15);
  photon.set_weight(1.);
  photon.set_type(PHOTONTYPE_PRIMARY);
  photon.set_scatter_counter(id); // packet id (no scattering in these runs)
  return photon;
}

// hand-over oracle on a packet waiting in an input buffer with direction `indir` of subgrid `t`: the
// position interact() will start from is the same physical point, inside the subgrid, and the direction of
// travel is compatible with the entry classification
static void handover_oracle(const DensitySubGrid &t, const PhotonPacket &ph, int_fast32_t indir, size_t isub,
                            const TraceEnv &E, std::ostringstream &bad) {
  if (indir < 0 || indir >= TRAVELDIRECTION_NUMBER) {
    bad << " input-buffer-has-invalid-direction(" << indir << ")";
    return;
  }
  if (!TravelDirections::is_compatible_input_direction(ph.get_direction(), indir)) {
    bad << " input-direction-incompatible-with-travel-direction(in=" << indir << ",subgrid=" << isub << ")";
    return;
  }
  const CoordinateVector<> P = ph.get_position();
  CoordinateVector<> local = P - t._anchor;
  t.update_photon_position(indir, local);
  const CoordinateVector<> Q = local + t._anchor;
  for (int ax = 0; ax < 3; ++ax) {
    const double tol = 1.e-12 * (std::fabs(E.anchor[ax]) + E.sides[ax]);
    double best = std::fabs(Q[ax] - P[ax]);
    if (E.per[ax])
      best = std::min(best, std::min(std::fabs(Q[ax] - P[ax] - E.sides[ax]), std::fabs(Q[ax] - P[ax] + E.sides[ax])));
    if (!(best <= tol))
      bad << " hand-over-moves-the-packet(axis=" << ax << ",in=" << indir << ",to=" << isub << ")";
    const double lo = t._anchor[ax], hi = t._anchor[ax] + t._cell_size[ax] * t._number_of_cells[ax];
    double p = P[ax];
    if (E.per[ax] && !(p >= lo - tol && p <= hi + tol))
      p = (p > hi) ? p - E.sides[ax] : p + E.sides[ax];
    if (!(p >= lo - tol && p <= hi + tol))
      bad << " packet-handed-to-a-subgrid-that-does-not-contain-it(axis=" << ax << ",in=" << indir << ",to=" << isub << ")";
  }
}

static PacketSpec draw_packet(Rng &rng, const TraceEnv &E, int boxkind) {
  PacketSpec ps;
  int kind = int(rng.below(boxkind == 0 ? 4 : 2));
  if (kind == 3)
    kind = 2;
  ps.kind = kind;
  if (kind == 0) {
    for (int ax = 0; ax < 3; ++ax)
      ps.pos[ax] = E.anchor[ax] + E.sides[ax] * rng.uni();
    const double ct = 2. * rng.uni() - 1., st = std::sqrt(std::max(0., 1. - ct * ct)), ph = 2. * M_PI * rng.uni();
    ps.dir = CoordinateVector<>(st * std::cos(ph), st * std::sin(ph), ct);
  } else if (kind == 1) {
    for (int ax = 0; ax < 3; ++ax)
      ps.pos[ax] = E.anchor[ax] + E.sides[ax] * rng.uni();
    ps.dir = CoordinateVector<>(0.);
    ps.dir[rng.below(3)] = rng.below(2) ? 1. : -1.;
  } else {
    // lattice packets in a dyadic box: start at a cell centre or a (lower) cell corner, direction with
    // dyadic components, so that edges and corners of cells and subgrids are hit exactly
    const bool corner = rng.below(3) == 0;
    for (int ax = 0; ax < 3; ++ax)
      ps.pos[ax] = E.anchor[ax] + E.cell[ax] * (double(rng.below(E.nc[ax])) + (corner ? 0. : 0.5));
    static const double comps[7] = {-1., 1., -1., 1., 0., 0.5, -2.};
    do {
      for (int ax = 0; ax < 3; ++ax)
        ps.dir[ax] = comps[rng.below(7)];
    } while (ps.dir[0] == 0. && ps.dir[1] == 0. && ps.dir[2] == 0.);
  }
  ps.tau = -std::log(1. - rng.uni()) * (rng.below(4) == 0 ? 4. : 1.) + 1.e-3;
  return ps;
}

// a beam: many packets from one subgrid through (mostly) one face, so that the output buffer of that
// face overflows (> PHOTONBUFFER_SIZE packets before it is launched)
static void draw_beam(Rng &rng, const TraceEnv &E, const CoordinateVector< int_fast32_t > &ns, long count,
                      std::vector< PacketSpec > &out) {
  const int ax = int(rng.below(3));
  const double sign = rng.below(2) ? 1. : -1.;
  CoordinateVector<> lo, hi;
  for (int a = 0; a < 3; ++a) {
    const double sub = E.sides[a] / ns[a];
    const long i = long(rng.below(ns[a]));
    lo[a] = E.anchor[a] + (i + 0.3) * sub;
    hi[a] = E.anchor[a] + (i + 0.7) * sub;
  }
  const double len = E.sides[ax];
  for (long k = 0; k < count; ++k) {
    PacketSpec ps;
    ps.kind = 3;
    for (int a = 0; a < 3; ++a)
      ps.pos[a] = lo[a] + (hi[a] - lo[a]) * rng.uni();
    CoordinateVector<> d(0.08 * (rng.uni() - 0.5), 0.08 * (rng.uni() - 0.5), 0.08 * (rng.uni() - 0.5));
    d[ax] = sign;
    const double nrm = std::sqrt(d[0] * d[0] + d[1] * d[1] + d[2] * d[2]);
    ps.dir = CoordinateVector<>(d[0] / nrm, d[1] / nrm, d[2] / nrm);
    // far enough to cross a few subgrid faces
    ps.tau = (0.5 + 2.5 * rng.uni()) * E.sigmaH * len * 0.6 + 1.e-3;
    out.push_back(ps);
  }
}

// the state a hydro step / an ionization step leaves behind: new density, neutral fractions, temperature of a
// cell, as a function of the GLOBAL cell
static void evolve_cell(uint64_t seed, long gi, IonizationVariables &v, bool keep_opaque) {
  Rng r(seed ^ (uint64_t(gi) * 0x9E3779B97F4A7C15ull));
  r.next();
  const double f = keep_opaque ? 0.7 + 0.9 * r.uni() : 0.3 + 1.9 * r.uni();
  v.set_number_density(v.get_number_density() * f);
  v.set_ionic_fraction(ION_H_n, (keep_opaque ? 0.5 : 0.05) + (keep_opaque ? 0.5 : 0.95) * r.uni());
#ifdef HAS_HELIUM
  v.set_ionic_fraction(ION_He_n, 0.6 * r.uni());
#endif
  v.set_temperature(4000. + 12000. * r.uni());
}

struct PhaseStats {
  long nabs, nesc, nhand, ntasks, npremature, noverflow;
  double maxpos, maxtau, maxrel;
  long ncellcmp, nnonzero;
};

// trace the packets through the split grid with the real task code (in rounds: every round is injected
// completely, then the loop runs until nothing is left) and one by one through the undivided block; compare
static void run_phase(Creator &split, Creator &whole, const TraceEnv &E, const std::vector< std::vector< PacketSpec > > &rounds,
                      const std::vector< uint64_t > &picks, bool with_copies, std::vector< long > &dirhist,
                      PhaseStats &S, std::ostringstream &bad, const char *phase) {
  const size_t n = split.number_of_original_subgrids();
  const size_t ntot = split._subgrids.size();
  size_t npk = 0;
  for (auto &r : rounds)
    npk += r.size();
  const size_t pool = TRAVELDIRECTION_NUMBER * ntot + npk / 50 + 64;
  RealRun run(split, pool);
  std::vector< PacketFinal > fin(npk);
  for (auto &f : fin) {
    f.seen = false;
    f.handovers = -1;
  }
  unsigned id = 0;
  std::vector< PacketSpec > all;
  for (size_t ir = 0; ir < rounds.size() && bad.str().empty(); ++ir) {
    // group the packets of the round by the family member they start in
    std::map< size_t, std::vector< PhotonPacket > > by_sub;
    for (const PacketSpec &ps : rounds[ir]) {
      auto first = split.get_subgrid(ps.pos);
      size_t cur = first.get_index();
      auto cp = first.get_copies();
      std::vector< size_t > fam(1, cur);
      if (cp.first != split.all_end())
        for (auto it = cp.first; it != cp.second; ++it)
          fam.push_back(it.get_index());
      cur = fam[picks[id] % fam.size()];
      by_sub[cur].push_back(make_packet(ps, E, id));
      all.push_back(ps);
      ++id;
    }
    for (auto &kv : by_sub)
      run.inject(kv.first, kv.second);
    auto before = [&](const PhotonBuffer &b) {
      const size_t isub = b.get_subgrid_index();
      if (isub >= ntot) {
        bad << " buffer-for-a-subgrid-that-does-not-exist(" << isub << ")";
        return false;
      }
      if (b.size() > PHOTONBUFFER_SIZE / 2 && b.get_direction() != TRAVELDIRECTION_INSIDE)
        ++S.noverflow; // statistics only: well filled hand-over buffers
      for (uint_fast32_t i = 0; i < b.size() && bad.str().empty(); ++i) {
        if (b.get_direction() != TRAVELDIRECTION_INSIDE) {
          handover_oracle(*split._subgrids[isub], b[i], b.get_direction(), isub, E, bad);
          ++dirhist[TravelDirections::output_to_input_direction(b.get_direction())];
        }
      }
      return bad.str().empty();
    };
    auto after = [&](const PhotonBuffer &slot, uint_fast32_t nin) {
      for (uint_fast32_t i = 0; i < nin; ++i) {
        const unsigned pid = slot[i].get_scatter_counter();
        if (pid >= fin.size()) {
          bad << " packet-with-unknown-id-in-a-buffer";
          return;
        }
        fin[pid].seen = true;
        fin[pid].pos = slot[i].get_position();
        fin[pid].tau_left = slot[i].get_target_optical_depth();
        ++fin[pid].handovers;
      }
    };
    if (!run.pump(before, after, bad))
      break;
  }
  S.ntasks += run.ntasks;
  S.npremature += run.npremature;
  if (bad.str().empty()) {
    if (run.ndone.value() != npk)
      bad << " packets-lost-or-duplicated(" << phase << ",terminated=" << run.ndone.value() << ",launched=" << npk << ")";
    if (!run.buffers.is_empty())
      bad << " buffers-left-behind(" << phase << "," << run.buffers.get_number_of_active_buffers() << ")";
  }
  // ---- the same packets through the undivided block, packet by packet
  double scmax = 0.;
  for (int ax = 0; ax < 3; ++ax)
    scmax = std::max(scmax, std::fabs(E.anchor[ax]) + E.sides[ax]);
  for (size_t ip = 0; ip < all.size() && bad.str().empty(); ++ip) {
    const PacketSpec &ps = all[ip];
    const Outcome b = shoot(whole, ps, 0, E.box, E.per, nullptr, bad, E.sigmaH, E.sigmaHe);
    std::ostringstream idt;
    idt << "(" << phase << ",packet=" << ip << ",kind=" << ps.kind << ")";
    if (!fin[ip].seen) {
      bad << " packet-never-traversed" << idt.str();
      break;
    }
    if (b.absorbed < 0) {
      bad << " packet-does-not-terminate" << idt.str();
      break;
    }
    const int a_abs = fin[ip].tau_left <= 0. ? 1 : 0;
    if (a_abs != b.absorbed) {
      bad << " absorption/escape-decision-differs(split=" << a_abs << ",whole=" << b.absorbed << ")" << idt.str();
      break;
    }
    const long hand = std::max(fin[ip].handovers, b.handovers);
    for (int ax = 0; ax < 3; ++ax) {
      double dpos = std::fabs(fin[ip].pos[ax] - b.pos[ax]);
      if (E.per[ax])
        dpos = std::min(dpos, std::fabs(dpos - E.sides[ax]));
      const double scale = std::fabs(E.anchor[ax]) + E.sides[ax];
      S.maxpos = std::max(S.maxpos, dpos / scale);
      // round-off accumulates with every hand-over (tau_target - tau_done is re-rounded): 1e-10 per 1000 hand-overs
      if (!(dpos <= 1.e-10 * scale * (1. + hand / 1000.)))
        bad << " final-position-differs(axis=" << ax << ",split=" << fin[ip].pos[ax] << ",whole=" << b.pos[ax] << ")" << idt.str();
    }
    const double dt = std::fabs(fin[ip].tau_left - b.tau_left);
    S.maxtau = std::max(S.maxtau, dt / ps.tau);
    // a position error of relative size eps shifts the optical depth by eps * (optical depth across the box scale)
    if (!(dt <= 1.e-10 * (ps.tau + 2. * E.sigmaH * scmax) * (1. + hand / 1000.)))
      bad << " remaining-optical-depth-differs(split=" << fin[ip].tau_left << ",whole=" << b.tau_left << ")" << idt.str();
    S.nabs += b.absorbed;
    S.nesc += 1 - b.absorbed;
    S.nhand += fin[ip].handovers;
  }
  // ---- fold the copies (real code) and compare the estimators of every global cell
  if (with_copies)
    split.update_original_counters();
  if (!bad.str().empty())
    return;
  DensitySubGrid &W = *whole._subgrids[0];
  for (size_t s = 0; s < n && bad.str().empty(); ++s) {
    const CoordinateVector< int_fast32_t > p = split.get_grid_position(s);
    DensitySubGrid &G = *split._subgrids[s];
    for (long i = 0; i < E.m[0]; ++i)
      for (long j = 0; j < E.m[1]; ++j)
        for (long k = 0; k < E.m[2]; ++k) {
          const long li = i * E.m[1] * E.m[2] + j * E.m[2] + k;
          const long gi = (p[0] * E.m[0] + i) * E.nc[1] * E.nc[2] + (p[1] * E.m[1] + j) * E.nc[2] + (p[2] * E.m[2] + k);
          const IonizationVariables &x = G._ionization_variables[li];
          const IonizationVariables &y = W._ionization_variables[gi];
          if (x.get_number_density() != y.get_number_density() ||
              x.get_ionic_fraction(ION_H_n) != y.get_ionic_fraction(ION_H_n)) {
            bad << " harness-error:density-fields-differ";
            return;
          }
          ++S.ncellcmp;
          for (int q = 0; q < NUMBER_OF_IONNAMES + NUMBER_OF_HEATINGTERMS; ++q) {
            const double u = q < NUMBER_OF_IONNAMES ? x.get_mean_intensity(q) : x.get_heating(q - NUMBER_OF_IONNAMES);
            const double v = q < NUMBER_OF_IONNAMES ? y.get_mean_intensity(q) : y.get_heating(q - NUMBER_OF_IONNAMES);
            // floor: one part in 1e12 of the contribution of a single packet crossing the cell
            const double unit = (q < NUMBER_OF_IONNAMES ? 1. : 4.e15) * E.sigmaH * E.hmean;
            const double d = std::fabs(u - v);
            if (q == 0 && (u != 0. || v != 0.))
              ++S.nnonzero;
            if (d > 0.)
              S.maxrel = std::max(S.maxrel, d / (std::max(std::fabs(u), std::fabs(v)) + 1.e-2 * unit));
            if (!(d <= 1.e-10 * std::max(std::fabs(u), std::fabs(v)) + 1.e-12 * unit)) {
              bad << " per-cell-estimator-differs(" << phase << ",subgrid=" << s << ",cell=" << i << "," << j << "," << k
                  << ",quantity=" << q << ",split=" << u << ",whole=" << v << ")";
              return;
            }
          }
        }
  }
}

static int trace_mode() {
  omp_set_num_threads(1);
  std::string line;
  uint64_t lineno = 0;
  while (std::getline(std::cin, line)) {
    ++lineno;
    auto w = words(line);
    if (w.size() != 14 || w[0] != "trace") {
      std::cout << "bad-op\n";
      continue;
    }
    const uint64_t seed = u64(w[1]);
    const CoordinateVector< int_fast32_t > ns(std::stoi(w[2]), std::stoi(w[3]), std::stoi(w[4]));
    const CoordinateVector< int_fast32_t > m(std::stoi(w[5]), std::stoi(w[6]), std::stoi(w[7]));
    const CoordinateVector< bool > per(w[8] == "1", w[9] == "1", w[10] == "1");
    const int boxkind = std::stoi(w[11]);
    const long npk = std::stol(w[12]);
    const int maxlevel = std::stoi(w[13]);
    const CoordinateVector< int_fast32_t > nc(ns[0] * m[0], ns[1] * m[1], ns[2] * m[2]);
    Rng rng(seed);
    std::ostringstream bad;

    // ---- the box: dyadic (cell size a power of two, anchor a multiple of it) or generic
    TraceEnv E;
    if (boxkind == 0) {
      const double h = std::ldexp(1., int(rng.below(5)) - 2);
      for (int ax = 0; ax < 3; ++ax) {
        E.cell[ax] = h;
        E.sides[ax] = h * nc[ax];
        E.anchor[ax] = h * (long(rng.below(9)) - 4) * nc[ax];
      }
    } else {
      for (int ax = 0; ax < 3; ++ax) {
        E.sides[ax] = 0.3 + 2.7 * rng.uni();
        E.anchor[ax] = (rng.uni() - 0.5) * 4.;
        E.cell[ax] = E.sides[ax] / nc[ax];
      }
    }
    E.box = Box<>(E.anchor, E.sides);
    E.per = per;
    E.nc = nc;
    E.m = m;
    const bool anyper = per[0] || per[1] || per[2];

    HashDensity dens;
    dens.seed = seed * 7919 + 13;
    dens.anchor = E.anchor;
    dens.cell = E.cell;
    dens.allow_empty = !anyper;
    dens.nscale = 1.;
    E.hmean = (E.cell[0] + E.cell[1] + E.cell[2]) / 3.;
    const double ncmean = (nc[0] + nc[1] + nc[2]) / 3.;
    // optical depth of ~0.15 per cell .. a few per box
    E.sigmaH = anyper ? (0.3 + 0.7 * rng.uni()) / E.hmean : (0.05 + 0.6 * rng.uni()) / E.hmean / std::max(1., ncmean / 6.);
    E.sigmaHe = 0.3 * E.sigmaH;

    Creator split(E.box, nc, ns, per);
    split.initialize(dens);
    Creator whole(E.box, nc, CoordinateVector< int_fast32_t >(1, 1, 1), per);
    whole.initialize(dens);

    // ---- copies of the split grid
    const size_t n = split.number_of_original_subgrids();
    std::vector< uint_fast8_t > levels(n, 0);
    long ncopies = 0;
    if (maxlevel > 0) {
      for (size_t i = 0; i < n; ++i) {
        levels[i] = rng.below(3) == 0 ? rng.below(maxlevel + 1) : 0;
        ncopies += (1l << levels[i]) - 1;
      }
      split.create_copies(levels);
      if (rng.below(2) == 0) {
        // a second assignment through update_copies (stale _copies entries stay behind)
        ncopies = 0;
        for (size_t i = 0; i < n; ++i) {
          levels[i] = rng.below(3) == 0 ? rng.below(maxlevel + 1) : 0;
          ncopies += (1l << levels[i]) - 1;
        }
        split.update_copies(levels);
      }
    }
    for (size_t i = 0; i < split._subgrids.size(); ++i)
      split._subgrids[i]->reset_intensities();
    whole._subgrids[0]->reset_intensities();

    // ---- packets of the two steps: rounds of scattered packets (buffers get recycled with all kinds of
    //      directions), then a beam in two batches that overflows a hand-over buffer
    std::vector< long > dirhist(TRAVELDIRECTION_NUMBER, 0);
    long nkind[4] = {0, 0, 0, 0};
    PhaseStats S;
    std::memset(&S, 0, sizeof(S));
    std::vector< std::vector< PacketSpec > > rounds[2];
    std::vector< uint64_t > picks[2];
    for (int ph = 0; ph < 2; ++ph) {
      const long nscatter = npk / 2;
      const long per_round = std::max(50l, nscatter / 3);
      long done = 0;
      while (done < nscatter) {
        std::vector< PacketSpec > r;
        for (long k = 0; k < per_round && done < nscatter; ++k, ++done)
          r.push_back(draw_packet(rng, E, boxkind));
        rounds[ph].push_back(r);
      }
      // the beam: 500 packets from one subgrid through (mostly) one face, injected together: the hand-over
      // buffer of that face overflows (PHOTONBUFFER_SIZE = 200)
      std::vector< PacketSpec > beam;
      draw_beam(rng, E, ns, 500, beam);
      rounds[ph].push_back(beam);
      for (auto &r : rounds[ph])
        for (auto &ps : r) {
          ++nkind[ps.kind];
          picks[ph].push_back(rng.next());
        }
    }

    // ---- step 1
    run_phase(split, whole, E, rounds[0], picks[0], maxlevel > 0, dirhist, S, bad, "step1");

    // ---- between the steps: the state of the ORIGINALS changes (density, neutral fractions, temperature), the
    //      real update_copy_properties() pushes it to the copies
    if (bad.str().empty()) {
      DensitySubGrid &W = *whole._subgrids[0];
      for (size_t s = 0; s < n; ++s) {
        const CoordinateVector< int_fast32_t > p = split.get_grid_position(s);
        for (long i = 0; i < m[0]; ++i)
          for (long j = 0; j < m[1]; ++j)
            for (long k = 0; k < m[2]; ++k) {
              const long li = i * m[1] * m[2] + j * m[2] + k;
              const long gi = (p[0] * m[0] + i) * nc[1] * nc[2] + (p[1] * m[1] + j) * nc[2] + (p[2] * m[2] + k);
              evolve_cell(seed + 77, gi, split._subgrids[s]->_ionization_variables[li], anyper);
              evolve_cell(seed + 77, gi, W._ionization_variables[gi], anyper);
            }
        split._subgrids[s]->reset_intensities();
      }
      W.reset_intensities();
      split.update_copy_properties();
      // oracle: every copy now holds what a traversal reads from its original, and empty counters
      for (size_t c = n; c < split._subgrids.size() && bad.str().empty(); ++c) {
        const size_t o = split._originals[c - n];
        const long tot = m[0] * m[1] * m[2];
        for (long li = 0; li < tot; ++li) {
          const IonizationVariables &x = split._subgrids[c]->_ionization_variables[li];
          const IonizationVariables &y = split._subgrids[o]->_ionization_variables[li];
          bool same = x.get_number_density() == y.get_number_density();
          for (int ion = 0; ion < NUMBER_OF_IONNAMES; ++ion)
            same = same && x.get_ionic_fraction(ion) == y.get_ionic_fraction(ion);
          if (!same) {
            bad << " copy-differs-from-its-original-after-update_copy_properties(copy=" << c << ",original=" << o << ",cell=" << li << ")";
            break;
          }
          bool empty = true;
          for (int ion = 0; ion < NUMBER_OF_IONNAMES; ++ion)
            empty = empty && x.get_mean_intensity(ion) == 0.;
          if (!empty) {
            bad << " copy-counters-not-reset(copy=" << c << ")";
            break;
          }
        }
      }
    }
    // ---- step 2, through the updated copies
    if (bad.str().empty())
      run_phase(split, whole, E, rounds[1], picks[1], maxlevel > 0, dirhist, S, bad, "step2");

    long total = 0;
    for (int ph = 0; ph < 2; ++ph)
      for (auto &r : rounds[ph])
        total += r.size();
    std::cout << "trace packets=" << total << " absorbed=" << S.nabs << " escaped=" << S.nesc << " handovers=" << S.nhand
              << " copies=" << ncopies << " kinds=" << nkind[0] << "," << nkind[1] << "," << nkind[2] << "," << nkind[3]
              << " tasks=" << S.ntasks << " premature=" << S.npremature << " fullbuffers=" << S.noverflow
              << " cells=" << S.ncellcmp << " nonzero=" << S.nnonzero << " maxrel=" << S.maxrel << " maxpos=" << S.maxpos
              << " maxtau=" << S.maxtau << " dirs=";
    for (int d = 0; d < TRAVELDIRECTION_NUMBER; ++d)
      std::cout << (d ? "," : "") << dirhist[d];
    std::cout << "\n";
    if (!bad.str().empty())
      std::cout << "ORACLE line=" << lineno << bad.str() << "\n";
  }
  return 0;
}

int main(int argc, char **argv) {
  omp_set_num_threads(1);
  if (argc > 1 && std::string(argv[1]) == "trace")
    return trace_mode();
  return protocol_mode();
}
