// C03 translator by exhaustive evaluation (DESIGN §2.2): compiled against /repo's CURRENT headers on
// every run of tools/props/c03.py, calls the real TravelDirections functions and the real
// DensitySubGrid entry/exit classification on their whole finite domain and prints the tables as
// Lean source (lean/CMacVerif/Gen/TravelDirections.lean).  Nothing here knows what the tables
// "should" be: the Lean theorems of Props/C03.lean (by `decide`) check their mutual consistency.
// Any inconsistency of the probing itself (a function that depends on more than the sign of the
// direction components, a classification that is neither computed / lower / upper) makes the program
// exit non-zero: the check then fails closed.
#include "common.hpp"
#include <cfloat>
#include <fstream>
#include <map>
#define private public
#define protected public
#include "DensitySubGrid.hpp"
#include "TravelDirections.hpp"
#undef private
#undef protected
#include "c03_names.hpp"

static const char *dirname(int d) {
  const NamedDirection *n = named_direction(d);
  return n ? n->name : "?";
}

static void fail(const std::string &what) {
  std::cerr << "gen_c03_tables: " << what << std::endl;
  std::exit(3);
}

int main() {
  if (TRAVELDIRECTION_NUMBER != 27)
    fail("TRAVELDIRECTION_NUMBER is not 27");
  std::ostream &o = std::cout;
  o << "/-! GENERATED on every run by harness/gen_c03_tables.cpp from /repo/src/TravelDirections.hpp and\n"
       "/repo/src/DensitySubGrid.hpp (exhaustive evaluation of the real functions).  Do not edit. -/\n"
       "namespace CMacVerif.Gen.TravelDirections\n\n";
  o << "def numDirections : Nat := " << int(TRAVELDIRECTION_NUMBER) << "\n";
  o << "def neighbourOutside : Nat := " << (unsigned long)(NEIGHBOUR_OUTSIDE) << "\n\n";
  o << "def dirNames : List String := [";
  for (int d = 0; d < 27; ++d)
    o << (d ? ", " : "") << "\"" << dirname(d) << "\"";
  o << "]\n\n";
  o << "/-- offset each label stands for according to its NAME (enum documentation): P = upper limit (+1), N = lower\n"
       "limit (-1), a coordinate that is not named = 0; from harness/c03_names.hpp through the enum constants -/\n";
  o << "def namedOffset : List (Int × Int × Int) := [";
  for (int d = 0; d < 27; ++d) {
    const NamedDirection *n = named_direction(d);
    if (!n)
      fail("an enum value 0..26 has no named direction");
    o << (d ? ", " : "") << "(" << n->off[0] << ", " << n->off[1] << ", " << n->off[2] << ")";
  }
  o << "]\n\n";

  // ---- output_to_input_direction
  o << "/-- `TravelDirections::output_to_input_direction(d)`, d = 0..26 -/\n";
  o << "def outToIn : List Nat := [";
  for (int d = 0; d < 27; ++d) {
    const long r = TravelDirections::output_to_input_direction(d);
    if (r < 0 || r >= 27)
      fail("output_to_input_direction out of range");
    o << (d ? ", " : "") << r;
  }
  o << "]\n\n";

  // ---- compatibility tables; sign pattern index s = 9*(sx+1) + 3*(sy+1) + (sz+1)
  const double mags[3] = {1., 1.e-300, 1.e300};
  for (int which = 0; which < 2; ++which) {
    o << (which == 0
              ? "/-- `is_compatible_output_direction(dir, d)`: row = sign pattern 9*(sx+1)+3*(sy+1)+(sz+1) of `dir`, column = d -/\ndef compatOut"
              : "/-- `is_compatible_input_direction(dir, d)`: row = sign pattern of `dir`, column = d -/\ndef compatIn")
      << " : List (List Bool) := [\n";
    for (int s = 0; s < 27; ++s) {
      const int sg[3] = {s / 9 - 1, (s / 3) % 3 - 1, s % 3 - 1};
      o << "  [";
      for (int d = 0; d < 27; ++d) {
        int res = -1;
        for (int m0 = 0; m0 < 3; ++m0)
          for (int m1 = 0; m1 < 3; ++m1)
            for (int m2 = 0; m2 < 3; ++m2) {
              const CoordinateVector<> dir(sg[0] * mags[m0], sg[1] * mags[m1], sg[2] * mags[m2]);
              const bool r = which == 0 ? TravelDirections::is_compatible_output_direction(dir, d)
                                        : TravelDirections::is_compatible_input_direction(dir, d);
              if (res >= 0 && res != int(r))
                fail("compatibility function depends on more than the signs of the direction");
              res = r;
            }
        o << (d ? ", " : "") << (res ? "true" : "false");
      }
      o << "]" << (s < 26 ? "," : "") << "\n";
    }
    o << "]\n\n";
  }

  // ---- mask table
  o << "/-- `TravelDirections::get_output_direction(mask)`, mask = 0..63 (-1 = invalid) -/\n";
  o << "def maskTable : List Int := [";
  for (int m = 0; m < 64; ++m)
    o << (m ? ", " : "") << long(TravelDirections::get_output_direction(m));
  o << "]\n\n";

  // ---- DensitySubGrid::get_output_direction on representatives of the 27 index classes
  const double box[6] = {0., 0., 0., 4., 5., 7.};
  const CoordinateVector< int_fast32_t > ncell(4, 5, 7);
  DensitySubGrid grid(box, ncell);
  {
    o << "/-- `DensitySubGrid::get_output_direction(three_index)` for the 27 classes (below / inside / above per axis,\n"
         "index 9*(a+1)+3*(b+1)+(c+1)); every class probed with the index one step outside (as `interact` produces it)\n"
         "and a whole subgrid outside (as `create_subgrid` produces it), in a 4x5x7 block -/\n";
    o << "def exitDir : List Int := [";
    for (int s = 0; s < 27; ++s) {
      const int a[3] = {s / 9 - 1, (s / 3) % 3 - 1, s % 3 - 1};
      long res = -2;
      // representatives per axis
      std::vector< std::vector< long > > reps(3);
      for (int ax = 0; ax < 3; ++ax) {
        const long n = ncell[ax];
        if (a[ax] < 0)
          reps[ax] = {-1, -n};
        else if (a[ax] == 0)
          reps[ax] = {0, n - 1, n / 2};
        else
          reps[ax] = {n, 2 * n - 1};
      }
      for (long i : reps[0])
        for (long j : reps[1])
          for (long k : reps[2]) {
            // (the real function aborts through cmac_error on an invalid mask: fail closed)
            const long r = grid.get_output_direction(CoordinateVector< int_fast32_t >(i, j, k));
            if (res != -2 && res != r)
              fail("get_output_direction is not constant on an index class");
            res = r;
          }
      o << (s ? ", " : "") << res;
    }
    o << "]\n\n";
  }

  // ---- offset of every direction = inverse of exitDir (a direction that is not hit gets (2,2,2):
  //      the `decide` theorems then fail)
  {
    o << "/-- offset (a,b,c) in {-1,0,1}^3 of every direction: the class whose `exitDir` is that direction\n"
         "((2,2,2) if there is none or more than one) -/\n";
    o << "def offset : List (Int × Int × Int) := [";
    for (int d = 0; d < 27; ++d) {
      int found = -1, cnt = 0;
      for (int s = 0; s < 27; ++s) {
        const int a[3] = {s / 9 - 1, (s / 3) % 3 - 1, s % 3 - 1};
        const long r = grid.get_output_direction(CoordinateVector< int_fast32_t >(
            a[0] * ncell[0], a[1] * ncell[1], a[2] * ncell[2]));
        if (r == d) {
          found = s;
          ++cnt;
        }
      }
      if (cnt == 1)
        o << (d ? ", " : "") << "(" << (found / 9 - 1) << ", " << ((found / 3) % 3 - 1) << ", "
          << (found % 3 - 1) << ")";
      else
        o << (d ? ", " : "") << "(2, 2, 2)";
    }
    o << "]\n\n";
  }

  // ---- update_photon_position: which coordinates are pinned, and to what (0 untouched, 1 lower = 0., 2 upper
  //      = ncell*cell_size)
  {
    o << "/-- `DensitySubGrid::update_photon_position(d, position)`: per axis 0 = untouched, 1 = set to 0 (lower wall),\n"
         "2 = set to number_of_cells*cell_size (upper wall); probed with sentinel coordinates -/\n";
    o << "def pin : List (List Nat) := [";
    for (int d = 0; d < 27; ++d) {
      int cls[3];
      for (int ax = 0; ax < 3; ++ax)
        cls[ax] = -1;
      const double sent[2][3] = {{0.3, 0.7, 1.1}, {2.9, 4.2, 6.6}};
      for (int t = 0; t < 2; ++t) {
        CoordinateVector<> p(sent[t][0], sent[t][1], sent[t][2]);
        grid.update_photon_position(d, p);
        for (int ax = 0; ax < 3; ++ax) {
          const double up = grid._number_of_cells[ax] * grid._cell_size[ax];
          int c;
          if (p[ax] == sent[t][ax])
            c = 0;
          else if (p[ax] == 0.)
            c = 1;
          else if (p[ax] == up)
            c = 2;
          else
            fail("update_photon_position sets a coordinate to something that is neither wall");
          if (cls[ax] >= 0 && cls[ax] != c)
            fail("update_photon_position classification depends on the position");
          cls[ax] = c;
        }
      }
      o << (d ? ", " : "") << "[" << cls[0] << ", " << cls[1] << ", " << cls[2] << "]";
    }
    o << "]\n\n";
  }

  // ---- get_{x,y,z}_index: 0 computed from the coordinate, 1 lower (0), 2 upper (ncell-1)
  {
    o << "/-- `DensitySubGrid::get_{x,y,z}_index(coordinate, d)`: per axis 0 = computed from the coordinate,\n"
         "1 = lower limit (0), 2 = upper limit (ncell-1); probed with several coordinates -/\n";
    o << "def idxClass : List (List Nat) := [";
    for (int d = 0; d < 27; ++d) {
      int cls[3];
      for (int ax = 0; ax < 3; ++ax) {
        const long n = ncell[ax];
        // coordinates inside cells 1 and n-2 (cell size is 1)
        const double xs[2] = {1.25, double(n - 2) + 0.5};
        long r[2];
        for (int t = 0; t < 2; ++t)
          r[t] = ax == 0 ? grid.get_x_index(xs[t], d)
                         : (ax == 1 ? grid.get_y_index(xs[t], d) : grid.get_z_index(xs[t], d));
        if (r[0] == 1 && r[1] == n - 2)
          cls[ax] = 0;
        else if (r[0] == 0 && r[1] == 0)
          cls[ax] = 1;
        else if (r[0] == n - 1 && r[1] == n - 1)
          cls[ax] = 2;
        else
          fail("get_*_index is neither computed, lower nor upper");
      }
      o << (d ? ", " : "") << "[" << cls[0] << ", " << cls[1] << ", " << cls[2] << "]";
    }
    o << "]\n\n";
  }
  o << "end CMacVerif.Gen.TravelDirections\n";
  return 0;
}
