// C08 harness: deterministic schedule replay of the REAL scheduler containers through hook H1.
//
// AtomicValue.hpp (compiled with -DCMACIONIZE_VERIF) calls cmac_verif_yield() before every
// atomic operation.  N real threads (std::thread) each run the calls of one program on shared
// ThreadSafeVector / MemorySpace / ThreadLock / Task / TaskQueue / AtomicValue objects.  In
// schedule mode (X) every thread parks at every yield until the baton scheduler, driven by the
// schedule string of the op line, releases exactly that thread for one atomic operation (plus
// the plain code up to its next yield).  Results are logged in schedule order and compared with
// the Lean model; ORACLE lines report violations of the property itself on the implementation.
// In free mode (F) the threads run concurrently (yield = seeded jitter) and only
// schedule-independent facts are printed; the oracles still run.
#include "common.hpp"
#include <atomic>
#include <chrono>
#include <condition_variable>
#include <unistd.h>
#include <mutex>
#include <thread>

#define private public
#include "AtomicValue.hpp"
#include "LockFree.hpp"
#include "MemorySpace.hpp"
#include "Task.hpp"
#include "TaskQueue.hpp"
#include "ThreadLock.hpp"
#include "ThreadSafeVector.hpp"
#undef private

// ------------------------------------------------------------------ baton scheduler
struct AbortThread {};

struct Worker {
  int id = 0;
  std::condition_variable cv;
  std::atomic< bool > go{false}, parked{false}, finished{false};
  bool abort = false;
  uint64_t jitter = 0;
  uint64_t yields = 0;
};

static std::mutex gm;
static std::condition_variable sched_cv;
static thread_local Worker *me = nullptr;
static thread_local bool no_yield = false; // inside a maintenance call (not a thread-safe operation)
static bool free_mode = false;

// wait for an atomic condition: spin briefly (the baton usually comes back within microseconds),
// then block on the condition variable.  The signalling side sets the flag, then passes through
// the mutex and notifies, so no wake-up is lost.
template < typename Pred >
static void wait_for(std::condition_variable &cv, Pred pred) {
  for (int k = 0; k < 30000; ++k) {
    if (pred())
      return;
  }
  std::unique_lock< std::mutex > lk(gm);
  cv.wait(lk, pred);
}
static void signal(std::condition_variable &cv) {
  { std::unique_lock< std::mutex > lk(gm); }
  cv.notify_all();
}

static void park() {
  me->parked.store(true);
  signal(sched_cv);
  wait_for(me->cv, [] { return me->go.load(); });
  me->go.store(false);
  if (me->abort)
    throw AbortThread();
}

extern "C" void cmac_verif_yield(const char *, const void *) {
  if (me == nullptr || no_yield)
    return; // set-up code, the scheduler itself, maintenance calls between phases
  if (free_mode) {
    // a thread that never finishes (a lock that is never released, ...) is aborted
    if (++me->yields > 30000000ull)
      throw AbortThread();
    // seeded jitter: widen the interleavings a little
    me->jitter = me->jitter * 6364136223846793005ull + 1442695040888963407ull;
    const unsigned r = (me->jitter >> 33) & 15;
    if (r == 0)
      std::this_thread::yield();
    else
      for (volatile unsigned k = 0; k < r * 8; ++k) {
      }
    return;
  }
  park();
}

static void release(Worker &w) {
  w.parked.store(false);
  w.go.store(true);
  signal(w.cv);
  wait_for(sched_cv, [&w] { return w.parked.load() || w.finished.load(); });
}

// ------------------------------------------------------------------ scenario
struct Cmd {
  std::string op;
  long a = 0, b = 0;
};

struct Scenario {
  size_t size = 1, cap = 200, nlocks = 0, nqueues = 0, nctr = 0;
  std::vector< std::pair< long, long > > deps; // declared resources: -1 = setter not called
  std::vector< bool > rev;                     // set_extra_dependency called BEFORE set_dependency
  bool hydro = false;                              // H section present
  std::vector< std::vector< size_t > > children;
  std::vector< size_t > queue_of;
  std::vector< std::vector< Cmd > > progs;
  std::string mode, arg;
};

static bool parse(const std::vector< std::string > &w, Scenario &sc) {
  std::vector< std::vector< std::string > > parts(1);
  for (auto &t : w) {
    if (t == "|")
      parts.emplace_back();
    else
      parts.back().push_back(t);
  }
  if (parts.size() < 2)
    return false;
  auto &hd = parts[0];
  if (hd.size() < 7 || hd[0] != "S" || hd[6] != "T")
    return false;
  sc.size = u64(hd[1]);
  sc.cap = u64(hd[2]);
  sc.nlocks = u64(hd[3]);
  sc.nqueues = u64(hd[4]);
  sc.nctr = u64(hd[5]);
  size_t hpos = hd.size();
  for (size_t i = 7; i < hd.size(); ++i)
    if (hd[i] == "H") {
      hpos = i;
      break;
    }
  for (size_t i = 7; i + 1 < hpos; i += 2) {
    auto f = [](const std::string &s) { return s == "-" ? -1L : (long)u64(s); };
    const bool r = !hd[i].empty() && hd[i][0] == 'r';
    sc.rev.push_back(r);
    sc.deps.push_back({f(r ? hd[i].substr(1) : hd[i]), f(hd[i + 1])});
  }
  sc.hydro = hpos < hd.size();
  sc.children.assign(sc.deps.size(), std::vector< size_t >());
  sc.queue_of.assign(sc.deps.size(), 0);
  for (size_t i = hpos + 1, t = 0; i < hd.size() && t < sc.deps.size(); ++i, ++t) {
    const std::string &tok = hd[i];
    const size_t colon = tok.find(':');
    if (colon == std::string::npos)
      return false;
    const std::string cs = tok.substr(0, colon);
    sc.queue_of[t] = u64(tok.substr(colon + 1));
    if (cs != "-") {
      std::istringstream is(cs);
      std::string x;
      while (std::getline(is, x, ','))
        sc.children[t].push_back(u64(x));
    }
  }
  auto &last = parts.back();
  if (last.size() != 2)
    return false;
  sc.mode = last[0];
  sc.arg = last[1];
  for (size_t p = 1; p + 1 < parts.size(); ++p) {
    std::vector< Cmd > prog;
    for (auto &t : parts[p]) {
      Cmd c;
      std::vector< std::string > f;
      std::string cur;
      for (char ch : t) {
        if (ch == ':') {
          f.push_back(cur);
          cur.clear();
        } else
          cur.push_back(ch);
      }
      f.push_back(cur);
      c.op = f[0];
      if (f.size() > 1)
        c.a = std::strtol(f[1].c_str(), nullptr, 10);
      if (f.size() > 2)
        c.b = std::strtol(f[2].c_str(), nullptr, 10);
      prog.push_back(c);
    }
    sc.progs.push_back(prog);
  }
  return true;
}

struct World {
  Scenario sc;
  MemorySpace *ms = nullptr;
  ThreadSafeVector< PhotonBuffer > *pool = nullptr;
  ThreadLock *locks = nullptr;
  ThreadSafeVector< Task > *tasks = nullptr;
  std::vector< TaskQueue * > queues;
  AtomicValue< long > *ctr = nullptr;
  AtomicValue< long > *mxv = nullptr; // cells only updated through AtomicValue::max
  long *lfctr = nullptr;
  // the hydro worker loop's local counter (TaskBasedRadiationHydrodynamicsSimulation.cpp)
  AtomicValue< uint_fast32_t > number_of_tasks;
  bool ms_only = true; // no program releases a slot with the raw ThreadSafeVector::free_element
  std::vector< size_t > nrunning; // per thread: popped tasks not yet handed to unlock_dependency
  std::vector< std::vector< size_t > > owned; // per thread: slots in the caller's hands, newest first
  std::vector< Worker > *workers = nullptr;
  // the maintenance calls of ThreadSafeVector are only legal between parallel phases: premise
  // "every other thread has completed its calls" (then the post-conditions are checked)
  bool others_finished(int tid) const {
    for (size_t t = 0; t < workers->size(); ++t)
      if ((int)t != tid && !(*workers)[t].finished.load())
        return false;
    return true;
  }
  int in_seed = 0;                // threads between add_task and pre_increment of the initial loop

  // results in completion order (schedule mode: written under the baton)
  std::vector< std::string > log;
  // oracle bookkeeping (guarded by om in free mode; serialised by the baton otherwise)
  std::mutex om;
  std::vector< int > slot_owner, lock_owner;
  std::vector< long > added, popped; // per task index (all queues)
  std::vector< std::string > oracle;
  std::vector< long > ctr_expect, lf_expect, mx_expect;

  explicit World(const Scenario &s) : sc(s) {
    ms = new MemorySpace(sc.size);
    pool = &ms->_memory_space;
    locks = new ThreadLock[sc.nlocks + 1];
    tasks = new ThreadSafeVector< Task >(sc.deps.size() + 1);
    for (size_t t = 0; t < sc.deps.size(); ++t) {
      const size_t i = tasks->get_free_element();
      Task &task = (*tasks)[i];
      if (sc.rev[t] && sc.deps[t].second >= 0)
        task.set_extra_dependency(&locks[sc.deps[t].second]);
      if (sc.deps[t].first >= 0)
        task.set_dependency(&locks[sc.deps[t].first]);
      if (!sc.rev[t] && sc.deps[t].second >= 0)
        task.set_extra_dependency(&locks[sc.deps[t].second]);
      for (size_t c : sc.children[t])
        task.add_child(c);
      task.set_number_of_unfinished_parents(0);
    }
    nrunning.assign(sc.progs.size(), 0);
    owned.assign(sc.progs.size(), std::vector< size_t >());
    for (auto &p : sc.progs)
      for (auto &c : p)
        if (c.op == "f")
          ms_only = false;
    for (size_t q = 0; q < sc.nqueues; ++q)
      queues.push_back(new TaskQueue(256));
    ctr = new AtomicValue< long >[sc.nctr + 1];
    mxv = new AtomicValue< long >[sc.nctr + 1];
    mx_expect.assign(sc.nctr + 1, 0);
    lfctr = new long[sc.nctr + 1];
    for (size_t c = 0; c <= sc.nctr; ++c)
      lfctr[c] = 0;
    slot_owner.assign(sc.size + 1, -1);
    lock_owner.assign(sc.nlocks + 1, -1);
    added.assign(sc.deps.size() + 1, 0);
    popped.assign(sc.deps.size() + 1, 0);
    ctr_expect.assign(sc.nctr + 1, 0);
    lf_expect.assign(sc.nctr + 1, 0);
  }
  ~World() {
    delete ms;
    delete[] locks;
    delete tasks;
    for (auto q : queues)
      delete q;
    delete[] ctr;
    delete[] mxv;
    delete[] lfctr;
  }

  long lock_index(ThreadLock *l) const { return l - locks; }

  // the first dependency was set first (the only order the call sites use)
  bool conforming(size_t t) const {
    return (sc.deps[t].first >= 0 && !sc.rev[t]) || (sc.deps[t].first < 0 && sc.deps[t].second < 0);
  }
  bool declared_free(size_t t) const {
    const long d0 = sc.deps[t].first, d1 = sc.deps[t].second;
    return (d0 < 0 || !locks[d0]._lock._value.load()) && (d1 < 0 || !locks[d1]._lock._value.load());
  }
  bool declared_held(size_t t) const {
    const long d0 = sc.deps[t].first, d1 = sc.deps[t].second;
    return (d0 < 0 || locks[d0]._lock._value.load()) && (d1 < 0 || locks[d1]._lock._value.load());
  }
  // class-level contract of Task (single-thread lines): failures for a setter order no call site
  // uses are reported as candidates (tag on the answer line), not as violations
  std::vector< std::string > candidates;
  void contract(size_t t, const std::string &what) {
    if (conforming(t))
      bad(what + "(" + std::to_string(t) + ")");
    else if (candidates.size() < 4)
      candidates.push_back(what + (sc.rev[t] ? "[extra-before-first]" : "[extra-only]") + "(" + std::to_string(t) + ")");
  }
  void bad(const std::string &what) {
    if (oracle.size() < 12) // a hammer line can hit the same failure thousands of times
      oracle.push_back(what);
  }

  // counter protocol of the hydro worker loop: number_of_tasks is never 0 while a task is
  // queued or running (checked at the completion of every call, schedule mode only: all other
  // threads are parked at a yield, queue bodies are never split by a yield)
  void check_counter() {
    if (!sc.hydro || free_mode || in_seed > 0)
      return;
    if (number_of_tasks._value.load() != 0)
      return;
    size_t queued = 0, running = 0;
    for (auto q : queues)
      queued += q->_current_queue_size;
    for (size_t r : nrunning)
      running += r;
    if (queued + running > 0)
      bad("number_of_tasks-is-zero-while-a-task-is-queued-or-running(" + std::to_string(queued) + "," +
          std::to_string(running) + ")");
  }

  // ---- bookkeeping helpers; the caller holds om (free mode) or the baton
  void take_slot(int tid, size_t i) {
    if (i >= sc.size) {
      bad("slot-index-out-of-range");
      return;
    }
    if (slot_owner[i] != -1)
      bad("slot-handed-to-two-owners(" + std::to_string(i) + ")");
    if (!pool->_locks[i]._value.load())
      bad("slot-flag-not-set-for-owned-slot(" + std::to_string(i) + ")");
    slot_owner[i] = tid;
  }
  void take_lock(int tid, long k, const char *how) {
    if (lock_owner[k] != -1)
      bad(std::string(how) + "-lock-has-two-holders(" + std::to_string(k) + ")");
    if (!locks[k]._lock._value.load())
      bad(std::string(how) + "-lock-not-held(" + std::to_string(k) + ")");
    lock_owner[k] = tid;
  }
  void take_task_locks(int tid, size_t t, const char *how) {
    Task &task = (*tasks)[t];
    if (task._dependency[0] != nullptr) {
      take_lock(tid, lock_index(task._dependency[0]), how);
      if (task._dependency[1] != nullptr)
        take_lock(tid, lock_index(task._dependency[1]), how);
    }
  }
  void drop_task_locks(size_t t) {
    Task &task = (*tasks)[t];
    if (task._dependency[0] != nullptr) {
      lock_owner[lock_index(task._dependency[0])] = -1;
      if (task._dependency[1] != nullptr)
        lock_owner[lock_index(task._dependency[1])] = -1;
    }
  }
};

struct Guard {
  std::mutex *m;
  explicit Guard(std::mutex &mm) : m(free_mode ? &mm : nullptr) {
    if (m)
      m->lock();
  }
  ~Guard() {
    if (m)
      m->unlock();
  }
};

static size_t pick(const std::vector< size_t > &l, long j) { return l[(size_t)j % l.size()]; }
static void erase_first(std::vector< size_t > &l, size_t x) {
  for (size_t k = 0; k < l.size(); ++k)
    if (l[k] == x) {
      l.erase(l.begin() + k);
      return;
    }
}

static void run_program(World &w, int tid) {
  const std::vector< Cmd > &prog1 = w.sc.progs[tid];
  // oracle-only lines ("G <seed>x<reps>"): the program is repeated
  size_t reps = 1;
  if (w.sc.mode == "G" && w.sc.arg.find('x') != std::string::npos)
    reps = u64(w.sc.arg.substr(w.sc.arg.find('x') + 1));
  std::vector< Cmd > prog;
  for (size_t r = 0; r < reps; ++r)
    prog.insert(prog.end(), prog1.begin(), prog1.end());
  std::vector< size_t > &owned = w.owned[tid];     // (in the World: a bulk release drops everybody's slots)
  std::vector< size_t > held, mytasks, fin;        // newest first, like the model
  std::vector< long > last_mx;                      // last value this thread saw in a max cell
  // buffer contents as this thread (the owner) left them: size, and in free mode a stamp
  std::vector< long > exp_size(w.sc.size + 1, -1), stamp_n(w.sc.size + 1, 0);
  std::vector< double > stamp_val(w.sc.size + 1, 0.);
  unsigned long seq = 0;
  // "between get_free_buffer handing out i and the owner's free_buffer(i) nobody else writes
  // buffer i": the owner re-checks what it stored
  auto check_own = [&](size_t i, const char *when) {
    if (i >= w.sc.size || exp_size[i] < 0)
      return;
    PhotonBuffer &b = (*w.ms)[i];
    bool bad = ((long)b.size() != exp_size[i]);
    if (!bad && free_mode && stamp_n[i] > 0) {
      if (b.get_subgrid_index() != (size_t)tid)
        bad = true;
      for (long k = 0; k < stamp_n[i] && !bad; ++k)
        if (b[k].get_weight() != stamp_val[i])
          bad = true;
    }
    if (bad) {
      Guard g(w.om);
      w.bad(std::string("buffer-content-changed-while-owned-") + when + "(" + std::to_string(i) + "," +
            std::to_string(exp_size[i]) + "," + std::to_string((long)b.size()) + ")");
    }
  };
  const std::string T = std::to_string(tid) + ":";
  auto out = [&](const std::string &s) {
    if (!free_mode)
      w.log.push_back(T + s);
    w.nrunning[tid] = mytasks.size();
    w.check_counter();
  };
  for (const Cmd &c : prog) {
    const std::string &op = c.op;
    if (op == "g" || op == "gs") {
      const size_t i = (op == "g") ? w.pool->get_free_element() : w.ms->get_free_buffer();
      if (i < w.sc.size) {
        {
          Guard g(w.om);
          w.take_slot(tid, i);
          owned.insert(owned.begin(), i);
        }
        PhotonBuffer &b = (*w.ms)[i];
        if (w.ms_only && b.size() != 0) {
          Guard g(w.om);
          w.bad("handed-out-buffer-is-not-empty(" + std::to_string(i) + "," + std::to_string((long)b.size()) + ")");
          b.reset();
        }
        exp_size[i] = b.size();
        stamp_n[i] = 0;
        if (free_mode && w.ms_only) {
          // fill with a recognisable pattern: owner id, sequence number
          ++seq;
          const long n = 1 + (long)(seq % 5);
          b.set_subgrid_index(tid);
          stamp_val[i] = (double)tid * 1.e9 + (double)seq;
          for (long k = 0; k < n; ++k)
            b[b.get_next_free_photon()].set_weight(stamp_val[i]);
          stamp_n[i] = n;
          exp_size[i] = n;
        }
      } else if (op == "g" || i != w.sc.size) {
        Guard g(w.om);
        w.bad("get-returned-invalid-index");
      } else if (w.others_finished(tid)) {
        size_t nfl = 0;
        for (size_t k = 0; k < w.sc.size; ++k)
          nfl += w.pool->_locks[k]._value.load();
        if (nfl < w.sc.size) {
          Guard g(w.om);
          w.bad("get_free_element_safe-reports-full-although-a-slot-is-free(" + std::to_string(nfl) + ")");
        }
      }
      out("s" + std::to_string(i));
    } else if (op == "f" || op == "fb") {
      if (owned.empty()) {
        out("K");
        continue;
      }
      const size_t i = pick(owned, c.a);
      erase_first(owned, i);
      check_own(i, "at-release");
      exp_size[i] = -1;
      {
        Guard g(w.om);
        w.slot_owner[i] = -1;
      }
      if (op == "f")
        w.pool->free_element(i);
      else
        w.ms->free_buffer(i);
      out("f" + std::to_string(i));
    } else if (op == "ap") {
      if (owned.empty()) {
        out("K");
        continue;
      }
      const size_t i = pick(owned, c.a);
      for (size_t o2 : owned)
        check_own(o2, "before-add_photons");
      PhotonBuffer *in = new PhotonBuffer();
      in->grow((uint_fast32_t)c.b);
      const size_t before = (*w.ms)[i].size();
      const size_t o = w.ms->add_photons(i, *in);
      delete in;
      {
        Guard g(w.om);
        if (o != i) {
          w.take_slot(tid, o);
          owned.insert(owned.begin(), o);
          if (o < w.sc.size &&
              ((*w.ms)[i].size() - before) + (*w.ms)[o].size() != (size_t)c.b)
            w.bad("add_photons-lost-or-created-packets");
        } else if ((*w.ms)[i].size() - before != (size_t)c.b)
          w.bad("add_photons-lost-or-created-packets");
      }
      exp_size[i] = (*w.ms)[i].size();
      if (o != i && o < w.sc.size) {
        exp_size[o] = (*w.ms)[o].size();
        stamp_n[o] = 0;
      }
      out("ph" + std::to_string(o));
    } else if (op == "l" || op == "tl") {
      bool ok = true;
      if (op == "l")
        w.locks[c.a].lock();
      else
        ok = w.locks[c.a].try_lock();
      if (ok) {
        Guard g(w.om);
        w.take_lock(tid, c.a, "thread");
        held.insert(held.begin(), (size_t)c.a);
      }
      out("L" + std::to_string(c.a) + (ok ? "+" : "-"));
    } else if (op == "u") {
      if (held.empty()) {
        out("K");
        continue;
      }
      const size_t k = pick(held, c.a);
      erase_first(held, k);
      {
        Guard g(w.om);
        w.lock_owner[k] = -1;
      }
      w.locks[k].unlock();
      out("U" + std::to_string(k));
    } else if (op == "lt") {
      const bool free_before = w.sc.progs.size() == 1 && w.declared_free(c.a);
      const bool ok = (*w.tasks)[c.a].lock_dependency();
      if (w.sc.progs.size() == 1) {
        if (!ok && free_before)
          w.contract(c.a, "lock_dependency-failed-although-all-declared-resources-are-free");
        if (ok && !w.declared_held(c.a))
          w.contract(c.a, "lock_dependency-succeeded-without-holding-a-declared-resource");
      }
      {
        Guard g(w.om);
        if (ok) {
          w.take_task_locks(tid, c.a, "task");
          mytasks.insert(mytasks.begin(), (size_t)c.a);
        }
      }
      out("TL" + std::to_string(c.a) + (ok ? "+" : "-"));
    } else if (op == "ut") {
      if (mytasks.empty()) {
        out("K");
        continue;
      }
      const size_t t = pick(mytasks, c.a);
      erase_first(mytasks, t);
      {
        Guard g(w.om);
        w.drop_task_locks(t);
      }
      (*w.tasks)[t].unlock_dependency();
      fin.insert(fin.begin(), t);
      out("TU" + std::to_string(t));
    } else if (op == "a") {
      {
        Guard g(w.om);
        w.added[c.b]++;
      }
      w.queues[c.a]->add_task(c.b);
      out("A" + std::to_string(c.a) + "." + std::to_string(c.b));
    } else if (op == "p" || op == "tp") {
      const size_t t = (op == "p") ? w.queues[c.a]->get_task(*w.tasks)
                                   : w.queues[c.a]->try_get_task(*w.tasks);
      if (t != NO_TASK) {
        Guard g(w.om);
        if (t >= w.sc.deps.size())
          w.bad("pop-returned-unknown-task");
        else {
          w.popped[t]++;
          if (w.popped[t] > w.added[t])
            w.bad("task-popped-more-often-than-added(" + std::to_string(t) + ")");
          w.take_task_locks(tid, t, "popped-task");
          mytasks.insert(mytasks.begin(), t);
          if (w.sc.progs.size() == 1 && !w.declared_held(t))
            w.contract(t, "popped-task-does-not-hold-a-declared-resource");
        }
      }
      if (t == NO_TASK && w.sc.progs.size() == 1) {
        // pop_available on the implementation (no interference: single thread): a queued task
        // whose declared resources are all free must be handed out
        TaskQueue *Q = w.queues[c.a];
        for (size_t k = 0; k < Q->_current_queue_size; ++k) {
          const size_t x = Q->_queue[k];
          if (x >= w.sc.deps.size())
            continue;
          if (w.declared_free(x))
            w.contract(x, "pop-returned-no-task-although-queued-task-has-all-resources-free");
        }
      }
      out("P" + std::to_string(c.a) + "." + (t == NO_TASK ? std::string("N") : std::to_string(t)));
    } else if (op == "qs") {
      out("Q" + std::to_string(c.a) + "." + std::to_string(w.queues[c.a]->size()));
    } else if (op == "aw") {
      // phase barrier of the caller: wait until a counter reached a value
      long v;
      while ((v = w.ctr[c.a].value()) < c.b) {
      }
      out("V" + std::to_string(c.a) + "." + std::to_string(v));
    } else if (op == "i" || op == "d" || op == "pi" || op == "pa" || op == "oa" || op == "ps" ||
               op == "ld") {
      long v = 0, delta = 0;
      AtomicValue< long > &x = w.ctr[c.a];
      if (op == "i") {
        v = x.pre_increment();
        delta = 1;
      } else if (op == "d") {
        v = x.pre_decrement();
        delta = -1;
      } else if (op == "pi") {
        v = x.post_increment();
        delta = 1;
      } else if (op == "pa") {
        v = x.pre_add(c.b);
        delta = c.b;
      } else if (op == "oa") {
        v = x.post_add(c.b);
        delta = c.b;
      } else if (op == "ps") {
        v = x.pre_subtract(c.b);
        delta = -c.b;
      } else
        v = x.value();
      {
        Guard g(w.om);
        w.ctr_expect[c.a] += delta;
      }
      out("V" + std::to_string(c.a) + "." + std::to_string(v));
    } else if (op == "cl" || op == "cf" || op == "ca" || op == "gfe") {
      // maintenance calls ("not meant to be thread safe"): executed as one piece, no yields
      bool premise = w.others_finished(tid);
      // premises stated in the source: clear_after(k) "all values before the offset are in use",
      // get_free_elements on an empty vector
      if (op == "ca")
        for (long i = 0; i < c.a && (size_t)i < w.sc.size; ++i)
          premise = premise && w.pool->_locks[i]._value.load();
      if (op == "ca" && (size_t)c.a > w.sc.size)
        premise = false;
      if (op == "gfe") {
        premise = premise && w.pool->_number_taken._value.load() == 0 && (size_t)c.a <= w.sc.size;
        for (size_t i = 0; i < w.sc.size; ++i)
          premise = premise && !w.pool->_locks[i]._value.load();
      }
      no_yield = true;
      if (op == "cl")
        w.pool->clear();
      else if (op == "cf")
        w.ms->reset();
      else if (op == "ca")
        w.pool->clear_after(c.a);
      else
        w.pool->get_free_elements(c.a);
      no_yield = false;
      {
        Guard g(w.om);
        if (op == "cl") {
          for (auto &o : w.owned)
            o.clear();
          for (auto &x : w.slot_owner)
            x = -1;
        } else if (op == "ca") {
          for (auto &o : w.owned) {
            std::vector< size_t > keep;
            for (size_t x : o)
              if (x < (size_t)c.a)
                keep.push_back(x);
            o = keep;
          }
          for (size_t i = c.a; i < w.sc.size; ++i)
            w.slot_owner[i] = -1;
        } else if (op == "gfe") {
          for (long i = 0; i < c.a && (size_t)i < w.sc.size; ++i) {
            owned.insert(owned.begin(), (size_t)i);
            w.slot_owner[i] = tid;
          }
        }
        if (op != "cf")
          for (auto &e : exp_size)
            e = -1;
        if (premise) {
          const long taken = (long)w.pool->_number_taken._value.load();
          size_t nfl = 0, nown = 0;
          for (size_t i = 0; i < w.sc.size; ++i) {
            nfl += w.pool->_locks[i]._value.load();
            nown += (w.slot_owner[i] != -1);
          }
          if (taken != (long)nfl || nfl != nown)
            w.bad(op + "-leaves-count-flags-holders-inconsistent(" + std::to_string(taken) + "," +
                  std::to_string(nfl) + "," + std::to_string(nown) + ")");
          if (op == "cl" && (nfl != 0 || w.pool->_current_index._value.load() != 0))
            w.bad("clear-does-not-leave-an-empty-pool");
        }
      }
      out(op == "cl" ? "CL" : op == "cf" ? "CF" : op == "ca" ? "CA" + std::to_string(c.a) : "GFE" + std::to_string(c.a));
    } else if (op == "na") {
      const long v = (long)w.pool->get_number_of_active_elements();
      if (w.others_finished(tid)) {
        size_t nfl = 0;
        for (size_t i = 0; i < w.sc.size; ++i)
          nfl += w.pool->_locks[i]._value.load();
        Guard g(w.om);
        if (v != (long)nfl || (v == 0) != (w.pool->_number_taken._value.load() == 0))
          w.bad("occupancy-count-differs-from-number-of-slots-held-when-idle(" + std::to_string(v) + "," +
                std::to_string(nfl) + ")");
      }
      out("NA" + std::to_string(v));
    } else if (op == "mx") {
      // AtomicValue::max: after the call returned the cell is at least the argument, and the
      // values one thread reads one after the other never decrease
      AtomicValue< long > &x = w.mxv[c.a];
      x.max(c.b);
      const long seen = x._value.load(); // raw read: no yield
      {
        Guard g(w.om);
        if (seen < c.b)
          w.bad("max-returned-but-variable-is-smaller-than-argument(" + std::to_string(c.b) + "," +
                std::to_string(seen) + ")");
        if (c.b > w.mx_expect[c.a])
          w.mx_expect[c.a] = c.b;
      }
      if (last_mx.size() <= (size_t)c.a)
        last_mx.resize(c.a + 1, 0);
      if (seen < last_mx[c.a]) {
        Guard g(w.om);
        w.bad("maximum-went-down(" + std::to_string(last_mx[c.a]) + "," + std::to_string(seen) + ")");
      }
      last_mx[c.a] = seen;
      out("MX" + std::to_string(c.a));
    } else if (op == "ml") {
      const long v = w.mxv[c.a].value();
      if (last_mx.size() <= (size_t)c.a)
        last_mx.resize(c.a + 1, 0);
      if (v < last_mx[c.a]) {
        Guard g(w.om);
        w.bad("maximum-went-down(" + std::to_string(last_mx[c.a]) + "," + std::to_string(v) + ")");
      }
      last_mx[c.a] = v;
      out("W" + std::to_string(c.a) + "." + std::to_string(v));
    } else if (op == "su") {
      (*w.tasks)[c.a].set_number_of_unfinished_parents(c.b);
      out("K");
    } else if (op == "sd") {
      // initial loop of the hydro step
      {
        Guard g(w.om);
        w.added[c.b]++;
      }
      ++w.in_seed;
      w.queues[c.a]->add_task(c.b);
      w.number_of_tasks.pre_increment();
      --w.in_seed;
      out("SD" + std::to_string(c.a) + "." + std::to_string(c.b));
    } else if (op == "rl") {
      if (fin.empty()) {
        out("K");
        continue;
      }
      // transcription of the worker loop after unlock_dependency()
      // (TaskBasedRadiationHydrodynamicsSimulation.cpp: children, then pre_decrement)
      const size_t current_task = fin.front();
      fin.erase(fin.begin());
      ThreadSafeVector< Task > &tasks = *w.tasks;
      const unsigned char numchild = tasks[current_task].get_number_of_children();
      for (uint_fast8_t i = 0; i < numchild; ++i) {
        const size_t ichild = tasks[current_task].get_child(i);
        if (tasks[ichild].decrement_number_of_unfinished_parents() == 0) {
          {
            Guard g(w.om);
            w.added[ichild]++;
          }
          w.queues[w.sc.queue_of[ichild]]->add_task(ichild);
          w.number_of_tasks.pre_increment();
        }
      }
      const uint_fast32_t left = w.number_of_tasks.pre_decrement();
      out("R" + std::to_string(current_task) + "." + std::to_string((long)(int_fast32_t)left));
    } else if (op == "ln") {
      out("N" + std::to_string((long)w.number_of_tasks.value()));
    } else if (op == "lf") {
      LockFree::add(w.lfctr[c.a], c.b);
      Guard g(w.om);
      w.lf_expect[c.a] += c.b;
    } else {
      out("?");
    }
  }
}

static std::string bits(const std::vector< bool > &b) {
  std::string s;
  for (bool x : b)
    s.push_back(x ? '1' : '0');
  return s;
}
template < typename T > static std::string comma(const std::vector< T > &v) {
  std::string s;
  for (size_t i = 0; i < v.size(); ++i)
    s += (i ? "," : "") + std::to_string(v[i]);
  return s;
}

static void run_scenario(const Scenario &sc, uint64_t lineno) {
  World w(sc);
  const size_t n = sc.progs.size();
  free_mode = (sc.mode == "F" || sc.mode == "G"); // "X" and "XI" are schedule replay
  std::vector< Worker > workers(n); // never resized
  w.workers = &workers;
  std::vector< std::thread > threads;
  std::atomic< int > start_flag(0);
  for (size_t t = 0; t < n; ++t) {
    workers[t].id = t;
    workers[t].jitter = u64(sc.arg) * 1000003ull + t * 7919ull + 1;
    threads.emplace_back([&w, &workers, &start_flag, t]() {
      me = &workers[t];
      try {
        if (free_mode) {
          while (start_flag.load() == 0) {
          }
        } else
          park(); // wait for the scheduler to settle the threads in order
        run_program(w, t);
      } catch (AbortThread &) {
        me->abort = true;
      }
      me->finished.store(true);
      signal(sched_cv);
    });
  }
  std::vector< size_t > stuck;
  if (free_mode) {
    start_flag.store(1);
    for (auto &th : threads)
      th.join();
    for (size_t t = 0; t < n; ++t)
      if (workers[t].abort)
        stuck.push_back(t);
    if (!stuck.empty())
      w.bad("thread-never-finished-under-real-concurrency");
  } else {
    // wait until every thread reached its initial park
    wait_for(sched_cv, [&workers] {
      for (auto &x : workers)
        if (!x.parked.load() && !x.finished.load())
          return false;
      return true;
    });
    for (size_t t = 0; t < n; ++t)
      release(workers[t]); // plain code up to the first atomic operation
    auto all_finished = [&workers] {
      for (auto &x : workers)
        if (!x.finished)
          return false;
      return true;
    };
    for (char ch : sc.arg) {
      const size_t t = ch - '0';
      if (t < n && !workers[t].finished)
        release(workers[t]);
    }
    for (size_t e = 0; e < 600 && n > 0; ++e) {
      if (all_finished())
        break;
      const size_t t = e % n;
      if (!workers[t].finished)
        release(workers[t]);
    }
    for (size_t t = 0; t < n; ++t)
      if (!workers[t].finished) {
        stuck.push_back(t);
        workers[t].abort = true;
        release(workers[t]);
      }
    for (auto &th : threads)
      th.join();
  }
  me = nullptr;

  // ---- final state
  const long taken = (long)w.pool->_number_taken._value.load();
  std::vector< bool > flags, lk, ql;
  std::vector< size_t > cnt;
  size_t nflags = 0, nowned = 0;
  for (size_t i = 0; i < sc.size; ++i) {
    flags.push_back(w.pool->_locks[i]._value.load());
    nflags += flags.back();
    nowned += (w.slot_owner[i] != -1);
    cnt.push_back(w.pool->_vector[i]._actual_size);
  }
  for (size_t k = 0; k < sc.nlocks; ++k)
    lk.push_back(w.locks[k]._lock._value.load());
  std::vector< long > cv, lfv, mxf;
  for (size_t c = 0; c < sc.nctr; ++c) {
    mxf.push_back(w.mxv[c]._value.load());
    cv.push_back(w.ctr[c]._value.load());
    lfv.push_back(w.lfctr[c]);
  }
  std::string qs;
  for (size_t q = 0; q < sc.nqueues; ++q) {
    ql.push_back(w.queues[q]->_queue_lock._lock._value.load());
    std::vector< size_t > items(w.queues[q]->_queue, w.queues[q]->_queue + w.queues[q]->_current_queue_size);
    if (free_mode)
      std::sort(items.begin(), items.end());
    qs += (q ? " q" : "q") + std::to_string(q) + "=" + comma(items);
  }
  // ---- quiescent oracles (every thread completed its calls)
  if (stuck.empty()) {
    if (taken != (long)nflags)
      w.bad("quiescent-count-differs-from-flags(" + std::to_string(taken) + "," + std::to_string(nflags) + ")");
    if (nflags != nowned)
      w.bad("quiescent-flags-differ-from-slots-held(" + std::to_string(nflags) + "," + std::to_string(nowned) + ")");
    for (size_t k = 0; k < sc.nlocks; ++k)
      if (lk[k] != (w.lock_owner[k] != -1))
        w.bad("quiescent-lock-flag-differs-from-holder(" + std::to_string(k) + ")");
    for (size_t q = 0; q < sc.nqueues; ++q)
      if (ql[q])
        w.bad("queue-lock-left-locked");
    std::vector< long > inq(sc.deps.size() + 1, 0);
    for (size_t q = 0; q < sc.nqueues; ++q)
      for (size_t k = 0; k < w.queues[q]->_current_queue_size; ++k)
        if (w.queues[q]->_queue[k] < inq.size())
          inq[w.queues[q]->_queue[k]]++;
    for (size_t t = 0; t < sc.deps.size(); ++t)
      if (inq[t] + w.popped[t] != w.added[t])
        w.bad("queue-content-plus-popped-differs-from-added(" + std::to_string(t) + ")");
    for (size_t c = 0; c < sc.nctr; ++c) {
      if (cv[c] != w.ctr_expect[c])
        w.bad("counter-lost-an-update(" + std::to_string(c) + ")");
      if (lfv[c] != w.lf_expect[c])
        w.bad("lockfree-add-lost-an-update(" + std::to_string(c) + ")");
      if (mxf[c] != w.mx_expect[c])
        w.bad("max-is-not-the-maximum-of-all-arguments(" + std::to_string(mxf[c]) + "," +
              std::to_string(w.mx_expect[c]) + ")");
    }
  }
  std::ostringstream o;
  if (sc.mode == "G") {
    o << (stuck.empty() ? "free-ok" : "free-STUCK");
  } else if (free_mode) {
    o << "free taken=" << taken << " nflags=" << nflags << (sc.nqueues ? " " : " ") << qs
      << " ctr=" << comma(cv) << " lf=" << comma(lfv) << " mx=" << comma(mxf)
      << (stuck.empty() ? "" : " STUCK");
  } else {
    for (size_t k = 0; k < w.log.size(); ++k)
      o << (k ? " " : "") << w.log[k];
    o << " | taken=" << taken << " cur=" << (long)w.pool->_current_index._value.load()
      << " max=" << (long)w.pool->_max_number_taken._value.load()
      << " tot=" << (long)w.pool->_total_number_taken._value.load() << " flags=" << bits(flags)
      << " cnt=" << comma(cnt) << " locks=" << bits(lk) << " ql=" << bits(ql) << " " << qs
      << " ctr=" << comma(cv);
    {
      std::vector< long > unf;
      for (size_t t = 0; t < sc.deps.size(); ++t)
        unf.push_back((long)(int8_t)(*w.tasks)[t]._number_of_unfinished_parents._value.load());
      o << " num=" << (long)(int_fast32_t)w.number_of_tasks._value.load() << " unf=" << comma(unf)
        << " mx=" << comma(mxf);
    }
    if (!stuck.empty())
      o << " STUCK " << comma(stuck);
  }
  if (!w.candidates.empty()) {
    o << " #CANDIDATE";
    for (auto &cnd : w.candidates)
      o << ":" << cnd;
  }
  std::cout << o.str() << "\n";
  for (auto &b : w.oracle)
    std::cout << "ORACLE line=" << lineno << " " << b << "\n";
}

static std::atomic< uint64_t > progress(0);

int main() {
  // watchdog: a scenario that makes no progress for 60 s (e.g. a lock operation that can never
  // succeed, called from set-up code) ends the run with a non-zero status
  std::thread([] {
    uint64_t last = 0;
    int idle = 0;
    for (;;) {
      std::this_thread::sleep_for(std::chrono::seconds(1));
      const uint64_t p = progress.load();
      idle = (p == last) ? idle + 1 : 0;
      last = p;
      if (idle >= 60) {
        std::cout << "ORACLE line=" << (p + 1) << " no-progress-for-60s(livelock-in-container-operation)" << std::endl;
        _exit(3);
      }
    }
  }).detach();
  std::string line;
  uint64_t lineno = 0;
  while (std::getline(std::cin, line)) {
    ++lineno;
    Scenario sc;
    if (!parse(words(line), sc)) {
      std::cout << "bad-op\n";
      continue;
    }
    run_scenario(sc, lineno);
    progress.store(lineno);
  }
  std::cout.flush();
  _exit(0);
}
