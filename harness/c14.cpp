// C14 harness: real RestartManager in a scratch directory.  `rename` is interposed (link-time)
// so that a process death can be injected after every file-system operation of a dump.
#include "common.hpp"
#include <algorithm>
#include <dirent.h>
#include <dlfcn.h>
#include <fstream>
#include <map>
#include <sys/stat.h>
#include <sys/wait.h>
#include <unistd.h>

static long g_rename_count = 0;
static long g_die_after = -1; // die after this many renames were performed (>0)
extern "C" int rename(const char *a, const char *b) {
  typedef int (*fn)(const char *, const char *);
  static fn real = (fn)dlsym(RTLD_NEXT, "rename");
  const int r = real(a, b);
  ++g_rename_count;
  if (g_die_after > 0 && g_rename_count == g_die_after)
    _exit(77);
  return r;
}

#define private public
#include "RestartManager.hpp"
#include "ParameterFile.cpp"
#undef private

static const uint64_t MAGIC = 0xC0FFEE1234567890ull;
static std::string dir;

static void write_state(RestartWriter *w, uint64_t v, int die_stage) {
  // die_stage: 1 = after open, 2 = during write, 0 = never
  if (die_stage == 1)
    _exit(77);
  w->write(v);
  if (die_stage == 2) {
    w->_file.flush();
    _exit(77);
  }
  w->write(v);
  w->write(MAGIC);
  delete w;
}

static std::string content_of(const std::string &path) {
  std::ifstream f(path, std::ios::binary);
  uint64_t buf[3] = {0, 0, 0};
  f.read(reinterpret_cast< char * >(buf), 24);
  const std::streamsize n = f.gcount();
  std::ostringstream o;
  if (n == 24 && buf[2] == MAGIC && buf[0] == buf[1])
    o << buf[0] << ":c";
  else if (n >= 8)
    o << buf[0] << ":p";
  else
    o << "0:p";
  return o.str();
}

static std::map< std::string, std::string > snapshot() {
  std::map< std::string, std::string > m;
  DIR *d = opendir(dir.c_str());
  struct dirent *e;
  while ((e = readdir(d)) != nullptr) {
    std::string n = e->d_name;
    if (n == "." || n == "..")
      continue;
    std::ifstream f(dir + "/" + n, std::ios::binary);
    std::stringstream ss;
    ss << f.rdbuf();
    m[n] = ss.str();
  }
  closedir(d);
  return m;
}
static void restore(const std::map< std::string, std::string > &m) {
  auto cur = snapshot();
  for (auto &kv : cur)
    unlink((dir + "/" + kv.first).c_str());
  for (auto &kv : m) {
    std::ofstream f(dir + "/" + kv.first, std::ios::binary);
    f << kv.second;
  }
}

struct Listing {
  std::string text;
  std::map< long, std::string > backs; // index -> content
  std::string dump;                    // "" if absent
  std::string other;
};
static Listing listing() {
  Listing L;
  auto m = snapshot();
  std::vector< long > idx;
  for (auto &kv : m) {
    const std::string &n = kv.first;
    if (n == "restart.dump") {
      L.dump = content_of(dir + "/" + n);
    } else if (n.size() > 13 && n.substr(0, 8) == "restart." &&
               n.substr(n.size() - 5) == ".back") {
      long i = std::atol(n.substr(8, n.size() - 13).c_str());
      L.backs[i] = content_of(dir + "/" + n);
    } else {
      L.other += " other=" + n;
    }
  }
  std::ostringstream o;
  if (!L.dump.empty())
    o << " dump=" << L.dump;
  for (auto &kv : L.backs)
    o << " b" << kv.first << "=" << kv.second;
  o << L.other;
  L.text = o.str();
  return L;
}

/**
 * the way every driver makes its manager: from the parameter file (the 5 argument constructor
 * is still used by `newt`)
 */
static RestartManager *manager_from_parameters(const uint64_t nmax) {
  const std::string pfname = dir + ".param";
  {
    std::ofstream pf(pfname);
    pf << "RestartManager:\n  path: " << dir << "\n  output interval: 3600. s\n"
       << "  maximum number of backups: " << nmax << "\n  maximum time: 1.e9 s\n";
  }
  ParameterFile params(pfname);
  RestartManager *rm = new RestartManager(params);
  std::remove(pfname.c_str());
  return rm;
}

int main() {
  char tmpl[] = "/tmp/verif_c14_XXXXXX";
  dir = mkdtemp(tmpl);
  RestartManager *rm = nullptr;
  uint64_t nmax = 0, kdumps = 0, lastv = 0, lineno = 0;
  bool rebooted = false, fresh_process = true;
  std::string line;
  while (std::getline(std::cin, line)) {
    ++lineno;
    auto w = words(line);
    std::ostringstream bad;
    if (w.size() == 2 && w[0] == "new") {
      restore({});
      delete rm;
      nmax = u64(w[1]);
      rm = manager_from_parameters(nmax);
      kdumps = 0;
      lastv = 0;
      rebooted = false;
      fresh_process = true;
      std::cout << "new\n";
    } else if (w.size() == 1 && w[0] == "stop" && rm) {
      // the user drops a stop file: stop_simulation() reports it; the final dump follows
      { std::ofstream sf(dir + "/stop"); sf << "stop\n"; }
      const bool r = rm->stop_simulation();
      std::cout << "stop " << (r ? 1 : 0) << "\n";
      if (!r) bad << " stop-file-not-detected";
    } else if (w.size() == 2 && w[0] == "newt") {
      // manager whose wall-clock limit is already exceeded: stop_simulation() is true by time
      restore({});
      delete rm;
      nmax = u64(w[1]);
      rm = new RestartManager(dir, 3600., nmax, -1., "");
      kdumps = 0;
      lastv = 0;
      rebooted = false;
      fresh_process = true;
      const bool r = rm->stop_simulation();
      std::cout << "newt " << (r ? 1 : 0) << "\n";
    } else if (w.size() == 1 && w[0] == "reboot" && rm) {
      delete rm;
      rm = manager_from_parameters(nmax);
      rebooted = true;
      fresh_process = true;
      std::cout << "reboot\n";
    } else if (w.size() == 1 && w[0] == "ls" && rm) {
      std::cout << "ls" << listing().text << "\n";
    } else if (w.size() == 2 && w[0] == "dump" && rm) {
      const uint64_t v = u64(w[1]);
      auto before = snapshot();
      std::cout.flush();
      // probe in a child: does taking the dump fail (abort)?
      pid_t pid = fork();
      if (pid == 0) {
        RestartWriter *wr = rm->get_restart_writer();
        write_state(wr, v, 0);
        _exit(0);
      }
      int status = 0;
      waitpid(pid, &status, 0);
      restore(before);
      if (!(WIFEXITED(status) && WEXITSTATUS(status) == 0)) {
        std::cout << "dump abort\n";
        bad << " dump-failed(n=" << nmax << ",k=" << kdumps + 1 << ")";
      } else {
        RestartWriter *wr = rm->get_restart_writer();
        write_state(wr, v, 0);
        ++kdumps;
        Listing L = listing();
        std::cout << "dump ok" << L.text << "\n";
        // ---- property oracle
        if (L.dump != std::to_string(v) + ":c") bad << " newest-not-in-dump-file";
        if (!L.other.empty()) bad << " unexpected-file";
        if (!rebooted) {
          const uint64_t want = std::min(nmax, kdumps - 1);
          if (L.backs.size() != want) bad << " backup-count(" << L.backs.size() << "!=" << want << ")";
          for (uint64_t i = 0; i < want; ++i) {
            auto it = L.backs.find(i);
            // states are dumped as lastv-based sequence: previous dumps have ids v-1-i by generator convention
            if (it == L.backs.end() || it->second != std::to_string(v - 1 - i) + ":c") {
              bad << " backup-" << i << "-wrong";
              break;
            }
          }
        } else {
          uint64_t prev = v;
          for (auto &kv : L.backs) {
            const std::string &c = kv.second;
            if (c.size() < 2 || c.substr(c.size() - 2) != ":c") { bad << " incomplete-backup"; break; }
            uint64_t bv = std::strtoull(c.c_str(), nullptr, 10);
            if (!(bv < prev)) { bad << " backups-not-newest-first"; break; }
            prev = bv;
          }
        }
        lastv = v;
        fresh_process = false;
      }
    } else if (w.size() == 3 && w[0] == "crash" && rm) {
      const uint64_t v = u64(w[1]);
      const long p = (long)u64(w[2]);
      auto before = snapshot();
      std::cout.flush();
      pid_t pid = fork();
      if (pid == 0) {
        if (p == 0) _exit(77);
        g_rename_count = 0;
        g_die_after = p;
        RestartWriter *wr = rm->get_restart_writer();
        const long R = g_rename_count;
        g_die_after = -1;
        write_state(wr, v, p == R + 1 ? 1 : (p == R + 2 ? 2 : 0));
        _exit(0);
      }
      int status = 0;
      waitpid(pid, &status, 0);
      Listing L = listing();
      if (WIFSIGNALED(status)) {
        std::cout << "crash abort\n";
        bad << " dump-failed(n=" << nmax << ",k=" << kdumps + 1 << ")";
      } else {
        std::cout << "crash" << L.text << "\n";
        if (nmax >= 1 && kdumps >= 1 && lastv > 0) {
          const std::string want = std::to_string(lastv) + ":c";
          bool found = (L.dump == want);
          for (auto &kv : L.backs) found = found || kv.second == want;
          if (!found) {
            if (fresh_process) bad << " previous-dump-lost-in-crash-of-restarted-process";
            else bad << " previous-dump-lost-in-crash(n=" << nmax << ",point=" << p << ")";
          }
        }
      }
      restore(before);
    } else {
      std::cout << "bad-op\n";
    }
    if (!bad.str().empty())
      std::cout << "ORACLE line=" << lineno << bad.str() << "\n";
  }
  restore({});
  rmdir(dir.c_str());
  return 0;
}
