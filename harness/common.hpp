// shared helpers for the correspondence harnesses (line protocol, doubles as bit patterns)
#ifndef VERIF_COMMON_HPP
#define VERIF_COMMON_HPP
#include <cinttypes>
#include <cmath>
#include <cstdint>
#include <cstdio>
#include <cstdlib>
#include <cstring>
#include <iostream>
#include <sstream>
#include <string>
#include <vector>

static inline double d_of_bits(uint64_t b) {
  double d;
  std::memcpy(&d, &b, 8);
  return d;
}
static inline uint64_t bits_of(double d) {
  uint64_t b;
  std::memcpy(&b, &d, 8);
  return b;
}
static inline std::string showF(double d) {
  if (d != d)
    return "nan";
  return std::to_string(bits_of(d));
}
static inline std::vector< std::string > words(const std::string &line) {
  std::vector< std::string > w;
  std::istringstream is(line);
  std::string t;
  while (is >> t)
    w.push_back(t);
  return w;
}
static inline uint64_t u64(const std::string &s) {
  return std::strtoull(s.c_str(), nullptr, 10);
}
static inline double dbl(const std::string &s) { return d_of_bits(u64(s)); }
#endif
