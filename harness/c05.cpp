// C05 harness: drives the real HLLCRiemannSolver and ExactRiemannSolver through the line
// protocol (doubles as decimal bit patterns), prints the implementation's answers (compared
// with the Lean Float model) and evaluates the property itself on the implementation
// ("ORACLE line=<n> <what>" lines, only when it fails).
//
// ops:
//   f|t|m|i rhoL uL(3) PL rhoR uR(3) PR n(3) vface(3) gamma w(3)
//        f: generic   t: tie / edge case (no Galilean oracle: sits on a switch on purpose)
//        m: mirror-image states (adds the no-exchange oracle)   i: identical states
//        d: subnormal densities/pressures (correspondence of the 1/x overflow tests only)
//      -> F <coarse> m px py pz e X <flag> m px py pz e
//   x gamma rhoL uL PL rhoR uR PR dxdt w      ExactRiemannSolver::solve
//      -> X <flag> rho u P
//   sr|sl gamma rho u P a dxdt ;  sg gamma rhoL uL PL aL rhoR uR PR aR dxdt   private samplers
//      -> S E <flag> rho u P H <flag> rho u P
#include "common.hpp"
#include <cfloat>
#include <map>
#define private public
#include "ExactRiemannSolver.hpp"
#include "HLLCRiemannSolver.hpp"
#undef private

struct Flux {
  double m, p[3], e;
};
struct In {
  double rhoL, uL[3], PL, rhoR, uR[3], PR, n[3], vf[3], gamma, w[3];
};

static std::map< uint64_t, HLLCRiemannSolver * > hcache;
static std::map< uint64_t, ExactRiemannSolver * > ecache;
static const HLLCRiemannSolver &hsolver(double g) {
  auto it = hcache.find(bits_of(g));
  if (it == hcache.end())
    it = hcache.insert({bits_of(g), new HLLCRiemannSolver(g)}).first;
  return *it->second;
}
static const ExactRiemannSolver &esolver(double g) {
  auto it = ecache.find(bits_of(g));
  if (it == ecache.end())
    it = ecache.insert({bits_of(g), new ExactRiemannSolver(g)}).first;
  return *it->second;
}

static CoordinateVector<> cv(const double *a) {
  return CoordinateVector<>(a[0], a[1], a[2]);
}

template < class S > static Flux flux_of(const S &s, const In &q) {
  Flux f;
  // poison: the solvers must overwrite everything
  f.m = std::nan("");
  f.e = std::nan("");
  CoordinateVector<> p(std::nan(""), std::nan(""), std::nan(""));
  s.solve_for_flux(q.rhoL, cv(q.uL), q.PL, q.rhoR, cv(q.uR), q.PR, f.m, p, f.e, cv(q.n),
                   cv(q.vf));
  f.p[0] = p.x();
  f.p[1] = p.y();
  f.p[2] = p.z();
  return f;
}

static std::string showFlux(const Flux &f) {
  return showF(f.m) + " " + showF(f.p[0]) + " " + showF(f.p[1]) + " " + showF(f.p[2]) + " " +
         showF(f.e);
}

static double norm3(const double *a) { return std::sqrt(a[0] * a[0] + a[1] * a[1] + a[2] * a[2]); }
static double dot3(const double *a, const double *b) {
  return a[0] * b[0] + a[1] * b[1] + a[2] * b[2];
}

struct Scale {
  double m, p, e;
};
// scale of the flux components for an input (same formula in tools/props/c05.py)
// absolute = true: velocities are measured in the fixed frame and the boost w is included (the
// accuracy of u - vface in doubles is eps * (|u| + |vface|), which bounds how well Galilean
// covariance can hold in floating point)
static Scale flux_scale(const In &q, bool absolute = false) {
  const double g = std::max(q.gamma, 1.00000001);
  const double aL = (q.rhoL > 0. && q.PL > 0.) ? std::sqrt(g * q.PL / q.rhoL) : 0.;
  const double aR = (q.rhoR > 0. && q.PR > 0.) ? std::sqrt(g * q.PR / q.rhoR) : 0.;
  double dl[3], dr[3];
  for (int i = 0; i < 3; ++i) {
    dl[i] = q.uL[i] - q.vf[i];
    dr[i] = q.uR[i] - q.vf[i];
  }
  double V = std::max(norm3(dl), norm3(dr)) + aL + aR;
  const double R = q.rhoL + q.rhoR, P = q.PL + q.PR;
  double vf = norm3(q.vf);
  if (absolute) {
    V = std::max(norm3(q.uL), norm3(q.uR)) + norm3(q.vf) + norm3(q.w) + aL + aR;
    vf += norm3(q.w);
  }
  Scale s;
  s.m = R * V;
  const double pf = R * V * V + P;
  s.p = pf + s.m * vf;
  s.e = pf * V + vf * pf + vf * vf * s.m;
  const double tiny = 1e-290;
  s.m += tiny;
  s.p += tiny;
  s.e += tiny;
  return s;
}

static bool finite_flux(const Flux &f) {
  return std::isfinite(f.m) && std::isfinite(f.p[0]) && std::isfinite(f.p[1]) &&
         std::isfinite(f.p[2]) && std::isfinite(f.e);
}

// |a - b| <= tol * scale componentwise; returns the worst ratio
static double flux_dist(const Flux &a, const Flux &b, const Scale &s) {
  double r = std::fabs(a.m - b.m) / s.m;
  for (int i = 0; i < 3; ++i)
    r = std::max(r, std::fabs(a.p[i] - b.p[i]) / s.p);
  r = std::max(r, std::fabs(a.e - b.e) / s.e);
  if (r != r)
    r = INFINITY;
  return r;
}

static In mirror_in(const In &q) {
  In r = q;
  r.rhoL = q.rhoR;
  r.PL = q.PR;
  r.rhoR = q.rhoL;
  r.PR = q.PL;
  for (int i = 0; i < 3; ++i) {
    r.uL[i] = q.uR[i];
    r.uR[i] = q.uL[i];
    r.n[i] = -q.n[i];
  }
  return r;
}
static Flux neg_flux(const Flux &f) {
  Flux r;
  r.m = -f.m;
  r.e = -f.e;
  for (int i = 0; i < 3; ++i)
    r.p[i] = -f.p[i];
  return r;
}
static In boost_in(const In &q) {
  In r = q;
  for (int i = 0; i < 3; ++i) {
    r.uL[i] = q.uL[i] + q.w[i];
    r.uR[i] = q.uR[i] + q.w[i];
    r.vf[i] = q.vf[i] + q.w[i];
  }
  return r;
}
// m' = m, p' = p + m w, E' = E + w.p + 0.5 w^2 m
static Flux boost_flux(const Flux &f, const double *w) {
  Flux r;
  r.m = f.m;
  for (int i = 0; i < 3; ++i)
    r.p[i] = f.p[i] + f.m * w[i];
  r.e = f.e + dot3(w, f.p) + 0.5 * dot3(w, w) * f.m;
  return r;
}

// coarse branch class of the HLLC solver, obtained from the real class: its constants, its
// private samplers (flags) and the dispatch conditions of solve_for_flux
static int hllc_coarse(const HLLCRiemannSolver &h, const In &q, double &Sgap) {
  Sgap = 1.;
  const double rhoLinv = 1. / (q.rhoL + DBL_MIN), rhoRinv = 1. / (q.rhoR + DBL_MIN);
  const double PLinv = 1. / (q.PL + DBL_MIN), PRinv = 1. / (q.PR + DBL_MIN);
  const bool vacuumL = (q.rhoL == 0. || std::isinf(rhoLinv) || q.PL == 0. || std::isinf(PLinv));
  const bool vacuumR = (q.rhoR == 0. || std::isinf(rhoRinv) || q.PR == 0. || std::isinf(PRinv));
  if (vacuumL && vacuumR)
    return 0;
  const CoordinateVector<> uLface = cv(q.uL) - cv(q.vf);
  const CoordinateVector<> uRface = cv(q.uR) - cv(q.vf);
  const double vL = CoordinateVector<>::dot_product(uLface, cv(q.n));
  const double vR = CoordinateVector<>::dot_product(uRface, cv(q.n));
  const double aL = std::sqrt(h._gamma * q.PL * rhoLinv);
  const double aR = std::sqrt(h._gamma * q.PR * rhoRinv);
  double r, u, P;
  if (vacuumR) {
    return h.sample_right_vacuum(q.rhoL, vL, q.PL, aL, r, u, P) == 0 ? 13 : 11;
  } else if (vacuumL) {
    return h.sample_left_vacuum(q.rhoR, vR, q.PR, aR, r, u, P) == 0 ? 23 : 21;
  } else if (h._tdgm1 * (aL + aR) <= vR - vL) {
    const int fl = h.sample_vacuum_generation(q.rhoL, vL, q.PL, aL, q.rhoR, vR, q.PR, aR, r, u, P);
    return fl == 0 ? 31 : (fl == 1 ? 32 : 34);
  }
  return 40;
}

int main() {
  std::string line;
  uint64_t lineno = 0;
  // tolerances of the oracles (relative to the flux scale of the input)
  const double TOL_H_MIRROR = 1.e-12, TOL_H_GAL = 1.e-9, TOL_H_ID = 1.e-12, TOL_H_NOEX = 1.e-12;
  const double TOL_X_MIRROR = 1.e-9, TOL_X_GAL = 1.e-6, TOL_X_ID = 1.e-6, TOL_VAC = 1.e-10;
  while (std::getline(std::cin, line)) {
    ++lineno;
    auto w = words(line);
    std::ostringstream bad;
    if (w.size() == 21 && (w[0] == "f" || w[0] == "t" || w[0] == "m" || w[0] == "i" || w[0] == "d")) {
      In q;
      int k = 1;
      q.rhoL = dbl(w[k++]);
      for (int i = 0; i < 3; ++i) q.uL[i] = dbl(w[k++]);
      q.PL = dbl(w[k++]);
      q.rhoR = dbl(w[k++]);
      for (int i = 0; i < 3; ++i) q.uR[i] = dbl(w[k++]);
      q.PR = dbl(w[k++]);
      for (int i = 0; i < 3; ++i) q.n[i] = dbl(w[k++]);
      for (int i = 0; i < 3; ++i) q.vf[i] = dbl(w[k++]);
      q.gamma = dbl(w[k++]);
      for (int i = 0; i < 3; ++i) q.w[i] = dbl(w[k++]);
      const HLLCRiemannSolver &h = hsolver(q.gamma);
      const ExactRiemannSolver &e = esolver(q.gamma);
      const Flux fh = flux_of(h, q);
      const Flux fx = flux_of(e, q);
      double Sgap;
      const int coarse = hllc_coarse(h, q, Sgap);
      // flag of the exact solver in the face frame
      const CoordinateVector<> uLface = cv(q.uL) - cv(q.vf);
      const CoordinateVector<> uRface = cv(q.uR) - cv(q.vf);
      const double vL = CoordinateVector<>::dot_product(uLface, cv(q.n));
      const double vR = CoordinateVector<>::dot_product(uRface, cv(q.n));
      double rs, us, Ps;
      const int xflag = e.solve(q.rhoL, vL, q.PL, q.rhoR, vR, q.PR, rs, us, Ps);
      std::cout << "F " << coarse << " " << showFlux(fh) << " X " << xflag << " " << showFlux(fx)
                << "\n";

      // ---------------- property oracles on the implementation ----------------
      // (kind d: one state in the subnormal range, 300 decades below the other: outside the
      //  stated domain, correspondence only)
      if (w[0] == "d") continue;
      const Scale sc = flux_scale(q);
      if (!finite_flux(fh)) bad << " hllc-flux-not-finite";
      if (!finite_flux(fx)) bad << " exact-flux-not-finite";
      if (!(rs >= 0.) || !(Ps >= 0.) || !std::isfinite(rs) || !std::isfinite(Ps) ||
          !std::isfinite(us))
        bad << " exact-sample-unphysical";
      // mirror antisymmetry
      {
        const In qm = mirror_in(q);
        const double dh = flux_dist(flux_of(h, qm), neg_flux(fh), sc);
        if (!(dh <= TOL_H_MIRROR)) bad << " hllc-mirror(" << dh << ")";
        const double dx = flux_dist(flux_of(e, qm), neg_flux(fx), sc);
        if (!(dx <= TOL_X_MIRROR)) bad << " exact-mirror(" << dx << ")";
      }
      // Galilean covariance (not on deliberate ties: a boost moves them off the switch)
      if (w[0] != "t") {
        const In qb = boost_in(q);
        const Scale sb = flux_scale(q, true);
        const double dh = flux_dist(flux_of(h, qb), boost_flux(fh, q.w), sb);
        if (!(dh <= TOL_H_GAL)) bad << " hllc-galilean(" << dh << ")";
        const double dx = flux_dist(flux_of(e, qb), boost_flux(fx, q.w), sb);
        if (!(dx <= TOL_X_GAL)) bad << " exact-galilean(" << dx << ")";
      }
      // identical states: analytic Euler flux
      if (q.rhoL == q.rhoR && q.PL == q.PR && q.uL[0] == q.uR[0] && q.uL[1] == q.uR[1] &&
          q.uL[2] == q.uR[2] && q.rhoL > 0. && q.PL > 0.) {
        const double g = std::max(q.gamma, 1.00000001);
        double uf[3];
        for (int i = 0; i < 3; ++i) uf[i] = q.uL[i] - q.vf[i];
        const double v = dot3(uf, q.n);
        Flux a;
        a.m = q.rhoL * v;
        for (int i = 0; i < 3; ++i) a.p[i] = q.rhoL * v * uf[i] + q.PL * q.n[i];
        a.e = (0.5 * q.rhoL * dot3(uf, uf) + q.PL / (g - 1.) + q.PL) * v;
        a = boost_flux(a, q.vf);
        const double dh = flux_dist(fh, a, sc);
        if (!(dh <= TOL_H_ID)) bad << " hllc-identical(" << dh << ")";
        const double dx = flux_dist(fx, a, sc);
        if (!(dx <= TOL_X_ID)) bad << " exact-identical(" << dx << ")";
      }
      // mirror-image states closing at less than 1.5 sound speeds (or receding): no mass and
      // no energy through the (resting) interface
      if (w[0] == "m") {
        const double eh = std::fabs(fh.e - dot3(q.vf, fh.p) + 0.5 * dot3(q.vf, q.vf) * fh.m);
        if (!(std::fabs(fh.m) <= TOL_H_NOEX * sc.m) || !(eh <= TOL_H_NOEX * sc.e))
          bad << " hllc-mirror-exchange(m=" << fh.m / sc.m << ",e=" << eh / sc.e << ")";
        const double ex = std::fabs(fx.e - dot3(q.vf, fx.p) + 0.5 * dot3(q.vf, q.vf) * fx.m);
        if (!(std::fabs(fx.m) <= TOL_X_ID * sc.m) || !(ex <= TOL_X_ID * sc.e))
          bad << " exact-mirror-exchange(m=" << fx.m / sc.m << ",e=" << ex / sc.e << ")";
      }
      // vacuum: the approximate solver returns the exact solver's flux
      {
        const bool vac = (q.rhoL == 0. || q.PL == 0. || q.rhoR == 0. || q.PR == 0.);
        const bool gen = coarse >= 31 && coarse <= 34 && w[0] != "t";
        if (vac || gen) {
          const double d = flux_dist(fh, fx, sc);
          if (!(d <= TOL_VAC)) bad << " hllc-vacuum-differs-from-exact(" << d << ")";
        }
      }
    } else if (w.size() == 10 && w[0] == "x") {
      const double g = dbl(w[1]), rhoL = dbl(w[2]), uL = dbl(w[3]), PL = dbl(w[4]),
                   rhoR = dbl(w[5]), uR = dbl(w[6]), PR = dbl(w[7]), dxdt = dbl(w[8]),
                   bw = dbl(w[9]);
      const ExactRiemannSolver &e = esolver(g);
      double r = std::nan(""), u = std::nan(""), P = std::nan("");
      const int flag = e.solve(rhoL, uL, PL, rhoR, uR, PR, r, u, P, dxdt);
      std::cout << "X " << flag << " " << showF(r) << " " << showF(u) << " " << showF(P) << "\n";
      if (!(r >= 0.) || !(P >= 0.) || !std::isfinite(r) || !std::isfinite(P) || !std::isfinite(u))
        bad << " exact-sample-unphysical";
      const double ge = std::max(g, 1.00000001);
      const double aL = (rhoL > 0. && PL > 0.) ? std::sqrt(ge * PL / rhoL) : 0.;
      const double aR = (rhoR > 0. && PR > 0.) ? std::sqrt(ge * PR / rhoR) : 0.;
      const double V = std::fabs(uL) + std::fabs(uR) + std::fabs(dxdt) + aL + aR + 1e-300;
      const double R = rhoL + rhoR + 1e-300, PP = PL + PR + 1e-300;
      {
        double r2, u2, P2;
        const int f2 = e.solve(rhoR, -uR, PR, rhoL, -uL, PL, r2, u2, P2, -dxdt);
        if (!(std::fabs(r2 - r) <= TOL_X_GAL * R) || !(std::fabs(P2 - P) <= TOL_X_GAL * PP) ||
            !(std::fabs(u2 + u) <= TOL_X_GAL * V) || (r > TOL_X_GAL * R && f2 != -flag))
          bad << " exact-sample-mirror(" << (r2 - r) / R << "," << (u2 + u) / V << ","
              << (P2 - P) / PP << ")";
      }
      {
        double r2, u2, P2;
        const int f2 = e.solve(rhoL, uL + bw, PL, rhoR, uR + bw, PR, r2, u2, P2, dxdt + bw);
        const double Vb = V + std::fabs(bw);
        // relative accuracy of the fan argument (u - dxdt)/a after the boost
        const double cond = Vb / (std::min(aL > 0. ? aL : INFINITY, aR > 0. ? aR : INFINITY));
        const double tol = TOL_X_GAL + 1e-13 * (std::isfinite(cond) ? cond : 0.) * 1e3;
        if (!(std::fabs(r2 - r) <= tol * R) || !(std::fabs(P2 - P) <= tol * PP) ||
            (flag != 0 && f2 != 0 && !(std::fabs(u2 - (u + bw)) <= tol * Vb)))
          bad << " exact-sample-galilean(" << (r2 - r) / R << "," << (u2 - u - bw) / Vb << ","
              << (P2 - P) / PP << ")";
      }
    } else if ((w.size() == 7 && (w[0] == "sr" || w[0] == "sl")) || (w.size() == 11 && w[0] == "sg")) {
      const double g = dbl(w[1]);
      const ExactRiemannSolver &e = esolver(g);
      const HLLCRiemannSolver &h = hsolver(g);
      double r = std::nan(""), u = r, P = r, r2 = r, u2 = r, P2 = r;
      int fe, fh;
      if (w[0] == "sr") {
        fe = e.sample_right_vacuum(dbl(w[2]), dbl(w[3]), dbl(w[4]), dbl(w[5]), r, u, P, dbl(w[6]));
        fh = h.sample_right_vacuum(dbl(w[2]), dbl(w[3]), dbl(w[4]), dbl(w[5]), r2, u2, P2);
      } else if (w[0] == "sl") {
        fe = e.sample_left_vacuum(dbl(w[2]), dbl(w[3]), dbl(w[4]), dbl(w[5]), r, u, P, dbl(w[6]));
        fh = h.sample_left_vacuum(dbl(w[2]), dbl(w[3]), dbl(w[4]), dbl(w[5]), r2, u2, P2);
      } else {
        fe = e.sample_vacuum_generation(dbl(w[2]), dbl(w[3]), dbl(w[4]), dbl(w[5]), dbl(w[6]),
                                        dbl(w[7]), dbl(w[8]), dbl(w[9]), r, u, P, dbl(w[10]));
        fh = h.sample_vacuum_generation(dbl(w[2]), dbl(w[3]), dbl(w[4]), dbl(w[5]), dbl(w[6]),
                                        dbl(w[7]), dbl(w[8]), dbl(w[9]), r2, u2, P2);
      }
      std::cout << "S E " << fe << " " << showF(r) << " " << showF(u) << " " << showF(P) << " H "
                << fh << " " << showF(r2) << " " << showF(u2) << " " << showF(P2) << "\n";
      if (!(r >= 0.) || !(P >= 0.) || !std::isfinite(r) || !std::isfinite(P) || !std::isfinite(u))
        bad << " exact-sampler-unphysical";
      if (!(r2 >= 0.) || !(P2 >= 0.) || !std::isfinite(r2) || !std::isfinite(P2) ||
          !std::isfinite(u2))
        bad << " hllc-sampler-unphysical";
      // at dxdt = 0 the two solvers' samplers are the same function
      const double dxdt = dbl(w.back());
      if (dxdt == 0. && (fe != fh || r != r2 || u != u2 || P != P2))
        bad << " hllc-sampler-differs-from-exact";
    } else {
      std::cout << "bad-op\n";
    }
    if (!bad.str().empty())
      std::cout << "ORACLE line=" << lineno << bad.str() << "\n";
  }
  return 0;
}
