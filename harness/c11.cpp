// C11 harness: the real ExactRiemannSolver driven through the line protocol.
//
//   consts g                                  the ten derived constants of the constructor
//   fb g rho P pstar                          fb, fprimeb, gb for one state
//   guess g rhoL uL PL rhoR uR PR             guess_P
//   brent g rhoL uL PL rhoR uR PR Plow Phigh  solve_brent on the real pressure function
//   solve g rhoL uL PL rhoR uR PR dxdt        ExactRiemannSolver::solve -> flag rho u P
//   solvex ...                                the same without the reference oracle (out-of-domain extremes)
//
// (all doubles as decimal bit patterns; answers are compared with the Lean Float model).
//
// For every `solve` line the property itself is evaluated on the implementation's answer with an
// INDEPENDENT reference solver in __float128 written from Toro, "Riemann Solvers and Numerical
// Methods for Fluid Dynamics", ch. 4 (pressure function 4.5-4.7, sampling 4.5, vacuum 4.6):
// sampled state = reference solution (either side accepted next to a discontinuity), pressure
// equation residual of the returned star pressure, Rankine-Hugoniot residuals of star states
// behind shocks, isentropic relation / Riemann invariant / characteristic relation inside
// fans and behind rarefactions.  Failures are printed as `ORACLE line=<n> ...` lines.
// This is a SEARCH oracle, not a proof.
#include "common.hpp"
#include <csetjmp>
#include <csignal>
#include <quadmath.h>
#define private public
#include "ExactRiemannSolver.hpp"
#undef private

typedef __float128 Q;
static inline Q q(double x) { return (Q)x; }
static inline Q qabs(Q x) { return x < 0 ? -x : x; }
static inline Q qmax(Q a, Q b) { return a < b ? b : a; }
static std::string qs(Q x) {
  char buf[64];
  quadmath_snprintf(buf, sizeof buf, "%.12Qe", x);
  return buf;
}

// ---------------------------------------------------------------- reference solver (Toro ch. 4)
struct RefState {
  Q rho, u, P;
  int flag;   // -1 left of the contact, 1 right of it, 0 vacuum
  int region; // 1 L state, 2 L fan, 3 L star (rarefaction), 4 L star (shock), 5 R star (shock),
              // 6 R star (rarefaction), 7 R fan, 8 R state, 9 vacuum
};

struct Ref {
  Q g, rL, uL, pL, rR, uR, pR, aL, aR;
  bool vacL, vacR, vacGen;
  Q pstar, ustar;

  // Toro (4.6), (4.7): f_K
  Q fK(Q p, Q rK, Q pK, Q aK) const {
    if (p > pK) {
      const Q A = 2 / ((g + 1) * rK), B = (g - 1) / (g + 1) * pK;
      return (p - pK) * sqrtq(A / (p + B));
    }
    return 2 * aK / (g - 1) * (powq(p / pK, (g - 1) / (2 * g)) - 1);
  }
  // Toro (4.37): f_K'
  Q dfK(Q p, Q rK, Q pK, Q aK) const {
    if (p > pK) {
      const Q A = 2 / ((g + 1) * rK), B = (g - 1) / (g + 1) * pK;
      return sqrtq(A / (B + p)) * (1 - (p - pK) / (2 * (B + p)));
    }
    return 1 / (rK * aK) * powq(p / pK, -(g + 1) / (2 * g));
  }
  Q f(Q p) const { return fK(p, rL, pL, aL) + fK(p, rR, pR, aR) + (uR - uL); }
  Q df(Q p) const { return dfK(p, rL, pL, aL) + dfK(p, rR, pR, aR); }

  void init(double gd, double rl, double ul, double pl, double rr, double ur, double pr) {
    g = q(gd);
    rL = q(rl), uL = q(ul), pL = q(pl), rR = q(rr), uR = q(ur), pR = q(pr);
    vacL = (rl == 0. || pl == 0.);
    vacR = (rr == 0. || pr == 0.);
    aL = vacL ? 0 : sqrtq(g * pL / rL);
    aR = vacR ? 0 : sqrtq(g * pR / rR);
    vacGen = false;
    pstar = 0, ustar = 0;
    if (vacL || vacR)
      return;
    // pressure positivity condition, Toro (4.40)
    if (2 * aL / (g - 1) + 2 * aR / (g - 1) <= uR - uL) {
      vacGen = true;
      return;
    }
    // two-rarefaction solution, Toro (4.46)/(9.32): exact whenever it does not exceed min(pL, pR)
    // (it can be far below the smallest double, e.g. 1e-870: no bisection from 0 reaches it)
    {
      const Q z = (g - 1) / (2 * g);
      const Q ptr = powq((aL + aR - (g - 1) / 2 * (uR - uL)) / (aL / powq(pL, z) + aR / powq(pR, z)), 1 / z);
      if (ptr <= pL && ptr <= pR) {
        pstar = ptr;
        ustar = (uL + uR) / 2 + (fK(ptr, rR, pR, aR) - fK(ptr, rL, pL, aL)) / 2;
        return;
      }
    }
    // otherwise p* > min(pL, pR): f is increasing and concave; bracket, then safeguarded Newton
    Q lo = (pL < pR) ? pL : pR, hi = qmax(pL, pR);
    while (f(hi) < 0) {
      lo = hi;
      hi *= 2;
    }
    Q p = (lo + hi) / 2;
    for (int it = 0; it < 400; ++it) {
      const Q fp = f(p);
      if (fp == 0)
        break;
      if (fp < 0)
        lo = p;
      else
        hi = p;
      Q pn = p - fp / df(p);
      if (!(pn > lo && pn < hi))
        pn = (lo + hi) / 2;
      if (qabs(pn - p) <= q(1e-30) * (pn + p)) {
        p = pn;
        break;
      }
      p = pn;
    }
    pstar = p;
    ustar = (uL + uR) / 2 + (fK(p, rR, pR, aR) - fK(p, rL, pL, aL)) / 2;
  }

  RefState mk(Q r, Q u, Q p, int fl, int reg) const {
    RefState s;
    s.rho = r, s.u = u, s.P = p, s.flag = fl, s.region = reg;
    return s;
  }
  RefState fanL(Q S, int fl) const {
    const Q c = 2 / (g + 1) + (g - 1) / ((g + 1) * aL) * (uL - S);
    return mk(rL * powq(c, 2 / (g - 1)), 2 / (g + 1) * (aL + (g - 1) / 2 * uL + S),
              pL * powq(c, 2 * g / (g - 1)), fl, 2);
  }
  RefState fanR(Q S, int fl) const {
    const Q c = 2 / (g + 1) - (g - 1) / ((g + 1) * aR) * (uR - S);
    return mk(rR * powq(c, 2 / (g - 1)), 2 / (g + 1) * (-aR + (g - 1) / 2 * uR + S),
              pR * powq(c, 2 * g / (g - 1)), fl, 7);
  }
  // wave speeds (for the list of discontinuities / kinks)
  Q SL() const { return uL - aL * sqrtq((g + 1) / (2 * g) * pstar / pL + (g - 1) / (2 * g)); }
  Q SR() const { return uR + aR * sqrtq((g + 1) / (2 * g) * pstar / pR + (g - 1) / (2 * g)); }
  Q STL() const { return ustar - aL * powq(pstar / pL, (g - 1) / (2 * g)); }
  Q STR() const { return ustar + aR * powq(pstar / pR, (g - 1) / (2 * g)); }

  // speeds at which the reference solution has a jump or a kink
  void waves(std::vector< Q > &w) const {
    w.clear();
    if (vacL && vacR)
      return;
    if (vacR || vacGen) {
      w.push_back(uL - aL);
      w.push_back(uL + 2 * aL / (g - 1));
    }
    if (vacL || vacGen) {
      w.push_back(uR + aR);
      w.push_back(uR - 2 * aR / (g - 1));
    }
    if (vacL || vacR || vacGen)
      return;
    w.push_back(ustar);
    if (pstar > pL)
      w.push_back(SL());
    else {
      w.push_back(uL - aL);
      w.push_back(STL());
    }
    if (pstar > pR)
      w.push_back(SR());
    else {
      w.push_back(uR + aR);
      w.push_back(STR());
    }
  }

  RefState sample(Q S) const {
    if (vacL && vacR)
      return mk(0, 0, 0, 0, 9);
    if (vacR) { // Toro (4.77)-(4.79)
      if (S <= uL - aL)
        return mk(rL, uL, pL, -1, 1);
      if (S < uL + 2 * aL / (g - 1))
        return fanL(S, -1);
      return mk(0, 0, 0, 0, 9);
    }
    if (vacL) {
      if (S >= uR + aR)
        return mk(rR, uR, pR, 1, 8);
      if (S > uR - 2 * aR / (g - 1))
        return fanR(S, 1);
      return mk(0, 0, 0, 0, 9);
    }
    if (vacGen) { // Toro (4.82)
      const Q sl = uL + 2 * aL / (g - 1), sr = uR - 2 * aR / (g - 1);
      if (S <= sl)
        return (S <= uL - aL) ? mk(rL, uL, pL, -1, 1) : fanL(S, -1);
      if (S >= sr)
        return (S >= uR + aR) ? mk(rR, uR, pR, 1, 8) : fanR(S, 1);
      return mk(0, 0, 0, 0, 9);
    }
    if (S <= ustar) { // left of the contact, Toro fig. 4.14
      if (pstar > pL) {
        if (S <= SL())
          return mk(rL, uL, pL, -1, 1);
        const Q x = pstar / pL, k = (g - 1) / (g + 1);
        return mk(rL * (x + k) / (k * x + 1), ustar, pstar, -1, 4);
      }
      if (S <= uL - aL)
        return mk(rL, uL, pL, -1, 1);
      if (S > STL())
        return mk(rL * powq(pstar / pL, 1 / g), ustar, pstar, -1, 3);
      return fanL(S, -1);
    }
    if (pstar > pR) {
      if (S >= SR())
        return mk(rR, uR, pR, 1, 8);
      const Q x = pstar / pR, k = (g - 1) / (g + 1);
      return mk(rR * (x + k) / (k * x + 1), ustar, pstar, 1, 5);
    }
    if (S >= uR + aR)
      return mk(rR, uR, pR, 1, 8);
    if (S < STR())
      return mk(rR * powq(pstar / pR, 1 / g), ustar, pstar, 1, 6);
    return fanR(S, 1);
  }
};

// ---------------------------------------------------------------- oracle
static bool closeQ(Q x, Q ref, Q rel, Q absfloor) { return qabs(x - ref) <= rel * qabs(ref) + absfloor; }

struct Tol {
  Q rel, rhoabs, uabs, pabs;
};

static bool numVac(Q rho, Q P, const Tol &t) { return rho <= t.rhoabs && P <= t.pabs; }

static bool matches(const RefState &r, int flag, Q rho, Q u, Q P, const Tol &t) {
  // both numerically vacuum (e.g. a star pressure far below the smallest double): the side flag
  // and the velocity carry no information
  if (numVac(r.rho, r.P, t) && numVac(rho, P, t))
    return true;
  if (r.flag != flag)
    return false;
  return closeQ(rho, r.rho, t.rel, t.rhoabs) && closeQ(u, r.u, t.rel, t.uabs) &&
         closeQ(P, r.P, t.rel, t.pabs);
}

// next to a wave (position known to ~1e-8 of the velocity scale only): every component must lie
// in the envelope of the reference solution over [S - delta, S + delta] (the candidates are the
// reference at S, S +- delta and on both sides of every reference wave inside that window)
static bool matchesEnvelope(const std::vector< RefState > &c, int flag, Q rho, Q u, Q P, const Tol &t) {
  bool flagOk = false, anyVac = false;
  Q rlo = c[0].rho, rhi = c[0].rho, plo = c[0].P, phi = c[0].P, ulo = c[0].u, uhi = c[0].u;
  for (size_t i = 0; i < c.size(); ++i) {
    flagOk = flagOk || (c[i].flag == flag);
    anyVac = anyVac || (c[i].region == 9);
    if (c[i].rho < rlo) rlo = c[i].rho;
    if (c[i].rho > rhi) rhi = c[i].rho;
    if (c[i].P < plo) plo = c[i].P;
    if (c[i].P > phi) phi = c[i].P;
    if (c[i].u < ulo) ulo = c[i].u;
    if (c[i].u > uhi) uhi = c[i].u;
  }
  if (!flagOk)
    return false;
  if (!(rho >= rlo - (t.rel * qabs(rlo) + t.rhoabs) && rho <= rhi + (t.rel * qabs(rhi) + t.rhoabs)))
    return false;
  if (!(P >= plo - (t.rel * qabs(plo) + t.pabs) && P <= phi + (t.rel * qabs(phi) + t.pabs)))
    return false;
  if (anyVac || numVac(rho, P, t))
    return true; // the velocity of a vacuum is meaningless (the code returns 0)
  return u >= ulo - (t.rel * qabs(ulo) + t.uabs) && u <= uhi + (t.rel * qabs(uhi) + t.uabs);
}

static void oracle(uint64_t lineno, const Ref &R, double xd, int flag, double rhod, double ud,
                   double Pd) {
  const Q S = q(xd), rho = q(rhod), u = q(ud), P = q(Pd);
  const Q g = R.g, n = 2 / (g - 1);
  const Q vscale = qmax(qmax(qabs(R.uL), qabs(R.uR)), qmax(R.aL, R.aR)) + qabs(S) * 0;
  const Q rscale = qmax(R.rL, R.rR), pscale = qmax(R.pL, R.pR);
  std::ostringstream bad;
  if (!(rhod == rhod) || !(ud == ud) || !(Pd == Pd) || rhod < 0. || Pd < 0. ||
      std::isinf(rhod) || std::isinf(ud) || std::isinf(Pd)) {
    // separate key for NaNs produced exactly at a vacuum front (pow of a base that rounding
    // made slightly negative)
    bool atFront = false;
    const Q eps = q(1.e-9) * (vscale + qabs(S));
    if (!R.vacL && qabs(S - (R.uL + n * R.aL)) <= eps)
      atFront = true;
    if (!R.vacR && qabs(S - (R.uR - n * R.aR)) <= eps)
      atFront = true;
    const bool uflow = !R.vacL && !R.vacR && !R.vacGen &&
                       R.pstar < q(1.e-300) * ((R.pL < R.pR) ? R.pL : R.pR);
    bad << (atFront ? " nan-at-vacuum-front" : uflow ? " star-pressure-underflow" : " non-physical-sample")
        << "(rho=" << rhod
        << " u=" << ud << " P=" << Pd << ")";
  } else {
    // the iteration stops at a relative pressure change of 5e-9 (Newton) or a bracket of
    // relative width 1e-8 (Brent): star quantities are good to ~1e-8, wave positions to
    // ~1e-8 of the velocity scale; powers with exponent ~ 2/(gamma-1) amplify that.
    Tol t;
    t.rel = q(2.e-7) * (1 + n);
    t.rhoabs = q(1.e-13) * (1 + n) * rscale;
    t.pabs = q(1.e-13) * (1 + n) * pscale;
    t.uabs = q(2.e-7) * (1 + n) * vscale;
    const Q delta = q(1.e-7) * (vscale + qabs(S));
    const RefState r0 = R.sample(S);
    std::vector< RefState > cand;
    cand.push_back(r0);
    cand.push_back(R.sample(S - delta));
    cand.push_back(R.sample(S + delta));
    std::vector< Q > ws;
    R.waves(ws);
    bool nearWave = false;
    for (size_t i = 0; i < ws.size(); ++i) {
      if (qabs(ws[i] - S) <= delta) {
        nearWave = true;
        const Q tiny = q(1.e-25) * (vscale + qabs(ws[i]));
        cand.push_back(R.sample(ws[i] - tiny));
        cand.push_back(R.sample(ws[i] + tiny));
      }
    }
    bool ok = matches(r0, flag, rho, u, P, t);
    if (!ok && nearWave)
      ok = matchesEnvelope(cand, flag, rho, u, P, t);
    if (!ok) {
      // separate key when the exact star pressure is not representable as a double
      const bool underflow = !R.vacL && !R.vacR && !R.vacGen &&
                             R.pstar < q(1.e-300) * ((R.pL < R.pR) ? R.pL : R.pR);
      bad << (underflow ? " star-pressure-underflow(flag=" : " sample-differs-from-reference(flag=")
           << flag << " rho=" << qs(rho) << " u=" << qs(u)
          << " P=" << qs(P) << " ; ref region " << r0.region << " flag=" << r0.flag
          << " rho=" << qs(r0.rho) << " u=" << qs(r0.u) << " P=" << qs(r0.P)
          << " pstar=" << qs(R.pstar) << " ustar=" << qs(R.ustar) << ")";
    } else if (!nearWave && !R.vacL && !R.vacR && !R.vacGen && rho > q(1.e-250) * rscale &&
               P > q(1.e-250) * pscale) {
      // (a star pressure that underflows the double range is a numerical vacuum: only the
      // comparison with the reference above, with its absolute floors, is meaningful there)
      // --- the sample lies well inside one region: relations that do not use the reference p*
      const Q velTol = q(1.e-6) * (1 + n) * vscale;
      const int reg = r0.region;
      if (reg >= 3 && reg <= 6) {
        // pressure equation at the returned star pressure, and the star velocity identity
        const Q res = R.f(P);
        const Q resTol = q(4.e-8) * P * R.df(P) +
                         q(1.e-12) * (n * (R.aL + R.aR) + qabs(R.uR - R.uL) + vscale);
        if (qabs(res) > resTol)
          bad << " pressure-equation-residual(" << qs(res) << " > " << qs(resTol) << ")";
        const Q uFromR = R.uR + R.fK(P, R.rR, R.pR, R.aR), uFromL = R.uL - R.fK(P, R.rL, R.pL, R.aL);
        if (qabs(u - uFromR) > velTol || qabs(u - uFromL) > velTol)
          bad << " star-velocity-identity(u=" << qs(u) << " uR+fR=" << qs(uFromR)
              << " uL-fL=" << qs(uFromL) << ")";
      }
      if (reg == 4 || reg == 5) {
        // Rankine-Hugoniot across the shock between the sampled star state and the state ahead
        const Q r0_ = (reg == 5) ? R.rR : R.rL, u0 = (reg == 5) ? R.uR : R.uL,
                p0 = (reg == 5) ? R.pR : R.pL;
        if (qabs(rho - r0_) > q(1.e-6) * r0_) {
          const Q Ssh = (rho * u - r0_ * u0) / (rho - r0_); // from mass conservation
          const Q m1 = rho * (u - Ssh) * (u - Ssh) + P, m0 = r0_ * (u0 - Ssh) * (u0 - Ssh) + p0;
          const Q h1 = g / (g - 1) * P / rho + (u - Ssh) * (u - Ssh) / 2,
                  h0 = g / (g - 1) * p0 / r0_ + (u0 - Ssh) * (u0 - Ssh) / 2;
          const Q amp = 1 + r0_ / qabs(rho - r0_) + rho / qabs(rho - r0_);
          if (qabs(m1 - m0) > q(1.e-6) * amp * (qabs(m1) + qabs(m0)))
            bad << " rankine-hugoniot-momentum(" << qs(m1) << " vs " << qs(m0) << ")";
          if (qabs(h1 - h0) > q(1.e-6) * amp * (qabs(h1) + qabs(h0)))
            bad << " rankine-hugoniot-energy(" << qs(h1) << " vs " << qs(h0) << ")";
          const Q Sref = (reg == 5) ? R.SR() : R.SL();
          if (qabs(Ssh - Sref) > q(1.e-6) * amp * (1 + n) * (vscale + qabs(Sref)))
            bad << " shock-speed(" << qs(Ssh) << " vs " << qs(Sref) << ")";
        }
      }
      if (reg == 2 || reg == 3 || reg == 6 || reg == 7) {
        const bool right = (reg >= 6);
        const Q r0_ = right ? R.rR : R.rL, u0 = right ? R.uR : R.uL, p0 = right ? R.pR : R.pL,
                a0 = right ? R.aR : R.aL;
        if (rho > 0 && P > 0) {
          // isentropic: P / rho^gamma constant;  generalised Riemann invariant
          const Q e1 = logq(P) - g * logq(rho), e0 = logq(p0) - g * logq(r0_);
          if (qabs(e1 - e0) > q(1.e-6) * (1 + n))
            bad << " not-isentropic(log K " << qs(e1) << " vs " << qs(e0) << ")";
          const Q a = sqrtq(g * P / rho);
          const Q i1 = right ? (u - n * a) : (u + n * a), i0 = right ? (u0 - n * a0) : (u0 + n * a0);
          if (qabs(i1 - i0) > q(1.e-6) * (1 + n) * (vscale + n * a0))
            bad << " riemann-invariant(" << qs(i1) << " vs " << qs(i0) << ")";
          if (reg == 2 || reg == 7) {
            const Q ch = right ? (u + a) : (u - a);
            if (qabs(ch - S) > q(1.e-6) * (1 + n) * (vscale + qabs(S)))
              bad << " fan-characteristic(" << qs(ch) << " vs " << qs(S) << ")";
          }
        }
      }
    }
  }
  if (!bad.str().empty())
    std::cout << "ORACLE line=" << lineno << bad.str() << "\n";
}

// ---------------------------------------------------------------- plumbing
struct Side {
  double rhoinv, Pinv, a, afac, A, B, rhoainv;
};
// the per-state quantities exactly as `solve` computes them (lines 883-929)
static Side side(const ExactRiemannSolver &s, double rho, double P) {
  Side x;
  x.rhoinv = 1. / rho;
  x.Pinv = 1. / P;
  x.a = s.get_soundspeed(x.rhoinv, P);
  x.afac = s._tdgm1 * x.a;
  x.A = s._tdgp1 * x.rhoinv;
  x.B = s._gm1dgp1 * P;
  x.rhoainv = 1. / (rho * x.a);
  return x;
}

static sigjmp_buf g_jmp;
static volatile sig_atomic_t g_armed = 0;
static void on_abort(int) {
  if (g_armed)
    siglongjmp(g_jmp, 1);
}

int main() {
  std::signal(SIGABRT, on_abort);
  std::string line;
  uint64_t lineno = 0;
  Ref R;
  std::string refKey;
  while (std::getline(std::cin, line)) {
    ++lineno;
    auto w = words(line);
    if (w.empty()) {
      std::cout << "bad-op\n";
      continue;
    }
    if (w[0] == "consts" && w.size() == 2) {
      const ExactRiemannSolver s(dbl(w[1]));
      std::cout << "consts " << showF(s._gamma) << " " << showF(s._gp1d2g) << " "
                << showF(s._gm1d2g) << " " << showF(s._gm1dgp1) << " " << showF(s._tdgp1) << " "
                << showF(s._tdgm1) << " " << showF(s._gm1d2) << " " << showF(s._tgdgm1) << " "
                << showF(s._ginv) << " " << showF(s._gm1inv) << "\n";
    } else if (w[0] == "fb" && w.size() == 5) {
      const ExactRiemannSolver s(dbl(w[1]));
      const double rho = dbl(w[2]), P = dbl(w[3]), p = dbl(w[4]);
      const Side x = side(s, rho, P);
      std::cout << "fb " << showF(s.fb(P, x.A, x.B, x.Pinv, x.afac, p)) << " "
                << showF(s.fprimeb(P, x.A, x.B, x.Pinv, x.rhoainv, p)) << " "
                << showF(s.gb(x.A, x.B, p)) << "\n";
    } else if (w[0] == "guess" && w.size() == 8) {
      const ExactRiemannSolver s(dbl(w[1]));
      const double rhoL = dbl(w[2]), uL = dbl(w[3]), PL = dbl(w[4]), rhoR = dbl(w[5]),
                   uR = dbl(w[6]), PR = dbl(w[7]);
      const Side l = side(s, rhoL, PL), r = side(s, rhoR, PR);
      std::cout << "guess " << showF(s.guess_P(PL, l.a, l.A, l.B, PR, r.a, r.A, r.B, uR - uL))
                << "\n";
    } else if (w[0] == "brent" && w.size() == 10) {
      const ExactRiemannSolver s(dbl(w[1]));
      const double rhoL = dbl(w[2]), uL = dbl(w[3]), PL = dbl(w[4]), rhoR = dbl(w[5]),
                   uR = dbl(w[6]), PR = dbl(w[7]), lo = dbl(w[8]), hi = dbl(w[9]);
      const Side l = side(s, rhoL, PL), r = side(s, rhoR, PR);
      const double udiff = uR - uL;
      const double flo = s.f(PL, l.A, l.B, l.Pinv, l.afac, PR, r.A, r.B, r.Pinv, r.afac, udiff, lo);
      const double fhi = s.f(PL, l.A, l.B, l.Pinv, l.afac, PR, r.A, r.B, r.Pinv, r.afac, udiff, hi);
      // cmac_error aborts: catch the abort so that the error branch can be compared as well
      g_armed = 1;
      if (sigsetjmp(g_jmp, 1) == 0) {
        const double p = s.solve_brent(PL, l.A, l.B, l.Pinv, l.afac, PR, r.A, r.B, r.Pinv, r.afac,
                                       udiff, lo, hi, flo, fhi);
        g_armed = 0;
        std::cout << "brent " << showF(p) << "\n";
        // bracket property on the implementation: the result lies in the initial bracket
        if (!(p >= std::min(lo, hi) && p <= std::max(lo, hi)))
          std::cout << "ORACLE line=" << lineno << " brent-result-outside-initial-bracket\n";
      } else {
        g_armed = 0;
        std::signal(SIGABRT, on_abort);
        std::cout << "brent error\n";
      }
    } else if ((w[0] == "solve" || w[0] == "solvex") && w.size() == 9) {
      const double g = dbl(w[1]);
      const ExactRiemannSolver s(g);
      const double rhoL = dbl(w[2]), uL = dbl(w[3]), PL = dbl(w[4]), rhoR = dbl(w[5]),
                   uR = dbl(w[6]), PR = dbl(w[7]), x = dbl(w[8]);
      double rho = -1., u = -1., P = -1.;
      const int flag = (int)s.solve(rhoL, uL, PL, rhoR, uR, PR, rho, u, P, x);
      std::cout << flag << " " << showF(rho) << " " << showF(u) << " " << showF(P) << "\n";
      std::string key;
      for (size_t i = 1; i < 8; ++i)
        key += w[i] + " ";
      if (w[0] == "solve") {
        if (key != refKey) {
          R.init(s._gamma, rhoL, uL, PL, rhoR, uR, PR);
          refKey = key;
        }
        oracle(lineno, R, x, flag, rho, u, P);
      }
    } else {
      std::cout << "bad-op\n";
    }
  }
  return 0;
}
