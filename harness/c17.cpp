// C17 harness: calls the real ExactGeometricTests routines on coordinates given as bit
// patterns.  One answer line per op line:
//   widths                       -> "widths <bits of int_orient3d> <bits of int_insphere>"
//   oe <12 patterns>             -> "oe <exact sign>"            (arbitrary patterns)
//   ie <15 patterns>             -> "ie <exact sign>"
//   o  <12 patterns in [1,2)>    -> "o <exact sign> <adaptive sign>"
//   i  <15 patterns in [1,2)>    -> "i <exact sign> <adaptive sign>"
//   m <pattern>                  -> "m <get_mantissa>"; oracle: for a double in [1,2) the value is
//                                   1 + mantissa / 2^52
//   box <anchor xyz, sides xyz, n generators xyz>
//                                -> "box <rescaled box anchor, sides> <rescaled tetrahedron> <rescaled
//                                   generators, each with its 6 wall copies>" as stored by the real NewVoronoiGrid constructor (compared
//                                   bit for bit with the Lean Float model of the same formulas); oracle:
//                                   every coordinate the cell construction hands to the predicates
//                                   (generators, box corners, tetrahedron vertices, wall copies) lies in
//                                   [1,2) and the rescaling is monotone per axis
//   grid <anchor xyz, sides xyz, n generators xyz>
//                                -> "grid <n> <#orient3d_adaptive> <#insphere_adaptive> <#exact> <#calls with a
//                                   coordinate outside [1,2)> <#calls with a wrong sign>": the whole Voronoi grid
//                                   is constructed by the tree's own NewVoronoiGrid / NewVoronoiCellConstructor
//                                   (compiled into this harness against an auditing ExactGeometricTests class);
//                                   oracle: every argument of every predicate call lies in [1,2), every returned
//                                   sign is the exact sign of the determinant of the ACTUAL doubles, cell volumes
//                                   sum to the box volume (no Lean model: implementation-level oracle)
// and, when the property itself fails on the implementation, lines
//   ORACLE line=<n> <what>
// (exact routine != sign of the determinant evaluated independently with unbounded integers by
// the Leibniz formula; adaptive != exact; a transposition of two points does not negate the
// answer; a cyclic permutation of three points changes it).
#include "common.hpp"
#include <algorithm>
#include <fstream>
#include <limits>
#include <map>
#include <boost/multiprecision/cpp_int.hpp>
#include <cfloat>
#include <climits>
#include <omp.h>
#include <signal.h>
#include <sys/wait.h>
#include <unistd.h>
#define private public
// the real class is compiled under the name ExactGeometricTests_real; the Voronoi construction
// (NewVoronoiCellConstructor.cpp / NewVoronoiGrid.cpp of the tree under test, included below into
// this translation unit) sees an auditing class ExactGeometricTests that records every predicate
// call it makes and forwards it to the real routine
#define ExactGeometricTests ExactGeometricTests_real
#include "ExactGeometricTests.hpp"
#undef ExactGeometricTests

typedef CoordinateVector<> CV;
typedef boost::multiprecision::cpp_int Z;

struct PredicateAudit {
  bool on = false;
  uint64_t norient = 0, ninsphere = 0, nexact = 0, noutside = 0, nwrong = 0;
  std::string first_outside, first_wrong;
  void reset() { *this = PredicateAudit(); }
};
static PredicateAudit audit;
static void audit_call(const char *name, const CV *p, size_t n, int returned);

class ExactGeometricTests {
public:
  inline static uint64_t get_mantissa(double value) {
    return ExactGeometricTests_real::get_mantissa(value);
  }
  inline static char orient3d_exact(const CV &a, const CV &b, const CV &c, const CV &d) {
    const char r = ExactGeometricTests_real::orient3d_exact(a, b, c, d);
    if (audit.on) {
      const CV p[4] = {a, b, c, d};
      ++audit.nexact;
      audit_call("orient3d_exact", p, 4, r);
    }
    return r;
  }
  inline static char orient3d_adaptive(const CV &a, const CV &b, const CV &c, const CV &d) {
    const char r = ExactGeometricTests_real::orient3d_adaptive(a, b, c, d);
    if (audit.on) {
      const CV p[4] = {a, b, c, d};
      ++audit.norient;
      audit_call("orient3d_adaptive", p, 4, r);
    }
    return r;
  }
  inline static char insphere_exact(const CV &a, const CV &b, const CV &c, const CV &d,
                                    const CV &e) {
    const char r = ExactGeometricTests_real::insphere_exact(a, b, c, d, e);
    if (audit.on) {
      const CV p[5] = {a, b, c, d, e};
      ++audit.nexact;
      audit_call("insphere_exact", p, 5, r);
    }
    return r;
  }
  inline static char insphere_adaptive(const CV &a, const CV &b, const CV &c, const CV &d,
                                       const CV &e) {
    const char r = ExactGeometricTests_real::insphere_adaptive(a, b, c, d, e);
    if (audit.on) {
      const CV p[5] = {a, b, c, d, e};
      ++audit.ninsphere;
      audit_call("insphere_adaptive", p, 5, r);
    }
    return r;
  }
};

#include "NewVoronoiGrid.hpp"
#undef private
// the construction code of the tree under test, calling the auditing class
#include "NewVoronoiCellConstructor.cpp"
#include "NewVoronoiGrid.cpp"

// ---- independent reference: unbounded integers, mantissa = low 52 bits of the pattern,
// determinants by the Leibniz formula (not the association of the code)
static Z mant_of(double v) { return Z(bits_of(v) & ((uint64_t(1) << 52) - 1)); }
static int sign_of(const Z &z) { return z > 0 ? 1 : (z < 0 ? -1 : 0); }
static Z leibniz3(const Z r[3][3]) {
  return r[0][0] * r[1][1] * r[2][2] + r[0][1] * r[1][2] * r[2][0] +
         r[0][2] * r[1][0] * r[2][1] - r[0][2] * r[1][1] * r[2][0] -
         r[0][1] * r[1][0] * r[2][2] - r[0][0] * r[1][2] * r[2][1];
}
static void diffs(const CV *p, size_t n, Z out[4][3]) {
  for (size_t i = 0; i + 1 < n; ++i) {
    out[i][0] = mant_of(p[i].x()) - mant_of(p[n - 1].x());
    out[i][1] = mant_of(p[i].y()) - mant_of(p[n - 1].y());
    out[i][2] = mant_of(p[i].z()) - mant_of(p[n - 1].z());
  }
}
static int ref_orient(const CV *p) {
  Z r[4][3];
  diffs(p, 4, r);
  Z m[3][3];
  for (int i = 0; i < 3; ++i)
    for (int j = 0; j < 3; ++j)
      m[i][j] = r[i][j];
  return sign_of(leibniz3(m));
}
// lifted 4x4 determinant, rows (x, y, z, x^2+y^2+z^2) of a-e, b-e, c-e, d-e, expanded along the
// last column: sum_i (-1)^(i+3) n_i * minor_i
static int ref_insphere(const CV *p) {
  Z r[4][3];
  diffs(p, 5, r);
  Z det = 0;
  for (int i = 0; i < 4; ++i) {
    Z m[3][3];
    int k = 0;
    for (int l = 0; l < 4; ++l) {
      if (l == i)
        continue;
      for (int j = 0; j < 3; ++j)
        m[k][j] = r[l][j];
      ++k;
    }
    const Z n = r[i][0] * r[i][0] + r[i][1] * r[i][1] + r[i][2] * r[i][2];
    const Z t = n * leibniz3(m);
    if ((i + 3) % 2 == 0)
      det += t;
    else
      det -= t;
  }
  return sign_of(det);
}

// ---- reference on the ACTUAL values of arbitrary finite doubles (not only their mantissas): every
// coordinate is m * 2^e exactly; all are brought to the smallest exponent that occurs
static void true_ints(const CV *p, size_t n, Z out[5][3]) {
  int emin = INT_MAX;
  int ex[5][3];
  int64_t mt[5][3];
  for (size_t i = 0; i < n; ++i)
    for (int c = 0; c < 3; ++c) {
      int e;
      const double f = std::frexp(p[i][c], &e);
      mt[i][c] = (int64_t)std::ldexp(f, 53);
      ex[i][c] = e - 53;
      if (mt[i][c] != 0 && ex[i][c] < emin)
        emin = ex[i][c];
    }
  for (size_t i = 0; i < n; ++i)
    for (int c = 0; c < 3; ++c)
      out[i][c] = (mt[i][c] == 0) ? Z(0) : (Z(mt[i][c]) << (ex[i][c] - emin));
}
static int true_sign(const CV *p, size_t n) {
  Z v[5][3], r[4][3];
  true_ints(p, n, v);
  for (size_t i = 0; i + 1 < n; ++i)
    for (int c = 0; c < 3; ++c)
      r[i][c] = v[i][c] - v[n - 1][c];
  if (n == 4) {
    Z m[3][3];
    for (int i = 0; i < 3; ++i)
      for (int j = 0; j < 3; ++j)
        m[i][j] = r[i][j];
    return sign_of(leibniz3(m));
  }
  Z det = 0;
  for (int i = 0; i < 4; ++i) {
    Z m[3][3];
    int k = 0;
    for (int l = 0; l < 4; ++l) {
      if (l == i)
        continue;
      for (int j = 0; j < 3; ++j)
        m[k][j] = r[l][j];
      ++k;
    }
    const Z nn = r[i][0] * r[i][0] + r[i][1] * r[i][1] + r[i][2] * r[i][2];
    const Z t = nn * leibniz3(m);
    if ((i + 3) % 2 == 0)
      det += t;
    else
      det -= t;
  }
  return sign_of(det);
}

static std::string show_call(const char *name, const CV *p, size_t n, int returned) {
  std::ostringstream o;
  o << name << "(";
  for (size_t i = 0; i < n; ++i) {
    char buf[120];
    std::snprintf(buf, sizeof buf, "%s[%.17g,%.17g,%.17g]", i ? "," : "", p[i].x(), p[i].y(),
                  p[i].z());
    o << buf;
  }
  o << ")=" << returned;
  return o.str();
}

// called for every predicate call made by the Voronoi construction
static void audit_call(const char *name, const CV *p, size_t n, int returned) {
  bool outside = false;
  for (size_t i = 0; i < n; ++i)
    for (int c = 0; c < 3; ++c)
      if (!(p[i][c] >= 1. && p[i][c] < 2.))
        outside = true;
  if (outside) {
    if (audit.noutside++ == 0)
      audit.first_outside = show_call(name, p, n, returned);
  }
  const int t = true_sign(p, n);
  if (t != returned) {
    if (audit.nwrong++ == 0)
      audit.first_wrong = show_call(name, p, n, returned) + "-but-exact-sign-is-" +
                          std::to_string(t);
  }
}

// grid op: construct the whole Voronoi grid with the real code, auditing every predicate call
static void grid_op(const CV &anchor, const CV &sides, const std::vector< CV > &pos,
                    std::ostringstream &bad) {
  const Box<> box(anchor, sides);
  audit.reset();
  audit.on = true;
  NewVoronoiGrid grid(pos, box);
  grid.compute_grid(1);
  audit.on = false;
  double vol = 0.;
  for (size_t i = 0; i < pos.size(); ++i)
    vol += grid.get_volume(i);
  const double bv = sides.x() * sides.y() * sides.z();
  std::cout << "grid " << pos.size() << " " << audit.norient << " " << audit.ninsphere << " "
            << audit.nexact << " " << audit.noutside << " " << audit.nwrong << "\n";
  if (audit.noutside)
    bad << " caller-passes-coordinate-outside-[1,2):" << audit.noutside << "-of-"
        << (audit.norient + audit.ninsphere + audit.nexact) << "-calls,first:"
        << audit.first_outside;
  if (audit.nwrong)
    bad << " predicate-sign-differs-in-grid-construction:" << audit.nwrong << "-of-"
        << (audit.norient + audit.ninsphere + audit.nexact) << "-calls,first:"
        << audit.first_wrong;
  if (!(std::fabs(vol / bv - 1.) < 1.e-6))
    bad << " grid-cell-volumes-do-not-sum-to-box-volume:rel-diff=" << (vol / bv - 1.);
}

static bool read_points(const std::vector< std::string > &w, size_t n, CV *p) {
  if (w.size() != 1 + 3 * n)
    return false;
  for (size_t i = 0; i < n; ++i)
    p[i] = CV(dbl(w[1 + 3 * i]), dbl(w[2 + 3 * i]), dbl(w[3 + 3 * i]));
  return true;
}

static int o_exact(const CV *p) {
  return ExactGeometricTests_real::orient3d_exact(p[0], p[1], p[2], p[3]);
}
static int o_adapt(const CV *p) {
  return ExactGeometricTests_real::orient3d_adaptive(p[0], p[1], p[2], p[3]);
}
static int i_exact(const CV *p) {
  return ExactGeometricTests_real::insphere_exact(p[0], p[1], p[2], p[3], p[4]);
}
static int i_adapt(const CV *p) {
  return ExactGeometricTests_real::insphere_adaptive(p[0], p[1], p[2], p[3], p[4]);
}

// all transpositions must negate, all 3-cycles must keep the answer of `f`
template < typename F >
static void perm_oracle(F f, const char *name, const CV *p, size_t n, int ref,
                        std::ostringstream &bad) {
  CV q[5];
  for (size_t i = 0; i < n; ++i) {
    for (size_t j = i + 1; j < n; ++j) {
      for (size_t k = 0; k < n; ++k)
        q[k] = p[k];
      q[i] = p[j];
      q[j] = p[i];
      const int r = f(q);
      if (r != -ref && bad.str().size() < 300)
        bad << " " << name << "-not-negated-by-swap(" << i << "," << j << ")=" << r
            << "(ref " << ref << ")";
    }
  }
  for (size_t i = 0; i < n; ++i) {
    for (size_t j = 0; j < n; ++j) {
      for (size_t l = 0; l < n; ++l) {
        if (i == j || j == l || i == l || !(i < j && i < l))
          continue;
        // cycle i -> j -> l -> i (each 3-cycle once: smallest index first)
        for (size_t k = 0; k < n; ++k)
          q[k] = p[k];
        q[j] = p[i];
        q[l] = p[j];
        q[i] = p[l];
        const int r = f(q);
        if (r != ref && bad.str().size() < 300)
          bad << " " << name << "-changed-by-cycle(" << i << "," << j << "," << l
              << ")=" << r << "(ref " << ref << ")";
      }
    }
  }
}

// the precondition of the predicates as established by the Voronoi construction: constructs the
// real NewVoronoiGrid for the box with the given generators, prints what it stores (rescaled box
// anchor and sides, rescaled tetrahedron, rescaled generators; compared with the Lean Float model of
// the same formulas) and checks range and monotonicity of the rescaling
static void range_oracle(const CV &anchor, const CV &sides, const std::vector< CV > &pos,
                         std::ostringstream &bad) {
  const Box<> box(anchor, sides);
  NewVoronoiGrid grid(pos, box);
  const NewVoronoiBox &rb = grid._real_rescaled_box;
  const CV rba = rb._box.get_anchor();
  const CV rbs = rb._box.get_sides();
  std::cout << "box " << showF(rba.x()) << " " << showF(rba.y()) << " " << showF(rba.z()) << " "
            << showF(rbs.x()) << " " << showF(rbs.y()) << " " << showF(rbs.z());
  for (size_t k = 0; k < 4; ++k)
    for (int c = 0; c < 3; ++c)
      std::cout << " " << showF(rb._tetrahedron[k][c]);
  const uint_fast32_t wall_index[6] = {NEWVORONOICELL_BOX_LEFT,  NEWVORONOICELL_BOX_RIGHT,
                                       NEWVORONOICELL_BOX_FRONT, NEWVORONOICELL_BOX_BACK,
                                       NEWVORONOICELL_BOX_BOTTOM, NEWVORONOICELL_BOX_TOP};
  for (size_t i = 0; i < grid._real_rescaled_positions.size(); ++i) {
    for (int c = 0; c < 3; ++c)
      std::cout << " " << showF(grid._real_rescaled_positions[i][c]);
    // the six wall copies (real get_wall_copy through get_position) of the rescaled generator
    for (size_t wl = 0; wl < 6; ++wl) {
      const CV q = rb.get_position(wall_index[wl], grid._real_rescaled_positions[i]);
      for (int c = 0; c < 3; ++c)
        std::cout << " " << showF(q[c]);
    }
  }
  std::cout << "\n";
  // premises of the Lean theorems rescale_rounded_in_range / rescaled_box_in_range, evaluated on the
  // real (unscaled) tetrahedron: non-degenerate on every axis, box corners and generators between
  // its minimum and maximum of that axis
  {
    const NewVoronoiBox &vb = grid._real_voronoi_box;
    int np = 0;
    for (int c = 0; c < 3 && np < 2; ++c) {
      const double lo = vb._tetrahedron[0][c], hi = vb._tetrahedron[c + 1][c];
      if (!(lo < hi)) {
        ++np;
        bad << " rescale-premise-violated:tetrahedron-degenerate." << "xyz"[c];
      }
      if (!(lo <= anchor[c] && anchor[c] + sides[c] <= hi)) {
        ++np;
        bad << " rescale-premise-violated:box-outside-tetrahedron." << "xyz"[c];
      }
      for (size_t i = 0; i < pos.size() && np < 2; ++i)
        if (!(lo <= pos[i][c] && pos[i][c] <= hi)) {
          ++np;
          bad << " rescale-premise-violated:generator" << i << "-outside-tetrahedron."
              << "xyz"[c];
        }
    }
  }
  int nbad = 0, nmirror = 0;
  auto chk = [&](const char *what, size_t idx, int c, double v) {
    if (!(v >= 1. && v < 2.)) {
      ++nbad;
      if (nbad <= 3) {
        char buf[160];
        std::snprintf(buf, sizeof buf, " rescaled-coordinate-outside-[1,2):%s%zu.%c=%.17g", what,
                      idx, "xyz"[c], v);
        bad << buf;
      }
    }
  };
  for (size_t k = 0; k < 4; ++k)
    for (int c = 0; c < 3; ++c)
      chk("tetrahedron-corner", k, c, rb._tetrahedron[k][c]);
  for (int c = 0; c < 3; ++c) {
    chk("box-bottom-corner", 0, c, rba[c]);
    chk("box-top-corner", 0, c, rba[c] + rbs[c]);
  }
  const std::vector< CV > &rp = grid._real_rescaled_positions;
  for (size_t i = 0; i < rp.size(); ++i) {
    const CV &p = rp[i];
    for (int c = 0; c < 3; ++c)
      chk("generator", i, c, p[c]);
    const uint_fast32_t walls[6] = {NEWVORONOICELL_BOX_LEFT,  NEWVORONOICELL_BOX_RIGHT,
                                    NEWVORONOICELL_BOX_FRONT, NEWVORONOICELL_BOX_BACK,
                                    NEWVORONOICELL_BOX_BOTTOM, NEWVORONOICELL_BOX_TOP};
    for (size_t wl = 0; wl < 6; ++wl) {
      const CV q = rb.get_position(walls[wl], p);
      for (int c = 0; c < 3; ++c)
        chk("wall-copy-of-generator", i, c, q[c]);
      // the copy is the mirror image: the other two coordinates are untouched and the wall lies
      // half way between generator and copy (up to round off of coordinates of size < 2)
      const int ax = (int)(wl / 2);
      const double wall = (wl % 2 == 0) ? rba[ax] : rba[ax] + rbs[ax];
      bool mirror = std::fabs(0.5 * (q[ax] + p[ax]) - wall) <= 2.e-15;
      for (int c = 0; c < 3; ++c)
        if (c != ax && q[c] != p[c])
          mirror = false;
      if (!mirror && nmirror < 2) {
        ++nmirror;
        bad << " wall-copy-not-mirror-image:generator" << i << ".wall" << wl;
      }
    }
  }
  if (nbad > 3)
    bad << " (+" << (nbad - 3) << " more)";
  // monotone per axis: the order of the real coordinates is never reversed, the tetrahedron
  // encloses the box, the box encloses the generators
  int nmono = 0;
  for (int c = 0; c < 3 && nmono < 2; ++c) {
    for (size_t i = 0; i < rp.size() && nmono < 2; ++i) {
      for (size_t j = 0; j < rp.size() && nmono < 2; ++j)
        if (pos[i][c] < pos[j][c] && rp[i][c] > rp[j][c]) {
          ++nmono;
          bad << " rescaling-not-monotone:generators" << i << "," << j << "." << "xyz"[c];
        }
      if (pos[i][c] >= anchor[c] && rp[i][c] < rba[c]) {
        ++nmono;
        bad << " rescaling-not-monotone:generator" << i << "-below-box-bottom." << "xyz"[c];
      }
    }
    if (rb._tetrahedron[0][c] > rba[c] || rba[c] + rbs[c] > rb._tetrahedron[c + 1][c]) {
      ++nmono;
      bad << " rescaling-not-monotone:box-not-inside-tetrahedron." << "xyz"[c];
    }
  }
}

int main() {
  std::string line;
  uint64_t lineno = 0;
  CV p[5];
  while (std::getline(std::cin, line)) {
    ++lineno;
    auto w = words(line);
    std::ostringstream bad;
    if (w.empty()) {
      std::cout << "bad-op\n";
    } else if (w[0] == "widths") {
      std::cout << "widths "
                << std::numeric_limits< ExactGeometricTests_real::int_orient3d >::digits
                << " "
                << std::numeric_limits< ExactGeometricTests_real::int_insphere >::digits
                << "\n";
    } else if (w[0] == "box" && w.size() >= 10 && (w.size() - 1) % 3 == 0) {
      const size_t np = (w.size() - 1) / 3;
      std::vector< CV > q(np);
      for (size_t i = 0; i < np; ++i)
        q[i] = CV(dbl(w[1 + 3 * i]), dbl(w[2 + 3 * i]), dbl(w[3 + 3 * i]));
      range_oracle(q[0], q[1], std::vector< CV >(q.begin() + 2, q.end()), bad);
    } else if (w[0] == "grid" && w.size() >= 10 && (w.size() - 1) % 3 == 0) {
      const size_t np = (w.size() - 1) / 3;
      std::vector< CV > q(np);
      for (size_t i = 0; i < np; ++i)
        q[i] = CV(dbl(w[1 + 3 * i]), dbl(w[2 + 3 * i]), dbl(w[3 + 3 * i]));
      // in a child process with a time limit: a construction that is fed wrong predicate answers
      // may not terminate
      static int ntimeouts = 0;
      if (ntimeouts >= 3) {
        std::cout << "grid skipped\n";
        continue;
      }
      std::cout.flush();
      const pid_t child = fork();
      if (child == 0) {
        grid_op(q[0], q[1], std::vector< CV >(q.begin() + 2, q.end()), bad);
        if (!bad.str().empty())
          std::cout << "ORACLE line=" << lineno << bad.str() << "\n";
        std::cout.flush();
        _exit(0);
      }
      int status = 0;
      bool done = false;
      for (int tick = 0; tick < 1000 && !done; ++tick) {       // 10 s
        if (waitpid(child, &status, WNOHANG) == child)
          done = true;
        else
          usleep(10000);
      }
      if (!done) {
        kill(child, SIGKILL);
        waitpid(child, &status, 0);
        ++ntimeouts;
        std::cout << "grid timeout\n";
        bad << " grid-construction-does-not-terminate:killed-after-10s";
      } else if (!(WIFEXITED(status) && WEXITSTATUS(status) == 0)) {
        std::cout << "grid crashed\n";
        bad << " grid-construction-crashed:status=" << status;
      }
    } else if (w[0] == "m" && w.size() == 2) {
      const double d = dbl(w[1]);
      const uint64_t mt = ExactGeometricTests_real::get_mantissa(d);
      std::cout << "m " << mt << "\n";
      // for a double in [1,2): value = 1 + mantissa / 2^52 (exact in double arithmetic)
      if (d >= 1. && d < 2. && !(1. + std::ldexp((double)mt, -52) == d))
        bad << " mantissa-does-not-give-value:" << mt;
      if (mt >> 52)
        bad << " mantissa-wider-than-52-bits:" << mt;
    } else if (w[0] == "oe" && read_points(w, 4, p)) {
      const int e = o_exact(p);
      std::cout << "oe " << e << "\n";
      if (e != ref_orient(p))
        bad << " orient-exact=" << e << "-differs-from-determinant-sign=" << ref_orient(p);
      perm_oracle(o_exact, "orient-exact", p, 4, e, bad);
    } else if (w[0] == "ie" && read_points(w, 5, p)) {
      const int e = i_exact(p);
      std::cout << "ie " << e << "\n";
      if (e != ref_insphere(p))
        bad << " insphere-exact=" << e << "-differs-from-determinant-sign=" << ref_insphere(p);
      perm_oracle(i_exact, "insphere-exact", p, 5, e, bad);
    } else if (w[0] == "o" && read_points(w, 4, p)) {
      const int e = o_exact(p);
      const int a = o_adapt(p);
      std::cout << "o " << e << " " << a << "\n";
      if (e != ref_orient(p))
        bad << " orient-exact=" << e << "-differs-from-determinant-sign=" << ref_orient(p);
      if (a != e)
        bad << " orient-adaptive=" << a << "-differs-from-exact=" << e;
      perm_oracle(o_exact, "orient-exact", p, 4, e, bad);
      perm_oracle(o_adapt, "orient-adaptive", p, 4, e, bad);
    } else if (w[0] == "i" && read_points(w, 5, p)) {
      const int e = i_exact(p);
      const int a = i_adapt(p);
      std::cout << "i " << e << " " << a << "\n";
      if (e != ref_insphere(p))
        bad << " insphere-exact=" << e << "-differs-from-determinant-sign=" << ref_insphere(p);
      if (a != e)
        bad << " insphere-adaptive=" << a << "-differs-from-exact=" << e;
      perm_oracle(i_exact, "insphere-exact", p, 5, e, bad);
      perm_oracle(i_adapt, "insphere-adaptive", p, 5, e, bad);
    } else {
      std::cout << "bad-op\n";
    }
    if (!bad.str().empty())
      std::cout << "ORACLE line=" << lineno << bad.str() << "\n";
  }
  return 0;
}
