// C12 translator by evaluation: the keys `DensityGridWriterFields` accepts, obtained by calling the
// real static functions of the current tree (so #ifdef'd fields, renamed fields and new ions move
// the run matrix with them).
// output:  field <index> <name> <single|ion|heating> <hydro 0|1> <scalar|vector> <default flag without hydro> <default flag with hydro>
//          ion <index> <name>        heating <index> <name>
#include "common.hpp"
#include "DensityGridWriterFields.hpp"

int main() {
  for (int_fast32_t p = 0; p < DENSITYGRIDFIELD_NUMBER; ++p) {
    std::cout << "field " << p << " " << DensityGridWriterFields::get_name(p) << " "
              << (DensityGridWriterFields::is_ion_property(p)
                      ? "ion"
                      : DensityGridWriterFields::is_heating_property(p) ? "heating" : "single")
              << " " << (DensityGridWriterFields::is_hydro_property(p) ? 1 : 0) << " "
              << (DensityGridWriterFields::get_type(p) == DENSITYGRIDFIELDTYPE_VECTOR_DOUBLE
                      ? "vector"
                      : "scalar")
              << " " << DensityGridWriterFields::default_flag(p, false) << " "
              << DensityGridWriterFields::default_flag(p, true) << "\n";
  }
  for (int_fast32_t i = 0; i < NUMBER_OF_IONNAMES; ++i) {
    std::cout << "ion " << i << " " << get_ion_name(i) << "\n";
  }
  for (int_fast32_t i = 0; i < NUMBER_OF_HEATINGTERMS; ++i) {
    std::cout << "heating " << i << " " << get_ion_name(i) << "\n";
  }
  return 0;
}
