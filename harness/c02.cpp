// C02 harness: drives the real DensitySubGrid::interact through the line protocol.
//   blk  ax ay az sx sy sz nx ny nz      -> new DensitySubGrid(box, ncell)
//   cells m mul add (n xH xHe){m}         -> cell c gets palette entry ((c*mul+add) % m)
//   pkt  px py pz dx dy dz tau sH sHe sX w nu inDir id ex     -> interact
//   prp  (same fields)                                          -> propagate
//   cod  (same fields)                                          -> compute_optical_depth
//        (id: serial number, ignored; ex = 1: the generator guarantees that every geometric
//         operation of this packet is exact in doubles -> the oracle applies no tolerance)
// One answer line per op line (compared with the Lean model), plus "ORACLE line=<n> ..." lines
// when the property itself fails on the implementation.  The oracle uses an independent
// reference (slab method per cell in long double, a hand-written face table), not the code's
// own tables.
#include "common.hpp"
#include <algorithm>
#define private public
#define protected public
#include "DensitySubGrid.hpp"
#undef private
#undef protected

struct VisitRec {
  int_fast32_t cell;
  double absorption[NUMBER_OF_IONNAMES];
};
static std::vector< VisitRec > visit_log;

// a tracker on every cell records the order of the calls of update_intensity_counters
class RecTracker : public Tracker {
public:
  int_fast32_t _cell;
  RecTracker(int_fast32_t cell) : _cell(cell) {}
  virtual Tracker *duplicate() { return new RecTracker(_cell); }
  virtual void merge(Tracker *) {}
  virtual void count_photon(const Photon &) {}
  virtual void count_photon(const PhotonPacket &, const double *absorption) {
    VisitRec r;
    r.cell = _cell;
    for (int i = 0; i < NUMBER_OF_IONNAMES; ++i)
      r.absorption[i] = absorption[i];
    visit_log.push_back(r);
  }
  virtual void output_tracker(const std::string) const {}
};

// where on the box a classification sits: -1 lower face, +1 upper face, 0 not fixed
static void face_table(int off[TRAVELDIRECTION_NUMBER][3]) {
  for (int d = 0; d < TRAVELDIRECTION_NUMBER; ++d)
    off[d][0] = off[d][1] = off[d][2] = 99;
#define SET(D, X, Y, Z)                                                        \
  off[D][0] = X;                                                               \
  off[D][1] = Y;                                                               \
  off[D][2] = Z;
  SET(TRAVELDIRECTION_INSIDE, 0, 0, 0)
  SET(TRAVELDIRECTION_CORNER_PPP, 1, 1, 1)
  SET(TRAVELDIRECTION_CORNER_PPN, 1, 1, -1)
  SET(TRAVELDIRECTION_CORNER_PNP, 1, -1, 1)
  SET(TRAVELDIRECTION_CORNER_PNN, 1, -1, -1)
  SET(TRAVELDIRECTION_CORNER_NPP, -1, 1, 1)
  SET(TRAVELDIRECTION_CORNER_NPN, -1, 1, -1)
  SET(TRAVELDIRECTION_CORNER_NNP, -1, -1, 1)
  SET(TRAVELDIRECTION_CORNER_NNN, -1, -1, -1)
  SET(TRAVELDIRECTION_EDGE_X_PP, 0, 1, 1)
  SET(TRAVELDIRECTION_EDGE_X_PN, 0, 1, -1)
  SET(TRAVELDIRECTION_EDGE_X_NP, 0, -1, 1)
  SET(TRAVELDIRECTION_EDGE_X_NN, 0, -1, -1)
  SET(TRAVELDIRECTION_EDGE_Y_PP, 1, 0, 1)
  SET(TRAVELDIRECTION_EDGE_Y_PN, 1, 0, -1)
  SET(TRAVELDIRECTION_EDGE_Y_NP, -1, 0, 1)
  SET(TRAVELDIRECTION_EDGE_Y_NN, -1, 0, -1)
  SET(TRAVELDIRECTION_EDGE_Z_PP, 1, 1, 0)
  SET(TRAVELDIRECTION_EDGE_Z_PN, 1, -1, 0)
  SET(TRAVELDIRECTION_EDGE_Z_NP, -1, 1, 0)
  SET(TRAVELDIRECTION_EDGE_Z_NN, -1, -1, 0)
  SET(TRAVELDIRECTION_FACE_X_P, 1, 0, 0)
  SET(TRAVELDIRECTION_FACE_X_N, -1, 0, 0)
  SET(TRAVELDIRECTION_FACE_Y_P, 0, 1, 0)
  SET(TRAVELDIRECTION_FACE_Y_N, 0, -1, 0)
  SET(TRAVELDIRECTION_FACE_Z_P, 0, 0, 1)
  SET(TRAVELDIRECTION_FACE_Z_N, 0, 0, -1)
#undef SET
}

int main() {
  int off[TRAVELDIRECTION_NUMBER][3];
  face_table(off);
  DensitySubGrid *grid = nullptr;
  std::vector< RecTracker * > trackers;
  double box[6] = {0., 0., 0., 1., 1., 1.};
  int_fast32_t nc[3] = {1, 1, 1};
  int_fast32_t ntot = 0;
  std::string line;
  uint64_t lineno = 0;
  while (std::getline(std::cin, line)) {
    ++lineno;
    auto w = words(line);
    if (w.empty()) {
      std::cout << "bad-op\n";
      continue;
    }
    if (w[0] == "blk" && w.size() == 10) {
      for (auto t : trackers)
        delete t;
      trackers.clear();
      delete grid;
      for (int i = 0; i < 6; ++i)
        box[i] = dbl(w[1 + i]);
      for (int i = 0; i < 3; ++i)
        nc[i] = (int_fast32_t)u64(w[7 + i]);
      grid = new DensitySubGrid(box, CoordinateVector< int_fast32_t >(nc[0], nc[1], nc[2]));
      ntot = nc[0] * nc[1] * nc[2];
      for (int_fast32_t c = 0; c < ntot; ++c) {
        trackers.push_back(new RecTracker(c));
        grid->_ionization_variables[c].add_tracker(trackers.back());
      }
      std::cout << "blk cs=" << showF(grid->_cell_size[0]) << " " << showF(grid->_cell_size[1])
                << " " << showF(grid->_cell_size[2]) << " inv=" << showF(grid->_inv_cell_size[0])
                << " " << showF(grid->_inv_cell_size[1]) << " " << showF(grid->_inv_cell_size[2])
                << "\n";
    } else if (w[0] == "cells" && w.size() >= 4 && grid) {
      const size_t m = u64(w[1]);
      const uint64_t mul = u64(w[2]), add = u64(w[3]);
      if (m == 0 || w.size() != 4 + 3 * m) {
        std::cout << "bad-op\n";
        continue;
      }
      for (int_fast32_t c = 0; c < ntot; ++c) {
        const size_t k = ((uint64_t)c * mul + add) % m;
        IonizationVariables &iv = grid->_ionization_variables[c];
        iv.set_number_density(dbl(w[4 + 3 * k]));
        for (int ion = 0; ion < NUMBER_OF_IONNAMES; ++ion)
          iv.set_ionic_fraction(ion, 0.37);
        iv.set_ionic_fraction(ION_H_n, dbl(w[5 + 3 * k]));
        iv.set_ionic_fraction(ION_He_n, dbl(w[6 + 3 * k]));
      }
      // the counters accumulate over the packets that follow (until the next cells line)
      for (int_fast32_t c = 0; c < ntot; ++c)
        grid->_ionization_variables[c].reset_mean_intensities();
      std::cout << "cells " << m << "\n";
    } else if ((w[0] == "pkt" || w[0] == "prp" || w[0] == "cod") && w.size() == 16 && grid) {
      // 0: interact, 1: propagate, 2: compute_optical_depth
      const int mode = w[0] == "pkt" ? 0 : (w[0] == "prp" ? 1 : 2);
      const double p0[3] = {dbl(w[1]), dbl(w[2]), dbl(w[3])};
      const double dir[3] = {dbl(w[4]), dbl(w[5]), dbl(w[6])};
      const double tau_target = dbl(w[7]);
      const double sH = dbl(w[8]), sHe = dbl(w[9]), sX = dbl(w[10]);
      const double weight = dbl(w[11]), nu = dbl(w[12]);
      const int_fast32_t in_dir = (int_fast32_t)u64(w[13]);
      const bool exact = u64(w[15]) == 1;
      if (in_dir < 0 || in_dir >= TRAVELDIRECTION_NUMBER) {
        std::cout << "bad-op\n";
        continue;
      }
      // ion used for the "other ion" estimator and ion with unit cross section (path probe)
      const int ionX = 2, ionP = NUMBER_OF_IONNAMES - 1;
      // snapshot of all counters before the call (they are NOT reset between packets: every
      // increment lands on what the earlier packets of the group left behind)
      const int NCTR = NUMBER_OF_IONNAMES + NUMBER_OF_HEATINGTERMS;
      std::vector< double > before((size_t)ntot * NCTR);
      for (int_fast32_t c = 0; c < ntot; ++c) {
        const IonizationVariables &iv = grid->_ionization_variables[c];
        for (int ion = 0; ion < NUMBER_OF_IONNAMES; ++ion)
          before[(size_t)c * NCTR + ion] = iv.get_mean_intensity(ion);
        for (int h = 0; h < NUMBER_OF_HEATINGTERMS; ++h)
          before[(size_t)c * NCTR + NUMBER_OF_IONNAMES + h] = iv.get_heating(h);
      }
      visit_log.clear();
      PhotonPacket photon;
      photon.set_position(CoordinateVector<>(p0[0], p0[1], p0[2]));
      // not set_direction(): that one renormalises; the model gets exactly these doubles
      photon.get_direction() = CoordinateVector<>(dir[0], dir[1], dir[2]);
      photon.set_target_optical_depth(tau_target);
      photon.set_weight(weight);
      photon.set_energy(nu);
      photon.set_type(PHOTONTYPE_PRIMARY);
      photon.set_scatter_counter(0);
      // other ions: sX scaled by exact powers of two (so that every ion is distinguishable and
      // the expected increments are exact multiples of the ionX one)
      for (int ion = 0; ion < NUMBER_OF_IONNAMES; ++ion)
        photon.set_photoionization_cross_section(ion, std::ldexp(sX, ion - ionX));
      photon.set_photoionization_cross_section(ION_H_n, sH);
      photon.set_photoionization_cross_section(ION_He_n, sHe);
      photon.set_photoionization_cross_section(ionP, 1.);

      // the cell propagate / compute_optical_depth start in (they do not pin the position):
      // the real get_start_index on the position as handed over
      int_fast32_t start_cell_nopin = -1;
      if (mode != 0) {
        CoordinateVector< int_fast32_t > ti;
        start_cell_nopin = grid->get_start_index(photon.get_position() - grid->_anchor, in_dir, ti);
      }
      const int_fast32_t out = mode == 0   ? grid->interact(photon, in_dir)
                               : mode == 1 ? grid->propagate(photon, in_dir)
                                           : grid->compute_optical_depth(photon, in_dir);

      const CoordinateVector<> pf = photon.get_position();
      const double tau_left = photon.get_target_optical_depth();
      std::ostringstream ans;
      ans << w[0] << " out=" << out << " fin=1 pos=" << showF(pf[0]) << " " << showF(pf[1]) << " "
          << showF(pf[2]) << " tau=" << showF(tau_left);
      if (mode == 0)
        ans << " nv=" << visit_log.size();
      std::ostringstream bad;
      std::vector< double > path(ntot, 0.);
      std::vector< int > nvisit(ntot, 0);
      for (size_t i = 0; i < visit_log.size(); ++i) {
        const int_fast32_t c = visit_log[i].cell;
        const IonizationVariables &iv = grid->_ionization_variables[c];
        // path and increments: what update_intensity_counters handed to the tracker; counters:
        // what the cell holds after the packet
        const double pth = visit_log[i].absorption[ionP] / weight;
        path[c] = pth;
        ++nvisit[c];
        ans << " v " << c << " " << showF(pth) << " " << showF(visit_log[i].absorption[ION_H_n])
            << " " << showF(visit_log[i].absorption[ION_He_n]) << " "
            << showF(visit_log[i].absorption[ionX]) << " " << showF(iv.get_mean_intensity(ION_H_n))
            << " " << showF(iv.get_mean_intensity(ION_He_n)) << " "
            << showF(iv.get_mean_intensity(ionX)) << " " << showF(iv.get_heating(HEATINGTERM_H))
            << " " << showF(iv.get_heating(HEATINGTERM_He));
      }
      std::cout << ans.str() << "\n";

      // ------------------------------------------------------------- property oracles
      const double cs[3] = {box[3] / nc[0], box[4] / nc[1], box[5] / nc[2]};
      const double ext[3] = {box[3], box[4], box[5]};
      const double extmax = std::max(ext[0], std::max(ext[1], ext[2]));
      // start position relative to the anchor, on the faces named by the entry classification
      long double s0[3];
      for (int a = 0; a < 3; ++a) {
        s0[a] = (long double)p0[a] - (long double)box[a];
        // (propagate and compute_optical_depth use the position as handed over)
        if (mode == 0 && off[in_dir][a] == -1)
          s0[a] = 0.;
        if (mode == 0 && off[in_dir][a] == 1)
          s0[a] = (long double)nc[a] * grid->_cell_size[a];
      }
      const long double dnorm2 = (long double)dir[0] * dir[0] + (long double)dir[1] * dir[1] +
                                 (long double)dir[2] * dir[2];
      const long double dnorm = std::sqrt(dnorm2);
      // propagate / compute_optical_depth must not touch any counter
      if (mode != 0 && !visit_log.empty())
        bad << " counters-touched-without-interaction";
      // (e) estimators: exactly what the code is documented to add, nothing elsewhere, one
      // visit per cell
      std::vector< const double * > absorbed(ntot, nullptr);
      for (size_t i = 0; i < visit_log.size(); ++i)
        absorbed[visit_log[i].cell] = visit_log[i].absorption;
      for (int_fast32_t c = 0; c < ntot; ++c) {
        const IonizationVariables &iv = grid->_ionization_variables[c];
        const double *bf = &before[(size_t)c * NCTR];
        if (nvisit[c] > 1)
          bad << " cell-visited-twice(cell=" << c << ")";
        if (nvisit[c] == 0) {
          bool any = false;
          for (int ion = 0; ion < NUMBER_OF_IONNAMES; ++ion)
            any = any || iv.get_mean_intensity(ion) != bf[ion];
          for (int h = 0; h < NUMBER_OF_HEATINGTERMS; ++h)
            any = any || iv.get_heating(h) != bf[NUMBER_OF_IONNAMES + h];
          if (any)
            bad << (mode == 0 ? " estimator-of-unvisited-cell-changed(cell="
                              : " counters-touched-without-interaction(cell=")
                << c << ")";
          continue;
        }
        const double *ab = absorbed[c];
        const double pw = ab[ionP]; // path * weight
        auto close = [](double a, double b) {
          return std::fabs(a - b) <= 1.e-12 * std::max(std::fabs(a), std::fabs(b));
        };
        // the increments are weight * sigma * path (and * (nu - nu0) for heating) ...
        bool ok = close(ab[ION_H_n], pw * sH) && close(ab[ION_He_n], pw * sHe);
        for (int ion = 0; ion < NUMBER_OF_IONNAMES; ++ion) {
          if (ion == ION_H_n || ion == ION_He_n || ion == ionP)
            continue;
          ok = ok && close(ab[ion], pw * std::ldexp(sX, ion - ionX));
        }
        if (!ok)
          bad << " estimator-increment-not-weight*sigma*path(cell=" << c << ")";
        // ... and every counter holds exactly its old value plus its increment
        bool acc = true;
        for (int ion = 0; ion < NUMBER_OF_IONNAMES; ++ion)
          acc = acc && iv.get_mean_intensity(ion) == bf[ion] + ab[ion];
        if (!acc)
          bad << " counter-is-not-old-value-plus-increment(cell=" << c << ")";
        auto closeh = [](double after, double bef, double inc) {
          return std::fabs((after - bef) - inc) <=
                 1.e-12 * (std::fabs(after) + std::fabs(bef) + std::fabs(inc));
        };
        if (!(closeh(iv.get_heating(HEATINGTERM_H), bf[NUMBER_OF_IONNAMES + HEATINGTERM_H],
                     pw * sH * (nu - 3.288e15)) &&
              closeh(iv.get_heating(HEATINGTERM_He), bf[NUMBER_OF_IONNAMES + HEATINGTERM_He],
                     pw * sHe * (nu - 5.948e15))))
          bad << " heating-counter-is-not-old-value-plus-weight*sigma*path*(nu-nu0)(cell=" << c << ")";
      }
      // reference: chord of the ray start + t*dir (t >= 0) in every cell, slab method
      int_fast32_t first_cell = mode != 0 ? start_cell_nopin : (visit_log.empty() ? -1 : visit_log[0].cell);
      int_fast32_t first_idx[3] = {0, 0, 0};
      if (first_cell >= 0) {
        first_idx[0] = first_cell / (nc[1] * nc[2]);
        first_idx[1] = (first_cell - first_idx[0] * nc[1] * nc[2]) / nc[2];
        first_idx[2] = first_cell - first_idx[0] * nc[1] * nc[2] - first_idx[1] * nc[2];
        for (int a = 0; a < 3; ++a) {
          const long double lo = (long double)first_idx[a] * grid->_cell_size[a];
          const long double hi = ((long double)first_idx[a] + 1.) * grid->_cell_size[a];
          if (s0[a] < lo - 1.e-9L * ext[a] || s0[a] > hi + 1.e-9L * ext[a])
            bad << " first-cell-does-not-contain-start(axis=" << a << ")";
        }
      }
      // kappa per cell, deposited optical depth, path sum
      std::vector< long double > kappa(ntot, 0.);
      long double tau_dep = 0., psum = 0.;
      for (int_fast32_t c = 0; c < ntot; ++c) {
        const IonizationVariables &iv = grid->_ionization_variables[c];
        kappa[c] = (long double)iv.get_number_density() *
                   ((long double)sH * iv.get_ionic_fraction(ION_H_n) +
                    (long double)sHe * iv.get_ionic_fraction(ION_He_n));
        tau_dep += kappa[c] * (long double)path[c];
        psum += path[c];
      }
      if (mode != 0) {
        // no visits to read the path from: the distance travelled follows from the positions
        // (axis with the largest direction component)
        int am = 0;
        for (int a = 1; a < 3; ++a)
          if (std::fabs(dir[a]) > std::fabs(dir[am]))
            am = a;
        psum = (((long double)pf[am] - (long double)box[am]) - s0[am]) / dir[am];
      }
      // nominal ray (k = 0) and 6 rays whose start is displaced by +-1e-9 cell sizes along one
      // axis: a ray that runs within round-off of a cell wall over a finite length (start on a
      // wall, tiny direction component) may legitimately be attributed to either neighbour
      const int NRAY = exact ? 1 : 7;
      std::vector< std::vector< long double > > chord(NRAY, std::vector< long double >(ntot, 0.));
      // optical depth of the part [0, psum] of each reference ray (propagate: what was used up)
      long double tpart[7] = {0., 0., 0., 0., 0., 0., 0.};
      long double tfull[7] = {0., 0., 0., 0., 0., 0., 0.};
      long double tcellmax = 0.;
      for (int k = 0; k < NRAY; ++k) {
        long double s1[3] = {s0[0], s0[1], s0[2]};
        if (k > 0)
          s1[(k - 1) / 2] += ((k - 1) % 2 ? 1.e-9L : -1.e-9L) * cs[(k - 1) / 2];
        for (int_fast32_t ix = 0; ix < nc[0]; ++ix)
          for (int_fast32_t iy = 0; iy < nc[1]; ++iy)
            for (int_fast32_t iz = 0; iz < nc[2]; ++iz) {
              const int_fast32_t idx[3] = {ix, iy, iz};
              long double tin = 0., tout = 1.e300L;
              bool empty = false;
              for (int a = 0; a < 3; ++a) {
                const long double lo = (long double)idx[a] * grid->_cell_size[a];
                const long double hi = ((long double)idx[a] + 1.) * grid->_cell_size[a];
                if (dir[a] == 0.) {
                  // a ray gliding exactly along a wall belongs to one of the two cells (a
                  // rounding matter): take the one the implementation started in (checked
                  // above to contain the start); without any visit: half-open cells, the last
                  // cell also owns the upper block face
                  const bool in =
                      (first_cell >= 0)
                          ? idx[a] == first_idx[a]
                          : (s0[a] >= lo && (s0[a] < hi || (idx[a] == nc[a] - 1 && s0[a] <= hi)));
                  if (!in)
                    empty = true;
                } else {
                  long double t1 = (lo - s1[a]) / dir[a], t2 = (hi - s1[a]) / dir[a];
                  if (t1 > t2)
                    std::swap(t1, t2);
                  tin = std::max(tin, t1);
                  tout = std::min(tout, t2);
                }
              }
              const int_fast32_t c = ix * nc[1] * nc[2] + iy * nc[2] + iz;
              chord[k][c] = (empty || tout <= tin) ? 0. : tout - tin;
              tfull[k] += kappa[c] * chord[k][c];
              if (!(empty || tout <= tin))
                tpart[k] += kappa[c] * std::max(0.L, std::min(tout, psum) - tin);
              tcellmax = std::max(tcellmax, kappa[c] * chord[k][c]);
            }
      }
      // tolerance on a path length (ray parameter): 1e-9 of the block, plus the round-off of a
      // coordinate (1e-16 of anchor + block) divided by the smallest non-zero direction component
      long double dmin = 1.e300L, amax = 0.;
      for (int a = 0; a < 3; ++a) {
        if (dir[a] != 0.)
          dmin = std::min(dmin, (long double)std::fabs(dir[a]));
        amax = std::max(amax, (long double)std::fabs(box[a]));
      }
      const long double ltol = 1.e-9L * extmax / dnorm + 1.e-14L * (amax + extmax) / dmin;
      // no negative path (a start on a cell wall may be 1 ulp outside the cell the index
      // arithmetic selects: a path of -(1 ulp of the coordinate)/|direction component| is
      // round-off, anything larger is not)
      for (int_fast32_t c = 0; c < ntot; ++c)
        if (nvisit[c] && !((long double)path[c] >= (exact ? 0.L : -ltol)))
          bad << " negative-path(cell=" << c << ")";
      // (a) sum of the paths = straight-line distance start -> final position
      {
        long double dist2 = 0.;
        for (int a = 0; a < 3; ++a) {
          const long double df = ((long double)pf[a] - (long double)box[a]) - s0[a];
          dist2 += df * df;
          if (std::fabs((double)(df - psum * dir[a])) > 1.e-9 * extmax)
            bad << " final-position-off-the-ray(axis=" << a << ")";
        }
        // (a path sum that is negative within the round-off tolerance is judged by its size:
        // the negative-path check above has already accepted or flagged its sign)
        if (std::fabs((double)(std::sqrt(dist2) - std::fabs((double)psum) * dnorm)) > 1.e-9 * extmax)
          bad << " path-sum-differs-from-distance";
      }
      // (b) optical depth bookkeeping, (c) stop-inside iff the target is reached on the line
      const bool inside = mode != 2 && out == TRAVELDIRECTION_INSIDE;
      long double kmax = 0.;
      for (int_fast32_t c = 0; c < ntot; ++c)
        kmax = std::max(kmax, kappa[c]);
      if (mode == 1) {
        // no per-cell record: the optical depth used up is that of the reference ray up to the
        // distance travelled (nearest of the reference rays)
        long double best = tpart[0];
        const long double want = inside ? (long double)tau_target : (long double)tau_target - tau_left;
        for (int k = 1; k < NRAY; ++k)
          if (std::fabs((double)(tpart[k] - want)) < std::fabs((double)(best - want)))
            best = tpart[k];
        tau_dep = best;
        if (!((double)psum >= (exact ? 0. : -(double)ltol)))
          bad << " negative-path";
      }
      // the surplus correction computes 1 - (tau_done - tau_target)/tau: its rounding error is
      // 1e-16 of the optical depth of the last CELL, not of the target
      // (propagate: the optical depth used up is reconstructed from the distance travelled,
      // which is known to ltol only)
      const long double ttol = 1.e-9L * (tau_target + tcellmax) + (mode == 1 ? kmax * ltol : 0.L);
      if (mode == 2 && out == TRAVELDIRECTION_INSIDE)
        bad << " whole-line-walk-ends-inside";
      if (mode == 2) {
        // compute_optical_depth: what was added is the optical depth of the whole line
        const long double added = (long double)tau_left - (long double)tau_target;
        bool ok = false;
        for (int k = 0; k < NRAY; ++k)
          ok = ok || std::fabs((double)(added - tfull[k])) <=
                         1.e-9 * (double)(tfull[k] + tcellmax) + 1.e-14 * tau_target // (old + added rounds)
                             + (double)(kmax * ltol); // (a path is known to ltol only)
        if (!ok)
          bad << " added-optical-depth-differs-from-line-integral";
        if (!((double)psum >= (exact ? 0. : -(double)ltol)))
          bad << " negative-path";
      }
      if (mode == 2) {
      } else if (inside) {
        if (std::fabs((double)(tau_dep - tau_target)) > ttol)
          bad << " stopped-but-deposited-optical-depth-differs-from-target";
        if (!(tau_left <= 0.))
          bad << " stopped-with-positive-remaining-optical-depth";
        bool reached = false;
        for (int k = 0; k < NRAY; ++k)
          reached = reached || !(tfull[k] < tau_target - ttol - 1.e-9L * tfull[k]);
        if (!reached)
          bad << " stopped-before-target-reached";
        for (int_fast32_t c = 0; mode == 0 && c < ntot; ++c) {
          bool ok = false;
          for (int k = 0; k < NRAY; ++k)
            ok = ok || !((long double)path[c] > chord[k][c] + ltol);
          if (!ok)
            bad << " path-longer-than-chord(cell=" << c << ")";
        }
      } else {
        if (std::fabs((double)((tau_target - tau_left) - tau_dep)) >
            (mode == 0 ? 1.e-10 * tau_target : (double)ttol))
          bad << " optical-depth-used-differs-from-sum";
        if (!(tau_left > 0.))
          bad << " left-with-nonpositive-remaining-optical-depth";
        bool notreached = false;
        for (int k = 0; k < NRAY; ++k)
          notreached = notreached || !(tfull[k] > tau_target + ttol + 1.e-9L * tfull[k]);
        if (!notreached)
          bad << " left-although-target-reached";
        for (int_fast32_t c = 0; mode == 0 && c < ntot; ++c) {
          bool ok = false;
          for (int k = 0; k < NRAY; ++k)
            ok = ok || !(std::fabs((double)((long double)path[c] - chord[k][c])) > ltol);
          if (!ok)
            bad << " path-differs-from-chord(cell=" << c << ")";
        }
      }
      if (!inside) {
        // (d) exit: on the block boundary, on exactly the faces named, compatible with dir
        // reference: parameter at which the line crosses the block boundary on each axis
        long double tb[3], tstar = 1.e300L;
        for (int a = 0; a < 3; ++a) {
          tb[a] = 1.e300L;
          if (dir[a] > 0.)
            tb[a] = ((long double)nc[a] * grid->_cell_size[a] - s0[a]) / dir[a];
          if (dir[a] < 0.)
            tb[a] = (0.L - s0[a]) / dir[a];
          tstar = std::min(tstar, tb[a]);
        }
        if (out < 0 || out >= TRAVELDIRECTION_NUMBER) {
          bad << " invalid-exit-classification";
        } else if (!exact) {
          // with rounding: every named face must be crossed at the exit point within tolerance,
          // a face crossed clearly first must be named, the position must be on the named
          // faces exactly (the code snaps) and inside the block otherwise
          int nnamed = 0;
          for (int a = 0; a < 3; ++a) {
            const double top = box[a] + nc[a] * grid->_cell_size[a];
            const bool near = tb[a] - tstar <= ltol;
            if (off[out][a] != 0) {
              ++nnamed;
              if (pf[a] != (off[out][a] == 1 ? top : box[a]))
                bad << " exit-not-on-named-face(axis=" << a << ")";
              if (!(off[out][a] == 1 ? dir[a] > 0. : dir[a] < 0.))
                bad << " exit-face-incompatible-with-direction(axis=" << a << ")";
              if (!near)
                bad << " exit-face-named-but-not-crossed(axis=" << a << ")";
            } else {
              if (!(pf[a] >= box[a] - 1.e-9 * ext[a] && pf[a] <= top + 1.e-9 * ext[a]))
                bad << " exit-outside-block(axis=" << a << ")";
              bool clearly_first = dir[a] != 0.;
              for (int b = 0; b < 3; ++b)
                if (b != a && !(tb[a] < tb[b] - ltol))
                  clearly_first = false;
              if (clearly_first)
                bad << " exit-face-not-named(axis=" << a << ")";
            }
          }
          if (nnamed == 0)
            bad << " exit-without-face";
        } else {
          for (int a = 0; a < 3; ++a) {
            const double top = box[a] + nc[a] * grid->_cell_size[a];
            if (off[out][a] == 1) {
              if (pf[a] != top)
                bad << " exit-not-on-named-face(axis=" << a << ")";
              if (!(dir[a] > 0.))
                bad << " exit-face-incompatible-with-direction(axis=" << a << ")";
            } else if (off[out][a] == -1) {
              if (pf[a] != box[a])
                bad << " exit-not-on-named-face(axis=" << a << ")";
              if (!(dir[a] < 0.))
                bad << " exit-face-incompatible-with-direction(axis=" << a << ")";
            } else {
              if (!(pf[a] >= box[a] && pf[a] <= top))
                bad << " exit-outside-block(axis=" << a << ")";
              // the line must not be crossing an unnamed face here
              if ((dir[a] > 0. && pf[a] >= top) || (dir[a] < 0. && pf[a] <= box[a]))
                bad << " exit-face-not-named(axis=" << a << ")";
            }
          }
        }
      }
      if (!bad.str().empty())
        std::cout << "ORACLE line=" << lineno << bad.str() << "\n";
    } else {
      std::cout << "bad-op\n";
    }
  }
  for (auto t : trackers)
    delete t;
  delete grid;
  return 0;
}
