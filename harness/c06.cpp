// C06 harness: drives the real IonizationStateCalculator / TemperatureCalculator (compiled from
// /repo/src together with the shipped recombination, charge-transfer, line-cooling and cross
// section tables) through the line protocol.
//
//   c06 --prep : raw op lines  -> full op lines (adds the table values the Lean model takes as
//                inputs: recombination / charge-transfer rates, estimator sums of a spectrum,
//                and for `temp` the values of the real compute_cooling_and_heating_balance at
//                every temperature the real iteration asked for)
//   c06        : full op lines -> one answer line per op (compared with the Lean model) plus
//                `ORACLE line=<n> <key> ...` lines when the property itself fails on the
//                implementation.
//
// Everything that can abort (cmac_error -> abort()) runs in a forked child, so an abort is a
// reported oracle failure and not a crash of the harness.
#include "common.hpp"
#include <fcntl.h>
#include <functional>
#include <set>
#include <sys/wait.h>
#include <unistd.h>
#define private public
#define protected public
#include "Abundances.hpp"
#include "ChargeTransferRates.hpp"
#include "DensitySubGrid.hpp"
#include "IonizationStateCalculator.hpp"
#include "LineCoolingData.hpp"
#include "PhysicalConstants.hpp"
#include "TemperatureCalculator.hpp"
#include "VernerCrossSections.hpp"
#include "VernerRecombinationRates.hpp"
#undef private
#undef protected

#if !(defined(HAS_HELIUM) && defined(HAS_CARBON) && defined(HAS_NITROGEN) &&                   \
      defined(HAS_OXYGEN) && defined(HAS_NEON) && defined(HAS_SULPHUR)) ||                     \
    defined(HAS_ARGON) || defined(VARIABLE_ABUNDANCES)
#error "C06 harness is written for the default element set (H, He, C, N, O, Ne, S)"
#endif

static_assert(NUMBER_OF_IONNAMES == 14, "ion list changed");
static_assert(NUMBER_OF_HEATINGTERMS == 2, "heating term list changed");

struct World {
  LineCoolingData data;
  VernerRecombinationRates rates;
  ChargeTransferRates ctr;
  VernerCrossSections cs;
};
static World *W = nullptr;

/// recombination rates taken from the op line (the twelve coolant ions) ---------------------
class InjectedRates : public RecombinationRates {
public:
  double a[NUMBER_OF_IONNAMES];
  virtual double get_recombination_rate(const int_fast32_t ion, const double) const {
    return a[ion];
  }
};

/// real rates; remembers at which temperatures the hydrogen rate was asked for ---------------
class RecordingRates : public RecombinationRates {
public:
  const RecombinationRates &real;
  mutable std::vector< double > Ts;
  RecordingRates(const RecombinationRates &r) : real(r) {}
  virtual double get_recombination_rate(const int_fast32_t ion, const double T) const {
    if (ion == ION_H_n)
      Ts.push_back(T);
    return real.get_recombination_rate(ion, T);
  }
};

static void ct19(const ChargeTransferRates &c, const double T4, double *o) {
  o[0] = c.get_charge_transfer_recombination_rate_H(ION_C_p2, T4);
  o[1] = c.get_charge_transfer_recombination_rate_He(ION_C_p2, T4);
  o[2] = c.get_charge_transfer_ionization_rate_H(ION_N_n, T4);
  o[3] = c.get_charge_transfer_recombination_rate_H(ION_N_n, T4);
  o[4] = c.get_charge_transfer_recombination_rate_H(ION_N_p1, T4);
  o[5] = c.get_charge_transfer_recombination_rate_He(ION_N_p1, T4);
  o[6] = c.get_charge_transfer_recombination_rate_H(ION_N_p2, T4);
  o[7] = c.get_charge_transfer_recombination_rate_He(ION_N_p2, T4);
  o[8] = c.get_charge_transfer_ionization_rate_H(ION_O_n, T4);
  o[9] = c.get_charge_transfer_recombination_rate_H(ION_O_n, T4);
  o[10] = c.get_charge_transfer_recombination_rate_H(ION_O_p1, T4);
  o[11] = c.get_charge_transfer_recombination_rate_He(ION_O_p1, T4);
  o[12] = c.get_charge_transfer_recombination_rate_H(ION_Ne_p1, T4);
  o[13] = c.get_charge_transfer_recombination_rate_He(ION_Ne_p1, T4);
  o[14] = c.get_charge_transfer_recombination_rate_H(ION_S_p1, T4);
  o[15] = c.get_charge_transfer_recombination_rate_H(ION_S_p2, T4);
  o[16] = c.get_charge_transfer_recombination_rate_He(ION_S_p2, T4);
  o[17] = c.get_charge_transfer_recombination_rate_H(ION_S_p3, T4);
  o[18] = c.get_charge_transfer_recombination_rate_He(ION_S_p3, T4);
}

/// run f in a forked child; returns false when the child died (signal / non-zero exit) -------
static bool in_child(const std::function< std::string() > &f, std::string &out, int &status) {
  int fd[2];
  if (pipe(fd) != 0) {
    perror("pipe");
    exit(3);
  }
  std::cout.flush();
  fflush(stdout);
  const pid_t p = fork();
  if (p < 0) {
    perror("fork");
    exit(3);
  }
  if (p == 0) {
    close(fd[0]);
    alarm(60);
    const int dn = open("/dev/null", O_WRONLY);
    if (dn >= 0) {
      dup2(dn, 2);
      dup2(dn, 1);
    }
    const std::string s = f();
    size_t off = 0;
    while (off < s.size()) {
      const ssize_t k = write(fd[1], s.data() + off, s.size() - off);
      if (k <= 0)
        _exit(4);
      off += k;
    }
    _exit(0);
  }
  close(fd[1]);
  out.clear();
  char buf[65536];
  ssize_t k;
  while ((k = read(fd[0], buf, sizeof(buf))) > 0)
    out.append(buf, k);
  close(fd[0]);
  status = 0;
  waitpid(p, &status, 0);
  return WIFEXITED(status) && WEXITSTATUS(status) == 0;
}

static std::string why(int status) {
  std::ostringstream o;
  if (WIFSIGNALED(status))
    o << "signal-" << WTERMSIG(status);
  else
    o << "exit-" << WEXITSTATUS(status);
  return o.str();
}

static std::string join(const std::vector< std::string > &w, size_t from = 0) {
  std::string s;
  for (size_t i = from; i < w.size(); ++i) {
    if (i > from)
      s += " ";
    s += w[i];
  }
  return s;
}

static bool fin_(double x) { return std::isfinite(x); }
static bool frac_ok(double x) { return fin_(x) && x >= -1.e-12 && x <= 1. + 1.e-12; }

/// estimator sums of a line spectrum: mean[ion] = sum_k w_k sigma_ion(nu_k) -------------------
static void spectrum(const std::vector< std::string > &w, size_t o, double *mean, double *heat) {
  const size_t K = u64(w[o]);
  for (int i = 0; i < NUMBER_OF_IONNAMES; ++i)
    mean[i] = 0.;
  heat[0] = heat[1] = 0.;
  for (size_t k = 0; k < K; ++k) {
    const double nu = dbl(w[o + 1 + 2 * k]);
    const double wt = dbl(w[o + 2 + 2 * k]);
    double d[NUMBER_OF_IONNAMES];
    for (int ion = 0; ion < NUMBER_OF_IONNAMES; ++ion) {
      // DensitySubGrid::update_intensity_counters: distance * cross section * weight
      d[ion] = wt * W->cs.get_cross_section(ion, nu);
      mean[ion] += d[ion];
    }
    heat[HEATINGTERM_H] += d[ION_H_n] * (nu - 3.288e15);
    heat[HEATINGTERM_He] += d[ION_He_n] * (nu - 5.948e15);
  }
}

// ------------------------------------------------------------------------------- temperature
struct TempArgs {
  double jfac, hfac, n, Told, AHe, AC, AN, AO, ANe, AS, pah, crfac, crcell, crlim, crscale, z,
      eps, tmin;
  uint_fast32_t maxit;
  double mean[NUMBER_OF_IONNAMES], heat[NUMBER_OF_HEATINGTERMS], met0[12];
};

/// sentinel every ionic fraction of a "fresh" cell is pre-filled with: an output that some
/// branch forgets to (re)assign shows up as 0.123 (fresh cell) resp. as a left-over of the
/// previous update (re-used cell)
static const double SENTINEL = 0.123;

/// the one cell that is re-used by all `cell`/`temp` ops since the last `newcell`
static IonizationVariables *g_hist = nullptr;

static std::string state_text(const IonizationVariables &iv) {
  std::ostringstream o;
  o << showF(iv.get_temperature());
  for (int i = 0; i < NUMBER_OF_IONNAMES; ++i)
    o << " " << showF(iv.get_ionic_fraction(i));
  return o.str();
}
static double tokval(const std::string &t) { return t == "nan" ? NAN : dbl(t); }
/// r[o] = temperature, r[o+1..o+14] = ionic fractions
static void load_state(IonizationVariables &iv, const std::vector< std::string > &r, size_t o) {
  iv.set_temperature(tokval(r[o]));
  for (int i = 0; i < NUMBER_OF_IONNAMES; ++i)
    iv.set_ionic_fraction(i, tokval(r[o + 1 + i]));
}

/// the inputs of an update (what the simulation sets before it calls the calculators)
static void fill_inputs(const TempArgs &a, IonizationVariables &iv) {
  iv.set_number_density(a.n);
  iv.set_temperature(a.Told);
  iv.set_cosmic_ray_factor(a.crcell);
  for (int i = 0; i < NUMBER_OF_IONNAMES; ++i)
    iv.set_mean_intensity(i, a.mean[i]);
  for (int i = 0; i < NUMBER_OF_HEATINGTERMS; ++i)
    iv.set_heating(i, a.heat[i]);
}
/// fresh cell: inputs + sentinel pattern in H, He and the stored coolant fractions of the line
static void fill_vars(const TempArgs &a, IonizationVariables &iv) {
  fill_inputs(a, iv);
  iv.set_ionic_fraction(0, SENTINEL);
  iv.set_ionic_fraction(1, SENTINEL);
  for (int i = 0; i < 12; ++i)
    iv.set_ionic_fraction(2 + i, a.met0[i]);
}

/// the real calculate_temperature for one cell; rr = recombination rates to use ---------------
static std::string run_temp(const TempArgs &a, const RecombinationRates &rr,
                            IonizationVariables *reuse = nullptr) {
  Abundances ab(a.AHe, a.AC, a.AN, a.AO, a.ANe, a.AS);
  TemperatureCalculator calc(true, 0, 1., ab, a.eps, a.maxit, a.pah, a.crfac, a.crlim, a.crscale,
                             a.tmin, W->data, rr, W->ctr, nullptr);
  IonizationVariables iv;
  fill_vars(a, iv);
  calc.calculate_temperature(iv, a.jfac, a.hfac, CoordinateVector<>(0., 0., a.z));
  std::string res = state_text(iv);
  if (reuse != nullptr) {
    // the same update on the cell that went through the previous updates of this history
    fill_inputs(a, *reuse);
    calc.calculate_temperature(*reuse, a.jfac, a.hfac, CoordinateVector<>(0., 0., a.z));
    res += " | " + state_text(*reuse);
  }
  return res;
}

/// the arguments the real balance function hands to LineCoolingData::get_cooling at temperature
/// T, and the value it gets back: the same real static functions in the same order, the
/// abundance formulas of TemperatureCalculator.cpp 363-418 (glue; the model computes the same
/// quantities and the `bal` answers compare them, so a slip here shows as a disagreement)
static_assert(LINECOOLINGDATA_NUMELEMENTS == 13, "line cooling element list changed");
struct Pieces {
  double ne, abund[LINECOOLINGDATA_NUMELEMENTS], L;
};
static Pieces pieces(const TempArgs &a, const double T) {
  Pieces p;
  double j[NUMBER_OF_IONNAMES];
  for (int i = 0; i < NUMBER_OF_IONNAMES; ++i)
    j[i] = a.jfac * a.mean[i];
  double h0, he0;
  IonizationStateCalculator::compute_ionization_states_hydrogen_helium(
      W->rates.get_recombination_rate(ION_H_n, T), W->rates.get_recombination_rate(ION_He_n, T),
      j[ION_H_n], j[ION_He_n], a.n, a.AHe, T, h0, he0);
  p.ne = a.n * (1. - h0 + a.AHe * (1. - he0));
  const double nhp = a.n * (1. - h0), nh0 = a.n * h0, nhe0 = a.n * he0 * a.AHe;
  IonizationVariables iv;
  IonizationStateCalculator::compute_ionization_states_metals(&j[2], p.ne, T, T * 1.e-4, nh0, nhe0,
                                                              nhp, W->rates, W->ctr, iv);
  auto f = [&](int ion) { return iv.get_ionic_fraction(ion); };
  p.abund[CII] = a.AC * (1. - f(ION_C_p1) - f(ION_C_p2));
  p.abund[CIII] = a.AC * f(ION_C_p1);
  p.abund[NI] = a.AN * (1. - f(ION_N_n) - f(ION_N_p1) - f(ION_N_p2));
  p.abund[NII] = a.AN * f(ION_N_n);
  p.abund[NIII] = a.AN * f(ION_N_p1);
  p.abund[OI] = a.AO * (1. - f(ION_O_n) - f(ION_O_p1));
  p.abund[OII] = a.AO * f(ION_O_n);
  p.abund[OIII] = a.AO * f(ION_O_p1);
  p.abund[NeII] = a.ANe * f(ION_Ne_n);
  p.abund[NeIII] = a.ANe * f(ION_Ne_p1);
  p.abund[SII] = a.AS * (1. - f(ION_S_p1) - f(ION_S_p2) - f(ION_S_p3));
  p.abund[SIII] = a.AS * f(ION_S_p1);
  p.abund[SIV] = a.AS * f(ION_S_p2);
  p.L = W->data.get_cooling(T, p.ne, p.abund);
  return p;
}
/// abundances in the order of the model's `Abund` structure
static std::string abund_text(const Pieces &p) {
  const int order[13] = {CII, CIII, NI, NII, NIII, OI, OII, OIII, NeII, NeIII, SII, SIII, SIV};
  std::ostringstream o;
  for (int i = 0; i < 13; ++i)
    o << (i ? " " : "") << showF(p.abund[order[i]]);
  return o.str();
}
/// `aH aHe a[12] ct[19]` at temperature T
static std::string rates_text(const double T) {
  std::ostringstream o;
  for (int ion = 0; ion < 14; ++ion)
    o << (ion ? " " : "") << showF(W->rates.get_recombination_rate(ion, T));
  double c[19];
  ct19(W->ctr, T * 1.e-4, c);
  for (int i = 0; i < 19; ++i)
    o << " " << showF(c[i]);
  return o.str();
}

/// table of the temperature dependent inputs of the MODEL's balance function (rates and the
/// value of the real line cooling routine) at the temperatures in Ts ---------------------------
static std::string balance_table(const TempArgs &a, const std::vector< double > &Ts) {
  std::set< uint64_t > seen;
  std::ostringstream body;
  size_t cnt = 0;
  for (double T : Ts) {
    if (!seen.insert(bits_of(T)).second)
      continue;
    const Pieces p = pieces(a, T);
    body << " " << showF(T) << " " << rates_text(T) << " " << showF(p.L);
    ++cnt;
  }
  std::ostringstream o;
  o << cnt << body.str();
  return o.str();
}

/// the real balance function at temperature T (crfac as given), plus the glue's ne / abundances
static std::string run_bal(const TempArgs &a, const double T) {
  Abundances ab(a.AHe, a.AC, a.AN, a.AO, a.ANe, a.AS);
  double j[NUMBER_OF_IONNAMES], h[NUMBER_OF_HEATINGTERMS];
  for (int i = 0; i < NUMBER_OF_IONNAMES; ++i)
    j[i] = a.jfac * a.mean[i];
  for (int i = 0; i < NUMBER_OF_HEATINGTERMS; ++i)
    h[i] = a.hfac * a.heat[i];
  IonizationVariables iv;
  fill_vars(a, iv);
  double h0, he0, gain, loss;
  TemperatureCalculator::compute_cooling_and_heating_balance(
      h0, he0, gain, loss, T, iv, CoordinateVector<>(0., 0., a.z), j, ab, h, a.pah, a.crfac,
      a.crscale, W->data, W->rates, W->ctr);
  const Pieces p = pieces(a, T);
  std::ostringstream o;
  o << showF(h0) << " " << showF(he0) << " " << showF(gain) << " " << showF(loss);
  for (int i = 0; i < 12; ++i)
    o << " " << showF(iv.get_ionic_fraction(2 + i));
  o << " " << showF(p.ne) << " " << abund_text(p) << " " << showF(p.L);
  return o.str();
}

/// parse tokens o.. of a `temp`/`tempraw` line (19 scalars, then mean, heat, met0 when full)
static TempArgs parse_scalars(const std::vector< std::string > &w, size_t o, bool with_hfac) {
  TempArgs a;
  size_t i = o;
  a.jfac = dbl(w[i++]);
  a.hfac = with_hfac ? dbl(w[i++])
                     : a.jfac * PhysicalConstants::get_physical_constant(PHYSICALCONSTANT_PLANCK);
  a.n = dbl(w[i++]);
  a.Told = dbl(w[i++]);
  a.AHe = dbl(w[i++]);
  a.AC = dbl(w[i++]);
  a.AN = dbl(w[i++]);
  a.AO = dbl(w[i++]);
  a.ANe = dbl(w[i++]);
  a.AS = dbl(w[i++]);
  a.pah = dbl(w[i++]);
  a.crfac = dbl(w[i++]);
  a.crcell = dbl(w[i++]);
  a.crlim = dbl(w[i++]);
  a.crscale = dbl(w[i++]);
  a.z = dbl(w[i++]);
  a.eps = dbl(w[i++]);
  a.tmin = dbl(w[i++]);
  a.maxit = u64(w[i++]);
  for (int k = 0; k < 12; ++k)
    a.met0[k] = SENTINEL;
  return a;
}

static std::string scalars_text(const TempArgs &a) {
  std::ostringstream o;
  o << showF(a.jfac) << " " << showF(a.hfac) << " " << showF(a.n) << " " << showF(a.Told) << " "
    << showF(a.AHe) << " " << showF(a.AC) << " " << showF(a.AN) << " " << showF(a.AO) << " "
    << showF(a.ANe) << " " << showF(a.AS) << " " << showF(a.pah) << " " << showF(a.crfac) << " "
    << showF(a.crcell) << " " << showF(a.crlim) << " " << showF(a.crscale) << " " << showF(a.z)
    << " " << showF(a.eps) << " " << showF(a.tmin) << " " << a.maxit;
  for (int i = 0; i < NUMBER_OF_IONNAMES; ++i)
    o << " " << showF(a.mean[i]);
  for (int i = 0; i < NUMBER_OF_HEATINGTERMS; ++i)
    o << " " << showF(a.heat[i]);
  for (int i = 0; i < 12; ++i)
    o << " " << showF(a.met0[i]);
  return o.str();
}

// ------------------------------------------------------------------- subgrid level wrappers
/// wrapper tokens `sx sy sz nx ny nz` at w[o..o+5]
struct Shape {
  double side[3];
  int n[3];
};
static Shape parse_shape(const std::vector< std::string > &w, size_t o) {
  Shape s;
  for (int i = 0; i < 3; ++i) {
    s.side[i] = dbl(w[o + i]);
    s.n[i] = (int)dbl(w[o + 3 + i]);
  }
  return s;
}
static DensitySubGrid *make_subgrid(const Shape &s) {
  const double box[6] = {0., 0., 0., s.side[0], s.side[1], s.side[2]};
  return new DensitySubGrid(box, CoordinateVector< int_fast32_t >(s.n[0], s.n[1], s.n[2]));
}
/// what the wrappers hand to the kernels, computed with the constructor's and the wrapper's own
/// statements (used only to prepare `sgtemp` lines; the run itself calls the real wrapper)
static void wrapper_factors(double L, double tw, const Shape &s, double &jfac, double &hfac,
                            double &zmid) {
  const double cs[3] = {s.side[0] / s.n[0], s.side[1] / s.n[1], s.side[2] / s.n[2]};
  const double V = cs[0] * cs[1] * cs[2];
  const double jf = L / tw;
  const double hf = jf * PhysicalConstants::get_physical_constant(PHYSICALCONSTANT_PLANCK);
  jfac = jf / V;
  hfac = hf / V;
  zmid = 0. + (0 + 0.5) * cs[2];
}
/// state of all cells after the call: cell 0, and whether every cell equals cell 0
static std::string subgrid_result(DensitySubGrid &sg, bool with_T) {
  std::ostringstream o;
  auto c0 = sg.begin();
  const IonizationVariables &v0 = c0.get_ionization_variables();
  if (with_T)
    o << showF(v0.get_temperature()) << " ";
  for (int i = 0; i < 14; ++i)
    o << (i ? " " : "") << showF(v0.get_ionic_fraction(i));
  bool same = true;
  for (auto it = sg.begin(); it != sg.end(); ++it) {
    const IonizationVariables &v = it.get_ionization_variables();
    for (int i = 0; i < 14; ++i)
      if (showF(v.get_ionic_fraction(i)) != showF(v0.get_ionic_fraction(i)))
        same = false;
  }
  o << (same ? " same" : " DIFFER");
  return o.str();
}
/// hydrogen-only oracle through the wrapper: the stored neutral fraction must solve the balance
/// equation for the rate L * counter / (totweight * V), V = product of side/ncell (independent
/// re-derivation in long double)
static double wrapper_residual(double L, double tw, const Shape &s, double counter, double n,
                               double aH, double x) {
  const long double V = ((long double)s.side[0] / s.n[0]) * ((long double)s.side[1] / s.n[1]) *
                        ((long double)s.side[2] / s.n[2]);
  const long double jH = (long double)L * counter / ((long double)tw * V);
  const long double C = jH / ((long double)n * aH);
  const long double lx = x;
  return (double)(fabsl(lx * lx - (2.0L + C) * lx + 1.0L) / (lx * lx + (2.0L + C) * lx + 1.0L));
}

// ------------------------------------------------------------------------------------- prep
static std::string prep_line(const std::vector< std::string > &w) {
  const std::string &op = w[0];
  std::ostringstream o;
  if (op == "h0" || op == "h0m" || op == "newcell") {
    return join(w);
  } else if (op == "h0T" && w.size() == 4) {
    o << "h0 " << showF(W->rates.get_recombination_rate(ION_H_n, dbl(w[3]))) << " " << w[1] << " "
      << w[2];
  } else if (op == "h0mT" && w.size() == 7) {
    o << "h0m " << showF(W->rates.get_recombination_rate(ION_H_n, dbl(w[3]))) << " " << w[1]
      << " " << w[2] << " " << showF(W->rates.get_recombination_rate(ION_H_n, dbl(w[6]))) << " "
      << w[4] << " " << w[5];
  } else if (op == "metraw" && (w.size() == 19 || w.size() == 30)) {
    // metraw T j[12] ne nh0 nhe0 nhp (V | a[12])
    const double T = dbl(w[1]);
    o << "met " << w[1];
    for (size_t i = 2; i < 18; ++i)
      o << " " << w[i];
    if (w[18] == "V") {
      for (int ion = 2; ion < 14; ++ion)
        o << " " << showF(W->rates.get_recombination_rate(ion, T));
    } else {
      for (size_t i = 18; i < 30; ++i)
        o << " " << w[i];
    }
    double c[19];
    ct19(W->ctr, T * 1.e-4, c);
    for (int i = 0; i < 19; ++i)
      o << " " << showF(c[i]);
  } else if ((op == "hheraw" || op == "hhexraw") && (w.size() == 6 || w.size() == 8)) {
    // hheraw jH jHe nH AHe T [aH aHe]
    const double T = dbl(w[5]);
    o << (op == "hheraw" ? "hhe " : "hhex ");
    if (w.size() == 8)
      o << w[6] << " " << w[7];
    else
      o << showF(W->rates.get_recombination_rate(ION_H_n, T)) << " "
        << showF(W->rates.get_recombination_rate(ION_He_n, T));
    o << " " << w[1] << " " << w[2] << " " << w[3] << " " << w[4] << " " << w[5];
  } else if (op == "hhespec" && w.size() >= 6) {
    // hhespec F nH AHe T K (nu w)*K
    double mean[NUMBER_OF_IONNAMES], heat[2];
    spectrum(w, 5, mean, heat);
    const double F = dbl(w[1]), T = dbl(w[4]);
    o << "hhe " << showF(W->rates.get_recombination_rate(ION_H_n, T)) << " "
      << showF(W->rates.get_recombination_rate(ION_He_n, T)) << " " << showF(F * mean[ION_H_n])
      << " " << showF(F * mean[ION_He_n]) << " " << w[2] << " " << w[3] << " " << w[4];
  } else if ((op == "cellspec" && w.size() >= 6) ||
             ((op == "cellraw" || op == "cellxraw") && w.size() == 19)) {
    // cellspec jfac n T AHe K (nu w)*K      cellraw jfac n T AHe mean[14]
    double mean[NUMBER_OF_IONNAMES], heat[2];
    if (op == "cellspec")
      spectrum(w, 5, mean, heat);
    else
      for (int i = 0; i < 14; ++i)
        mean[i] = dbl(w[5 + i]);
    const double T = dbl(w[3]);
    o << (op == "cellxraw" ? "cellx " : "cell ") << w[1] << " " << w[2] << " " << w[3] << " "
      << w[4];
    for (int i = 0; i < 14; ++i)
      o << " " << showF(mean[i]);
    for (int ion = 0; ion < 14; ++ion)
      o << " " << showF(W->rates.get_recombination_rate(ion, T));
    double c[19];
    ct19(W->ctr, T * 1.e-4, c);
    for (int i = 0; i < 19; ++i)
      o << " " << showF(c[i]);
  } else if ((op == "sgcellspec" && w.size() >= 14) || (op == "sgionspec" && w.size() >= 16)) {
    // sgcellspec L tw sx sy sz nx ny nz n T AHe K (nu w)*K
    // sgionspec  mode L0 L tw sx sy sz nx ny nz n T AHe K (nu w)*K
    const size_t o0 = op == "sgcellspec" ? 9 : 11; // index of n
    double mean[NUMBER_OF_IONNAMES], heat[2];
    spectrum(w, o0 + 3, mean, heat);
    const double T = dbl(w[o0 + 1]);
    o << (op == "sgcellspec" ? "sgcell" : "sgion");
    for (size_t i = 1; i < o0 + 3; ++i)
      o << " " << w[i];
    for (int i = 0; i < 14; ++i)
      o << " " << showF(mean[i]);
    o << " " << rates_text(T);
  } else if (op == "sgtempspec" && w.size() >= 29) {
    // sgtempspec L0 L tw sx sy sz nx ny nz <18 scalars of tempspec, jfac and z ignored> K (nu w)*K
    const double L = dbl(w[2]), tw = dbl(w[3]);
    const Shape sh = parse_shape(w, 4);
    std::vector< std::string > w2(w.begin() + 9, w.end());
    TempArgs a = parse_scalars(w2, 1, false);
    spectrum(w2, 19, a.mean, a.heat);
    wrapper_factors(L, tw, sh, a.jfac, a.hfac, a.z);
    std::string res;
    int status;
    const bool ok = in_child(
        [&]() {
          RecordingRates rec(W->rates);
          run_temp(a, rec);
          return balance_table(a, rec.Ts);
        },
        res, status);
    if (!ok)
      return "abort " + join(w);
    o << "sgtemp";
    for (size_t i = 1; i < 10; ++i)
      o << " " << w[i];
    o << " " << scalars_text(a) << " " << showF(W->rates.get_recombination_rate(ION_H_n, 8000.))
      << " " << showF(W->rates.get_recombination_rate(ION_He_n, 8000.)) << " " << res;
  } else if ((op == "balspec" && w.size() >= 20) || (op == "balxraw" && w.size() == 36)) {
    // balspec: the scalars of tempspec (Told is the temperature of the evaluation); balxraw:
    // those of tempxraw.  Full line:
    // bal T n j[14] hH hHe AHe AC AN AO ANe AS pah crfac crscale z aH aHe a[12] ct[19] L
    TempArgs a;
    if (op == "balspec") {
      a = parse_scalars(w, 1, false);
      spectrum(w, 19, a.mean, a.heat);
    } else {
      a = parse_scalars(w, 1, true);
      for (int i = 0; i < 14; ++i)
        a.mean[i] = dbl(w[20 + i]);
      a.heat[0] = dbl(w[34]);
      a.heat[1] = dbl(w[35]);
    }
    std::string res;
    int status;
    const bool ok = in_child([&]() { return showF(pieces(a, a.Told).L); }, res, status);
    if (!ok)
      return "abort " + join(w);
    o << (op == "balspec" ? "bal " : "balx ") << showF(a.Told) << " " << showF(a.n);
    for (int i = 0; i < 14; ++i)
      o << " " << showF(a.jfac * a.mean[i]);
    o << " " << showF(a.hfac * a.heat[0]) << " " << showF(a.hfac * a.heat[1]) << " " << showF(a.AHe)
      << " " << showF(a.AC) << " " << showF(a.AN) << " " << showF(a.AO) << " " << showF(a.ANe) << " "
      << showF(a.AS) << " " << showF(a.pah) << " " << showF(a.crfac) << " " << showF(a.crscale)
      << " " << showF(a.z) << " " << rates_text(a.Told) << " " << res;
  } else if (((op == "tempspec" || op == "tempxspec") && w.size() >= 20) ||
             ((op == "tempraw" || op == "tempxraw") && w.size() == 36)) {
    // tempspec <18 scalars: jfac n Told AHe AC AN AO ANe AS pah crfac crcell crlim crscale z eps tmin maxit> K (nu w)*K
    // tempraw  <19 scalars incl. hfac> mean[14] heat[2]
    TempArgs a;
    if (op == "tempspec" || op == "tempxspec") {
      a = parse_scalars(w, 1, false);
      spectrum(w, 19, a.mean, a.heat);
    } else {
      a = parse_scalars(w, 1, true);
      for (int i = 0; i < 14; ++i)
        a.mean[i] = dbl(w[20 + i]);
      a.heat[0] = dbl(w[34]);
      a.heat[1] = dbl(w[35]);
    }
    std::string res;
    int status;
    const bool ok = in_child(
        [&]() {
          RecordingRates rec(W->rates);
          run_temp(a, rec);
          return balance_table(a, rec.Ts);
        },
        res, status);
    if (!ok)
      return "abort " + join(w);
    o << ((op == "tempxraw" || op == "tempxspec") ? "tempx " : "temp ") << scalars_text(a) << " "
      << showF(W->rates.get_recombination_rate(ION_H_n, 8000.)) << " "
      << showF(W->rates.get_recombination_rate(ION_He_n, 8000.)) << " " << res;
  } else {
    return "bad-op " + join(w);
  }
  return o.str();
}

// -------------------------------------------------------------------------------------- run
static double h0_real(double aH, double jH, double nH) {
  return IonizationStateCalculator::compute_ionization_state_hydrogen(aH, jH, nH);
}

/// balance equation residual of the hydrogen-only solution, relative to its largest term
static double h0_residual(double aH, double jH, double nH, double x) {
  const long double C = (long double)jH / ((long double)nH * (long double)aH);
  const long double lx = x;
  const long double r = lx * lx - (2.0L + C) * lx + 1.0L;
  const long double scale = lx * lx + (2.0L + C) * lx + 1.0L;
  return (double)(fabsl(r) / scale);
}

int main(int argc, char **argv) {
  W = new World();
  g_hist = new IonizationVariables();
  const bool prep = argc > 1 && std::string(argv[1]) == "--prep";
  std::string line;
  uint64_t lineno = 0;
  while (std::getline(std::cin, line)) {
    ++lineno;
    auto w = words(line);
    if (w.empty()) {
      std::cout << "bad-op\n";
      continue;
    }
    if (prep) {
      std::cout << prep_line(w) << "\n";
      continue;
    }
    const std::string &op = w[0];
    std::ostringstream bad;
    bad.precision(17);
    if (op == "h0" && w.size() == 4) {
      const double aH = dbl(w[1]), jH = dbl(w[2]), nH = dbl(w[3]);
      const double x = h0_real(aH, jH, nH);
      std::cout << "h0 " << showF(x) << "\n";
      if (!fin_(x) || x < 1.e-14 || x > 1.)
        bad << " h0:range x=" << x;
      else if (jH > 0. && nH > 0. && aH > 0. && x > 1.e-14) {
        const double r = h0_residual(aH, jH, nH, x);
        if (!(r <= 1.e-9))
          bad << " h0:balance-residual x=" << x << " relative-residual=" << r;
      }
    } else if (op == "h0m" && w.size() == 7) {
      const double aH = dbl(w[1]), jH = dbl(w[2]), nH = dbl(w[3]);
      const double aH2 = dbl(w[4]), jH2 = dbl(w[5]), nH2 = dbl(w[6]);
      const double x1 = h0_real(aH, jH, nH), x2 = h0_real(aH2, jH2, nH2);
      std::cout << "h0m " << showF(x1) << " " << showF(x2) << "\n";
      // second argument set has more radiation and/or less density*recombination
      const long double na1 = (long double)nH * aH, na2 = (long double)nH2 * aH2;
      if (fin_(x1) && fin_(x2) && jH2 >= jH && na2 <= na1 && na2 > 0. && jH > 0.) {
        if (!(x2 <= x1 * (1. + 1.e-9))) {
          if (na1 == na2)
            bad << " h0:not-monotone-in-J x(J1)=" << x1 << " x(J2)=" << x2;
          else if (jH == jH2)
            bad << " h0:not-monotone-in-nalpha x1=" << x1 << " x2=" << x2;
          else
            bad << " h0:not-monotone x1=" << x1 << " x2=" << x2;
        }
      }
    } else if (op == "met" && w.size() == 49) {
      // met T j[12] ne nh0 nhe0 nhp a[12] ct[19]
      const double T = dbl(w[1]);
      double j[12], c[19];
      for (int i = 0; i < 12; ++i)
        j[i] = dbl(w[2 + i]);
      const double ne = dbl(w[14]), nh0 = dbl(w[15]), nhe0 = dbl(w[16]), nhp = dbl(w[17]);
      InjectedRates ir;
      ir.a[0] = ir.a[1] = 0.;
      for (int i = 0; i < 12; ++i)
        ir.a[2 + i] = dbl(w[18 + i]);
      ct19(W->ctr, T * 1.e-4, c);
      bool consistent = true;
      for (int i = 0; i < 19; ++i)
        if (showF(c[i]) != w[30 + i])
          consistent = false;
      if (!consistent) {
        std::cout << "met line-inconsistent-with-charge-transfer-table\n";
      } else {
        IonizationVariables iv;
        IonizationStateCalculator::compute_ionization_states_metals(j, ne, T, T * 1.e-4, nh0, nhe0,
                                                                    nhp, ir, W->ctr, iv);
        std::cout << "met";
        for (int i = 0; i < 12; ++i)
          std::cout << " " << showF(iv.get_ionic_fraction(2 + i));
        std::cout << "\n";
        // hypotheses of metals_range: non-negative rates, positive denominators.  With
        // n_e > 0 and positive recombination rates every denominator is positive: then the
        // property must hold.  (n_e = 0 is excluded by the guard in calculate_ionization_state;
        // it is exercised through the `cell` ops.)
        bool hyp = ne > 0. && nh0 >= 0. && nhe0 >= 0. && nhp >= 0.;
        for (int i = 0; i < 12; ++i)
          hyp = hyp && j[i] >= 0. && ir.a[2 + i] > 0. && fin_(j[i]) && fin_(ir.a[2 + i]);
        for (int i = 0; i < 19; ++i)
          hyp = hyp && c[i] >= 0.;
        if (hyp) {
          const double *f = &iv._ionic_fractions[2];
          bool ok = true;
          for (int i = 0; i < 12; ++i)
            ok = ok && frac_ok(f[i]);
          ok = ok && f[0] + f[1] <= 1. + 1.e-12 && f[2] + f[3] + f[4] <= 1. + 1.e-12 &&
               f[5] + f[6] <= 1. + 1.e-12 && f[7] + f[8] <= 1. + 1.e-12 &&
               f[9] + f[10] + f[11] <= 1. + 1.e-12;
          if (!ok)
            bad << " metals:range";
        }
      }
    } else if ((op == "hhe" || op == "hhex") && w.size() == 8) {
      const double aH = dbl(w[1]), aHe = dbl(w[2]), jH = dbl(w[3]), jHe = dbl(w[4]),
                   nH = dbl(w[5]), AHe = dbl(w[6]), T = dbl(w[7]);
      std::string res;
      int status;
      const bool ok = in_child(
          [&]() {
            double h0 = -1., he0 = -1.;
            IonizationStateCalculator::compute_ionization_states_hydrogen_helium(
                aH, aHe, jH, jHe, nH, AHe, T, h0, he0);
            return showF(h0) + " " + showF(he0);
          },
          res, status);
      if (!ok) {
        std::cout << "hhe abort\n";
        if (op == "hhe")
          bad << " hhe:abort " << why(status);
      } else {
        std::cout << "hhe " << res << "\n";
        auto r = words(res);
        if (op == "hhe" && (r[0] == "nan" || r[1] == "nan" || !frac_ok(dbl(r[0])) ||
                            !frac_ok(dbl(r[1]))))
          bad << " hhe:range h0=" << (r[0] == "nan" ? NAN : dbl(r[0]))
              << " he0=" << (r[1] == "nan" ? NAN : dbl(r[1]));
      }
    } else if ((op == "sgcell" && w.size() == 59) || (op == "sgion" && w.size() == 61)) {
      // sgcell L tw sx sy sz nx ny nz n T AHe mean[14] a[14] ct[19]
      // sgion  mode L0 L tw sx sy sz nx ny nz n T AHe mean[14] a[14] ct[19]
      const bool ion = op == "sgion";
      const size_t o0 = ion ? 11 : 9;
      const int mode = ion ? (int)u64(w[1]) : -1;
      const double L0 = ion ? dbl(w[2]) : 0., L = dbl(w[ion ? 3 : 1]), tw = dbl(w[ion ? 4 : 2]);
      const Shape sh = parse_shape(w, ion ? 5 : 3);
      const double n = dbl(w[o0]), T = dbl(w[o0 + 1]), AHe = dbl(w[o0 + 2]);
      if (rates_text(T) != join(std::vector< std::string >(w.begin() + o0 + 17, w.end()))) {
        std::cout << op << " line-inconsistent-with-rate-tables\n";
      } else {
        std::string res;
        int status;
        const bool ok = in_child(
            [&]() {
              Abundances ab(AHe, 0., 0., 0., 0., 0.);
              DensitySubGrid *sg = make_subgrid(sh);
              for (auto it = sg->begin(); it != sg->end(); ++it) {
                IonizationVariables &v = it.get_ionization_variables();
                v.set_number_density(n);
                v.set_temperature(T);
                for (int i = 0; i < 14; ++i) {
                  v.set_mean_intensity(i, dbl(w[o0 + 3 + i]));
                  v.set_ionic_fraction(i, SENTINEL);
                }
              }
              if (!ion) {
                IonizationStateCalculator isc(L, ab, W->rates, W->ctr);
                isc.calculate_ionization_state(tw, *sg);
              } else {
                // a calculator set up with L0 whose luminosity is then updated to L; the
                // ionization-only branch of calculate_temperature(loop, totweight, subgrid)
                TemperatureCalculator calc(mode == 1, mode == 1 ? 5 : 0, L0, ab, 1.e-3, 100, 0., 0.,
                                           0.75, 0., 4000., W->data, W->rates, W->ctr, nullptr);
                calc.update_luminosity(L);
                calc.calculate_temperature(1, tw, *sg);
              }
              return subgrid_result(*sg, false);
            },
            res, status);
        if (!ok) {
          std::cout << op << " abort\n";
          bad << " sg:abort " << why(status);
        } else {
          auto r = words(res);
          std::cout << op;
          for (int i = 0; i < 14; ++i)
            std::cout << " " << r[i];
          std::cout << "\n";
          if (r[14] != "same")
            bad << " sg:cells-differ (identical cells of one subgrid got different fractions)";
          bool okf = true;
          double f[14];
          for (int i = 0; i < 14; ++i) {
            f[i] = tokval(r[i]);
            okf = okf && frac_ok(f[i]);
          }
          if (!okf)
            bad << " sg:range";
          else if (f[2] + f[3] > 1. + 1.e-12 || f[4] + f[5] + f[6] > 1. + 1.e-12 ||
                   f[7] + f[8] > 1. + 1.e-12 || f[9] + f[10] > 1. + 1.e-12 ||
                   f[11] + f[12] + f[13] > 1. + 1.e-12)
            bad << " sg:stage-sum-above-1";
          // hydrogen only: the stored neutral fraction solves the balance for the CURRENT
          // luminosity and the real cell volume
          const double counter = dbl(w[o0 + 3]), aH = dbl(w[o0 + 17]);
          if (AHe == 0. && okf && n > 0. && counter > 0. && L > 0. && f[0] > 1.e-14 && f[0] < 1.) {
            const double rr = wrapper_residual(L, tw, sh, counter, n, aH, f[0]);
            if (!(rr <= 1.e-9))
              bad << " sg:h0-balance-residual x=" << f[0] << " relative-residual=" << rr
                  << " (rate L*J/(totweight*V) with V = prod side/ncell)";
          }
        }
      }
    } else if (op == "sgtemp" && w.size() >= 60) {
      // sgtemp L0 L tw sx sy sz nx ny nz | <temp tokens 1..>
      const double L0 = dbl(w[1]), L = dbl(w[2]), tw = dbl(w[3]);
      const Shape sh = parse_shape(w, 4);
      std::vector< std::string > w2(w.begin() + 9, w.end());
      TempArgs a = parse_scalars(w2, 1, true);
      for (int i = 0; i < 14; ++i)
        a.mean[i] = dbl(w2[20 + i]);
      a.heat[0] = dbl(w2[34]);
      a.heat[1] = dbl(w2[35]);
      for (int i = 0; i < 12; ++i)
        a.met0[i] = dbl(w2[36 + i]);
      std::string res;
      int status;
      const bool ok = in_child(
          [&]() {
            Abundances ab(a.AHe, a.AC, a.AN, a.AO, a.ANe, a.AS);
            TemperatureCalculator calc(true, 0, L0, ab, a.eps, a.maxit, a.pah, a.crfac, a.crlim,
                                       a.crscale, a.tmin, W->data, W->rates, W->ctr, nullptr);
            calc.update_luminosity(L);
            DensitySubGrid *sg = make_subgrid(sh);
            for (auto it = sg->begin(); it != sg->end(); ++it)
              fill_vars(a, it.get_ionization_variables());
            calc.calculate_temperature(1, tw, *sg);
            return subgrid_result(*sg, true);
          },
          res, status);
      if (!ok) {
        std::cout << "sgtemp abort\n";
        bad << " sg:abort " << why(status);
      } else {
        auto r = words(res);
        std::cout << "sgtemp";
        for (int i = 0; i < 15; ++i)
          std::cout << " " << r[i];
        std::cout << "\n";
        const double T = tokval(r[0]);
        const double Tinit = (a.Told <= 4000.) ? 8000. : a.Told;
        const double lo = std::min(std::min(a.tmin, Tinit), 30000.);
        if (!fin_(T) || !(T == 500. || (T >= lo && T <= 30000.)))
          bad << " sg:T-out-of-bounds T=" << T;
        bool okf = true;
        for (int i = 0; i < 14; ++i)
          okf = okf && frac_ok(tokval(r[1 + i]));
        if (!okf)
          bad << " sg:range";
      }
    } else if ((op == "cell" || op == "cellx") && w.size() == 52) {
      // cell jfac n T AHe mean[14] a[14] ct[19]
      const double jfac = dbl(w[1]), n = dbl(w[2]), T = dbl(w[3]), AHe = dbl(w[4]);
      bool consistent = true;
      for (int ion = 0; ion < 14; ++ion)
        if (showF(W->rates.get_recombination_rate(ion, T)) != w[19 + ion])
          consistent = false;
      double c[19];
      ct19(W->ctr, T * 1.e-4, c);
      for (int i = 0; i < 19; ++i)
        if (showF(c[i]) != w[33 + i])
          consistent = false;
      if (!consistent) {
        std::cout << "cell line-inconsistent-with-rate-tables\n";
      } else {
        std::string res;
        int status;
        const bool ok = in_child(
            [&]() {
              Abundances ab(AHe, 0., 0., 0., 0., 0.);
              IonizationStateCalculator isc(1., ab, W->rates, W->ctr);
              const double hfac =
                  jfac * PhysicalConstants::get_physical_constant(PHYSICALCONSTANT_PLANCK);
              // fresh cell, every fraction pre-filled with the sentinel
              IonizationVariables iv;
              iv.set_number_density(n);
              iv.set_temperature(T);
              for (int i = 0; i < 14; ++i) {
                iv.set_mean_intensity(i, dbl(w[5 + i]));
                iv.set_ionic_fraction(i, SENTINEL);
              }
              isc.calculate_ionization_state(jfac, hfac, iv);
              std::ostringstream o;
              for (int i = 0; i < 14; ++i)
                o << (i ? " " : "") << showF(iv.get_ionic_fraction(i));
              // the same update on the re-used cell of this history
              IonizationVariables &hv = *g_hist;
              hv.set_number_density(n);
              hv.set_temperature(T);
              for (int i = 0; i < 14; ++i)
                hv.set_mean_intensity(i, dbl(w[5 + i]));
              hv.set_heating(0, 0.);
              hv.set_heating(1, 0.);
              isc.calculate_ionization_state(jfac, hfac, hv);
              o << " | " << state_text(hv);
              return o.str();
            },
            res, status);
        std::string reused;
        if (ok) {
          const size_t bar = res.find(" | ");
          reused = res.substr(bar + 3);
          res = res.substr(0, bar);
        }
        if (!ok) {
          std::cout << "cell abort\n";
          if (op == "cell")
            bad << " cell:abort " << why(status);
        } else {
          std::cout << "cell " << res << "\n";
          {
            // outputs must depend on the inputs of this update only
            auto rf = words(res), rh = words(reused);
            for (int i = 0; i < 14; ++i)
              if (rf[i] != rh[1 + i]) {
                bad << " cell:depends-on-previous-state ion-index=" << i
                    << " fresh-cell=" << tokval(rf[i]) << " reused-cell=" << tokval(rh[1 + i]);
                break;
              }
            load_state(*g_hist, rh, 0);
          }
          if (op == "cell") {
            auto r = words(res);
            double f[14];
            bool okf = true, nanmet = false;
            for (int i = 0; i < 14; ++i) {
              f[i] = r[i] == "nan" ? NAN : dbl(r[i]);
              okf = okf && frac_ok(f[i]);
              if (i >= 2 && !fin_(f[i]))
                nanmet = true;
            }
            if (nanmet)
              bad << " cell:metals-not-finite";
            else if (!okf)
              bad << " cell:range";
            else if (f[2] + f[3] > 1. + 1.e-12 || f[4] + f[5] + f[6] > 1. + 1.e-12 ||
                     f[7] + f[8] > 1. + 1.e-12 || f[9] + f[10] > 1. + 1.e-12 ||
                     f[11] + f[12] + f[13] > 1. + 1.e-12)
              bad << " cell:stage-sum-above-1";
          }
        }
      }
    } else if ((op == "temp" || op == "tempx") && w.size() >= 51) {
      TempArgs a = parse_scalars(w, 1, true);
      for (int i = 0; i < 14; ++i)
        a.mean[i] = dbl(w[20 + i]);
      a.heat[0] = dbl(w[34]);
      a.heat[1] = dbl(w[35]);
      for (int i = 0; i < 12; ++i)
        a.met0[i] = dbl(w[36 + i]);
      std::string res;
      int status;
      const bool ok = in_child([&]() { return run_temp(a, W->rates, g_hist); }, res, status);
      if (!ok) {
        std::cout << "temp abort\n";
        bad << " temp:abort " << why(status);
      } else {
        auto r = words(res);
        {
          // r = fresh-cell state (15 tokens), "|", re-used cell state (15 tokens)
          for (int i = 0; i < 15; ++i)
            if (r[i] != r[16 + i]) {
              bad << " temp:depends-on-previous-state "
                  << (i == 0 ? std::string("temperature") : "ion-index=" + std::to_string(i - 1))
                  << " fresh-cell=" << tokval(r[i]) << " reused-cell=" << tokval(r[16 + i]);
              break;
            }
          load_state(*g_hist, r, 16);
        }
        std::cout << "temp " << r[0] << " " << r[1] << " " << r[2];
        for (int i = 0; i < 12; ++i)
          std::cout << " " << r[3 + i];
        std::cout << "\n";
        // documented bounds: 500 K (neutral) or [minimum ionized temperature, 30000 K]; when
        // the loop body never runs (eps >= 1 or no iterations allowed) the initial guess
        // (stored temperature if > 4000 K, else 8000 K) is returned capped at 30000 K
        const double T = r[0] == "nan" ? NAN : dbl(r[0]);
        const double Tinit = (a.Told <= 4000.) ? 8000. : a.Told;
        const double lo = std::min(std::min(a.tmin, Tinit), 30000.);
        if (!fin_(T) || !(T == 500. || (T >= lo && T <= 30000.)))
          bad << " temp:T-out-of-bounds T=" << T;
        if (op == "temp") {
          double f[14];
          bool okf = true;
          for (int i = 0; i < 14; ++i) {
            f[i] = r[1 + i] == "nan" ? NAN : dbl(r[1 + i]);
            okf = okf && frac_ok(f[i]);
          }
          if (!okf)
            bad << " temp:fraction-range";
          else if (f[2] + f[3] > 1. + 1.e-12 || f[4] + f[5] + f[6] > 1. + 1.e-12 ||
                   f[7] + f[8] > 1. + 1.e-12 || f[9] + f[10] > 1. + 1.e-12 ||
                   f[11] + f[12] + f[13] > 1. + 1.e-12)
            bad << " temp:stage-sum-above-1";
        }
      }
    } else if ((op == "bal" || op == "balx") && w.size() == 63) {
      // the full line carries normalised j and h: jfac = hfac = 1
      TempArgs a;
      a.jfac = a.hfac = 1.;
      const double T = dbl(w[1]);
      a.n = dbl(w[2]);
      a.Told = T;
      for (int i = 0; i < 14; ++i)
        a.mean[i] = dbl(w[3 + i]);
      a.heat[0] = dbl(w[17]);
      a.heat[1] = dbl(w[18]);
      a.AHe = dbl(w[19]);
      a.AC = dbl(w[20]);
      a.AN = dbl(w[21]);
      a.AO = dbl(w[22]);
      a.ANe = dbl(w[23]);
      a.AS = dbl(w[24]);
      a.pah = dbl(w[25]);
      a.crfac = dbl(w[26]);
      a.crscale = dbl(w[27]);
      a.z = dbl(w[28]);
      a.crcell = 1.;
      for (int k = 0; k < 12; ++k)
        a.met0[k] = SENTINEL;
      if (rates_text(T) != join(std::vector< std::string >(w.begin() + 29, w.begin() + 62))) {
        std::cout << "bal line-inconsistent-with-rate-tables\n";
      } else {
        std::string res;
        int status;
        const bool ok = in_child([&]() { return run_bal(a, T); }, res, status);
        if (!ok) {
          std::cout << "bal abort\n";
          if (op == "bal")
            bad << " bal:abort " << why(status);
        } else {
          auto r = words(res);
          if (r[30] != w[62]) {
            std::cout << "bal line-inconsistent-with-line-cooling-table\n";
          } else {
            std::cout << "bal";
            for (int i = 0; i < 30; ++i)
              std::cout << " " << r[i];
            std::cout << "\n";
            // with free electrons the balance is physical: fractions, stage sums, finite
            // non-negative gain and loss, non-negative abundances for the line cooling
            const double ne = tokval(r[16]);
            if (op == "bal" && ne > 0.) {
              bool okb = frac_ok(tokval(r[0])) && frac_ok(tokval(r[1])) && fin_(tokval(r[2])) &&
                         tokval(r[2]) >= 0. && fin_(tokval(r[3])) && tokval(r[3]) >= 0.;
              double f[12];
              for (int i = 0; i < 12; ++i) {
                f[i] = tokval(r[4 + i]);
                okb = okb && frac_ok(f[i]);
              }
              okb = okb && f[0] + f[1] <= 1. + 1.e-12 && f[2] + f[3] + f[4] <= 1. + 1.e-12 &&
                    f[5] + f[6] <= 1. + 1.e-12 && f[7] + f[8] <= 1. + 1.e-12 &&
                    f[9] + f[10] + f[11] <= 1. + 1.e-12;
              for (int i = 0; i < 13; ++i)
                okb = okb && tokval(r[17 + i]) >= -1.e-12 * 1.e-3;
              if (!okb)
                bad << " bal:range";
            }
          }
        }
      }
    } else if (op == "newcell") {
      delete g_hist;
      g_hist = new IonizationVariables();
      std::cout << "newcell\n";
    } else if (op == "abort") {
      // the implementation aborted while this line was prepared: reproduce
      std::vector< std::string > raw(w.begin() + 1, w.end());
      const std::string again = raw.empty() ? "" : prep_line(raw);
      if (again.compare(0, 5, "abort") == 0) {
        std::cout << "abort\n";
        const bool outside = raw[0] == "tempxraw" || raw[0] == "tempxspec" || raw[0] == "balxraw";
        if (!outside && raw[0] == "balspec")
          bad << " bal:abort (compute_cooling_and_heating_balance did not return)";
        else if (!outside)
          bad << " temp:abort (calculate_temperature did not return)";
      } else {
        std::cout << "abort-not-reproduced\n";
      }
    } else {
      std::cout << "bad-op\n";
    }
    if (!bad.str().empty())
      std::cout << "ORACLE line=" << lineno << bad.str() << "\n";
  }
  std::cout.flush();
  return 0;
}
