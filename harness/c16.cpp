// C16 harness: drives the real grid / search classes of /repo through the line protocol.
// One answer line per op line (compared with the Lean model) plus "ORACLE line=<n> ..." lines
// when the property itself fails on the implementation.
#include "common.hpp"
#include <algorithm>
#include <csignal>
#include <map>
#include <set>
#include <sys/wait.h>
#include <unistd.h>
#define private public
#define protected public
#include "AMRDensityGrid.hpp"
#include "AMRGrid.hpp"
#include "CartesianDensityGrid.hpp"
#include "MortonKeyGenerator.hpp"
#include "Octree.hpp"
#include "Photon.hpp"
#include "PointLocations.hpp"
#include "VoronoiDensityGrid.hpp"
#include "VoronoiGeneratorDistribution.hpp"
#include "VoronoiGridFactory.hpp"
#undef private
#undef protected

typedef long long ll;

// containment tolerances (relative to |anchor| + |side| of the whole box): a Cartesian wall is one
// multiply-add away from the exact value, the wall of a level-L AMR cell carries L roundings
static const double CART_TOL = 8.e-16;
static const double AMR_TOL = 32.e-16;

static uint64_t lineno = 0;
// an operation of the implementation that does not come back (e.g. a traversal that never leaves
// the grid) is reported as a property failure with the line that hangs
static void on_alarm(int) {
  char buf[128];
  const int n = snprintf(buf, sizeof(buf), "\nORACLE line=%lu implementation-does-not-terminate\n",
                         (unsigned long)lineno);
  if (write(1, buf, n) < 0) {
  }
  _exit(3);
}
static void oracle(const std::string &what) {
  std::cout << "ORACLE line=" << lineno << " " << what << "\n";
}
// run a call of the implementation that may abort (cmac_error) or read out of bounds in a forked
// child: true = it came back and the property held
template < typename F > static bool probe_ok(F f) {
  std::cout.flush();
  fflush(stdout);
  const pid_t pid = fork();
  if (pid == 0) {
    alarm(20);
    if (!freopen("/dev/null", "w", stderr)) {
    }
    const bool ok = f();
    _exit(ok ? 0 : 1);
  }
  int st = 0;
  if (pid < 0 || waitpid(pid, &st, 0) < 0)
    return false;
  return WIFEXITED(st) && WEXITSTATUS(st) == 0;
}
static ll sll(const std::string &s) { return std::strtoll(s.c_str(), nullptr, 10); }

static uint64_t mix_off(uint64_t acc, uint64_t i, ll rx, ll ry, ll rz) {
  const uint64_t code =
      ((uint64_t)(rx + 100000) * 200003ull + (uint64_t)(ry + 100000)) * 200003ull +
      (uint64_t)(rz + 100000);
  return (acc + (code % 1000000007ull) * (i + 1)) % 1000000007ull;
}

// ---------------------------------------------------------------- grid-independent chord oracle
// Tie of a traversal to the geometry of the grid, through the public point location only: the
// straight line p0 + t*u, t in [0,S] (folded into the box on periodic axes) is cut into the chords
// of the cells it crosses.  Cells are convex, so two equal cells at the ends of an interval that
// is shorter than half a box period have that cell in between; different cells are bisected down
// to the crossing.  The path deposited in every cell must equal its chord, and an absorbed photon
// must end in the chord of the cell that is returned.
static CoordinateVector<> chord_pos(const Box<> &box, const bool per[3], const CoordinateVector<> &p0,
                                    const CoordinateVector<> &u, const double t) {
  CoordinateVector<> x;
  for (int i = 0; i < 3; ++i) {
    const double a = box.get_anchor()[i], s = box.get_sides()[i];
    double v = p0[i] + t * u[i];
    if (per[i]) {
      if (v < a || v >= a + s)
        v -= std::floor((v - a) / s) * s;
      if (v < a)
        v = a;
      if (v >= a + s)
        v = a;
    } else {
      v = std::min(std::max(v, a), a + s);
    }
    x[i] = v;
  }
  return x;
}

struct ChordRef {
  std::map< uint64_t, double > len; // chord length (in units of t) per cell
  uint64_t last_cell;               // cell just before t = S
  uint64_t end_cell;                // cell at t = S
  bool valid;
};

static ChordRef chord_reference(const DensityGrid &grid, const Box<> &box, const bool per[3],
                                const CoordinateVector<> &p0, const CoordinateVector<> &u, const double S) {
  ChordRef r;
  r.valid = false;
  r.last_cell = 0;
  r.end_cell = 0;
  if (!(S > 0.) || !std::isfinite(S))
    return r;
  // pieces shorter than (a bit less than) half a box period along every periodic axis
  double piece = S;
  for (int i = 0; i < 3; ++i)
    if (per[i] && u[i] != 0.)
      piece = std::min(piece, 0.45 * box.get_sides()[i] / std::fabs(u[i]));
  const double npd = std::ceil(S / piece);
  if (!(npd <= 20000.))
    return r;
  const uint64_t np = (uint64_t)npd;
  const double epst = 1.e-13 * S;
  struct Iv {
    double t0, t1;
    uint64_t c0, c1;
  };
  std::vector< Iv > stack;
  double tprev = 0.;
  uint64_t cprev = grid.get_cell_index(chord_pos(box, per, p0, u, 0.));
  for (uint64_t k = 1; k <= np; ++k) {
    const double tk = (k == np) ? S : S * ((double)k / (double)np);
    const uint64_t ck = grid.get_cell_index(chord_pos(box, per, p0, u, tk));
    stack.push_back(Iv{tprev, tk, cprev, ck});
    uint64_t guard = 0;
    while (!stack.empty()) {
      if (++guard > 2000000)
        return r;
      const Iv iv = stack.back();
      stack.pop_back();
      const double mid = 0.5 * (iv.t0 + iv.t1);
      if (iv.c0 == iv.c1) {
        r.len[iv.c0] += iv.t1 - iv.t0;
      } else if (iv.t1 - iv.t0 <= epst || !(mid > iv.t0 && mid < iv.t1)) {
        r.len[iv.c0] += 0.5 * (iv.t1 - iv.t0);
        r.len[iv.c1] += 0.5 * (iv.t1 - iv.t0);
      } else {
        const uint64_t cm = grid.get_cell_index(chord_pos(box, per, p0, u, mid));
        stack.push_back(Iv{mid, iv.t1, cm, iv.c1});
        stack.push_back(Iv{iv.t0, mid, iv.c0, cm});
      }
    }
    tprev = tk;
    cprev = ck;
  }
  r.last_cell = grid.get_cell_index(chord_pos(box, per, p0, u, S * (1. - 1.e-9)));
  r.end_cell = cprev;
  r.valid = true;
  return r;
}

// dep: path deposited per cell (same units as t).  Returns "" or the failing clause.
// A line that runs in (or within rounding of) a wall or an edge between cells lies in the closed
// boxes of all cells around it: the traversal and the point location may then pick different ones.
// So when the plain comparison fails, the reference is also evaluated on lines shifted by a
// rounding-size offset along +-e_i and +-e_i +-e_j, and a deposit has to lie between the smallest
// and the largest chord of its cell over these lines.
static std::string chord_oracle(const std::string &gridname, const DensityGrid &grid, const Box<> &box,
                                const bool per[3], const CoordinateVector<> &p0, const CoordinateVector<> &u,
                                const std::map< uint64_t, double > &dep, const bool absorbed,
                                const uint64_t returned) {
  double S = 0.;
  for (auto it = dep.begin(); it != dep.end(); ++it)
    S += it->second;
  // a wall position carries the rounding of |anchor| + side; along the line this is divided by |u_i|
  double tol = 1.e-7 * S;
  for (int i = 0; i < 3; ++i)
    if (u[i] != 0.)
      tol = std::max(tol, 1.e-9 * (std::fabs(box.get_anchor()[i]) + box.get_sides()[i]) / std::fabs(u[i]));
  std::vector< CoordinateVector<> > shifts;
  shifts.push_back(CoordinateVector<>(0.));
  double del[3];
  for (int i = 0; i < 3; ++i)
    del[i] = 1.e-9 * (std::fabs(box.get_anchor()[i]) + box.get_sides()[i]);
  for (int i = 0; i < 3; ++i)
    for (int s = -1; s <= 1; s += 2) {
      CoordinateVector<> d(0.);
      d[i] = s * del[i];
      shifts.push_back(d);
    }
  for (int i = 0; i < 3; ++i)
    for (int j = i + 1; j < 3; ++j)
      for (int s = -1; s <= 1; s += 2)
        for (int q = -1; q <= 1; q += 2) {
          CoordinateVector<> d(0.);
          d[i] = s * del[i];
          d[j] = q * del[j];
          shifts.push_back(d);
        }
  std::map< uint64_t, double > lo, hi;
  std::set< uint64_t > ends;
  const bool debug = getenv("C16_DEBUG") != nullptr;
  for (size_t v = 0; v < shifts.size(); ++v) {
    const ChordRef r = chord_reference(grid, box, per, p0 + shifts[v], u, S);
    if (!r.valid)
      return "";
    ends.insert(r.last_cell);
    ends.insert(r.end_cell);
    std::set< uint64_t > cells;
    for (auto it = dep.begin(); it != dep.end(); ++it)
      cells.insert(it->first);
    for (auto it = r.len.begin(); it != r.len.end(); ++it)
      cells.insert(it->first);
    for (auto it = lo.begin(); it != lo.end(); ++it)
      cells.insert(it->first);
    for (auto c = cells.begin(); c != cells.end(); ++c) {
      const double b = r.len.count(*c) ? r.len.find(*c)->second : 0.;
      if (v == 0 || !lo.count(*c)) {
        // a cell that appears for the first time had chord 0 on the earlier lines
        lo[*c] = (v == 0) ? b : std::min(0., b);
        hi[*c] = (v == 0) ? b : std::max(0., b);
      } else {
        lo[*c] = std::min(lo[*c], b);
        hi[*c] = std::max(hi[*c], b);
      }
    }
    bool ok = true;
    for (auto c = lo.begin(); c != lo.end(); ++c) {
      const double a = dep.count(c->first) ? dep.find(c->first)->second : 0.;
      if (debug)
        fprintf(stderr, "chord v=%lu cell %lu dep %.17g ref [%.17g, %.17g] tol %g S %.17g\n", (unsigned long)v,
                (unsigned long)c->first, a, c->second, hi[c->first], tol, S);
      if (!(a >= c->second - tol && a <= hi[c->first] + tol))
        ok = false;
    }
    if (absorbed && !ends.count(returned))
      ok = false;
    if (ok)
      return "";
  }
  for (auto c = lo.begin(); c != lo.end(); ++c) {
    const double a = dep.count(c->first) ? dep.find(c->first)->second : 0.;
    if (!(a >= c->second - tol && a <= hi[c->first] + tol))
      return gridname + "-path-deposited-in-a-cell-differs-from-the-chord-of-the-segment-in-that-cell";
  }
  return gridname + "-absorbed-photon-does-not-end-in-the-returned-cell";
}

// ---------------------------------------------------------------- Morton
static void op_morton(const std::vector< std::string > &w) {
  const CoordinateVector<> anchor(dbl(w[1]), dbl(w[2]), dbl(w[3]));
  const CoordinateVector<> sides(dbl(w[4]), dbl(w[5]), dbl(w[6]));
  const CoordinateVector<> c(dbl(w[7]), dbl(w[8]), dbl(w[9]));
  MortonKeyGenerator gen(Box<>(anchor, sides));
  const morton_key_t key = gen.get_key(c);
  std::cout << "morton " << key << "\n";
  // oracle: the key is the bit interleaving of the three 21-bit coordinates
  uint32_t b[3];
  for (int i = 0; i < 3; ++i)
    b[i] = 0x001fffff * (c[i] - anchor[i]) / sides[i];
  uint32_t r[3] = {0, 0, 0};
  for (int i = 0; i < 21; ++i) {
    const uint64_t g = (key >> (3 * i)) & 7;
    r[0] |= ((g >> 2) & 1) << i;
    r[1] |= ((g >> 1) & 1) << i;
    r[2] |= (g & 1) << i;
  }
  if (r[0] != b[0] || r[1] != b[1] || r[2] != b[2] || (key >> 63))
    oracle("morton-key-is-not-the-interleaving");
}

// ---------------------------------------------------------------- shells
static void op_inc(const std::vector< std::string > &w) {
  int_fast32_t a[4] = {(int_fast32_t)sll(w[1]), (int_fast32_t)sll(w[2]),
                       (int_fast32_t)sll(w[3]), (int_fast32_t)sll(w[4])};
  int_fast32_t b[4] = {a[0], a[1], a[2], a[3]};
  PointLocations::ngbiterator::increase_indices(a[0], a[1], a[2], a[3]);
  PointLocations::generalngbiterator::increase_indices(b[0], b[1], b[2], b[3]);
  std::cout << "inc " << a[0] << " " << a[1] << " " << a[2] << " " << a[3] << " | "
            << b[0] << " " << b[1] << " " << b[2] << " " << b[3] << "\n";
}

static void op_shell(const std::vector< std::string > &w) {
  const ll L = sll(w[1]);
  int_fast32_t rx = 0, ry = 0, rz = 0, level = 0;
  uint64_t i = 0, cnt = 0, chk = 0;
  std::set< std::tuple< ll, ll, ll > > seen;
  bool dup = false, wrongnorm = false, leveldown = false;
  ll prevlevel = 0;
  while (level <= L) {
    const ll mn = std::max(std::llabs(rx), std::max(std::llabs(ry), std::llabs(rz)));
    if (mn != level)
      wrongnorm = true;
    if (level < prevlevel)
      leveldown = true;
    prevlevel = level;
    if (!seen.insert(std::make_tuple((ll)rx, (ll)ry, (ll)rz)).second)
      dup = true;
    if (level == L) {
      chk = mix_off(chk, cnt, rx, ry, rz);
      ++cnt;
    }
    PointLocations::generalngbiterator::increase_indices(rx, ry, rz, level);
    ++i;
  }
  std::cout << "shell " << cnt << " " << chk << " " << i << "\n";
  // oracle: every offset of max-norm <= L exactly once, level = max-norm, levels ascending
  const uint64_t expect = (uint64_t)(2 * L + 1) * (2 * L + 1) * (2 * L + 1);
  if (dup)
    oracle("shell-offset-visited-twice");
  if (wrongnorm)
    oracle("shell-level-is-not-max-norm");
  if (leveldown)
    oracle("shell-level-decreased");
  if (seen.size() != expect || i != expect)
    oracle("shell-offsets-missing");
}

static void op_maxrange(const std::vector< std::string > &w) {
  const ll ax = sll(w[1]), ay = sll(w[2]), az = sll(w[3]), sx = sll(w[4]), sy = sll(w[5]),
           sz = sll(w[6]);
  int_fast32_t m[4], g[4];
  PointLocations::ngbiterator::set_max_range(m[0], m[1], m[2], m[3], ax, ay, az, sx, sy, sz);
  PointLocations::generalngbiterator::set_max_range(g[0], g[1], g[2], g[3], ax, ay, az, sx,
                                                    sy, sz);
  std::cout << "maxrange " << m[0] << " " << m[1] << " " << m[2] << " " << m[3] << " | "
            << g[0] << " " << g[1] << " " << g[2] << " " << g[3] << "\n";
  if (sx == sy && sy == sz) {
    // oracle (cubic grids, the only ones PointLocations builds): the returned offset is the
    // last block inside the grid in traversal order and mlevel is its level
    int_fast32_t rx = 0, ry = 0, rz = 0, level = 0;
    ll last[4] = {0, 0, 0, 0};
    const ll stop = std::max(std::max(sx, sy), sz) + 1;
    while (level <= stop) {
      if (ax + rx >= 0 && ax + rx < sx && ay + ry >= 0 && ay + ry < sy && az + rz >= 0 &&
          az + rz < sz) {
        last[0] = rx, last[1] = ry, last[2] = rz, last[3] = level;
      }
      PointLocations::generalngbiterator::increase_indices(rx, ry, rz, level);
    }
    for (int v = 0; v < 2; ++v) {
      const int_fast32_t *q = v ? g : m;
      if (q[0] != last[0] || q[1] != last[1] || q[2] != last[2] || q[3] != last[3]) {
        oracle("maxrange-is-not-the-last-block-inside-the-grid");
        break;
      }
    }
  }
}

// positions: one point in the centre of every bucket of an s^3 grid over the unit box
static std::vector< CoordinateVector<> > lattice(ll s) {
  std::vector< CoordinateVector<> > p;
  for (ll i = 0; i < s; ++i)
    for (ll j = 0; j < s; ++j)
      for (ll k = 0; k < s; ++k)
        p.push_back(CoordinateVector<>((i + 0.5) / s, (j + 0.5) / s, (k + 0.5) / s));
  return p;
}

static void op_range(const std::vector< std::string > &w) {
  const ll ax = sll(w[1]), ay = sll(w[2]), az = sll(w[3]), s = sll(w[4]);
  std::vector< CoordinateVector<> > pos = lattice(s);
  PointLocations loc(pos, 1, Box<>(CoordinateVector<>(0.), CoordinateVector<>(1.)));
  if ((ll)loc._grid.size() != s) {
    std::cout << "range grid-size-" << loc._grid.size() << "\n";
    return;
  }
  const CoordinateVector<> c((ax + 0.5) / s, (ay + 0.5) / s, (az + 0.5) / s);
  PointLocations::generalngbiterator it(loc, c);
  PointLocations::ngbiterator it2(loc, (ax * s + ay) * s + az);
  uint64_t i = 0, chk = mix_off(0, 0, 0, 0, 0), lvlups = 0;
  std::set< std::tuple< ll, ll, ll > > seen;
  seen.insert(std::make_tuple(0ll, 0ll, 0ll));
  bool dup = false, outside = false, differ = false, order = false;
  ll prevlevel = 0;
  uint64_t guard = 0;
  const uint64_t limit = (uint64_t)s * s * s + 5;
  while (it.increase_range()) {
    if (!it2.increase_range())
      differ = true;
    ++i;
    const ll rx = std::get< 0 >(it._range), ry = std::get< 1 >(it._range),
             rz = std::get< 2 >(it._range);
    if (it._range != it2._range || it._level != it2._level)
      differ = true;
    chk = mix_off(chk, i, rx, ry, rz);
    if (it._level > prevlevel)
      ++lvlups;
    if (it._level < prevlevel)
      order = true;
    prevlevel = it._level;
    if (!seen.insert(std::make_tuple(rx, ry, rz)).second)
      dup = true;
    if (ax + rx < 0 || ax + rx >= s || ay + ry < 0 || ay + ry >= s || az + rz < 0 ||
        az + rz >= s)
      outside = true;
    if (++guard > limit)
      break;
  }
  if (it2.increase_range())
    differ = true;
  std::cout << "range " << i + 1 << " " << chk << " " << std::get< 0 >(it._range) << " "
            << std::get< 1 >(it._range) << " " << std::get< 2 >(it._range) << " " << it._level
            << " " << lvlups << "\n";
  if (dup)
    oracle("range-block-visited-twice");
  if (outside)
    oracle("range-block-outside-grid");
  if (order)
    oracle("range-level-decreased");
  if (differ)
    oracle("range-ngbiterator-differs-from-generalngbiterator");
  if (seen.size() != (uint64_t)s * s * s)
    oracle("range-blocks-missing");
}


// ---------------------------------------------------------------- AMR grid
typedef AMRGrid< uint64_t > Amr;
static Amr *amr = nullptr;
static Box<> amr_box;
static CoordinateVector< uint_fast32_t > amr_n;

static std::string show_box(const Box<> &b) {
  std::ostringstream o;
  o << showF(b.get_anchor().x()) << " " << showF(b.get_anchor().y()) << " "
    << showF(b.get_anchor().z()) << " " << showF(b.get_sides().x()) << " "
    << showF(b.get_sides().y()) << " " << showF(b.get_sides().z());
  return o.str();
}

// position inside box grown (tol > 0) or shrunk (tol < 0) by tol * scale
static bool in_box(const Box<> &b, const CoordinateVector<> &p, double tol,
                   const CoordinateVector<> &scale) {
  for (int i = 0; i < 3; ++i) {
    const double t = tol * scale[i];
    if (!(p[i] >= b.get_anchor()[i] - t && p[i] < b.get_anchor()[i] + b.get_sides()[i] + t))
      return false;
  }
  return true;
}

static CoordinateVector<> box_scale(const Box<> &b) {
  CoordinateVector<> s;
  for (int i = 0; i < 3; ++i)
    s[i] = std::fabs(b.get_anchor()[i]) + std::fabs(b.get_sides()[i]);
  return s;
}

// the descent of AMRGrid::get_key / get_cell replayed through the public interface: 1 = a block
// index is out of range, 2 = a child index is not 0/1 (the real code would then read
// _top_level / _children out of bounds or descend into the wrong child), 0 = fine
template < typename T >
static int amr_out_of_range(AMRGrid< T > &grid, const Box<> &gbox, const CoordinateVector< uint_fast32_t > &n,
                            const CoordinateVector<> &p) {
  uint_fast32_t bi[3];
  for (int i = 0; i < 3; ++i)
    bi[i] = n[i] * (p[i] - gbox.get_anchor()[i]) / gbox.get_sides()[i];
  if (bi[0] >= n[0] || bi[1] >= n[1] || bi[2] >= n[2])
    return 1;
  AMRGridCell< T > *cc = grid._top_level[bi[0]][bi[1]][bi[2]];
  CoordinateVector<> sides;
  for (int i = 0; i < 3; ++i)
    sides[i] = gbox.get_sides()[i] / n[i];
  CoordinateVector<> anchor;
  for (int i = 0; i < 3; ++i)
    anchor[i] = gbox.get_anchor()[i] + bi[i] * sides[i];
  Box<> box(anchor, sides);
  while (!cc->is_single_cell()) {
    uint_fast8_t ci[3];
    for (int i = 0; i < 3; ++i)
      ci[i] = 2 * (p[i] - box.get_anchor()[i]) / box.get_sides()[i];
    if (ci[0] >= 2 || ci[1] >= 2 || ci[2] >= 2)
      return 2;
    box.get_sides() *= 0.5;
    for (int i = 0; i < 3; ++i)
      box.get_anchor()[i] += ci[i] * box.get_sides()[i];
    cc = cc->get_child(4 * ci[0] + 2 * ci[1] + ci[2]);
  }
  return 0;
}

static void op_amr(const std::vector< std::string > &w) {
  const std::string &sub = w[1];
  if (sub == "new" && w.size() == 12) {
    delete amr;
    amr_box = Box<>(CoordinateVector<>(dbl(w[2]), dbl(w[3]), dbl(w[4])),
                    CoordinateVector<>(dbl(w[5]), dbl(w[6]), dbl(w[7])));
    amr_n = CoordinateVector< uint_fast32_t >(u64(w[8]), u64(w[9]), u64(w[10]));
    amr = new Amr(amr_box, amr_n);
    amr->create_all_cells(u64(w[11]));
    std::cout << "amr new " << amr->get_number_of_cells() << "\n";
    return;
  }
  if (!amr) {
    std::cout << "bad-op\n";
    return;
  }
  if (sub == "refine" && w.size() == 3) {
    const amrkey_t nk = amr->refine_cell(u64(w[2]));
    std::cout << "amr refine " << nk << " " << amr->get_number_of_cells() << "\n";
  } else if (sub == "next" && w.size() == 3) {
    std::cout << "amr next " << amr->get_next_key(u64(w[2])) << "\n";
  } else if (sub == "enum" && w.size() == 2) {
    uint64_t cnt = 0, chk = 0;
    std::set< amrkey_t > keys;
    std::set< const void * > cells;
    double vol = 0.;
    bool notleaf = false;
    amrkey_t key = amr->get_first_key();
    const uint64_t limit = amr->get_number_of_cells() + 5;
    while (key != amr->get_max_key() && cnt < limit) {
      ++cnt;
      chk = (chk * 31 + key % 1000000007ull) % 1000000007ull;
      keys.insert(key);
      AMRGridCell< uint64_t > &c = (*amr)[key];
      cells.insert(&c);
      if (!c.is_single_cell())
        notleaf = true;
      vol += c.get_volume();
      key = amr->get_next_key(key);
    }
    std::cout << "amr enum " << cnt << " " << chk << "\n";
    // oracle: enumeration visits each lowest level cell exactly once; volumes sum to the box
    if (cnt != amr->get_number_of_cells())
      oracle("amr-enumeration-count-differs-from-number-of-cells");
    if (keys.size() != cnt || cells.size() != cnt)
      oracle("amr-enumeration-visits-a-cell-twice");
    if (notleaf)
      oracle("amr-enumeration-visits-a-refined-cell");
    const double bv = amr_box.get_sides().x() * amr_box.get_sides().y() * amr_box.get_sides().z();
    if (!(std::fabs(vol - bv) <= 1.e-11 * std::fabs(bv)))
      oracle("amr-volumes-do-not-sum-to-box-volume");
  } else if (sub == "loc" && w.size() == 5) {
    const CoordinateVector<> p(dbl(w[2]), dbl(w[3]), dbl(w[4]));
    {
      // where rounding puts the plain block / child index arithmetic out of range the real look-up
      // is first tried in a forked child (before fix 2fae05a it aborted or read out of bounds)
      const int oor = amr_out_of_range(*amr, amr_box, amr_n, p);
      if (oor != 0 && !probe_ok([&]() {
            const amrkey_t k = amr->get_key(p);
            return (*amr)[k].is_single_cell();
          })) {
        std::cout << "amr loc implementation-failed\n";
        oracle(oor == 1 ? "locate-index-out-of-range amr" : "locate-index-out-of-range amr-child");
        return;
      }
    }
    const amrkey_t key = amr->get_key(p);
    AMRGridCell< uint64_t > &c = (*amr)[key];
    const Box<> g = c.get_geometry();
    std::cout << "amr loc " << key << " " << show_box(g) << "\n";
    // oracle: the located cell is a leaf whose geometry contains the position (up to rounding of
    // the wall positions) and no other leaf contains it strictly; get_cell agrees with get_key
    const CoordinateVector<> sc = box_scale(amr_box);
    if (!c.is_single_cell())
      oracle("amr-located-cell-is-not-a-leaf");
    if (&amr->get_cell(p) != &c.value())
      oracle("amr-get_cell-and-get_key-disagree");
    if (!in_box(g, p, AMR_TOL, sc))
      oracle("amr-located-cell-does-not-contain-position");
    uint64_t strict = 0;
    bool other = false;
    amrkey_t k = amr->get_first_key();
    uint64_t guard = 0;
    while (k != amr->get_max_key() && guard++ < amr->get_number_of_cells() + 5) {
      AMRGridCell< uint64_t > &o = (*amr)[k];
      if (in_box(o.get_geometry(), p, -AMR_TOL, sc)) {
        ++strict;
        if (&o != &c)
          other = true;
      }
      k = amr->get_next_key(k);
    }
    if (strict > 1 || other)
      oracle("amr-position-inside-another-cell");
  } else if (sub == "key" && w.size() == 6) {
    const CoordinateVector<> p(dbl(w[3]), dbl(w[4]), dbl(w[5]));
    const uint64_t level = u64(w[2]);
    const amrkey_t key = amr->get_key((uint_fast8_t)level, p);
    // the plain index arithmetic of the loop (the model's): out of range by rounding?
    bool raw_oor = false;
    {
      uint_fast32_t bi[3];
      for (int i = 0; i < 3; ++i) {
        bi[i] = amr_n[i] * (p[i] - amr_box.get_anchor()[i]) / amr_box.get_sides()[i];
        if (bi[i] >= amr_n[i])
          raw_oor = true;
      }
      if (!raw_oor) {
        CoordinateVector<> sides, anchor;
        for (int i = 0; i < 3; ++i) {
          sides[i] = amr_box.get_sides()[i] / amr_n[i];
          anchor[i] = amr_box.get_anchor()[i] + bi[i] * sides[i];
        }
        Box<> box(anchor, sides);
        for (uint64_t l = 0; l < level && !raw_oor; ++l) {
          uint_fast32_t ci[3];
          for (int i = 0; i < 3; ++i) {
            ci[i] = 2 * (p[i] - box.get_anchor()[i]) / box.get_sides()[i];
            if (ci[i] >= 2)
              raw_oor = true;
          }
          box.get_sides() *= 0.5;
          for (int i = 0; i < 3; ++i)
            box.get_anchor()[i] += ci[i] * box.get_sides()[i];
        }
      }
    }
    (void)raw_oor;
    std::cout << "amr key " << key << "\n";
    // oracle: the (virtual) cell the key addresses contains the position
    {
      const uint64_t block = key >> 32, cell = key & 0xffffffffull;
      const uint64_t b3[3] = {(block >> 20) & 0x3ff, (block >> 10) & 0x3ff, block & 0x3ff};
      bool ok = b3[0] < amr_n[0] && b3[1] < amr_n[1] && b3[2] < amr_n[2] && (cell >> (3 * level)) == 1;
      if (ok) {
        CoordinateVector<> sides, anchor;
        for (int i = 0; i < 3; ++i) {
          sides[i] = amr_box.get_sides()[i] / amr_n[i];
          anchor[i] = amr_box.get_anchor()[i] + b3[i] * sides[i];
        }
        for (uint64_t l = 0; l < level; ++l) {
          const uint64_t d = (cell >> (3 * l)) & 7;
          const uint64_t ci[3] = {(d >> 2) & 1, (d >> 1) & 1, d & 1};
          sides *= 0.5;
          for (int i = 0; i < 3; ++i)
            anchor[i] += ci[i] * sides[i];
        }
        ok = in_box(Box<>(anchor, sides), p, AMR_TOL, box_scale(amr_box));
      }
      if (!ok)
        oracle("locate-index-out-of-range amr-key");
    }
  } else if (sub == "ngbs" && w.size() == 5) {
    const bool per[3] = {w[2] == "1", w[3] == "1", w[4] == "1"};
    amr->set_ngbs(CoordinateVector< bool >(per[0], per[1], per[2]));
    std::cout << "amr ngbs\n";
    // oracle: neighbour relations are geometric and mutual
    const CoordinateVector<> sc = box_scale(amr_box);
    const AMRNgbPosition pos[6] = {AMRNGBPOSITION_LEFT,   AMRNGBPOSITION_RIGHT,
                                   AMRNGBPOSITION_FRONT,  AMRNGBPOSITION_BACK,
                                   AMRNGBPOSITION_BOTTOM, AMRNGBPOSITION_TOP};
    amrkey_t k = amr->get_first_key();
    uint64_t guard = 0;
    std::string bad;
    while (k != amr->get_max_key() && guard++ < amr->get_number_of_cells() + 5 && bad.empty()) {
      AMRGridCell< uint64_t > &c = (*amr)[k];
      const Box<> g = c.get_geometry();
      for (int d = 0; d < 6 && bad.empty(); ++d) {
        const int ax = d / 2;
        const bool up = d % 2;
        AMRGridCell< uint64_t > *n = c.get_ngb(pos[d]);
        const double tol = 8.e-16 * sc[ax];
        const double face = up ? g.get_anchor()[ax] + g.get_sides()[ax] : g.get_anchor()[ax];
        const double boxlo = amr_box.get_anchor()[ax];
        const double boxhi = boxlo + amr_box.get_sides()[ax];
        const bool at_edge = up ? std::fabs(face - boxhi) <= tol : std::fabs(face - boxlo) <= tol;
        if (at_edge && !per[ax]) {
          if (n != nullptr)
            bad = "amr-neighbour-across-open-boundary";
          continue;
        }
        if (n == nullptr) {
          bad = "amr-neighbour-missing";
          continue;
        }
        if (n->get_level() > c.get_level())
          bad = "amr-neighbour-finer-than-cell";
        const Box<> h = n->get_geometry();
        // the neighbour's opposite face coincides with this face (modulo the box length)
        double nface = up ? h.get_anchor()[ax] : h.get_anchor()[ax] + h.get_sides()[ax];
        if (at_edge)
          nface += up ? amr_box.get_sides()[ax] : -amr_box.get_sides()[ax];
        if (std::fabs(nface - face) > tol)
          bad = "amr-neighbour-does-not-share-the-face";
        for (int o = 0; o < 3; ++o) {
          if (o == ax)
            continue;
          const double t2 = 8.e-16 * sc[o];
          if (h.get_anchor()[o] > g.get_anchor()[o] + t2 ||
              h.get_anchor()[o] + h.get_sides()[o] < g.get_anchor()[o] + g.get_sides()[o] - t2)
            bad = "amr-neighbour-does-not-cover-the-face";
        }
        if (n->get_level() == c.get_level() && n->get_ngb(pos[d ^ 1]) != &c)
          bad = "amr-neighbour-relation-not-mutual";
      }
      k = amr->get_next_key(k);
    }
    if (!bad.empty())
      oracle(bad);
  } else {
    std::cout << "bad-op\n";
  }
}

// ---------------------------------------------------------------- Cartesian grid
static CartesianDensityGrid *cart = nullptr;
static Box<> cart_box;
static CoordinateVector< int_fast32_t > cart_n;
static bool cart_per[3];
static std::vector< double > cart_x, cart_d;

static double tab(const std::vector< double > &t, uint64_t c, uint64_t shift) {
  return t.empty() ? 0. : t[(c + shift) % t.size()];
}

static void cart_apply_medium() {
  if (!cart)
    return;
  const uint64_t nc = cart->get_number_of_cells();
  for (uint64_t c = 0; c < nc; ++c) {
    IonizationVariables &iv = DensityGrid::iterator(c, *cart).get_ionization_variables();
    iv.set_number_density(tab(cart_d, c, 0));
    iv.set_ionic_fraction(ION_H_n, tab(cart_x, c, 0));
    iv.set_ionic_fraction(ION_He_n, tab(cart_x, c, 1));
  }
}

static void op_cart(const std::vector< std::string > &w) {
  const std::string &sub = w[1];
  if (sub == "new" && w.size() == 14) {
    delete cart;
    cart_box = Box<>(CoordinateVector<>(dbl(w[2]), dbl(w[3]), dbl(w[4])),
                     CoordinateVector<>(dbl(w[5]), dbl(w[6]), dbl(w[7])));
    cart_n = CoordinateVector< int_fast32_t >(sll(w[8]), sll(w[9]), sll(w[10]));
    for (int i = 0; i < 3; ++i)
      cart_per[i] = (w[11 + i] == "1");
    cart = new CartesianDensityGrid(cart_box, cart_n,
                                    CoordinateVector< bool >(cart_per[0], cart_per[1], cart_per[2]));
    cart_apply_medium();
    std::cout << "cart new " << cart->get_number_of_cells() << " " << showF(cart->get_cell_volume((cellsize_t)0))
              << "\n";
    return;
  }
  if (sub == "medium" && w.size() >= 4) {
    const uint64_t k = u64(w[2]);
    cart_x.clear();
    cart_d.clear();
    for (uint64_t i = 0; i < k && 3 + i < w.size(); ++i)
      cart_x.push_back(dbl(w[3 + i]));
    for (uint64_t i = 3 + k + 1; i < w.size(); ++i)
      cart_d.push_back(dbl(w[i]));
    cart_apply_medium();
    std::cout << "cart medium\n";
    return;
  }
  if (!cart) {
    std::cout << "bad-op\n";
    return;
  }
  const uint64_t nc = cart->get_number_of_cells();
  const CoordinateVector<> sc = box_scale(cart_box);
  if (sub == "vol" && w.size() == 2) {
    double vol = 0.;
    for (uint64_t c = 0; c < nc; ++c)
      vol += cart->get_cell_volume((cellsize_t)c);
    std::cout << "cart vol " << nc << "\n";
    const double bv = cart_box.get_sides().x() * cart_box.get_sides().y() * cart_box.get_sides().z();
    if (!(std::fabs(vol - bv) <= 1.e-11 * std::fabs(bv)))
      oracle("cartesian-volumes-do-not-sum-to-box-volume");
    if ((int64_t)nc != (int64_t)cart_n.x() * cart_n.y() * cart_n.z())
      oracle("cartesian-number-of-cells");
  } else if (sub == "loc" && w.size() == 5) {
    const CoordinateVector<> p(dbl(w[2]), dbl(w[3]), dbl(w[4]));
    const CoordinateVector< int_fast32_t > ix = cart->get_cell_indices(p);
    const cellsize_t li = cart->get_long_index(ix);
    const Box<> g = ((const CartesianDensityGrid *)cart)->get_cell(ix);
    const bool inr = ix.x() >= 0 && ix.x() < cart_n.x() && ix.y() >= 0 && ix.y() < cart_n.y() &&
                     ix.z() >= 0 && ix.z() < cart_n.z();
    std::cout << "cart loc " << ix.x() << " " << ix.y() << " " << ix.z() << " " << (int64_t)li << " "
              << show_box(g) << "\n";
    if (!inr) {
      oracle("locate-index-out-of-range cartesian");
      return;
    }
    if (cart->get_cell_index(p) != li)
      oracle("cartesian-get_cell_index-differs");
    if (cart->get_indices(li).x() != ix.x() || cart->get_indices(li).y() != ix.y() ||
        cart->get_indices(li).z() != ix.z())
      oracle("cartesian-long-index-roundtrip");
    if (!in_box(g, p, CART_TOL, sc))
      oracle("cartesian-located-cell-does-not-contain-position");
    uint64_t strict = 0;
    bool other = false;
    for (uint64_t c = 0; c < nc; ++c) {
      if (in_box(cart->get_cell((cellsize_t)c), p, -CART_TOL, sc)) {
        ++strict;
        if (c != li)
          other = true;
      }
    }
    if (strict > 1 || other)
      oracle("cartesian-position-inside-another-cell");
  } else if (sub == "ngb" && w.size() == 3) {
    const cellsize_t li = u64(w[2]);
    const CoordinateVector< int_fast32_t > ix = cart->get_indices(li);
    auto ngbs = cart->get_neighbours(li);
    std::cout << "cart ngb " << ix.x() << " " << ix.y() << " " << ix.z();
    for (size_t i = 0; i < ngbs.size(); ++i) {
      const DensityGrid::iterator it = std::get< 0 >(ngbs[i]);
      if (it == cart->end())
        std::cout << " -1";
      else
        std::cout << " " << (int64_t)it.get_index();
    }
    std::cout << "\n";
    // oracle: neighbour relations are mutual and geometric
    std::string bad;
    if (ngbs.size() != 6)
      bad = "cartesian-neighbour-count";
    const CoordinateVector<> mid = cart->get_cell_midpoint(li);
    const CoordinateVector<> cs = cart->_cellside;
    for (size_t i = 0; i < ngbs.size() && bad.empty(); ++i) {
      const int ax = i / 2;
      const bool up = i % 2;
      DensityGrid::iterator it = std::get< 0 >(ngbs[i]);
      const CoordinateVector<> fmid = std::get< 1 >(ngbs[i]);
      const CoordinateVector<> nrm = std::get< 2 >(ngbs[i]);
      const double area = std::get< 3 >(ngbs[i]);
      const CoordinateVector<> rel = std::get< 4 >(ngbs[i]);
      for (int o = 0; o < 3; ++o) {
        const double en = (o == ax) ? (up ? 1. : -1.) : 0.;
        if (nrm[o] != en)
          bad = "cartesian-neighbour-normal";
        const double ef = mid[o] + ((o == ax) ? (up ? 0.5 : -0.5) * cs[o] : 0.);
        if (std::fabs(fmid[o] - ef) > 8.e-16 * sc[o])
          bad = "cartesian-neighbour-face-midpoint";
        const double er = (o == ax) ? (up ? cs[o] : -cs[o]) : 0.;
        if (std::fabs(rel[o] - er) > 8.e-16 * sc[o])
          bad = "cartesian-neighbour-relative-position";
      }
      const double ea = cs[(ax + 1) % 3] * cs[(ax + 2) % 3];
      if (std::fabs(area - ea) > 1.e-14 * ea)
        bad = "cartesian-neighbour-surface-area";
      const bool at_edge = up ? ix[ax] == cart_n[ax] - 1 : ix[ax] == 0;
      if (it == cart->end()) {
        if (!(at_edge && !cart_per[ax]))
          bad = "cartesian-neighbour-missing";
        continue;
      }
      if (at_edge && !cart_per[ax])
        bad = "cartesian-neighbour-across-open-boundary";
      auto back = cart->get_neighbours(it.get_index());
      const size_t opp = i ^ 1;
      if (back.size() != 6 || std::get< 0 >(back[opp]) == cart->end() ||
          std::get< 0 >(back[opp]).get_index() != li)
        bad = "cartesian-neighbour-relation-not-mutual";
    }
    if (!bad.empty())
      oracle(bad);
  } else if ((sub == "ray" || sub == "reray") && w.size() == 11) {
    const CoordinateVector<> p0(dbl(w[2]), dbl(w[3]), dbl(w[4]));
    const CoordinateVector<> dir(dbl(w[5]), dbl(w[6]), dbl(w[7]));
    const double tau = dbl(w[8]), sH = dbl(w[9]), sHe = dbl(w[10]);
    for (uint64_t c = 0; c < nc; ++c)
      DensityGrid::iterator(c, *cart).get_ionization_variables().reset_mean_intensities();
    // `ray`: a freshly constructed (primary) photon.  `reray`: what the drivers do after an
    // absorption (PhotonSource::reemit, DustScattering): a photon that was constructed with
    // another direction and traced, is redirected with the public setters and traced again
    const bool redirect = (sub == "reray");
    Photon photon(p0, redirect ? CoordinateVector<>(dir.z(), dir.x(), dir.y()) : dir, 1.);
    photon.set_cross_section(ION_H_n, sH);
    photon.set_cross_section_He_corr(sHe);
    if (redirect) {
      cart->interact(photon, tau);
      for (uint64_t c = 0; c < nc; ++c)
        DensityGrid::iterator(c, *cart).get_ionization_variables().reset_mean_intensities();
      photon.set_position(p0);
      photon.set_direction(dir);
    }
    DensityGrid::iterator it = cart->interact(photon, tau);
    const CoordinateVector<> pf = photon.get_position();
    const bool absorbed = !(it == cart->end());
    uint64_t k = 0;
    double total = 0.;
    std::ostringstream shown;
    double taudone = 0.;
    for (uint64_t c = 0; c < nc; ++c) {
      const IonizationVariables &iv = DensityGrid::iterator(c, *cart).get_ionization_variables();
      const double J = iv.get_mean_intensity(ION_H_n);
      if (J != 0.) {
        if (k < 10)
          shown << " " << c << " " << showF(J);
        ++k;
        total += J;
        // J = sum ds * sigma_H: the optical depth used up in this cell
        taudone += (J / sH) * iv.get_number_density() *
                   (sH * iv.get_ionic_fraction(ION_H_n) + sHe * iv.get_ionic_fraction(ION_He_n));
      }
    }
    std::cout << "cart ray " << (absorbed ? (int64_t)it.get_index() : -1) << " " << showF(pf.x()) << " "
              << showF(pf.y()) << " " << showF(pf.z()) << " " << k << " " << showF(total) << shown.str() << "\n";
    // ---- property oracle on the implementation
    const double S = total / sH; // total path length (all cells have a positive density)
    std::string bad;
    double dnorm = 0.;
    for (int i = 0; i < 3; ++i)
      dnorm = std::max(dnorm, std::fabs(dir[i]));
    for (int i = 0; i < 3 && bad.empty(); ++i) {
      // sum of path * direction = displacement, up to whole box lengths on periodic axes
      const double resid = (pf[i] - p0[i] - S * dir[i]) / cart_box.get_sides()[i];
      const double tol = 1.e-9 * (1. + std::fabs(S * dnorm) / cart_box.get_sides()[i]) + 1.e-9 * sc[i] / cart_box.get_sides()[i];
      if (cart_per[i]) {
        if (std::fabs(resid - std::round(resid)) > tol)
          bad = "cartesian-path-sum-differs-from-distance-travelled";
      } else if (std::fabs(resid) > tol) {
        bad = "cartesian-path-sum-differs-from-distance-travelled";
      }
    }
    if (bad.empty()) {
      if (absorbed) {
        // the code computes the last path as ds + ds * (tau_left / tau_cell): the rounding error is
        // relative to the optical depth of the whole cell, not to the (possibly tiny) target
        double kmax = 0.;
        for (uint64_t c = 0; c < nc; ++c) {
          const IonizationVariables &iv = DensityGrid::iterator(c, *cart).get_ionization_variables();
          kmax = std::max(kmax, iv.get_number_density() * (sH * iv.get_ionic_fraction(ION_H_n) +
                                                           sHe * iv.get_ionic_fraction(ION_He_n)));
        }
        const double diag = std::sqrt(cart->_cellside.norm2());
        const double dlen = std::sqrt(dir.norm2());
        if (std::fabs(taudone - tau) > 1.e-9 * tau + 1.e-13 * kmax * diag / dlen)
          bad = "cartesian-absorbed-but-optical-depth-not-reached";
        // (when the optical depth is used up exactly on a periodic face the position has already
        // been wrapped to the opposite face: compare modulo the box length on periodic axes)
        bool incell = false;
        for (int kx = -1; kx <= 1 && !incell; ++kx)
          for (int ky = -1; ky <= 1 && !incell; ++ky)
            for (int kz = -1; kz <= 1 && !incell; ++kz) {
              if ((kx && !cart_per[0]) || (ky && !cart_per[1]) || (kz && !cart_per[2]))
                continue;
              const CoordinateVector<> q(pf.x() + kx * cart_box.get_sides().x(), pf.y() + ky * cart_box.get_sides().y(),
                                         pf.z() + kz * cart_box.get_sides().z());
              if (in_box(cart->get_cell(it.get_index()), q, 1.e-12, sc))
                incell = true;
            }
        if (!in_box(cart_box, pf, 1.e-12, sc) || !incell)
          bad = "cartesian-absorbed-outside-the-returned-cell";
      } else {
        if (taudone > tau * (1. + 1.e-9))
          bad = "cartesian-escaped-although-optical-depth-was-reached";
        // an escaped photon sits on (or beyond) a non-periodic face of the box
        bool onface = false;
        for (int i = 0; i < 3; ++i) {
          if (cart_per[i])
            continue;
          const double lo = cart_box.get_anchor()[i], hi = lo + cart_box.get_sides()[i];
          if (pf[i] <= lo + 1.e-12 * sc[i] || pf[i] >= hi - 1.e-12 * sc[i])
            onface = true;
        }
        if (!onface)
          bad = "cartesian-escaped-inside-the-box";
      }
    }
    if (bad.empty()) {
      // every deposit lies on the chord of the straight segment in that cell (grid independent)
      std::map< uint64_t, double > dep;
      for (uint64_t c = 0; c < nc; ++c) {
        const double J = DensityGrid::iterator(c, *cart).get_ionization_variables().get_mean_intensity(ION_H_n);
        if (J != 0.)
          dep[c] = J / sH;
      }
      bad = chord_oracle("cartesian", *cart, cart_box, cart_per, p0, dir, dep, absorbed,
                         absorbed ? (uint64_t)it.get_index() : 0);
    }
    if (!bad.empty())
      oracle(bad);
  } else {
    std::cout << "bad-op\n";
  }
}

// ---------------------------------------------------------------- PointLocations (bucket search)
static std::vector< CoordinateVector<> > pl_pos;
static PointLocations *pl = nullptr;

static void op_pl(const std::vector< std::string > &w) {
  const std::string &sub = w[1];
  if (sub == "new" && w.size() >= 10) {
    delete pl;
    pl = nullptr;
    const uint64_t npc = u64(w[2]);
    const ll n = sll(w[3]);
    const CoordinateVector<> a(dbl(w[4]), dbl(w[5]), dbl(w[6]));
    const CoordinateVector<> s(dbl(w[7]), dbl(w[8]), dbl(w[9]));
    pl_pos.clear();
    for (size_t i = 10; i + 2 < w.size(); i += 3)
      pl_pos.push_back(CoordinateVector<>(dbl(w[i]), dbl(w[i + 1]), dbl(w[i + 2])));
    // the bucket indices exactly as the constructor computes them (an index >= ncell_1D would
    // make the constructor write out of bounds)
    const uint_fast32_t N = pl_pos.size();
    const uint_fast32_t npc2 = std::min< uint_fast32_t >(npc, N);
    const double desired = N / npc2;
    const uint_fast32_t ncell = std::round(std::cbrt(desired));
    if ((ll)ncell != n) {
      std::cout << "pl new grid-size-" << ncell << "\n";
      return;
    }
    uint64_t chk = 0;
    bool bad = false;
    for (uint_fast32_t i = 0; i < N; ++i) {
      uint_fast32_t ix[3];
      for (int k = 0; k < 3; ++k)
        ix[k] = (pl_pos[i][k] - a[k]) / s[k] * ncell;
      chk = (chk * 31 + ((ix[0] * 1000ull + ix[1]) * 1000ull + ix[2])) % 1000000007ull;
      if (ix[0] >= ncell || ix[1] >= ncell || ix[2] >= ncell)
        bad = true;
    }
    if (bad) {
      std::cout << "pl new bucket-out-of-range\n";
      oracle("locate-index-out-of-range pointlocations-constructor");
      return;
    }
    pl = new PointLocations(pl_pos, npc, Box<>(a, s));
    // cross-check the real cell map against the indices computed above
    uint64_t chk2 = 0;
    for (uint_fast32_t i = 0; i < N; ++i)
      chk2 = (chk2 * 31 + ((std::get< 0 >(pl->_cell_map[i]) * 1000ull + std::get< 1 >(pl->_cell_map[i])) * 1000ull +
                           std::get< 2 >(pl->_cell_map[i]))) % 1000000007ull;
    std::cout << "pl new " << N << " " << pl->_grid.size() << " " << chk2 << "\n";
    if (chk != chk2)
      oracle("pointlocations-cell-map-differs");
    // every point is in exactly one bucket, the one of its cell map entry
    std::vector< int > cnt(N, 0);
    for (auto &gx : pl->_grid)
      for (auto &gy : gx)
        for (auto &gz : gy)
          for (auto i : gz)
            ++cnt[i];
    for (uint_fast32_t i = 0; i < N; ++i)
      if (cnt[i] != 1) {
        oracle("pointlocations-point-not-in-exactly-one-bucket");
        break;
      }
    return;
  }
  if (sub == "near" && w.size() == 5) {
    if (!pl) {
      std::cout << "pl near no-grid\n";
      return;
    }
    const CoordinateVector<> q(dbl(w[2]), dbl(w[3]), dbl(w[4]));
    const ll n = pl->_grid.size();
    for (int k = 0; k < 3; ++k) {
      const uint_fast32_t ai = (q[k] - pl->_grid_anchor[k]) / pl->_grid_cell_sides[k];
      if ((ll)ai >= n || q[k] < pl->_grid_anchor[k]) {
        std::cout << "pl near anchor-out-of-range\n";
        oracle("locate-index-out-of-range pointlocations-query");
        return;
      }
    }
    const uint_fast32_t r = pl->get_closest_neighbour(q);
    const double r2 = (pl_pos[r] - q).norm2();
    std::cout << "pl near " << r << " " << showF(r2) << "\n";
    // oracle: the brute-force nearest neighbour (same distance expression; ties by distance)
    double best = -1.;
    for (size_t i = 0; i < pl_pos.size(); ++i) {
      const double d2 = (pl_pos[i] - q).norm2();
      if (best < 0. || d2 < best)
        best = d2;
    }
    if (r >= pl_pos.size() || r2 != best)
      oracle("nearest-neighbour-differs-from-brute-force");
    return;
  }
  std::cout << "bad-op\n";
}

// ---------------------------------------------------------------- Octree (oracle only)
static std::vector< CoordinateVector<> > oc_pos;
static std::vector< double > oc_h;
static Octree *oc = nullptr;
static Box<> oc_box;
static bool oc_per = false;

static double oc_dist(const CoordinateVector<> &a, const CoordinateVector<> &b) {
  return oc_per ? oc_box.periodic_distance(a, b).norm() : (a - b).norm();
}

static void op_oct(const std::vector< std::string > &w) {
  const std::string &sub = w[1];
  if (sub == "new" && w.size() >= 9) {
    delete oc;
    oc_per = (w[2] == "1");
    oc_box = Box<>(CoordinateVector<>(dbl(w[3]), dbl(w[4]), dbl(w[5])),
                   CoordinateVector<>(dbl(w[6]), dbl(w[7]), dbl(w[8])));
    oc_pos.clear();
    oc_h.clear();
    for (size_t i = 9; i + 3 < w.size(); i += 4) {
      oc_pos.push_back(CoordinateVector<>(dbl(w[i]), dbl(w[i + 1]), dbl(w[i + 2])));
      oc_h.push_back(dbl(w[i + 3]));
    }
    oc = new Octree(oc_pos, oc_box, oc_per);
    oc->set_auxiliaries(oc_h, Octree::max< double >);
    std::cout << "oct new " << oc_pos.size() << "\n";
    return;
  }
  if (!oc) {
    std::cout << "bad-op\n";
    return;
  }
  const double eps = 1.e-12;
  if (oc_pos.size() == 1 && ((sub == "ngbs" && w.size() == 5) || (sub == "sphere" && w.size() == 6) ||
                             (sub == "closest" && w.size() == 5))) {
    // a one-position tree: the root is a leaf.  Before the fix (get_first_node, _child/_sibling
    // initialised) the walks started at _root->get_child(), an uninitialised pointer of a leaf
    // (null in fresh memory: nothing found; anything else: crash).  The call is first tried in a
    // forked child: true = it came back with the brute-force answer; then it is made for real.
    const CoordinateVector<> q(dbl(w[2]), dbl(w[3]), dbl(w[4]));
    const double rad = (sub == "sphere") ? dbl(w[5]) : 0.;
    const double r = oc_dist(oc_pos[0], q);
    const double lim = oc_h[0] + rad;
    const bool must_in = sub != "closest" && r <= lim * (1. - eps);
    const bool must_out = sub != "closest" && r > lim * (1. + eps);
    const bool ok = probe_ok([&]() {
      if (sub == "closest")
        return oc->get_closest_ngb(q) == 0;
      const std::vector< uint_fast32_t > res = (sub == "sphere") ? oc->get_ngbs_sphere(q, rad) : oc->get_ngbs(q);
      if (must_in)
        return res.size() == 1 && res[0] == 0;
      if (must_out)
        return res.empty();
      return res.empty() || (res.size() == 1 && res[0] == 0);
    });
    if (!ok) {
      std::cout << "oct " << sub << " implementation-failed\n";
      oracle("single-position-search-returns-nothing");
      return;
    }
  }
  if ((sub == "ngbs" && w.size() == 5) || (sub == "sphere" && w.size() == 6)) {
    const CoordinateVector<> q(dbl(w[2]), dbl(w[3]), dbl(w[4]));
    const double rad = (sub == "sphere") ? dbl(w[5]) : 0.;
    std::vector< uint_fast32_t > res = (sub == "sphere") ? oc->get_ngbs_sphere(q, rad) : oc->get_ngbs(q);
    std::cout << "oct " << sub << " " << res.size();
    for (size_t i = 0; i < res.size(); ++i)
      std::cout << " " << res[i];
    std::cout << "\n";
    std::set< uint_fast32_t > got(res.begin(), res.end());
    std::string bad;
    if (got.size() != res.size())
      bad = "octree-neighbour-listed-twice";
    for (size_t i = 0; i < oc_pos.size() && bad.empty(); ++i) {
      const double r = oc_dist(oc_pos[i], q);
      const double lim = oc_h[i] + rad;
      const bool in = got.count(i) > 0;
      if (r <= lim * (1. - eps) && !in)
        bad = "octree-search-misses-a-brute-force-neighbour";
      if (r > lim * (1. + eps) && in)
        bad = "octree-search-returns-a-non-neighbour";
    }
    if (!bad.empty())
      oracle(bad);
    return;
  }
  if (sub == "closest" && w.size() == 5) {
    const CoordinateVector<> q(dbl(w[2]), dbl(w[3]), dbl(w[4]));
    const uint_fast32_t r = oc->get_closest_ngb(q);
    std::cout << "oct closest " << r << "\n";
    double best = DBL_MAX;
    for (size_t i = 0; i < oc_pos.size(); ++i)
      best = std::min(best, oc_dist(oc_pos[i], q));
    if (r >= oc_pos.size() || oc_dist(oc_pos[r], q) > best * (1. + eps))
      oracle("octree-closest-differs-from-brute-force");
    return;
  }
  std::cout << "bad-op\n";
}

// ---------------------------------------------------------------- AMRDensityGrid
static AMRDensityGrid *amrd = nullptr;
static Box<> amrd_box;
static bool amrd_per[3];
static std::vector< double > amrd_xt, amrd_dt;
static std::vector< amrkey_t > amrd_keys; // 64-bit key of every cell of the cell list

static double amrd_tab(const std::vector< double > &t, amrkey_t k) {
  return t.empty() ? 0. : t[(k % 1000003ull) % t.size()];
}

// key of the cell with the given index in the cell list (from its level and midpoint)
static amrkey_t amrd_key_of(AMRDensityGrid &grid, cellsize_t c) {
  return grid._grid.get_key(grid._cells[c]->get_level(), grid._cells[c]->get_midpoint());
}

class HarnessDensityFunction : public DensityFunction {
public:
  DensityValues operator()(const Cell &cell) {
    DensityValues values;
    values.set_number_density(1.);
    values.set_temperature(4000.);
    return values;
  }
};

// refines exactly the cells whose keys are listed in the operation (so that the Lean model and
// the real grid hold the same tree)
class HarnessRefinementScheme : public AMRRefinementScheme {
public:
  std::set< amrkey_t > keys;
  AMRDensityGrid *grid;
  HarnessRefinementScheme() : grid(nullptr) {}
  virtual bool refine(uint_fast8_t level, DensityGrid::iterator &cell) const {
    if (grid == nullptr)
      return false;
    const amrkey_t k = grid->_grid.get_key(level, cell.get_cell_midpoint());
    return keys.count(k) > 0;
  }
};

static void op_amrd(const std::vector< std::string > &w) {
  const std::string &sub = w[1];
  if (sub == "new" && w.size() >= 17) {
    delete amrd;
    amrd_box = Box<>(CoordinateVector<>(dbl(w[2]), dbl(w[3]), dbl(w[4])),
                     CoordinateVector<>(dbl(w[5]), dbl(w[6]), dbl(w[7])));
    const uint64_t level = u64(w[11]);
    const CoordinateVector< uint_fast32_t > nb(u64(w[8]), u64(w[9]), u64(w[10]));
    const CoordinateVector< uint_fast32_t > n(nb.x() << level, nb.y() << level, nb.z() << level);
    for (int i = 0; i < 3; ++i)
      amrd_per[i] = (w[12 + i] == "1");
    size_t q = 15;
    amrd_xt.clear();
    amrd_dt.clear();
    for (; q < w.size() && w[q] != "|"; ++q)
      amrd_xt.push_back(dbl(w[q]));
    for (++q; q < w.size() && w[q] != "|"; ++q)
      amrd_dt.push_back(dbl(w[q]));
    HarnessRefinementScheme *scheme = new HarnessRefinementScheme();
    for (++q; q < w.size(); ++q)
      scheme->keys.insert(u64(w[q]));
    HarnessDensityFunction df;
    amrd = new AMRDensityGrid(amrd_box, n, scheme, 5,
                              CoordinateVector< bool >(amrd_per[0], amrd_per[1], amrd_per[2]));
    scheme->grid = amrd;
    std::pair< cellsize_t, cellsize_t > block = std::make_pair(0, amrd->get_number_of_cells());
    amrd->initialize(block, df);
    const uint64_t nc = amrd->get_number_of_cells();
    amrd_keys.assign(nc, 0);
    for (uint64_t c = 0; c < nc; ++c) {
      amrd_keys[c] = amrd_key_of(*amrd, c);
      IonizationVariables &iv = DensityGrid::iterator(c, *amrd).get_ionization_variables();
      iv.set_number_density(amrd_tab(amrd_dt, amrd_keys[c]));
      iv.set_ionic_fraction(ION_H_n, amrd_tab(amrd_xt, amrd_keys[c]));
      iv.set_ionic_fraction(ION_He_n, 0.);
    }
    if (amrd->_grid._ncell.x() != nb.x() || amrd->_grid._ncell.y() != nb.y() || amrd->_grid._ncell.z() != nb.z()) {
      std::cout << "amrd new block-layout-differs\n";
      return;
    }
    std::cout << "amrd new " << nc << "\n";
    // oracle: volumes sum to the box, enumeration over keys = cell list
    double vol = 0.;
    for (uint64_t c = 0; c < nc; ++c)
      vol += amrd->get_cell_volume(c);
    const double bv = amrd_box.get_sides().x() * amrd_box.get_sides().y() * amrd_box.get_sides().z();
    if (!(std::fabs(vol - bv) <= 1.e-11 * bv))
      oracle("amrdensitygrid-volumes-do-not-sum-to-box-volume");
    if (amrd->_grid.get_number_of_cells() != nc)
      oracle("amrdensitygrid-cell-list-differs-from-tree");
    uint64_t cnt = 0;
    std::set< const void * > seen;
    amrkey_t key = amrd->_grid.get_first_key();
    while (key != amrd->_grid.get_max_key() && cnt <= nc + 2) {
      ++cnt;
      seen.insert(&amrd->_grid[key]);
      key = amrd->_grid.get_next_key(key);
    }
    if (cnt != nc || seen.size() != nc)
      oracle("amrdensitygrid-enumeration-does-not-visit-each-cell-once");
    return;
  }
  if (!amrd) {
    std::cout << "bad-op\n";
    return;
  }
  const uint64_t nc = amrd->get_number_of_cells();
  const CoordinateVector<> sc = box_scale(amrd_box);
  if (sub == "loc" && w.size() == 5) {
    const CoordinateVector<> p(dbl(w[2]), dbl(w[3]), dbl(w[4]));
    if (amr_out_of_range(amrd->_grid, amrd_box, amrd->_grid._ncell, p) && !probe_ok([&]() {
          const cellsize_t cc = amrd->get_cell_index(p);
          return cc < nc && in_box(amrd->_cells[cc]->get_geometry(), p, AMR_TOL, sc);
        })) {
      std::cout << "amrd loc implementation-failed\n";
      oracle("locate-index-out-of-range amrdensitygrid");
      return;
    }
    const cellsize_t c = amrd->get_cell_index(p);
    if (c >= nc) {
      std::cout << "amrd loc " << (int64_t)c << "\n";
      oracle("amrdensitygrid-cell-index-out-of-range");
      return;
    }
    std::cout << "amrd loc " << amrd_keys[c] << "\n";
    if (!in_box(amrd->_cells[c]->get_geometry(), p, AMR_TOL, sc))
      oracle("amrdensitygrid-located-cell-does-not-contain-position");
    for (uint64_t o = 0; o < nc; ++o)
      if (o != c && in_box(amrd->_cells[o]->get_geometry(), p, -AMR_TOL, sc)) {
        oracle("amrdensitygrid-position-inside-another-cell");
        break;
      }
    return;
  }
  if ((sub == "ray" || sub == "reray") && w.size() == 10) {
    const CoordinateVector<> p0(dbl(w[2]), dbl(w[3]), dbl(w[4]));
    const CoordinateVector<> dir(dbl(w[5]), dbl(w[6]), dbl(w[7]));
    const double tau = dbl(w[8]), sH = dbl(w[9]);
    for (uint64_t c = 0; c < nc; ++c)
      DensityGrid::iterator(c, *amrd).get_ionization_variables().reset_mean_intensities();
    if (amr_out_of_range(amrd->_grid, amrd_box, amrd->_grid._ncell, p0) && !probe_ok([&]() {
          const cellsize_t cc = amrd->get_cell_index(p0);
          return cc < nc && in_box(amrd->_cells[cc]->get_geometry(), p0, AMR_TOL, sc);
        })) {
      std::cout << "amrd ray implementation-failed\n";
      oracle("locate-index-out-of-range amrdensitygrid");
      return;
    }
    // `reray`: a photon constructed with another direction, traced, then redirected with the
    // public setters (re-emission / scattering) and traced again
    const bool redirect = (sub == "reray");
    Photon photon(p0, redirect ? CoordinateVector<>(dir.z(), dir.x(), dir.y()) : dir, 1.);
    photon.set_cross_section(ION_H_n, sH);
    photon.set_cross_section_He_corr(0.);
    if (redirect) {
      amrd->interact(photon, tau);
      for (uint64_t c = 0; c < nc; ++c)
        DensityGrid::iterator(c, *amrd).get_ionization_variables().reset_mean_intensities();
      photon.set_position(p0);
      photon.set_direction(dir);
    }
    DensityGrid::iterator it = amrd->interact(photon, tau);
    const CoordinateVector<> pf = photon.get_position();
    const bool absorbed = !(it == amrd->end());
    double total = 0., taudone = 0., kmax = 0., smax = 0.;
    std::vector< std::pair< amrkey_t, double > > js;
    for (uint64_t c = 0; c < nc; ++c) {
      const IonizationVariables &iv = DensityGrid::iterator(c, *amrd).get_ionization_variables();
      const double J = iv.get_mean_intensity(ION_H_n);
      const double kappa = iv.get_number_density() * sH * iv.get_ionic_fraction(ION_H_n);
      kmax = std::max(kmax, kappa);
      taudone += (J / sH) * kappa;
      if (J != 0.)
        js.push_back(std::make_pair(amrd_keys[c], J));
    }
    std::sort(js.begin(), js.end());
    for (size_t i = 0; i < js.size(); ++i)
      total += js[i].second;
    std::cout << "amrd ray " << (absorbed && it.get_index() < nc ? (int64_t)amrd_keys[it.get_index()] : -1) << " "
              << showF(pf.x()) << " " << showF(pf.y()) << " " << showF(pf.z()) << " " << js.size() << " "
              << showF(total);
    for (size_t i = 0; i < js.size() && i < 10; ++i)
      std::cout << " " << js[i].first << " " << showF(js[i].second);
    std::cout << "\n";
    for (int i = 0; i < 3; ++i)
      smax = std::max(smax, amrd_box.get_sides()[i]);
    const double S = total / sH;
    const double dlen = std::sqrt(dir.norm2());
    std::string bad;
    for (int i = 0; i < 3 && bad.empty(); ++i) {
      // the AMR traversal measures ds as a length: path * direction / |direction| = displacement
      const double resid = (pf[i] - p0[i] - S * dir[i] / dlen) / amrd_box.get_sides()[i];
      const double tol = 1.e-8 * (1. + S / amrd_box.get_sides()[i]) + 1.e-9 * sc[i] / amrd_box.get_sides()[i];
      if (amrd_per[i]) {
        if (std::fabs(resid - std::round(resid)) > tol)
          bad = "amrdensitygrid-path-sum-differs-from-distance-travelled";
      } else if (std::fabs(resid) > tol) {
        bad = "amrdensitygrid-path-sum-differs-from-distance-travelled";
      }
    }
    if (bad.empty()) {
      if (absorbed) {
        if (std::fabs(taudone - tau) > 1.e-8 * tau + 1.e-12 * kmax * smax)
          bad = "amrdensitygrid-absorbed-but-optical-depth-not-reached";
        else if (it.get_index() >= nc) {
          bad = "amrdensitygrid-absorbed-outside-the-returned-cell";
        } else {
          // (when the optical depth is used up exactly on a periodic face the position has already
          // been wrapped to the opposite face while the last cell is returned: compare modulo the
          // box length on periodic axes, as for the Cartesian grid)
          bool incell = false;
          for (int kx = -1; kx <= 1 && !incell; ++kx)
            for (int ky = -1; ky <= 1 && !incell; ++ky)
              for (int kz = -1; kz <= 1 && !incell; ++kz) {
                if ((kx && !amrd_per[0]) || (ky && !amrd_per[1]) || (kz && !amrd_per[2]))
                  continue;
                // an image along an axis only if the photon sits on a face of the box on that axis
                const int kk[3] = {kx, ky, kz};
                bool onface = true;
                for (int i = 0; i < 3; ++i) {
                  const double lo = amrd_box.get_anchor()[i], hi = lo + amrd_box.get_sides()[i];
                  if (kk[i] && !(std::fabs(pf[i] - lo) <= 1.e-11 * sc[i] || std::fabs(pf[i] - hi) <= 1.e-11 * sc[i]))
                    onface = false;
                }
                if (!onface)
                  continue;
                const CoordinateVector<> q(pf.x() + kx * amrd_box.get_sides().x(), pf.y() + ky * amrd_box.get_sides().y(),
                                           pf.z() + kz * amrd_box.get_sides().z());
                if (in_box(amrd->_cells[it.get_index()]->get_geometry(), q, 1.e-11, sc))
                  incell = true;
              }
          if (!incell)
            bad = "amrdensitygrid-absorbed-outside-the-returned-cell";
        }
      } else {
        if (taudone > tau * (1. + 1.e-8))
          bad = "amrdensitygrid-escaped-although-optical-depth-was-reached";
        bool onface = false;
        for (int i = 0; i < 3; ++i) {
          if (amrd_per[i])
            continue;
          const double lo = amrd_box.get_anchor()[i], hi = lo + amrd_box.get_sides()[i];
          if (pf[i] <= lo + 1.e-11 * sc[i] || pf[i] >= hi - 1.e-11 * sc[i])
            onface = true;
        }
        if (!onface) {
          // signature of a known defect: the photon was absorbed in a cell whose exit wall (along
          // the direction of travel) is an open face of the box, and end() is returned
          bool boundary = false;
          if (in_box(amrd_box, pf, 0., sc)) {
            const Box<> g = amrd->_cells[amrd->get_cell_index(pf)]->get_geometry();
            double best = DBL_MAX;
            int bax = -1;
            bool bup = false;
            for (int i = 0; i < 3; ++i) {
              if (dir[i] == 0.)
                continue;
              const bool up = dir[i] > 0.;
              const double l = ((up ? g.get_anchor()[i] + g.get_sides()[i] : g.get_anchor()[i]) - pf[i]) / dir[i];
              if (l < best) {
                best = l;
                bax = i;
                bup = up;
              }
            }
            if (bax >= 0 && !amrd_per[bax]) {
              const double wall = bup ? g.get_anchor()[bax] + g.get_sides()[bax] : g.get_anchor()[bax];
              const double face = bup ? amrd_box.get_anchor()[bax] + amrd_box.get_sides()[bax] : amrd_box.get_anchor()[bax];
              boundary = std::fabs(wall - face) <= 1.e-11 * sc[bax];
            }
          }
          bad = boundary ? "amrdensitygrid-absorbed-in-boundary-cell-reported-as-escaped"
                         : "amrdensitygrid-escaped-inside-the-box";
        }
      }
    }
    if (bad == "amrdensitygrid-absorbed-outside-the-returned-cell") {
      // signature of a known defect: after a periodic wrap into a refined neighbour the descent uses
      // the unwrapped position and enters the wrong child
      bool wrapped = false;
      for (int i = 0; i < 3; ++i)
        if (amrd_per[i] &&
            std::fabs(std::round((pf[i] - p0[i] - S * dir[i] / dlen) / amrd_box.get_sides()[i])) >= 1.)
          wrapped = true;
      if (wrapped)
        bad = "amrdensitygrid-periodic-wrap-enters-wrong-child-of-refined-neighbour";
    }
    if (bad.empty()) {
      std::map< uint64_t, double > dep;
      for (uint64_t c = 0; c < nc; ++c) {
        const double J = DensityGrid::iterator(c, *amrd).get_ionization_variables().get_mean_intensity(ION_H_n);
        if (J != 0.)
          dep[c] = J / sH;
      }
      bad = chord_oracle("amrdensitygrid", *amrd, amrd_box, amrd_per, p0,
                         CoordinateVector<>(dir.x() / dlen, dir.y() / dlen, dir.z() / dlen), dep,
                         absorbed && it.get_index() < nc, absorbed ? (uint64_t)it.get_index() : 0);
    }
    if (!bad.empty())
      oracle(bad);
    return;
  }
  std::cout << "bad-op\n";
}

// ---------------------------------------------------------------- VoronoiDensityGrid (oracle only)
// No Lean model (C15 is not applicable): the real class is driven and judged by grid-independent
// oracles only.  Generators are given explicitly; the Lloyd iterations of initialize() are run.
class HarnessGeneratorDistribution : public VoronoiGeneratorDistribution {
public:
  std::vector< CoordinateVector<> > pos;
  size_t next;
  HarnessGeneratorDistribution() : next(0) {}
  virtual generatornumber_t get_number_of_positions() const { return pos.size(); }
  virtual CoordinateVector<> get_position() { return pos[next++ % pos.size()]; }
};
static VoronoiDensityGrid *vor = nullptr;
static Box<> vor_box;
static std::vector< double > vor_xt, vor_dt;

// The large Voronoi constructions run in a fresh process (this executable started again with
// C16_CHILD=1, the operation on its stdin, a time limit): a construction that aborts on its own
// asserts or does not finish in time (degenerate clustered generator sets can do that) is reported
// as "gave-up", not as a property failure.  (A plain fork() is not safe here: the grid
// constructions use OpenMP threads, and a forked child of a process with a live thread pool hangs.)
static std::string join_words(const std::vector< std::string > &w) {
  std::string s;
  for (size_t i = 0; i < w.size(); ++i)
    s += (i ? " " : "") + w[i];
  return s;
}
static bool in_child() { return getenv("C16_CHILD") != nullptr; }

// returns true if the child printed its answer line (which is printed here as well, after the
// ORACLE lines of the child, renumbered to the current line)
static bool run_self(const std::string &line, const unsigned seconds, const std::string &answer_prefix) {
  char exe[4096];
  const ssize_t n = readlink("/proc/self/exe", exe, sizeof(exe) - 1);
  if (n <= 0)
    return false;
  exe[n] = 0;
  char tmpl[] = "/tmp/c16w_opXXXXXX";
  const int fd = mkstemp(tmpl);
  if (fd < 0)
    return false;
  const std::string text = line + "\n";
  if (write(fd, text.c_str(), text.size()) < 0) {
  }
  close(fd);
  std::ostringstream cmd;
  cmd << "C16_CHILD=1 timeout " << seconds << " '" << exe << "' < " << tmpl << " 2>/dev/null";
  std::cout.flush();
  fflush(stdout);
  FILE *pp = popen(cmd.str().c_str(), "r");
  bool done = false;
  if (pp) {
    char *buf = nullptr;
    size_t cap = 0;
    while (getline(&buf, &cap, pp) > 0) {
      std::string l(buf);
      while (!l.empty() && (l[l.size() - 1] == '\n' || l[l.size() - 1] == '\r'))
        l.erase(l.size() - 1);
      if (l.compare(0, 14, "ORACLE line=1 ") == 0)
        oracle(l.substr(14));
      else if (l.compare(0, answer_prefix.size(), answer_prefix) == 0)
        done = true;
    }
    free(buf);
    pclose(pp);
  }
  unlink(tmpl);
  return done;
}

typedef std::map< uint64_t, double > FaceMap; // real neighbour -> total face area

static std::vector< FaceMap > vor_face_maps(const VoronoiGrid &g, const uint64_t nc) {
  std::vector< FaceMap > fm(nc);
  for (uint64_t c = 0; c < nc; ++c) {
    const std::vector< VoronoiFace > faces = g.get_faces(c);
    for (size_t k = 0; k < faces.size(); ++k)
      if (g.is_real_neighbour(faces[k].get_neighbour()))
        fm[c][faces[k].get_neighbour()] += faces[k].get_surface_area();
  }
  return fm;
}

// geometric clauses on one constructed grid (public interface of VoronoiGrid only)
static void vor_geometry(const std::string &tag, const VoronoiGrid &g, const std::vector< CoordinateVector<> > &gens,
                         const Box<> &box) {
  const uint64_t nc = gens.size();
  const double bv = box.get_sides().x() * box.get_sides().y() * box.get_sides().z();
  const double a0 = std::pow(bv, 2. / 3.);
  double vol = 0.;
  for (uint64_t c = 0; c < nc; ++c)
    vol += g.get_volume(c);
  if (getenv("C16_DEBUG"))
    fprintf(stderr, "volsum %s rel %.3e\n", tag.c_str(), (vol - bv) / bv);
  // the new construction (exact predicates) is held to 1e-9; the old construction cuts with its own
  // tolerances: on clean code single cells are off by up to ~4e-7 relative and the sum by up to
  // ~4e-9 (observed on clustered sets), so it is held to 1e-7 / areas to 1e-3
  const bool exact = (tag == "New");
  const double voltol = exact ? 1.e-9 : 1.e-7;
  const double arel = exact ? 1.e-8 : 1.e-3, aabs = exact ? 1.e-12 : 1.e-8;
  if (!(std::fabs(vol - bv) <= voltol * std::fabs(bv)))
    oracle("voronoi-volumes-do-not-sum-to-box-volume " + tag);
  for (uint64_t c = 0; c < nc; ++c)
    if (g.get_index(gens[c]) != c) {
      oracle("voronoi-generator-is-not-located-in-its-own-cell " + tag);
      break;
    }
  // neighbour relations are mutual, with equal face areas (faces of negligible area are skipped: a
  // degenerate face may exist on one side only; areas to 1e-5 relative: the old construction cuts
  // with its own tolerances and a wall cell can be off by ~1e-6 relative on clean code)
  const std::vector< FaceMap > fm = vor_face_maps(g, nc);
  bool mutual = true, areas = true;
  for (uint64_t c = 0; c < nc; ++c)
    for (FaceMap::const_iterator it = fm[c].begin(); it != fm[c].end(); ++it) {
      if (!(it->second > (exact ? 1.e-9 : 1.e-7) * a0) || it->first >= nc)
        continue;
      FaceMap::const_iterator back = fm[it->first].find(c);
      if (back == fm[it->first].end())
        mutual = false;
      else if (!(std::fabs(back->second - it->second) <= arel * std::max(back->second, it->second) + aabs * a0)) {
        if (getenv("C16_DEBUG"))
          fprintf(stderr, "area %s c=%lu j=%lu A=%.17g back=%.17g a0=%g\n", tag.c_str(), (unsigned long)c, (unsigned long)it->first, it->second, back->second, a0);
        areas = false;
      }
    }
  if (!mutual)
    oracle("voronoi-neighbour-relation-is-not-mutual " + tag);
  else if (!areas)
    oracle("voronoi-face-areas-of-mutual-neighbours-differ " + tag);
  // located cell = cell of the nearest generator, on points between pairs of generators
  const double diag = box.get_sides().norm();
  for (uint64_t c = 0; c < nc && c < 400; ++c) {
    const CoordinateVector<> &a = gens[c], &b = gens[(c * 7 + 3) % nc];
    const double f = 0.1 + 0.8 * ((c * 2654435761ull) % 1000) / 1000.;
    const CoordinateVector<> p(a.x() + f * (b.x() - a.x()), a.y() + f * (b.y() - a.y()), a.z() + f * (b.z() - a.z()));
    const uint64_t k = g.get_index(p);
    if (k >= nc) {
      oracle("voronoi-located-cell-does-not-exist " + tag);
      break;
    }
    const double dk = (p - gens[k]).norm();
    bool bad = false;
    for (uint64_t j = 0; j < nc && !bad; ++j)
      if ((p - gens[j]).norm() < dk * (1. - 1.e-9) - 1.e-12 * diag)
        bad = true;
    if (bad) {
      oracle("voronoi-located-cell-is-not-the-cell-of-the-nearest-generator " + tag);
      break;
    }
  }
}

static void op_vor(const std::vector< std::string > &w) {
  const std::string &sub = w[1];
  static const bool noper[3] = {false, false, false};
  // `vor geom <Old|New> <lloyd> box | generators`: geometric clauses on a (large / clustered)
  // generator set, in a forked child with a time limit; nothing is kept
  if (sub == "geom" && w.size() >= 12) {
    const std::string type = w[2];
    const uint64_t lloyd = u64(w[3]);
    const Box<> box(CoordinateVector<>(dbl(w[4]), dbl(w[5]), dbl(w[6])), CoordinateVector<>(dbl(w[7]), dbl(w[8]), dbl(w[9])));
    std::vector< CoordinateVector<> > gens;
    for (size_t q = 11; q + 2 < w.size(); q += 3)
      gens.push_back(CoordinateVector<>(dbl(w[q]), dbl(w[q + 1]), dbl(w[q + 2])));
    bool back = true;
    if (in_child()) {
      HarnessGeneratorDistribution *gen = new HarnessGeneratorDistribution();
      gen->pos = gens;
      VoronoiDensityGrid grid(gen, box, type, (uint_fast8_t)lloyd, CoordinateVector< bool >(false));
      HarnessDensityFunction df;
      std::pair< cellsize_t, cellsize_t > block = std::make_pair(0, grid.get_number_of_cells());
      grid.initialize(block, df);
      vor_geometry(type, *grid._voronoi_grid, grid._generator_positions, box);
    } else {
      back = run_self(join_words(w), 45, "vor geom ");
    }
    std::cout << "vor geom " << gens.size() << (back ? " done" : " gave-up") << "\n";
    return;
  }
  // `vor both box | generators`: the two construction algorithms on the same generators
  if (sub == "both" && w.size() >= 10) {
    const Box<> box(CoordinateVector<>(dbl(w[2]), dbl(w[3]), dbl(w[4])), CoordinateVector<>(dbl(w[5]), dbl(w[6]), dbl(w[7])));
    std::vector< CoordinateVector<> > gens;
    for (size_t q = 9; q + 2 < w.size(); q += 3)
      gens.push_back(CoordinateVector<>(dbl(w[q]), dbl(w[q + 1]), dbl(w[q + 2])));
    bool back = true;
    if (in_child()) {
    const uint64_t nc = gens.size();
    VoronoiGrid *go = VoronoiGridFactory::generate("Old", gens, box, CoordinateVector< bool >(false));
    go->compute_grid();
    VoronoiGrid *gn = VoronoiGridFactory::generate("New", gens, box, CoordinateVector< bool >(false));
    gn->compute_grid();
    vor_geometry("Old", *go, gens, box);
    vor_geometry("New", *gn, gens, box);
    const double bv = box.get_sides().x() * box.get_sides().y() * box.get_sides().z();
    const double a0 = std::pow(bv, 2. / 3.);
    bool vols = true, ngbs = true;
    const std::vector< FaceMap > fo = vor_face_maps(*go, nc), fn = vor_face_maps(*gn, nc);
    for (uint64_t c = 0; c < nc; ++c) {
      const double vo = go->get_volume(c), vn = gn->get_volume(c);
      // (Old against New: the tolerances of the old construction, see vor_geometry)
      if (!(std::fabs(vo - vn) <= 1.e-5 * std::max(vo, vn) + 1.e-10 * bv)) {
        if (getenv("C16_DEBUG"))
          fprintf(stderr, "vol c=%lu old %.17g new %.17g rel %.3e\n", (unsigned long)c, vo, vn, (vo - vn) / vn);
        vols = false;
      }
      for (int dirn = 0; dirn < 2; ++dirn) {
        const FaceMap &x = dirn ? fn[c] : fo[c], &y = dirn ? fo[c] : fn[c];
        for (FaceMap::const_iterator it = x.begin(); it != x.end(); ++it) {
          if (!(it->second > 1.e-7 * a0))
            continue;
          FaceMap::const_iterator o = y.find(it->first);
          if (o == y.end() || !(std::fabs(o->second - it->second) <= 1.e-3 * std::max(o->second, it->second) + 1.e-8 * a0)) {
            if (getenv("C16_DEBUG"))
              fprintf(stderr, "both dirn=%d c=%lu j=%lu A=%.17g other=%.17g a0=%g\n", dirn, (unsigned long)c, (unsigned long)it->first, it->second, o == y.end() ? -1. : o->second, a0);
            ngbs = false;
          }
        }
      }
    }
    if (!vols)
      oracle("voronoi-old-and-new-construction-disagree-on-a-cell-volume");
    if (!ngbs)
      oracle("voronoi-old-and-new-construction-disagree-on-the-neighbours-of-a-cell");
    } else {
      back = run_self(join_words(w), 50, "vor both ");
    }
    std::cout << "vor both " << gens.size() << (back ? " done" : " gave-up") << "\n";
    return;
  }
  if (sub == "new" && w.size() >= 12) {
    delete vor; // (deletes the generator distribution as well)
    vor = nullptr;
    const std::string type = w[2];
    const uint64_t lloyd = u64(w[3]);
    vor_box = Box<>(CoordinateVector<>(dbl(w[4]), dbl(w[5]), dbl(w[6])),
                    CoordinateVector<>(dbl(w[7]), dbl(w[8]), dbl(w[9])));
    HarnessGeneratorDistribution *gen = new HarnessGeneratorDistribution();
    size_t q = 11;
    for (; q + 2 < w.size() && w[q] != "|"; q += 3)
      gen->pos.push_back(CoordinateVector<>(dbl(w[q]), dbl(w[q + 1]), dbl(w[q + 2])));
    vor_dt.clear();
    vor_xt.clear();
    for (++q; q < w.size() && w[q] != "|"; ++q)
      vor_dt.push_back(dbl(w[q]));
    for (++q; q < w.size(); ++q)
      vor_xt.push_back(dbl(w[q]));
    vor = new VoronoiDensityGrid(gen, vor_box, type, (uint_fast8_t)lloyd, CoordinateVector< bool >(false));
    HarnessDensityFunction df;
    std::pair< cellsize_t, cellsize_t > block = std::make_pair(0, vor->get_number_of_cells());
    vor->initialize(block, df);
    const uint64_t nc = vor->get_number_of_cells();
    double vol = 0.;
    for (uint64_t c = 0; c < nc; ++c) {
      IonizationVariables &iv = DensityGrid::iterator(c, *vor).get_ionization_variables();
      iv.set_number_density(vor_dt.empty() ? 1. : vor_dt[c % vor_dt.size()]);
      iv.set_ionic_fraction(ION_H_n, vor_xt.empty() ? 1. : vor_xt[c % vor_xt.size()]);
      iv.set_ionic_fraction(ION_He_n, 0.);
      vol += vor->get_cell_volume((cellsize_t)c);
    }
    std::cout << "vor new " << nc << "\n";
    const double bv = vor_box.get_sides().x() * vor_box.get_sides().y() * vor_box.get_sides().z();
    if (!(std::fabs(vol - bv) <= 1.e-9 * std::fabs(bv)))
      oracle("voronoi-volumes-do-not-sum-to-box-volume");
    // every generator (the position the grid reports as the midpoint of the cell) lies in its cell
    for (uint64_t c = 0; c < nc; ++c)
      if (vor->get_cell_index(vor->get_cell_midpoint((cellsize_t)c)) != c) {
        oracle("voronoi-generator-is-not-located-in-its-own-cell");
        break;
      }
    {
      // neighbour relation mutual with equal face areas (faces of negligible area skipped)
      const std::vector< FaceMap > fm = vor_face_maps(*vor->_voronoi_grid, nc);
      const double a0 = std::pow(bv, 2. / 3.);
      bool mutual = true;
      for (uint64_t c = 0; c < nc; ++c)
        for (FaceMap::const_iterator it = fm[c].begin(); it != fm[c].end(); ++it) {
          if (!(it->second > 1.e-7 * a0) || it->first >= nc)
            continue;
          FaceMap::const_iterator back = fm[it->first].find(c);
          if (back == fm[it->first].end() ||
              !(std::fabs(back->second - it->second) <= 1.e-3 * std::max(back->second, it->second) + 1.e-8 * a0))
            mutual = false;
        }
      if (!mutual)
        oracle("voronoi-neighbour-relation-is-not-mutual");
    }
    return;
  }
  if (!vor) {
    std::cout << "bad-op\n";
    return;
  }
  const uint64_t nc = vor->get_number_of_cells();
  if (sub == "loc" && w.size() == 5) {
    const CoordinateVector<> p(dbl(w[2]), dbl(w[3]), dbl(w[4]));
    const uint64_t c = vor->get_cell_index(p);
    std::cout << "vor loc " << c << "\n";
    if (c >= nc) {
      oracle("voronoi-located-cell-does-not-exist");
      return;
    }
    // the defining property of a Voronoi cell: no other generator is closer
    const double dc = (p - vor->get_cell_midpoint((cellsize_t)c)).norm();
    for (uint64_t k = 0; k < nc; ++k)
      if ((p - vor->get_cell_midpoint((cellsize_t)k)).norm() < dc * (1. - 1.e-9) - 1.e-12 * vor_box.get_sides().norm()) {
        oracle("voronoi-located-cell-is-not-the-cell-of-the-nearest-generator");
        break;
      }
    return;
  }
  if ((sub == "ray" || sub == "reray") && w.size() == 10) {
    const CoordinateVector<> p0(dbl(w[2]), dbl(w[3]), dbl(w[4]));
    const CoordinateVector<> dir(dbl(w[5]), dbl(w[6]), dbl(w[7]));
    const double tau = dbl(w[8]), sH = dbl(w[9]);
    for (uint64_t c = 0; c < nc; ++c)
      DensityGrid::iterator(c, *vor).get_ionization_variables().reset_mean_intensities();
    const bool redirect = (sub == "reray");
    Photon photon(p0, redirect ? CoordinateVector<>(dir.z(), dir.x(), dir.y()) : dir, 1.);
    photon.set_cross_section(ION_H_n, sH);
    photon.set_cross_section_He_corr(0.);
    if (redirect) {
      vor->interact(photon, tau);
      for (uint64_t c = 0; c < nc; ++c)
        DensityGrid::iterator(c, *vor).get_ionization_variables().reset_mean_intensities();
      photon.set_position(p0);
      photon.set_direction(dir);
    }
    DensityGrid::iterator it = vor->interact(photon, tau);
    const CoordinateVector<> pf = photon.get_position();
    const bool absorbed = !(it == vor->end());
    std::map< uint64_t, double > dep;
    double total = 0., taudone = 0., kmax = 0.;
    for (uint64_t c = 0; c < nc; ++c) {
      const IonizationVariables &iv = DensityGrid::iterator(c, *vor).get_ionization_variables();
      const double J = iv.get_mean_intensity(ION_H_n);
      const double kappa = iv.get_number_density() * sH * iv.get_ionic_fraction(ION_H_n);
      kmax = std::max(kmax, kappa);
      if (J != 0.) {
        dep[c] = J / sH;
        total += J;
        taudone += (J / sH) * kappa;
      }
    }
    std::cout << "vor ray " << (absorbed ? (int64_t)it.get_index() : -1) << " " << showF(pf.x()) << " "
              << showF(pf.y()) << " " << showF(pf.z()) << " " << dep.size() << " " << showF(total) << "\n";
    const double S = total / sH;
    const double diag = vor_box.get_sides().norm();
    const double dlen = dir.norm();
    std::string bad;
    // the traversal nudges the origin by 1e-12 * diagonal a few times
    for (int i = 0; i < 3 && bad.empty(); ++i)
      if (std::fabs(pf[i] - p0[i] - S * dir[i]) > 1.e-9 * (S * dlen + diag) + 1.e-9 * std::fabs(vor_box.get_anchor()[i]))
        bad = "voronoi-path-sum-differs-from-distance-travelled";
    if (bad.empty()) {
      if (absorbed) {
        if (std::fabs(taudone - tau) > 1.e-8 * tau + 1.e-10 * kmax * diag / dlen)
          bad = "voronoi-absorbed-but-optical-depth-not-reached";
      } else if (taudone > tau * (1. + 1.e-8) + 1.e-10 * kmax * diag / dlen) {
        bad = "voronoi-escaped-although-optical-depth-was-reached";
      }
    }
    if (bad.empty())
      bad = chord_oracle("voronoi", *vor, vor_box, noper, p0, dir, dep, absorbed,
                         absorbed ? (uint64_t)it.get_index() : 0);
    if (!bad.empty())
      oracle(bad);
    return;
  }
  std::cout << "bad-op\n";
}

int main() {
  std::string line;
  std::signal(SIGALRM, on_alarm);
  while (std::getline(std::cin, line)) {
    ++lineno;
    std::cout.flush();
    alarm(60);
    const std::vector< std::string > w = words(line);
    if (w.empty()) {
      std::cout << "bad-op\n";
      continue;
    }
    const std::string &o = w[0];
    if (o == "morton" && w.size() == 10)
      op_morton(w);
    else if (o == "inc" && w.size() == 5)
      op_inc(w);
    else if (o == "shell" && w.size() == 2)
      op_shell(w);
    else if (o == "maxrange" && w.size() == 7)
      op_maxrange(w);
    else if (o == "range" && w.size() == 5)
      op_range(w);
    else if (o == "amr" && w.size() >= 2)
      op_amr(w);
    else if (o == "cart" && w.size() >= 2)
      op_cart(w);
    else if (o == "amrd" && w.size() >= 2)
      op_amrd(w);
    else if (o == "pl" && w.size() >= 2)
      op_pl(w);
    else if (o == "oct" && w.size() >= 2)
      op_oct(w);
    else if (o == "vor" && w.size() >= 2)
      op_vor(w);
    else
      std::cout << "bad-op\n";
  }
  return 0;
}
