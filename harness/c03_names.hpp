// C03: the documented meaning of the 27 TravelDirection labels (src/TravelDirections.hpp, enum comments):
// CORNER_abc = corner with x,y,z at the upper (P) / lower (N) limit, EDGE_X_bc = edge parallel to x with y,z at
// P/N, EDGE_Y_ac, EDGE_Z_ab likewise, FACE_X_a = face x = upper/lower.  Indexed through the enum constants, so a
// re-ordered enum is followed.  Used by the table generator (Lean table `namedOffset`) and as the geometric
// specification in the harness oracles.
#ifndef VERIF_C03_NAMES_HPP
#define VERIF_C03_NAMES_HPP
#include "TravelDirections.hpp"
struct NamedDirection {
  int dir;
  const char *name;
  int off[3];
};
static const NamedDirection named_directions[27] = {
    {TRAVELDIRECTION_INSIDE, "INSIDE", {0, 0, 0}},
    {TRAVELDIRECTION_CORNER_PPP, "CORNER_PPP", {1, 1, 1}},
    {TRAVELDIRECTION_CORNER_PPN, "CORNER_PPN", {1, 1, -1}},
    {TRAVELDIRECTION_CORNER_PNP, "CORNER_PNP", {1, -1, 1}},
    {TRAVELDIRECTION_CORNER_PNN, "CORNER_PNN", {1, -1, -1}},
    {TRAVELDIRECTION_CORNER_NPP, "CORNER_NPP", {-1, 1, 1}},
    {TRAVELDIRECTION_CORNER_NPN, "CORNER_NPN", {-1, 1, -1}},
    {TRAVELDIRECTION_CORNER_NNP, "CORNER_NNP", {-1, -1, 1}},
    {TRAVELDIRECTION_CORNER_NNN, "CORNER_NNN", {-1, -1, -1}},
    {TRAVELDIRECTION_EDGE_X_PP, "EDGE_X_PP", {0, 1, 1}},
    {TRAVELDIRECTION_EDGE_X_PN, "EDGE_X_PN", {0, 1, -1}},
    {TRAVELDIRECTION_EDGE_X_NP, "EDGE_X_NP", {0, -1, 1}},
    {TRAVELDIRECTION_EDGE_X_NN, "EDGE_X_NN", {0, -1, -1}},
    {TRAVELDIRECTION_EDGE_Y_PP, "EDGE_Y_PP", {1, 0, 1}},
    {TRAVELDIRECTION_EDGE_Y_PN, "EDGE_Y_PN", {1, 0, -1}},
    {TRAVELDIRECTION_EDGE_Y_NP, "EDGE_Y_NP", {-1, 0, 1}},
    {TRAVELDIRECTION_EDGE_Y_NN, "EDGE_Y_NN", {-1, 0, -1}},
    {TRAVELDIRECTION_EDGE_Z_PP, "EDGE_Z_PP", {1, 1, 0}},
    {TRAVELDIRECTION_EDGE_Z_PN, "EDGE_Z_PN", {1, -1, 0}},
    {TRAVELDIRECTION_EDGE_Z_NP, "EDGE_Z_NP", {-1, 1, 0}},
    {TRAVELDIRECTION_EDGE_Z_NN, "EDGE_Z_NN", {-1, -1, 0}},
    {TRAVELDIRECTION_FACE_X_P, "FACE_X_P", {1, 0, 0}},
    {TRAVELDIRECTION_FACE_X_N, "FACE_X_N", {-1, 0, 0}},
    {TRAVELDIRECTION_FACE_Y_P, "FACE_Y_P", {0, 1, 0}},
    {TRAVELDIRECTION_FACE_Y_N, "FACE_Y_N", {0, -1, 0}},
    {TRAVELDIRECTION_FACE_Z_P, "FACE_Z_P", {0, 0, 1}},
    {TRAVELDIRECTION_FACE_Z_N, "FACE_Z_N", {0, 0, -1}},
};
// entry for the enum value d (nullptr if the enum no longer has it)
static inline const NamedDirection *named_direction(int d) {
  for (int i = 0; i < 27; ++i)
    if (named_directions[i].dir == d)
      return &named_directions[i];
  return nullptr;
}
#endif
