// C06 helper (whole-binary stream): prints the double datasets of PartType0 of a Gadget (HDF5) snapshot written by the
// code itself, one line per dataset:  <name> <rows> <columns> <bit pattern of every value ...>
// usage: c06_snap <file.hdf5>
#include "common.hpp"
#include <hdf5.h>

static herr_t visit(hid_t group, const char *name, const H5L_info_t *, void *) {
  hid_t ds = H5Dopen2(group, name, H5P_DEFAULT);
  if (ds < 0)
    return 0;
  hid_t space = H5Dget_space(ds);
  hid_t type = H5Dget_type(ds);
  hsize_t dims[2] = {1, 1};
  const int nd = H5Sget_simple_extent_ndims(space);
  if (nd >= 1 && nd <= 2 && H5Tget_class(type) == H5T_FLOAT) {
    H5Sget_simple_extent_dims(space, dims, nullptr);
    if (nd == 1)
      dims[1] = 1;
    std::vector< double > data(dims[0] * dims[1]);
    if (H5Dread(ds, H5T_NATIVE_DOUBLE, H5S_ALL, H5S_ALL, H5P_DEFAULT, data.data()) >= 0) {
      std::cout << name << " " << dims[0] << " " << dims[1];
      for (double x : data)
        std::cout << " " << bits_of(x);
      std::cout << "\n";
    }
  }
  H5Tclose(type);
  H5Sclose(space);
  H5Dclose(ds);
  return 0;
}

int main(int argc, char **argv) {
  if (argc < 2)
    return 2;
  H5Eset_auto2(H5E_DEFAULT, nullptr, nullptr);
  hid_t file = H5Fopen(argv[1], H5F_ACC_RDONLY, H5P_DEFAULT);
  if (file < 0) {
    std::cout << "cannot-open\n";
    return 1;
  }
  hid_t group = H5Gopen2(file, "PartType0", H5P_DEFAULT);
  if (group < 0) {
    std::cout << "no-PartType0\n";
    return 1;
  }
  H5Literate(group, H5_INDEX_NAME, H5_ITER_INC, nullptr, visit, nullptr);
  H5Gclose(group);
  H5Fclose(file);
  return 0;
}
