// C13 harness: drives the real RandomGenerator through the line protocol.  Answer lines are
// compared bit for bit with the Lean model (doubles as 64 bit patterns); "ORACLE ..." lines
// evaluate the property itself on the implementation:
//   every draw u satisfies 0 <= u < 1 (and -log(u) > 0),
//   a generator restored from a restart file has the same state and continues identically
//   (the old object is kept as a shadow and drawn in lock step until the next seed/restore),
//   seed 0 gives the stream of seed 1 (a shadow RandomGenerator(1) is drawn in lock step),
//   two different seeds give different values within the first 24 draws ("differ a b"),
//   every draw equals the textbook RANLUX value (RefRanlux below: plain 64 bit integer
//   subtract-with-borrow, base 2^48, lags 12/5, luxury 397, seeded from the 31 bit shift
//   register b(n) = b(n-31) xor b(n-13); written from the specification, not from the code).
#include "common.hpp"
#include <fstream>
#include <unistd.h>
#define private public
#include "RandomGenerator.hpp"
#include "DensitySubGridCreator.hpp"
#include "DistributedPhotonSource.hpp"
#undef private
// statements copied from the current sources by tools/props/c13.py (emission blocks of the two
// task contexts, per-thread seeding loops of the two task based drivers)
#include "c13_extracted.hpp"

// point sources with given weights; source s sits in the middle of subgrid s of an S x 1 x 1 grid
class ListDistribution : public PhotonSourceDistribution {
public:
  std::vector< double > _w;
  virtual photonsourcenumber_t get_number_of_sources() const { return _w.size(); }
  virtual CoordinateVector<> get_position(photonsourcenumber_t i) {
    return CoordinateVector<>((i + 0.5) / _w.size(), 0.5, 0.5);
  }
  virtual double get_weight(photonsourcenumber_t i) const { return _w[i]; }
  virtual double get_total_luminosity() const { return 1.; }
};

// the photon packet split of one freshly constructed DistributedPhotonSource:
// (subgrid index, number of packets) per entry
static std::string split_of(size_t N, ListDistribution &dist,
                            DensitySubGridCreator< DensitySubGrid > &creator, size_t &sum) {
  DistributedPhotonSource< DensitySubGrid > src(N, dist, creator);
  std::ostringstream o;
  sum = 0;
  for (size_t i = 0; i < src._subgrids.size(); ++i) {
    o << " " << src._total_number_of_photons[i];
    sum += src._total_number_of_photons[i];
  }
  return o.str();
}

struct RefRanlux {
  int64_t x[12];
  int64_t c;
  int p;         // position of the oldest value of the window
  int delivered; // values of the current window already returned
  void seed(long long s) {
    if (s == 0) s = 1;
    const uint32_t i = (uint32_t)(s & 0x7FFFFFFF);
    std::vector< int > b(31 + 12 * 48);
    for (int n = 0; n < 31; ++n) b[n] = (i >> n) & 1;
    for (size_t n = 31; n < b.size(); ++n) b[n] = b[n - 31] ^ b[n - 13];
    for (int k = 0; k < 12; ++k) {
      int64_t w = 0;
      for (int m = 0; m < 48; ++m) w = 2 * w + (1 - b[48 * k + m]);
      x[k] = w;
    }
    c = 0;
    p = 0;
    delivered = 12;
  }
  void step() {
    const int64_t d = x[(p + 7) % 12] - x[p] - c;
    if (d < 0) { x[p] = d + (int64_t(1) << 48); c = 1; } else { x[p] = d; c = 0; }
    p = (p + 1) % 12;
  }
  // position inside a stream given by a generator state (integers in units of 2^-48)
  void set(const int64_t *k, int64_t carry, int ir, int ir_old) {
    for (int i = 0; i < 12; ++i) x[i] = k[i];
    c = carry;
    p = ir_old;
    delivered = (ir - ir_old + 12) % 12 + 1;
  }
  double next() {
    if (delivered == 12) {
      for (int k = 0; k < 397; ++k) step();
      delivered = 0;
    }
    const int64_t v = x[(p + delivered++) % 12];
    return std::ldexp((double)v, -48);
  }
};

static std::string show_state(const RandomGenerator &g) {
  std::ostringstream o;
  for (int i = 0; i < 12; ++i)
    o << showF(g._xdbl[i]) << " ";
  o << showF(g._carry) << " " << g._ir << " " << g._jr << " " << g._ir_old << " " << g._pr;
  return o.str();
}

static bool same_state(const RandomGenerator &a, const RandomGenerator &b) {
  return std::memcmp(a._xdbl, b._xdbl, sizeof(a._xdbl)) == 0 &&
         bits_of(a._carry) == bits_of(b._carry) && a._ir == b._ir && a._jr == b._jr &&
         a._ir_old == b._ir_old && a._pr == b._pr;
}

int main() {
  RandomGenerator *g = new RandomGenerator(42);
  RandomGenerator *shadow = nullptr; // must produce the same values as g
  RefRanlux ref;
  ref.seed(42);
  const char *shadow_what = "";
  std::string line;
  uint64_t lineno = 0, noracle = 0;
  while (std::getline(std::cin, line)) {
    ++lineno;
    auto w = words(line);
    std::ostringstream bad;
    if (w.size() == 2 && w[0] == "seed") {
      const long long n = std::strtoll(w[1].c_str(), nullptr, 10);
      g->set_seed(n);
      ref.seed(n);
      delete shadow;
      shadow = nullptr;
      if (n == 0) {
        shadow = new RandomGenerator(1);
        shadow_what = " seed0-differs-from-seed1";
        if (!same_state(*g, *shadow)) bad << shadow_what;
      }
      std::cout << "seed " << show_state(*g) << "\n";
    } else if (w.size() == 1 && w[0] == "next") {
      const double u = g->get_uniform_random_double();
      std::cout << "next " << showF(u) << "\n";
      if (!(u >= 0.)) bad << " draw-below-zero";
      if (!(u < 1.)) bad << " draw-not-below-one";
      if (!(-std::log(u) > 0.)) bad << " optical-depth-not-positive";
      if (bits_of(ref.next()) != bits_of(u)) bad << " draw-is-not-the-ranlux-value";
      if (shadow && bits_of(shadow->get_uniform_random_double()) != bits_of(u))
        bad << shadow_what;
    } else if (w.size() == 2 && w[0] == "skip") {
      const uint64_t k = u64(w[1]);
      uint64_t h = 0;
      double lo = 1., hi = -1. / 281474976710656.0;
      bool below = false, above = false, sh = false, notref = false;
      for (uint64_t i = 0; i < k; ++i) {
        const double u = g->get_uniform_random_double();
        h = h * 6364136223846793005ull + bits_of(u) + 1442695040888963407ull;
        if (u < lo) lo = u;
        if (u > hi) hi = u;
        if (!(u >= 0.)) below = true;
        if (!(u < 1.)) above = true;
        if (bits_of(ref.next()) != bits_of(u)) notref = true;
        if (shadow && bits_of(shadow->get_uniform_random_double()) != bits_of(u)) sh = true;
      }
      std::cout << "skip " << h << " " << showF(lo) << " " << showF(hi) << "\n";
      if (below) bad << " draw-below-zero";
      if (above) bad << " draw-not-below-one";
      if (notref) bad << " draw-is-not-the-ranlux-value";
      if (sh) bad << shadow_what;
    } else if (w.size() == 1 && w[0] == "dump") {
      std::cout << "dump " << show_state(*g) << "\n";
    } else if (w.size() == 1 && w[0] == "restore") {
      // write the generator to a restart file, read it back, continue with the restored object
      char name[] = "/tmp/verif_c13_XXXXXX";
      int fd = mkstemp(name);
      close(fd);
      {
        RestartWriter rw(name);
        g->write_restart_file(rw);
      }
      delete shadow;
      shadow = g;
      shadow_what = " restored-generator-continues-differently";
      {
        RestartReader rr(name);
        g = new RandomGenerator(rr);
      }
      unlink(name);
      std::cout << "restore " << show_state(*g) << "\n";
      if (!same_state(*g, *shadow)) bad << " restored-state-differs";
    } else if (w.size() == 18 && w[0] == "state") {
      // a generator in a chosen state, constructed the only public way: from a restart file
      int64_t k[12];
      for (int i = 0; i < 12; ++i) k[i] = std::strtoll(w[1 + i].c_str(), nullptr, 10);
      const int64_t kc = std::strtoll(w[13].c_str(), nullptr, 10);
      char name[] = "/tmp/verif_c13_XXXXXX";
      int fd = mkstemp(name);
      close(fd);
      {
        RestartWriter rw(name);
        for (int i = 0; i < 12; ++i) rw.write(std::ldexp((double)k[i], -48));
        rw.write(std::ldexp((double)kc, -48));
        for (int i = 14; i < 18; ++i) rw.write((uint_fast32_t)u64(w[i]));
      }
      delete g;
      delete shadow;
      shadow = nullptr;
      {
        RestartReader rr(name);
        g = new RandomGenerator(rr);
      }
      unlink(name);
      ref.set(k, kc, (int)u64(w[14]), (int)u64(w[16]));
      std::cout << "state " << show_state(*g) << "\n";
    } else if (w.size() == 1 && w[0] == "abi") {
      // checked premise of the model: the fast integer types are the 64 bit ones
      std::cout << "abi " << sizeof(int_fast32_t) << " " << sizeof(uint_fast32_t) << " "
                << sizeof(size_t) << "\n";
    } else if (w.size() == 1 && w[0] == "nexti") {
      const double ur = ref.next();
      const int_fast32_t r = g->get_random_integer();
      if (shadow) shadow->get_random_integer();
      std::cout << "nexti " << r << "\n";
      if (r < 0 || r >= 2147483648ll) bad << " random-integer-out-of-range";
      if (r != (int_fast32_t)std::floor(std::ldexp(ur, 31))) bad << " random-integer-is-not-the-leading-31-bits";
    } else if (w.size() == 2 && w[0] == "emit") {
      // the emission block of SourceDiscretePhotonTaskContext ("s") / PhotonReemitTaskContext
      // ("r"), as it stands in the source, run on the current generator
      GenRef gr{g};
      FakePhoton ph;
      if (w[1] == "s") extracted_emit_source(gr, 0, ph, 1.);
      else extracted_emit_reemit(gr, 0, ph);
      if (shadow) { shadow->get_uniform_random_double(); shadow->get_uniform_random_double(); shadow->get_uniform_random_double(); }
      const double u1 = ref.next(), u2 = ref.next(), u3 = ref.next();
      (void)u2;
      std::cout << "emit " << showF(ph.dir[0]) << " " << showF(ph.dir[1]) << " " << showF(ph.dir[2])
                << " " << showF(ph.tau) << "\n";
      const double n2 = ph.dir[0] * ph.dir[0] + ph.dir[1] * ph.dir[1] + ph.dir[2] * ph.dir[2];
      if (!(std::fabs(n2 - 1.) <= 1.e-14)) bad << " direction-is-not-a-unit-vector";
      if (!(ph.dir[2] >= -1. && ph.dir[2] < 1.)) bad << " direction-z-outside-[-1,1)";
      if (!(ph.tau > 0.)) bad << " optical-depth-not-positive";
      if (bits_of(ph.dir[2]) != bits_of(2. * u1 - 1.) || bits_of(ph.tau) != bits_of(-std::log(u3)))
        bad << " emission-does-not-use-three-consecutive-draws";
    } else if (w.size() == 3 && w[0] == "threads") {
      // the per-thread seeding loops of both task based drivers, as they stand in the source
      const long long s0 = std::strtoll(w[1].c_str(), nullptr, 10);
      const int_fast32_t n = u64(w[2]);
      std::vector< RandomGenerator > a(n), b(n);
      extracted_seed_threads_ion(a, s0, n);
      extracted_seed_threads_rhd(b, s0, n);
      std::cout << "threads";
      bool same_loops = true, share = false;
      std::vector< std::vector< uint64_t > > first(n);
      for (int_fast32_t i = 0; i < n; ++i) {
        if (!same_state(a[i], b[i])) same_loops = false;
        for (int k = 0; k < 24; ++k) first[i].push_back(bits_of(a[i].get_uniform_random_double()));
        std::cout << " " << first[i][0];
        for (int_fast32_t j = 0; j < i; ++j)
          if (first[i] == first[j]) share = true;
      }
      std::cout << "\n";
      if (!same_loops) bad << " drivers-seed-their-threads-differently";
      if (share) bad << " two-threads-share-a-stream";
    } else if (w.size() >= 3 && w[0] == "split") {
      // split <N> <weight bits>:<copies> ...  — construct the photon source several times in
      // this process from the same inputs; every construction must give the same split
      const size_t N = u64(w[1]);
      ListDistribution dist;
      std::vector< size_t > ncopy;
      for (size_t i = 2; i < w.size(); ++i) {
        const size_t c = w[i].find(':');
        dist._w.push_back(dbl(w[i].substr(0, c)));
        ncopy.push_back(u64(w[i].substr(c + 1)));
      }
      const int_fast32_t S = dist._w.size();
      DensitySubGridCreator< DensitySubGrid > creator(
          Box<>(CoordinateVector<>(0.), CoordinateVector<>(1.)),
          CoordinateVector< int_fast32_t >(S, 1, 1), CoordinateVector< int_fast32_t >(S, 1, 1),
          CoordinateVector< bool >(false));
      // copies of subgrid s are appended at the end, as create_copies() does
      for (int_fast32_t s = 0; s < S; ++s) {
        if (ncopy[s] > 1) {
          creator._copies[s] = creator._subgrids.size();
          for (size_t k = 1; k < ncopy[s]; ++k) {
            creator._subgrids.push_back(nullptr);
            creator._originals.push_back(s);
          }
        }
      }
      size_t sum1 = 0, sum2 = 0, sum3 = 0;
      const std::string a = split_of(N, dist, creator, sum1);
      const std::string b = split_of(N, dist, creator, sum2);
      const std::string c = split_of(N, dist, creator, sum3);
      std::cout << "split" << a << "\n";
      if (a != b || a != c) bad << " photon-split-depends-on-earlier-constructions";
      if (sum1 != N || sum2 != N || sum3 != N) bad << " photon-split-does-not-sum-to-N";
    } else if (w.size() == 3 && w[0] == "differ") {
      // two different seeds (after the 0 -> 1 and 31 bit reduction) must give different streams
      const long long a = std::strtoll(w[1].c_str(), nullptr, 10);
      const long long b = std::strtoll(w[2].c_str(), nullptr, 10);
      RandomGenerator ga(a), gb(b);
      int first = -1;
      for (int i = 0; i < 24 && first < 0; ++i)
        if (bits_of(ga.get_uniform_random_double()) != bits_of(gb.get_uniform_random_double()))
          first = i;
      std::cout << "differ " << first << "\n";
      if (first < 0) bad << " different-seeds-same-stream";
    } else {
      std::cout << "bad-op\n";
    }
    // at most 25 oracle lines per run (each one becomes a replay file; the first ones suffice)
    if (!bad.str().empty() && ++noracle <= 25)
      std::cout << "ORACLE line=" << lineno << bad.str() << "\n";
  }
  delete g;
  delete shadow;
  return 0;
}
