// LD_PRELOAD library for C10's untraced stress runs: seeded scheduling jitter at the H1 yield points
// of AtomicValue (the weak symbol cmac_verif_yield is called BEFORE every atomic operation).
// CMAC_VERIF_JITTER10 = seed:pbias:maxbias_us:pany:maxany_us
//   * a thread whose previous atomic operation was a pre_decrement is delayed, with probability
//     pbias/1000, by 1..maxbias_us microseconds before its next load (this widens the window between
//     "decrement a counter" and "read it again" in which another thread may decrement too);
//   * before any load / pre_decrement / pre_increment / cas_lock a thread is delayed with probability
//     pany/1000 by 0..maxany_us microseconds (0: sched_yield).
// Delays are busy waits on the monotonic clock (nanosleep is too coarse for a few microseconds).
#include <atomic>
#include <cstdint>
#include <cstdio>
#include <cstdlib>
#include <cstring>
#include <sched.h>
#include <time.h>

static uint64_t g_seed = 0, g_pbias = 0, g_maxbias = 0, g_pany = 0, g_maxany = 0;
static std::atomic< int > g_init(0);
static std::atomic< uint64_t > g_thread_counter(0);

static void init() {
  const char *s = getenv("CMAC_VERIF_JITTER10");
  if (s) {
    unsigned long long a = 0, b = 0, c = 0, d = 0, e = 0;
    if (sscanf(s, "%llu:%llu:%llu:%llu:%llu", &a, &b, &c, &d, &e) == 5) {
      g_seed = a; g_pbias = b; g_maxbias = c; g_pany = d; g_maxany = e;
    }
  }
  g_init.store(1);
}

static inline void spin_us(uint64_t us) {
  if (us == 0) {
    sched_yield();
    return;
  }
  struct timespec t0, t;
  clock_gettime(CLOCK_MONOTONIC, &t0);
  const int64_t end = (int64_t)t0.tv_sec * 1000000000ll + t0.tv_nsec + (int64_t)us * 1000;
  do {
    clock_gettime(CLOCK_MONOTONIC, &t);
  } while ((int64_t)t.tv_sec * 1000000000ll + t.tv_nsec < end);
}

extern "C" void cmac_verif_yield(const char *op, const void *) {
  if (!g_init.load())
    init();
  if (g_pbias == 0 && g_pany == 0)
    return;
  static thread_local uint64_t state = 0;
  static thread_local bool last_was_decrement = false;
  if (state == 0)
    state = (g_seed + 1) * 0x9E3779B97F4A7C15ull ^
            ((g_thread_counter.fetch_add(1) + 1) * 0xBF58476D1CE4E5B9ull);
  const bool is_load = op[0] == 'l';
  const bool is_dec = strcmp(op, "pre_decrement") == 0;
  const bool other = is_load || is_dec || strcmp(op, "pre_increment") == 0 || strcmp(op, "cas_lock") == 0;
  if (other) {
    state ^= state << 13; state ^= state >> 7; state ^= state << 17;
    if (last_was_decrement && is_load) {
      if ((state >> 11) % 1000 < g_pbias)
        spin_us(1 + (state >> 23) % (g_maxbias ? g_maxbias : 1));
    } else if ((state >> 11) % 1000 < g_pany) {
      spin_us((state >> 23) % (g_maxany + 1));
    }
  }
  last_was_decrement = is_dec;
}
