// C19 harness: drives the real TimeLine through the line protocol; prints the implementation's
// answers ("new"/"adv"/"rst" lines, compared with the Lean model) and evaluates the property
// itself on the implementation ("ORACLE ..." lines, only when it fails).
#include "common.hpp"
#include <fstream>
#include <unistd.h>
#define private public
#include "TimeLine.hpp"
#undef private

int main() {
  TimeLine *tl = nullptr;
  TimeLine *twin = nullptr; // the never-restored object, advanced in lock step after a restore
  std::string line;
  uint64_t lineno = 0;
  double endt = 0., startt = 0., interval = 0., maxphys = 0., sum_actual = 0., last_current = 0.;
  bool finished = false, stopped = false, twin_differs = false;
  while (std::getline(std::cin, line)) {
    ++lineno;
    auto w = words(line);
    if (w.empty()) {
      std::cout << "bad-op\n";
      continue;
    }
    if (w[0] == "new" && w.size() == 5) {
      delete tl;
      delete twin;
      twin = nullptr;
      twin_differs = false;
      tl = new TimeLine(dbl(w[1]), dbl(w[2]), dbl(w[3]), dbl(w[4]));
      endt = dbl(w[2]);
      startt = dbl(w[1]);
      interval = endt - startt;
      sum_actual = 0.;
      last_current = startt;
      finished = false;
      stopped = false;
      maxphys = tl->to_physical_time_interval(tl->_maximum_timestep);
      std::cout << "new " << tl->_minimum_timestep << " " << tl->_maximum_timestep
                << " " << tl->_current_time << "\n";
    } else if (w[0] == "adv" && w.size() == 2 && tl && stopped) {
      std::cout << "skip\n";
    } else if (w[0] == "adv" && w.size() == 2 && tl) {
      const double req = dbl(w[1]);
      const uint64_t before = tl->_current_time;
      double actual = -1., current = -1.;
      const bool ret = tl->advance(req, actual, current);
      if (twin != nullptr) {
        double tactual = -1., tcurrent = -1.;
        const bool tret = twin->advance(req, tactual, tcurrent);
        if (tret != ret || bits_of(tactual) != bits_of(actual) || bits_of(tcurrent) != bits_of(current) ||
            twin->_current_time != tl->_current_time)
          twin_differs = true;
      }
      const uint64_t after = tl->_current_time;
      if (!ret) stopped = true;
      std::cout << "adv " << (ret ? 1 : 0) << " " << showF(actual) << " "
                << showF(current) << " " << tl->_minimum_timestep << " "
                << tl->_maximum_timestep << " " << after << "\n";
      // ---- property oracle on the implementation (integer clock) ----
      const uint64_t END = TIMELINE_MAX_INTEGER_TIMELINE_SIZE;
      std::ostringstream bad;
      if (twin_differs) {
        bad << " restored-time-line-continues-differently";
        twin_differs = false;
        delete twin;
        twin = nullptr;
      }
      if (after != before) {
        const uint64_t step = after - before;
        if (after < before) bad << " clock-went-back";
        if (after > END) bad << " past-end";
        if (step & (step - 1)) bad << " step-not-pow2";
        if ((END - before) % step != 0) bad << " step-does-not-divide-remaining";
        if (!(actual <= req)) bad << " step-larger-than-requested";
        if (!(actual <= maxphys)) bad << " step-larger-than-maximum";
        if (step < tl->_minimum_timestep) bad << " step-below-minimum";
        if (ret != (after < END)) bad << " wrong-continue-flag";
        if (actual != tl->to_physical_time_interval(step)) bad << " reported-step-mismatch";
        if (finished) bad << " stepped-after-end";
        // physical reading of the same clauses (start != 0 included)
        sum_actual += actual;
        if (actual > 0.) {
          int e = 0;
          const double m = std::frexp(interval / actual, &e);
          if (m != 0.5) bad << " step-not-a-power-of-two-fraction-of-the-interval";
        }
        if (current > endt + 4.e-16 * (std::fabs(endt) + std::fabs(startt))) bad << " time-exceeds-end-time";
        if (!(current >= last_current)) bad << " time-not-increasing";
        last_current = current;
      } else {
        if (ret) bad << " continue-without-step";
        // a refusal is only allowed for a request below the configured minimum step (the clock
        // is always a multiple of the minimum step, so a minimum-size step always fits)
        if (req >= tl->to_physical_time_interval(tl->_minimum_timestep) && before < END)
          bad << " refused-request-not-below-minimum";
      }
      if (after == END) {
        finished = true;
        if (std::fabs(current - endt) > 4.e-16 * (std::fabs(endt) + std::fabs(startt)))
          bad << " final-step-misses-end-time";
        if (std::fabs(sum_actual - interval) > 1.e-12 * std::fabs(interval))
          bad << " steps-do-not-sum-to-the-interval";
        // reported end time within 1 ulp of the configured end
        if (std::fabs(current - endt) > 4.e-16 * std::fabs(endt) + 0.) {
          // only informational unless start = 0 (then it must be exact)
          if (tl->_conversion_factors[1] == 0. && current != endt)
            bad << " end-time-not-exact";
        }
      }
      if (!bad.str().empty())
        std::cout << "ORACLE line=" << lineno << bad.str() << "\n";
    } else if (w[0] == "rst" && tl) {
      // dump to a restart file, restore, continue with the restored object
      char name[] = "/tmp/verif_c19_XXXXXX";
      int fd = mkstemp(name);
      close(fd);
      {
        RestartWriter rw(name);
        tl->write_restart_file(rw);
      }
      TimeLine *old = tl;
      {
        RestartReader rr(name);
        tl = new TimeLine(rr);
      }
      // keep a never-restored twin: a restored time line must continue identically
      if (twin == nullptr) {
        twin = new TimeLine(*old);
      }
      unlink(name);
      std::cout << "rst " << tl->_minimum_timestep << " " << tl->_maximum_timestep
                << " " << tl->_current_time << "\n";
      if (std::memcmp(old->_conversion_factors, tl->_conversion_factors, 16) != 0 ||
          old->_current_time != tl->_current_time)
        std::cout << "ORACLE line=" << lineno << " restore-differs\n";
      delete old;
    } else {
      std::cout << "bad-op\n";
    }
  }
  delete tl;
  return 0;
}
