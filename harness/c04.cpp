// C04 harness: drives the real Hydro / HydroDensitySubGrid cell-level functions through the line
// protocol (doubles as decimal bit patterns).  Answers are compared with the Lean Float model
// (Model/HydroUpdate.lean); "ORACLE line=<n> <what>" lines are printed when the property itself
// (antisymmetric update, untouched read-only fields, non-negative / finite results) fails on the
// implementation.
//
// A cell is  prim(5) grad(15: j-major, 3 components each) cons(5) dcons(5)  = 30 numbers.
// ops:
//   lim phimid0 phiL phiR                     Hydro::limit(., ., ., 0.5)         -> L v
//   flux gamma i dx A dt L(30) R(30)          Hydro::do_flux_calculation         -> F dL(5) dR(5)
//   gflux <r|i|o> gamma i dx A dt L(30)       do_ghost_flux_calculation, reflective / inflow / outflow -> G dL(5)
//   grad i dxinv L(30) limL(10) R(30) limR(10)  do_gradient_calculation
//        -> D gradL_i(5) limL(10) gradR_i(5) limR(10)
//   ggrad <r|i|o> i dxinv L(30) limL(10)      do_ghost_gradient_calculation, reflective / inflow / outflow
//        -> E gradL_i(5) limL(10)
//   slim dx(3) prim(5) grad(15) lim(10)       Hydro::apply_slope_limiter         -> S grad(15)
//   pred gamma dt prim(5) grad(15) acc(3)     Hydro::predict_primitive_variables -> Q prim(5)
//   tstep gamma V prim(5)                     Hydro::get_timestep                -> T dt
//   ucons dt cons(5) dcons(5) acc(3) eterm    HydroDensitySubGrid::update_conserved_variables
//        -> U cons(5) reset=<0|1>
//   uprim gamma vmax invvol cons(5)           Hydro::set_primitive_variables     -> P prim(5)
#include "common.hpp"
#include <cfloat>
#include <map>
#define private public
#define protected public
#include "Hydro.hpp"
#include "HydroBoundary.hpp"
#include "HydroDensitySubGrid.hpp"
#undef private
#undef protected

static std::map< std::pair< uint64_t, uint64_t >, Hydro * > hcache;
static const Hydro &hydro_of(double gamma, double vmax) {
  auto key = std::make_pair(bits_of(gamma), bits_of(vmax));
  auto it = hcache.find(key);
  if (it == hcache.end())
    it = hcache.insert({key, new Hydro(gamma, 100., 1.e4, vmax, false)}).first;
  return *it->second;
}

static size_t read_cell(const std::vector< std::string > &w, size_t k, HydroVariables &h) {
  for (int j = 0; j < 5; ++j)
    h.primitives(j) = dbl(w[k++]);
  for (int j = 0; j < 5; ++j)
    for (int c = 0; c < 3; ++c)
      h.primitive_gradients(j)[c] = dbl(w[k++]);
  for (int j = 0; j < 5; ++j)
    h.conserved(j) = dbl(w[k++]);
  for (int j = 0; j < 5; ++j)
    h.delta_conserved(j) = dbl(w[k++]);
  return k;
}

static bool same_bits(double a, double b) { return bits_of(a) == bits_of(b) || (a != a && b != b); }

// did the call leave everything except delta_conserved alone?
static bool readonly_same(const HydroVariables &a, const HydroVariables &b, bool grads) {
  for (int j = 0; j < 5; ++j) {
    if (!same_bits(a.primitives(j), b.primitives(j)) ||
        !same_bits(const_cast< HydroVariables & >(a).conserved(j),
                   const_cast< HydroVariables & >(b).conserved(j)))
      return false;
    if (grads)
      for (int c = 0; c < 3; ++c)
        if (!same_bits(const_cast< HydroVariables & >(a).primitive_gradients(j)[c],
                       const_cast< HydroVariables & >(b).primitive_gradients(j)[c]))
          return false;
  }
  return true;
}

int main() {
  std::string line;
  size_t lineno = 0;
  const ReflectiveHydroBoundary reflective;
  const InflowHydroBoundary inflow;
  const OutflowHydroBoundary outflow;
  double box[6] = {0., 0., 0., 1., 1., 1.};
  HydroDensitySubGrid onecell(box, CoordinateVector< int_fast32_t >(1, 1, 1));
  while (std::getline(std::cin, line)) {
    ++lineno;
    const std::vector< std::string > w = words(line);
    std::ostringstream out, bad;
    if (w.empty()) {
      std::cout << "bad-op\n";
      continue;
    }
    const std::string &op = w[0];
    if (op == "lim" && w.size() == 4) {
      const double mid = dbl(w[1]), a = dbl(w[2]), b = dbl(w[3]);
      const double r = Hydro::limit(mid, a, b, 0.5);
      out << "L " << showF(r);
      // the property (Lean: limit_between_lt / _gt, limit_nonneg): the face value never passes 3/4 of
      // the way to the other cell, undershoots the own cell value by at most |a-b|/2, is the
      // reconstructed value when that lies in between, and is not negative for non-negative cell values
      if (std::isfinite(mid) && std::isfinite(a) && std::isfinite(b)) {
        const double d = std::abs(a - b), slack = 1.e-12 * (std::abs(a) + std::abs(b)) + DBL_MIN;
        const double toward = a + 0.75 * (b - a);
        const double away = (a < b) ? a - 0.5 * d : a + 0.5 * d;
        const double lo = std::min(toward, away), hi = std::max(toward, away);
        if (!(r >= lo - slack && r <= hi + slack))
          bad << " face-value-outside-limit-interval";
        if (a >= 0. && b >= 0. && !(r >= 0.))
          bad << " negative-face-value-for-nonnegative-cells";
        const double inner_lo = std::min(a, toward), inner_hi = std::max(a, toward);
        if (mid >= inner_lo && mid <= inner_hi && a != b && !(std::abs(r - mid) <= slack))
          bad << " admissible-reconstructed-value-changed";
      }
    } else if (op == "flux" && w.size() == 66) {
      const double gamma = dbl(w[1]);
      const int i = std::atoi(w[2].c_str());
      const double dx = dbl(w[3]), A = dbl(w[4]), dt = dbl(w[5]);
      HydroVariables L, R;
      size_t k = read_cell(w, 6, L);
      read_cell(w, k, R);
      HydroVariables L0, R0;
      L0.copy_all(L);
      R0.copy_all(R);
      const Hydro &hydro = hydro_of(gamma, 1.e99);
      hydro.do_flux_calculation(i, L, R, dx, A, dt);
      out << "F";
      for (int j = 0; j < 5; ++j)
        out << " " << showF(L.delta_conserved(j));
      for (int j = 0; j < 5; ++j)
        out << " " << showF(R.delta_conserved(j));
      if (!readonly_same(L, L0, true) || !readonly_same(R, R0, true))
        bad << " flux-call-modified-primitives-gradients-or-conserved";
      // the property: started from zero, the two cells receive -F and +F (bit for bit)
      HydroVariables Lz, Rz;
      Lz.copy_all(L0);
      Rz.copy_all(R0);
      for (int j = 0; j < 5; ++j) {
        Lz.delta_conserved(j) = 0.;
        Rz.delta_conserved(j) = 0.;
      }
      hydro.do_flux_calculation(i, Lz, Rz, dx, A, dt);
      bool finite = true;
      for (int j = 0; j < 5; ++j) {
        if (!(Lz.delta_conserved(j) == -Rz.delta_conserved(j)))
          bad << " flux-not-antisymmetric component=" << j;
        if (!std::isfinite(Rz.delta_conserved(j)))
          finite = false;
      }
      if (!finite)
        bad << " flux-not-finite";
      // the limiter applies ONE factor in [0,1] to all five components: compare with the
      // unlimited flux (dt = 0: no limiter condition can fire for non-negative masses/energies)
      HydroVariables Lu, Ru;
      Lu.copy_all(L0);
      Ru.copy_all(R0);
      for (int j = 0; j < 5; ++j) {
        Lu.delta_conserved(j) = 0.;
        Ru.delta_conserved(j) = 0.;
      }
      hydro.do_flux_calculation(i, Lu, Ru, dx, A, 0.);
      if (finite && L0.get_conserved_mass() >= 0. && R0.get_conserved_mass() >= 0. &&
          L0.get_conserved_total_energy() >= 0. && R0.get_conserved_total_energy() >= 0.) {
        double fac = -1., scale = 0.;
        for (int j = 0; j < 5; ++j)
          scale = std::max(scale, std::abs(Ru.delta_conserved(j)));
        for (int j = 0; j < 5; ++j) {
          const double raw = Ru.delta_conserved(j), lim = Rz.delta_conserved(j);
          if (std::abs(raw) > 1.e-3 * scale && std::isfinite(raw)) {
            const double f = lim / raw;
            if (!(f >= -1.e-12 && f <= 1. + 1.e-12))
              bad << " flux-limiter-factor-outside-0-1 component=" << j;
            if (fac >= 0. && std::abs(f - fac) > 1.e-9 * std::max(fac, f))
              bad << " flux-components-scaled-by-different-factors component=" << j;
            fac = f;
          }
        }
      }
    } else if (op == "gflux" && w.size() == 37) {
      // gflux <r|i|o> gamma i dx A dt L(30): reflective / inflow / outflow boundary
      const bool is_reflective = w[1] == "r";
      const HydroBoundary &boundary = (w[1] == "i") ? static_cast< const HydroBoundary & >(inflow)
                                      : (w[1] == "o") ? static_cast< const HydroBoundary & >(outflow)
                                                      : static_cast< const HydroBoundary & >(reflective);
      const double gamma = dbl(w[2]);
      const int i = std::atoi(w[3].c_str());
      const double dx = dbl(w[4]), A = dbl(w[5]), dt = dbl(w[6]);
      HydroVariables L;
      read_cell(w, 7, L);
      HydroVariables L0;
      L0.copy_all(L);
      const Hydro &hydro = hydro_of(gamma, 1.e99);
      hydro.do_ghost_flux_calculation(i, CoordinateVector<>(0.), L, boundary, dx, A, dt);
      out << "G";
      for (int j = 0; j < 5; ++j)
        out << " " << showF(L.delta_conserved(j));
      if (!readonly_same(L, L0, true))
        bad << " ghost-flux-call-modified-primitives-gradients-or-conserved";
      // the property (reflective clause, hypothesis of the Lean theorem reflective_no_mass_energy):
      // density and pressure positive and the RECONSTRUCTED velocity towards the wall (extrapolated
      // with the cell gradient, then Hydro::limit against the mirrored value) below 1.5 sound speeds
      // (tested with margin: < 1.45) => no mass and no energy passes the wall face
      {
        const double rho = L0.primitives(0), P = L0.primitives(4);
        const double vn = L0.primitives(1 + i);
        if (is_reflective && rho > 0. && P > 0. && std::isfinite(1. / rho) && std::isfinite(1. / P)) {
          const double orientation = std::signbit(dx) ? -1. : 1.;
          const double vface =
              Hydro::limit(vn + 0.5 * dx * L0.primitive_gradients(1 + i)[i], vn, -vn, 0.5);
          const double a = std::sqrt(std::max(gamma, 1.00000001) * P / rho);
          if (orientation * vface < 1.45 * a) {
            HydroVariables Lw;
            Lw.copy_all(L0);
            for (int j = 0; j < 5; ++j)
              Lw.delta_conserved(j) = 0.;
            hydro.do_ghost_flux_calculation(i, CoordinateVector<>(0.), Lw, reflective, dx, A, dt);
            const double v2 = L0.primitives(1) * L0.primitives(1) +
                              L0.primitives(2) * L0.primitives(2) +
                              L0.primitives(3) * L0.primitives(3) + vface * vface;
            const double mscale = rho * (a + std::abs(vface)) * std::abs(A);
            const double escale = mscale * (a * a / (std::max(gamma, 1.00000001) - 1.) + 0.5 * v2);
            if (!(std::abs(Lw.delta_conserved(0)) <= 1.e-10 * mscale))
              bad << " mass-flux-through-reflecting-wall wall-mach=" << orientation * vface / a
                  << " relative-flux=" << Lw.delta_conserved(0) / mscale;
            if (!(std::abs(Lw.delta_conserved(4)) <= 1.e-10 * escale))
              bad << " energy-flux-through-reflecting-wall wall-mach=" << orientation * vface / a
                  << " relative-flux=" << Lw.delta_conserved(4) / escale;
          }
        }
      }
      for (int j = 0; j < 5; ++j)
        if (!std::isfinite(L.delta_conserved(j))) {
          bad << " ghost-flux-not-finite";
          break;
        }
    } else if ((op == "grad" && w.size() == 83) || (op == "ggrad" && w.size() == 44)) {
      const size_t o = (op == "ggrad") ? 1 : 0;   // ggrad <r|i|o> i dxinv ...
      const HydroBoundary &boundary = (o && w[1] == "i") ? static_cast< const HydroBoundary & >(inflow)
                                      : (o && w[1] == "o") ? static_cast< const HydroBoundary & >(outflow)
                                                           : static_cast< const HydroBoundary & >(reflective);
      const int i = std::atoi(w[1 + o].c_str());
      const double dxinv = dbl(w[2 + o]);
      HydroVariables L, R, L0, R0;
      double limL[10], limR[10];
      size_t k = read_cell(w, 3 + o, L);
      for (int j = 0; j < 10; ++j)
        limL[j] = dbl(w[k++]);
      L0.copy_all(L);
      const Hydro &hydro = hydro_of(5. / 3., 1.e99);
      if (op == "grad") {
        k = read_cell(w, k, R);
        for (int j = 0; j < 10; ++j)
          limR[j] = dbl(w[k++]);
        R0.copy_all(R);
        hydro.do_gradient_calculation(i, L, R, dxinv, limL, limR);
        out << "D";
      } else {
        hydro.do_ghost_gradient_calculation(i, CoordinateVector<>(0.), L, boundary, dxinv,
                                            limL);
        out << "E";
      }
      for (int j = 0; j < 5; ++j)
        out << " " << showF(L.primitive_gradients(j)[i]);
      for (int j = 0; j < 10; ++j)
        out << " " << showF(limL[j]);
      bool other = readonly_same(L, L0, false);
      for (int j = 0; j < 5; ++j)
        for (int c = 0; c < 3; ++c)
          if (c != i && !same_bits(L.primitive_gradients(j)[c], L0.primitive_gradients(j)[c]))
            other = false;
      if (op == "grad") {
        for (int j = 0; j < 5; ++j)
          out << " " << showF(R.primitive_gradients(j)[i]);
        for (int j = 0; j < 10; ++j)
          out << " " << showF(limR[j]);
        other = other && readonly_same(R, R0, false);
        for (int j = 0; j < 5; ++j)
          for (int c = 0; c < 3; ++c)
            if (c != i && !same_bits(R.primitive_gradients(j)[c], R0.primitive_gradients(j)[c]))
              other = false;
      }
      if (!other)
        bad << " gradient-call-modified-other-fields";
    } else if (op == "slim" && w.size() == 34) {
      // slim dx(3) prim(5) grad(15) lim(10)   Hydro::apply_slope_limiter -> S grad(15)
      const CoordinateVector<> dxv(dbl(w[1]), dbl(w[2]), dbl(w[3]));
      HydroVariables h;
      size_t k = 4;
      for (int j = 0; j < 5; ++j)
        h.primitives(j) = dbl(w[k++]);
      for (int j = 0; j < 5; ++j)
        for (int c = 0; c < 3; ++c)
          h.primitive_gradients(j)[c] = dbl(w[k++]);
      double lim[10];
      for (int j = 0; j < 10; ++j)
        lim[j] = dbl(w[k++]);
      hydro_of(5. / 3., 1.e99).apply_slope_limiter(h, lim, dxv);
      out << "S";
      for (int j = 0; j < 5; ++j)
        for (int c = 0; c < 3; ++c)
          out << " " << showF(h.primitive_gradients(j)[c]);
      // the property (Lean: limiter_bounds): with min <= max of the neighbour values, every
      // extrapolation to a face, grad * dx / 2, is at most half the smaller distance of the cell value
      // to the neighbour minimum / maximum; in particular inside [min, max] when the cell value is
      for (int j = 0; j < 5; ++j) {
        const double W = h.primitives(j), lo = lim[2 * j], hi = lim[2 * j + 1];
        if (!(lo <= hi))
          continue;
        const double bound = 0.5 * std::min(std::abs(hi - W), std::abs(W - lo));
        const double slack = 1.e-12 * (std::abs(W) + std::abs(lo) + std::abs(hi));
        for (int c = 0; c < 3; ++c) {
          const double ext = h.primitive_gradients(j)[c] * 0.5 * dxv[c];
          if (!(std::abs(ext) <= bound + slack)) {
            bad << " limited-extrapolation-exceeds-half-distance-to-neighbours variable=" << j;
            break;
          }
          if (lo <= W && W <= hi && !(W + ext >= lo - slack && W + ext <= hi + slack &&
                                      W - ext >= lo - slack && W - ext <= hi + slack)) {
            bad << " limited-face-value-outside-neighbour-range variable=" << j;
            break;
          }
        }
      }
    } else if (op == "pred" && w.size() == 26) {
      // pred gamma dt prim(5) grad(15) acc(3)   Hydro::predict_primitive_variables -> Q prim(5)
      const double gamma = dbl(w[1]), dt = dbl(w[2]);
      HydroVariables h;
      size_t k = 3;
      for (int j = 0; j < 5; ++j)
        h.primitives(j) = dbl(w[k++]);
      for (int j = 0; j < 5; ++j)
        for (int c = 0; c < 3; ++c)
          h.primitive_gradients(j)[c] = dbl(w[k++]);
      h.set_gravitational_acceleration(CoordinateVector<>(dbl(w[k]), dbl(w[k + 1]), dbl(w[k + 2])));
      const double rho0 = h.primitives(0);
      hydro_of(gamma, 1.e99).predict_primitive_variables(h, dt);
      out << "Q";
      for (int j = 0; j < 5; ++j)
        out << " " << showF(h.primitives(j));
      // the property: predicted density and pressure are not negative (clamped), nothing is NaN
      if (rho0 >= 0. && (!(h.primitives(0) >= 0.) || !(h.primitives(4) >= 0.)))
        bad << " negative-or-nan-predicted-density-pressure";
      for (int j = 1; j < 4; ++j)
        if (h.primitives(j) != h.primitives(j)) {
          bad << " predicted-velocity-nan";
          break;
        }
    } else if (op == "tstep" && w.size() == 8) {
      // tstep gamma V prim(5)    Hydro::get_timestep -> T dt
      HydroVariables h;
      for (int j = 0; j < 5; ++j)
        h.primitives(j) = dbl(w[3 + j]);
      IonizationVariables ion;
      out << "T " << showF(hydro_of(dbl(w[1]), 1.e99).get_timestep(h, ion, dbl(w[2])));
    } else if (op == "ucons" && w.size() == 16) {
      const double dt = dbl(w[1]);
      HydroVariables &h = onecell.hydro_begin().get_hydro_variables();
      for (int j = 0; j < 5; ++j) {
        h.conserved(j) = dbl(w[2 + j]);
        h.delta_conserved(j) = dbl(w[7 + j]);
        h.primitive_gradients(j) = CoordinateVector<>(1.);
      }
      h.set_gravitational_acceleration(
          CoordinateVector<>(dbl(w[12]), dbl(w[13]), dbl(w[14])));
      h.set_energy_term(dbl(w[15]));
      onecell._primitive_variable_limiters[0] = 0.;
      onecell._primitive_variable_limiters[9] = 0.;
      onecell.update_conserved_variables(dt);
      out << "U";
      for (int j = 0; j < 5; ++j)
        out << " " << showF(h.conserved(j));
      bool reset = h.get_energy_term() == 0. && onecell._primitive_variable_limiters[0] == DBL_MAX &&
                   onecell._primitive_variable_limiters[9] == -DBL_MAX;
      for (int j = 0; j < 5; ++j)
        reset = reset && h.delta_conserved(j) == 0. && h.primitive_gradients(j).x() == 0. &&
                h.primitive_gradients(j).y() == 0. && h.primitive_gradients(j).z() == 0.;
      out << " reset=" << (reset ? 1 : 0);
      // the property: mass and energy are not negative after the update
      if (!(h.conserved(0) >= 0.) || !(h.conserved(4) >= 0.))
        bad << " negative-or-nan-mass-energy-after-update";
    } else if (op == "uprim" && w.size() == 9) {
      const double gamma = dbl(w[1]), vmax = dbl(w[2]), invvol = dbl(w[3]);
      HydroVariables h;
      for (int j = 0; j < 5; ++j)
        h.conserved(j) = dbl(w[4 + j]);
      IonizationVariables ion;
      hydro_of(gamma, vmax).set_primitive_variables(h, ion, invvol);
      out << "P";
      for (int j = 0; j < 5; ++j)
        out << " " << showF(h.primitives(j));
      if (!(h.primitives(0) >= 0.) || !(h.primitives(4) >= 0.))
        bad << " negative-or-nan-density-pressure";
      // velocities are finite whenever momentum / mass is representable
      for (int j = 1; j < 4; ++j)
        if (h.conserved(0) > 0. && std::abs(h.conserved(j)) < 1.e300 * h.conserved(0) &&
            !std::isfinite(h.primitives(j))) {
          bad << " velocity-not-finite";
          break;
        }
    } else {
      out << "bad-op";
    }
    std::cout << out.str() << "\n";
    if (!bad.str().empty())
      std::cout << "ORACLE line=" << lineno << bad.str() << "\n";
  }
  return 0;
}
