// C18 harness: drives the real VernerCrossSections, VernerRecombinationRates,
// ChargeTransferRates, Utilities::locate and the spectrum samplers of /repo through the line
// protocol.  One answer line per op line (compared with the Lean model `drv_c18`), plus
// `ORACLE line=<n> <what>` lines whenever the property itself fails on the implementation.
//
// The random number a sampler draws is injected into the real RandomGenerator (its next output
// is overwritten), everything else is the unmodified code of /repo/src (the .cpp files are
// compiled into this executable by tools/props/c18.py).
//
// `--dump` mode: after every `mk` line the tables of the freshly constructed real object are
// printed as `tab`/`tab2` op lines; tools/props/c18.py feeds them to both sides, and in normal
// mode this harness checks that they are bit-identical to what the real object holds.
#include <bits/stdc++.h>
#include "common.hpp"

// the parameter-file constructor of MaskedPhotonSourceSpectrum needs the two factories (and
// through them every spectrum of the code base incl. HDF5); it is not exercised here
#define PHOTONSOURCESPECTRUMFACTORY_HPP
#define PHOTONSOURCESPECTRUMMASKFACTORY_HPP
#include "Log.hpp"
#include "ParameterFile.hpp"
#include "PhotonSourceSpectrum.hpp"
#include "PhotonSourceSpectrumMask.hpp"
struct PhotonSourceSpectrumFactory {
  static PhotonSourceSpectrum *generate_from_type(std::string, std::string,
                                                  ParameterFile &, Log *) {
    return nullptr;
  }
};
struct PhotonSourceSpectrumMaskFactory {
  static PhotonSourceSpectrumMask *generate(std::string, ParameterFile &, Log *) {
    return nullptr;
  }
};

#define private public
#include "ChargeTransferRates.hpp"
#include "FixedValueCrossSections.hpp"
#include "HeliumLymanContinuumSpectrum.hpp"
#include "HeliumTwoPhotonContinuumSpectrum.hpp"
#include "HydrogenLymanContinuumSpectrum.hpp"
#include "LinearPhotonSourceSpectrumMask.hpp"
#include "MaskedPhotonSourceSpectrum.hpp"
#include "MonochromaticPhotonSourceSpectrum.hpp"
#include "PlanckPhotonSourceSpectrum.hpp"
#include "RandomGenerator.hpp"
#include "UniformPhotonSourceSpectrum.hpp"
#include "Utilities.hpp"
#include "VernerCrossSections.hpp"
#include "VernerRecombinationRates.hpp"
#undef private
#include "MaskedPhotonSourceSpectrum.cpp"

typedef std::vector< double > vec;

// spectrum used by /repo/test/testMaskedPhotonSourceSpectrum.cpp
class TestSpectrum : public PhotonSourceSpectrum {
public:
  virtual ~TestSpectrum() {}
  virtual double get_random_frequency(RandomGenerator &rg, double) const {
    const double min_frequency = 3.289e15;
    const double max_frequency = 4. * min_frequency;
    const double x = rg.get_uniform_random_double();
    return min_frequency * x + (1. - x) * max_frequency;
  }
  virtual double get_total_flux() const { return 100.; }
};
// a mask with empty bins at both ends and in the middle (flat pieces of the cumulative table)
class BandMask : public PhotonSourceSpectrumMask {
public:
  virtual ~BandMask() {}
  virtual double get_bin_fraction(double frequency) const {
    const double y = frequency / 3.289e15;
    if (y < 1.2 || y > 3.5 || (y > 2. && y < 2.3))
      return 0.;
    return 0.25 + 0.5 * (y - 1.2) / 2.3;
  }
};

static bool finite_nonneg(double v) { return std::isfinite(v) && v >= 0.; }

struct Tables {
  std::map< std::string, vec > t1;
  std::map< std::string, std::vector< vec > > t2;
};

int main(int argc, char **argv) {
  const bool dump = argc > 1 && std::string(argv[1]) == "--dump";
  VernerCrossSections xs;
  VernerRecombinationRates rr;
  ChargeTransferRates ct;
  RandomGenerator rg(42);
  auto inject = [&](double x) {
    rg._ir = 5;
    rg._ir_old = 0;
    rg._xdbl[6] = x;
  };

  PlanckPhotonSourceSpectrum *planck = nullptr;
  HydrogenLymanContinuumSpectrum *hlyc = nullptr;
  HeliumLymanContinuumSpectrum *helyc = nullptr;
  HeliumTwoPhotonContinuumSpectrum *he2p = nullptr;
  MaskedPhotonSourceSpectrum *masked = nullptr;
  UniformPhotonSourceSpectrum uniform;
  Tables tb;
  std::map< int, double > threshold;

  // monotonicity bookkeeping for the hydrogen / helium recombination rates
  int last_ion = -1;
  double last_T = 0., last_rate = 0.;

  std::string line;
  uint64_t lineno = 0;
  std::ostringstream out;
  while (std::getline(std::cin, line)) {
    ++lineno;
    auto w = words(line);
    std::ostringstream bad;
    if (w.empty()) {
      std::cout << "bad-op\n";
      continue;
    }
    const std::string &op = w[0];
    if (op == "rowA" && w.size() == 4) {
      const uint64_t Z = u64(w[1]), N = u64(w[2]), s = u64(w[3]);
      if (Z >= 1 && Z <= xs._data_A.size() && N >= 1 && N <= xs._data_A[Z - 1].size() &&
          s >= 1 && s <= xs._data_A[Z - 1][N - 1].size() &&
          xs._data_A[Z - 1][N - 1][s - 1].size() == VERNERDATA_A_NUMELEMENTS) {
        const vec &r = xs._data_A[Z - 1][N - 1][s - 1];
        std::cout << "rowA " << showF(r[VERNERDATA_A_Plconst]) << " " << showF(r[VERNERDATA_A_E_th])
                  << " " << showF(r[VERNERDATA_A_E_0_inv]) << " " << showF(r[VERNERDATA_A_sigma_0])
                  << " " << showF(r[VERNERDATA_A_one_over_y_a]) << " " << showF(r[VERNERDATA_A_P])
                  << " " << showF(r[VERNERDATA_A_y_w_squared]) << "\n";
      } else
        std::cout << "rowA missing\n";
    } else if (op == "rowB" && w.size() == 3) {
      const uint64_t Z = u64(w[1]), N = u64(w[2]);
      if (Z >= 1 && Z <= xs._data_B.size() && N >= 1 && N <= xs._data_B[Z - 1].size() &&
          xs._data_B[Z - 1][N - 1].size() == VERNERDATA_B_NUMELEMENTS) {
        const vec &r = xs._data_B[Z - 1][N - 1];
        std::cout << "rowB " << showF(r[VERNERDATA_B_E_0_inv]) << " " << showF(r[VERNERDATA_B_sigma_0])
                  << " " << showF(r[VERNERDATA_B_one_over_y_a]) << " " << showF(r[VERNERDATA_B_P])
                  << " " << showF(r[VERNERDATA_B_y_w_squared]) << " " << showF(r[VERNERDATA_B_y_0])
                  << " " << showF(r[VERNERDATA_B_y_1_squared]) << "\n";
      } else
        std::cout << "rowB missing\n";
    } else if (op == "rowC" && w.size() == 2) {
      const uint64_t N = u64(w[1]);
      if (N >= 1 && N <= xs._data_C.size() && xs._data_C[N - 1].size() == VERNERDATA_C_NUMELEMENTS)
        std::cout << "rowC " << (uint64_t)xs._data_C[N - 1][VERNERDATA_C_Ninn] << " "
                  << (uint64_t)xs._data_C[N - 1][VERNERDATA_C_Ntot] << "\n";
      else
        std::cout << "rowC missing\n";
    } else if (op == "rowR" && w.size() == 3) {
      const uint64_t Z = u64(w[1]), N = u64(w[2]);
      if (Z >= 1 && Z <= 30 && N >= 1 && N <= 30)
        std::cout << "rowR " << showF(rr._rrec[0][Z - 1][N - 1]) << " " << showF(rr._rrec[1][Z - 1][N - 1])
                  << " " << showF(rr._rnew[0][Z - 1][N - 1]) << " " << showF(rr._rnew[1][Z - 1][N - 1])
                  << " " << showF(rr._rnew[2][Z - 1][N - 1]) << " " << showF(rr._rnew[3][Z - 1][N - 1]) << "\n";
      else
        std::cout << "rowR missing\n";
    } else if (op == "rowF" && w.size() == 2) {
      const uint64_t N = u64(w[1]);
      if (N >= 1 && N <= 13)
        std::cout << "rowF " << showF(rr._fe[0][N - 1]) << " " << showF(rr._fe[1][N - 1]) << " "
                  << showF(rr._fe[2][N - 1]) << "\n";
      else
        std::cout << "rowF missing\n";
    } else if (op == "thr" && w.size() == 3) {
      threshold[(int)u64(w[1])] = dbl(w[2]);
      std::cout << "thr " << w[1] << "\n";
    } else if (op == "xsv" && w.size() == 5) {
      const uint64_t Z = u64(w[1]), N = u64(w[2]), s = u64(w[3]);
      const double e = dbl(w[4]);
      const double v = xs.get_cross_section_verner(Z, N, s, e);
      std::cout << "xsv " << showF(v) << "\n";
      if (!finite_nonneg(v))
        bad << " cross-section-not-finite-nonnegative";
      if (e < xs._data_A[Z - 1][N - 1][s - 1][VERNERDATA_A_E_th] && v != 0.)
        bad << " shell-cross-section-nonzero-below-threshold";
    } else if (op == "xs" && w.size() == 3) {
      const int ion = (int)u64(w[1]);
      const double e = dbl(w[2]);
      if (ion < 0 || ion >= NUMBER_OF_IONNAMES) {
        std::cout << "xs unknown-ion\n";
      } else {
        const double v = xs.get_cross_section(ion, e);
        std::cout << "xs " << showF(v) << "\n";
        if (!finite_nonneg(v))
          bad << " cross-section-not-finite-nonnegative";
        if (threshold.count(ion) && e < threshold[ion] && v != 0.)
          bad << " cross-section-nonzero-below-threshold";
      }
    } else if (op == "fxs" && w.size() == 17) {
      // FixedValueCrossSections constructed with the 14 given values (argument order of the
      // constructor), queried through the CrossSections interface
      const int ion = (int)u64(w[1]);
      if (ion < 0 || ion >= NUMBER_OF_IONNAMES) {
        std::cout << "fxs unknown-ion\n";
      } else {
        double v[14];
        bool allfinite = true;
        for (int i = 0; i < 14; ++i) {
          v[i] = dbl(w[3 + i]);
          allfinite = allfinite && finite_nonneg(v[i]);
        }
        FixedValueCrossSections fx(v[0], v[1], v[2], v[3], v[4], v[5], v[6], v[7], v[8], v[9],
                                   v[10], v[11], v[12], v[13]);
        const CrossSections &cs = fx;
        const double r = cs.get_cross_section(ion, dbl(w[2]));
        std::cout << "fxs " << showF(r) << "\n";
        if (allfinite && !finite_nonneg(r))
          bad << " fixed-cross-section-not-finite-nonnegative";
      }
    } else if (op == "recv" && w.size() == 4) {
      const double T = dbl(w[3]);
      const double v = rr.get_recombination_rate_verner(u64(w[1]), u64(w[2]), T);
      std::cout << "recv " << showF(v) << "\n";
    } else if (op == "rec" && w.size() == 3) {
      const int ion = (int)u64(w[1]);
      const double T = dbl(w[2]);
      if (ion < 0 || ion >= NUMBER_OF_IONNAMES) {
        std::cout << "rec unknown-ion\n";
      } else {
        const double v = rr.get_recombination_rate(ion, T);
        std::cout << "rec " << showF(v) << "\n";
        if (!finite_nonneg(v))
          bad << " recombination-rate-not-finite-nonnegative";
        if (T <= 1.e5 && !(v > 0.))
          bad << " recombination-rate-not-positive-below-1e5K";
        bool mono = ion == ION_H_n;
#ifdef HAS_HELIUM
        mono = mono || ion == ION_He_n;
#endif
        if (mono && ion == last_ion && T > last_T) {
          // strictly decreasing along the grid (neighbours closer than 1e-12 may round to the
          // same double: then only non-increasing is required)
          if (T > last_T * (1. + 1.e-12) ? !(v < last_rate) : !(v <= last_rate))
            bad << " recombination-rate-not-decreasing";
        }
        last_ion = ion;
        last_T = T;
        last_rate = v;
      }
    } else if ((op == "ctrh" || op == "ctih" || op == "ctrhe") && w.size() == 3) {
      const int ion = (int)u64(w[1]);
      const double T4 = dbl(w[2]);
      bool err = ion < 0 || ion >= NUMBER_OF_IONNAMES;
      if (!err && (op == "ctrh" || op == "ctih") && ion == ION_H_n)
        err = true;
#ifdef HAS_HELIUM
      if (!err && op == "ctrhe" && ion == ION_He_n)
        err = true;
#endif
      if (err) {
        std::cout << op << (ion < 0 || ion >= NUMBER_OF_IONNAMES ? " unknown-ion\n" : " error\n");
      } else {
        const double v = op == "ctrh"   ? ct.get_charge_transfer_recombination_rate_H(ion, T4)
                         : op == "ctih" ? ct.get_charge_transfer_ionization_rate_H(ion, T4)
                                        : ct.get_charge_transfer_recombination_rate_He(ion, T4);
        std::cout << op << " " << showF(v) << "\n";
        if (!finite_nonneg(v))
          bad << " charge-transfer-rate-not-finite-nonnegative";
      }
    } else if (op == "loc" && w.size() >= 3) {
      const uint64_t n = u64(w[1]);
      const double x = dbl(w[2]);
      if (w.size() != n + 3 || n < 2) {
        std::cout << "loc bad-length\n";
      } else {
        // exact-size heap block: an out-of-bounds read is visible to the address sanitizer
        double *a = new double[n];
        for (uint64_t i = 0; i < n; ++i)
          a[i] = dbl(w[3 + i]);
        const uint_fast32_t r = Utilities::locate(x, a, n);
        std::cout << "loc " << r << "\n";
        if (r > n - 2)
          bad << " locate-index-out-of-range";
        else {
          bool sorted = true;
          for (uint64_t i = 1; i < n; ++i)
            sorted = sorted && a[i - 1] <= a[i];
          if (sorted && a[0] < x && x <= a[n - 1] && !(a[r] < x && x <= a[r + 1]))
            bad << " locate-does-not-bracket";
        }
        delete[] a;
      }
    } else if (op == "mk" && w.size() >= 2) {
      const std::string kind = w[1];
      tb.t1.erase(kind + ".cdf");
      bool ok = true;
      std::vector< std::pair< std::string, vec > > d1;
      std::vector< vec > d2;
      std::string d2name;
      if (kind == "planck" && w.size() == 3) {
        delete planck;
        planck = new PlanckPhotonSourceSpectrum(dbl(w[2]), -1., nullptr);
        d1 = {{"planck.cdf", planck->_cumulative_distribution},
              {"planck.logcdf", planck->_log_cumulative_distribution},
              {"planck.logfreq", planck->_log_frequency}};
        const vec &c = planck->_cumulative_distribution, &lc = planck->_log_cumulative_distribution,
                  &lf = planck->_log_frequency;
        const size_t n = c.size();
        if (!(n >= 2 && c[0] == 0. && c[n - 1] == 1.))
          bad << " table-hypothesis planck-cdf-ends";
        for (size_t i = 1; i < n; ++i) {
          if (!(c[i - 1] <= c[i]))
            bad << " table-hypothesis planck-cdf-not-sorted";
          if (!(lf[i - 1] < lf[i]))
            bad << " table-hypothesis planck-logfreq-not-increasing";
          if (!(c[i] > 0. && lc[i] == std::log10(c[i])))
            bad << " table-hypothesis planck-logcdf-not-log-of-cdf";
          if (bad.tellp() > 0)
            break;
        }
        if (!(lc[0] == -10. && lc[0] < lc[1] && lf[0] == 0.))
          bad << " table-hypothesis planck-first-bin";
      } else if (kind == "he2p") {
        delete he2p;
        he2p = new HeliumTwoPhotonContinuumSpectrum();
        d1 = {{"he2p.freq", he2p->_frequency}, {"he2p.cdf", he2p->_cumulative_distribution}};
      } else if (kind == "masked" && w.size() == 3) {
        delete masked;
        if (w[2] == "linear")
          masked = new MaskedPhotonSourceSpectrum(new TestSpectrum(), new LinearPhotonSourceSpectrumMask(), 100, 100000);
        else if (w[2] == "band")
          masked = new MaskedPhotonSourceSpectrum(new PlanckPhotonSourceSpectrum(40000., 1., nullptr), new BandMask(), 250, 200000);
        else
          masked = new MaskedPhotonSourceSpectrum(new PlanckPhotonSourceSpectrum(20000., 1., nullptr), new LinearPhotonSourceSpectrumMask(), 1000, 300000);
        d1 = {{"masked.freq", masked->_frequency_bins}, {"masked.cdf", masked->_cumulative_distribution}};
      } else if (kind == "hlyc") {
        delete hlyc;
        hlyc = new HydrogenLymanContinuumSpectrum(xs);
        d1 = {{"hlyc.T", hlyc->_temperature}, {"hlyc.freq", hlyc->_frequency}};
        d2 = hlyc->_cumulative_distribution;
        d2name = "hlyc.cdf";
      } else if (kind == "helyc") {
        delete helyc;
        helyc = new HeliumLymanContinuumSpectrum(xs);
        d1 = {{"helyc.T", helyc->_temperature}, {"helyc.freq", helyc->_frequency}};
        d2 = helyc->_cumulative_distribution;
        d2name = "helyc.cdf";
      } else
        ok = false;
      std::cout << (ok ? "mk " + kind : std::string("bad-op")) << "\n";
      // hypotheses of the sampler theorems, checked on the real tables
      for (auto &p : d1) {
        const vec &v = p.second;
        const bool is_cdf = p.first.size() > 4 && p.first.substr(p.first.size() - 4) == ".cdf";
        const bool is_strict = p.first.find(".freq") != std::string::npos || p.first.find(".T") != std::string::npos;
        for (size_t i = 1; i < v.size(); ++i) {
          if (is_cdf && !(v[i - 1] <= v[i])) {
            bad << " table-hypothesis " << p.first << "-not-sorted";
            break;
          }
          if (is_strict && !(v[i - 1] < v[i])) {
            bad << " table-hypothesis " << p.first << "-not-increasing";
            break;
          }
        }
        if (is_cdf && kind != "planck" && !(v.size() >= 2 && v[0] == 0. && v.back() == 1.))
          bad << " table-hypothesis " << p.first << "-ends";
        tb.t1[p.first] = v;
      }
      if (!d2name.empty()) {
        for (auto &v : d2) {
          bool srt = v.size() >= 2 && v[0] == 0. && v.back() == 1.;
          for (size_t i = 1; i < v.size(); ++i)
            srt = srt && v[i - 1] <= v[i];
          if (!srt) {
            bad << " table-hypothesis " << d2name << "-not-a-cdf";
            break;
          }
        }
        tb.t2[d2name] = d2;
      }
      if (dump && ok) {
        for (auto &p : d1) {
          std::cout << "tab " << p.first << " " << p.second.size();
          for (double v : p.second)
            std::cout << " " << bits_of(v);
          std::cout << "\n";
        }
        for (size_t i = 0; i < d2.size(); ++i) {
          std::cout << "tab2 " << d2name << " " << i << " " << d2[i].size();
          for (double v : d2[i])
            std::cout << " " << bits_of(v);
          std::cout << "\n";
        }
      }
    } else if (op == "pmono" && w.size() == 5) {
      // parameter-file constructor: `src:frequency: <text>` ('~' stands for a blank)
      std::string text = w[3];
      std::replace(text.begin(), text.end(), '~', ' ');
      const double expect = dbl(w[4]);
      ParameterFile params;
      params.add_value("src:frequency", text);
      MonochromaticPhotonSourceSpectrum fromfile("src", params, nullptr);
      MonochromaticPhotonSourceSpectrum plain(expect, -1., nullptr);
      inject(0.5);
      const double v = fromfile.get_random_frequency(rg, 0.);
      const double vp = plain.get_random_frequency(rg, 0.);
      std::cout << "pmono " << showF(v) << "\n";
      if (std::stod(text) != dbl(w[1]))
        bad << " param:mono:number-parsed-differently";
      if (!(std::fabs(v - vp) <= 1.e-12 * std::fabs(vp)))
        bad << " param:mono:differs-from-plain-constructor text='" << text << "' gives " << v
            << " Hz, the same value given directly " << vp << " Hz";
      const double lo = 3.288465385e15, hi = 4. * 3.289e15;
      if (expect >= lo && expect <= hi && !(v >= lo * (1. - 1.e-12) && v <= hi * (1. + 1.e-12)))
        bad << " param:mono:ionizing-value-gives-non-ionizing-frequency text='" << text << "' nu=" << v;
    } else if (op == "pplanck" && w.size() == 3) {
      std::string text = w[2];
      std::replace(text.begin(), text.end(), '~', ' ');
      const double T = dbl(w[1]);
      ParameterFile params;
      if (text != "default")
        params.add_value("src:temperature", text);
      PlanckPhotonSourceSpectrum fromfile("src", params, nullptr);
      PlanckPhotonSourceSpectrum plain(T, -1., nullptr);
      inject(0.5);
      const double v = fromfile.get_random_frequency(rg, 0.);
      std::cout << "pplanck " << showF(fromfile._cumulative_distribution[PLANCKPHOTONSOURCESPECTRUM_NUMFREQ / 2])
                << " " << showF(v) << "\n";
      if (fromfile._cumulative_distribution != plain._cumulative_distribution ||
          fromfile._log_cumulative_distribution != plain._log_cumulative_distribution ||
          fromfile._log_frequency != plain._log_frequency)
        bad << " param:planck:differs-from-plain-constructor text='" << text << "'";
      if (!(v >= 3.288465385e15 * (1. - 1.e-12) && v <= 4. * 3.288465385e15 * (1. + 1.e-12)))
        bad << " param:planck:nu-out-of-range text='" << text << "' nu=" << v;
    } else if (op == "gettab" && w.size() == 2) {
      auto it = tb.t1.find(w[1]);
      if (it == tb.t1.end())
        std::cout << "gettab 0 \n";
      else {
        std::cout << "gettab " << it->second.size();
        for (double v : it->second)
          std::cout << " " << showF(v);
        std::cout << "\n";
      }
    } else if (op == "tab" && w.size() >= 3) {
      const uint64_t n = u64(w[2]);
      auto it = tb.t1.find(w[1]);
      bool same = it != tb.t1.end() && it->second.size() == n && w.size() == n + 3;
      for (uint64_t i = 0; same && i < n; ++i)
        same = bits_of(it->second[i]) == u64(w[3 + i]);
      std::cout << "tab " << w[1] << " " << (same ? std::to_string(n) : std::string("differs-from-real-table")) << "\n";
    } else if (op == "tab2" && w.size() >= 4) {
      const uint64_t i = u64(w[2]), n = u64(w[3]);
      auto it = tb.t2.find(w[1]);
      bool same = it != tb.t2.end() && i < it->second.size() && it->second[i].size() == n && w.size() == n + 4;
      for (uint64_t k = 0; same && k < n; ++k)
        same = bits_of(it->second[i][k]) == u64(w[4 + k]);
      std::cout << "tab2 " << w[1] << " " << i << " " << (same ? std::to_string(n) : std::string("differs-from-real-table")) << "\n";
    } else if (op == "smp" && w.size() >= 3) {
      const std::string kind = w[1];
      const double x = dbl(w[2]);
      double v = 0., lo = 0., hi = 0.;
      bool ok = true, outsideT = false;
      inject(x);
      if (kind == "planck" && planck && w.size() == 3) {
        v = planck->get_random_frequency(rg, 0.);
        lo = std::pow(10., planck->_log_frequency.front()) * 3.288465385e15;
        hi = std::pow(10., planck->_log_frequency.back()) * 3.288465385e15;
      } else if (kind == "uniform" && w.size() == 3) {
        v = uniform.get_random_frequency(rg, 0.);
        lo = 3.289e15;
        hi = 4. * 3.289e15;
      } else if (kind == "mono" && w.size() == 4) {
        MonochromaticPhotonSourceSpectrum m(dbl(w[3]), -1., nullptr);
        v = m.get_random_frequency(rg, 0.);
        lo = hi = dbl(w[3]);
      } else if (kind == "he2p" && he2p && w.size() == 3) {
        v = he2p->get_random_frequency(rg, 0.);
        lo = he2p->_frequency.front();
        hi = he2p->_frequency.back();
      } else if (kind == "masked" && masked && w.size() == 3) {
        v = masked->get_random_frequency(rg, 0.);
        lo = masked->_frequency_bins.front();
        hi = masked->_frequency_bins.back();
      } else if (kind == "hlyc" && hlyc && w.size() == 4) {
        const double T = dbl(w[3]);
        v = hlyc->get_random_frequency(rg, T);
        lo = hlyc->_frequency.front();
        hi = hlyc->_frequency.back();
        outsideT = T < hlyc->_temperature.front() || T > hlyc->_temperature.back();
      } else if (kind == "helyc" && helyc && w.size() == 4) {
        const double T = dbl(w[3]);
        v = helyc->get_random_frequency(rg, T);
        lo = helyc->_frequency.front();
        hi = helyc->_frequency.back();
        outsideT = T < helyc->_temperature.front() || T > helyc->_temperature.back();
      } else
        ok = false;
      if (!ok) {
        std::cout << "smp no-table\n";
      } else {
        std::cout << "smp " << showF(v) << "\n";
        // the random number was consumed exactly once
        if (kind != "mono" && rg._ir != 6)
          bad << " sampler:" << kind << ":random-number-use";
        if (!std::isfinite(v) || v < lo * (1. - 1.e-13) || v > hi * (1. + 1.e-13))
          bad << " sampler:" << kind << ":nu-out-of-range" << (outsideT ? ":T-outside-table" : "")
              << " nu=" << v << " range=[" << lo << "," << hi << "]";
      }
    } else if (op == "grid") {
      // marks the start of a grid (resets the monotonicity bookkeeping)
      last_ion = -1;
      std::cout << "grid\n";
    } else {
      std::cout << "bad-op\n";
    }
    if (bad.tellp() > 0)
      std::cout << "ORACLE line=" << lineno << bad.str() << "\n";
  }
  return 0;
}
