// Translator by exhaustive evaluation (DESIGN §2.2) for the unit table of C20.
// argv[1..] = unit names found by regex in UnitConverter::get_single_unit.  Prints, for each
// name, what the REAL get_single_unit returns (value as bit pattern, six exponents), the SI unit
// name of every Quantity (enum order) and the physical constants used by try_conversion.
#include "common.hpp"
#define private public
#include "UnitConverter.hpp"
#undef private

int main(int argc, char **argv) {
  for (int i = 1; i < argc; ++i) {
    const Unit u = UnitConverter::get_single_unit(argv[i]);
    std::printf("unit %s %" PRIu64 " %ld %ld %ld %ld %ld %ld\n", argv[i], bits_of(u._value),
                (long)u._length, (long)u._time, (long)u._mass, (long)u._temperature,
                (long)u._current, (long)u._angle);
  }
  std::printf("nquant %d\n", (int)NUMBER_OF_QUANTITIES);
  for (int q = 0; q < NUMBER_OF_QUANTITIES; ++q) {
    std::printf("quantity %d |%s|\n", q, UnitConverter::get_SI_unit_name(q).c_str());
  }
  std::printf("const planck %" PRIu64 "\n",
              bits_of(PhysicalConstants::get_physical_constant(PHYSICALCONSTANT_PLANCK)));
  std::printf("const lightspeed %" PRIu64 "\n",
              bits_of(PhysicalConstants::get_physical_constant(PHYSICALCONSTANT_LIGHTSPEED)));
  std::printf("const electronvolt %" PRIu64 "\n",
              bits_of(PhysicalConstants::get_physical_constant(PHYSICALCONSTANT_ELECTRONVOLT)));
  std::printf("const protonMass %" PRIu64 "\n",
              bits_of(PhysicalConstants::get_physical_constant(PHYSICALCONSTANT_PROTON_MASS)));
  std::printf("const boltzmann %" PRIu64 "\n",
              bits_of(PhysicalConstants::get_physical_constant(PHYSICALCONSTANT_BOLTZMANN)));
  std::printf("enum QUANTITY_ENERGY %d\n", (int)QUANTITY_ENERGY);
  std::printf("enum QUANTITY_FREQUENCY %d\n", (int)QUANTITY_FREQUENCY);
  std::printf("enum QUANTITY_LENGTH %d\n", (int)QUANTITY_LENGTH);
  return 0;
}
