// LD_PRELOAD library: seeded scheduling jitter at the H1 yield points of AtomicValue.
// CMAC_VERIF_JITTER = seed:rule[,rule...]   rule = op=permille=max_us  (op "*" = any operation)
#include <atomic>
#include <cstdint>
#include <cstdio>
#include <cstdlib>
#include <cstring>
#include <sched.h>
#include <time.h>
struct Rule { char op[32]; uint64_t permille, maxus; };
static Rule g_rules[16];
static int g_nrules = 0;
static std::atomic<uint64_t> g_thread_counter(0);
static uint64_t g_seed = 0;
static std::atomic<int> g_init(0);
static void init() {
  const char *s = getenv("CMAC_VERIF_JITTER");
  if (s) {
    g_seed = strtoull(s, nullptr, 10);
    const char *p = strchr(s, ':');
    while (p && g_nrules < 16) {
      ++p;
      Rule r; unsigned long long a = 0, b = 0; char op[32] = {0};
      if (sscanf(p, "%31[^=]=%llu=%llu", op, &a, &b) == 3) {
        strcpy(r.op, op); r.permille = a; r.maxus = b; g_rules[g_nrules++] = r;
      }
      p = strchr(p, ',');
    }
  }
  g_init.store(1);
}
extern "C" void cmac_verif_yield(const char *op, const void *address) {
  if (!g_init.load()) init();
  if (g_nrules == 0) return;
  static thread_local uint64_t state = 0;
  if (state == 0) state = (g_seed + 1) * 0x9E3779B97F4A7C15ull ^ ((g_thread_counter.fetch_add(1) + 1) * 0xBF58476D1CE4E5B9ull);
  for (int i = 0; i < g_nrules; ++i) {
    if (g_rules[i].op[0] == '*' || strcmp(g_rules[i].op, op) == 0) {
      state ^= state << 13; state ^= state >> 7; state ^= state << 17;
      if ((state >> 11) % 1000 < g_rules[i].permille) {
        uint64_t us = g_rules[i].maxus ? ((state >> 23) % (g_rules[i].maxus + 1)) : 0;
        if (us == 0) { sched_yield(); }
        else { struct timespec ts = {0, (long)(us * 1000)}; nanosleep(&ts, nullptr); }
      }
      return;
    }
  }
}
