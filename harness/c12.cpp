// C12 harness: the real owners of optional components are placement-constructed into
// 0xAA-poisoned storage and destroyed again, with the global operator new/delete interposed.
//
// op line:  <unit> <n> <bits> <hex(parameter file)> [<hex(tracker file)>]
//           unit = lom (LiveOutputManager) | tm (TrackerManager) | tbis (TaskBasedIonizationSimulation)
//                  | urm urr dpm dpr cam car: UniformRandom / DiscPatch / Caproni photon source
//                    distribution, normal (m) or restart (r) constructor
//           n    = number of threads (tbis) / source output on (photon source distributions) / unused;
//           bits = the model's option vector (not used here)
// answer:   <unit> after=<kinds> owned=<f.f.f> ctor= dtor=<events> end=<kinds>
//           (same format as lean/Driver/C12.lean; `ctor=` is left empty: frees inside the
//           constructor cannot be attributed to a field from outside and are compared by count
//           only, see `ctorfrees=` printed after the model-comparable part)
// ORACLE lines: a field still 0xAA-poison after the constructor, a pointer deleted twice, a
// poison / unknown pointer deleted, a field's allocation alive after the destructor.
#include "common.hpp"
#include <atomic>
#include <fstream>
#include <functional>
#include <new>
#include <sys/stat.h>
#include <sys/wait.h>
#include <unistd.h>

// ------------------------------------------------------------------ allocation tracking
namespace trk {
enum { OFF = 0, CTOR = 1, MID = 2, DTOR = 3 };
static volatile int phase = OFF;
struct Rec {
  void *p;
  size_t size;
  long seq;
  int born;  // phase of allocation
  int freed; // number of deletes seen
  int freed_in;
};
static const size_t CAP = 1u << 21;
static Rec *tab = nullptr;
static size_t nused = 0;
static long seq = 0;
struct Ev {
  void *p;
  int kind; // 0 free of tracked live block, 1 double free, 2 poison, 3 unknown pointer
  int in_phase;
};
static Ev *evs = nullptr;
static size_t nev = 0;
static const size_t EVCAP = 1u << 21;
static std::atomic_flag lk = ATOMIC_FLAG_INIT;
static const uintptr_t POISON = (uintptr_t)0xAAAAAAAAAAAAAAAAull;

static inline void lock() {
  while (lk.test_and_set(std::memory_order_acquire)) {
  }
}
static inline void unlock() { lk.clear(std::memory_order_release); }
static inline size_t slot(void *p) {
  uintptr_t x = (uintptr_t)p;
  x ^= x >> 17;
  x *= 0x9E3779B97F4A7C15ull;
  return (size_t)(x >> 20) & (CAP - 1);
}
static void init() {
  tab = (Rec *)calloc(CAP, sizeof(Rec));
  evs = (Ev *)calloc(EVCAP, sizeof(Ev));
}
static Rec *find(void *p) {
  size_t i = slot(p);
  while (tab[i].p != nullptr) {
    if (tab[i].p == p)
      return &tab[i];
    i = (i + 1) & (CAP - 1);
  }
  return nullptr;
}
static void add(void *p, size_t n) {
  if (nused * 2 > CAP) {
    fprintf(stderr, "c12 harness: allocation table full\n");
    _exit(3);
  }
  size_t i = slot(p);
  while (tab[i].p != nullptr)
    i = (i + 1) & (CAP - 1);
  tab[i].p = p;
  tab[i].size = n;
  tab[i].seq = seq++;
  tab[i].born = phase;
  tab[i].freed = 0;
  ++nused;
}
static void event(void *p, int kind) {
  if (nev < EVCAP) {
    evs[nev].p = p;
    evs[nev].kind = kind;
    evs[nev].in_phase = phase;
    ++nev;
  }
}
// release everything of the finished case
static void reset() {
  for (size_t i = 0; i < CAP; ++i) {
    if (tab[i].p != nullptr) {
      // only the quarantined blocks (deleted by the code under test) are released; a block that
      // is still alive may belong to a function-local static and must stay
      if (tab[i].freed > 0)
        free(tab[i].p);
      tab[i].p = nullptr;
    }
  }
  nused = 0;
  nev = 0;
  seq = 0;
}
} // namespace trk

static void *tracked_new(size_t n) {
  void *p = malloc(n ? n : 1);
  if (p == nullptr)
    throw std::bad_alloc();
  if (trk::phase == trk::CTOR || trk::phase == trk::DTOR) {
    // heap memory is poisoned as well: an owned sub-object must not rely on zeroed memory
    memset(p, 0xAA, n);
    trk::lock();
    trk::add(p, n);
    trk::unlock();
  }
  return p;
}
static void tracked_delete(void *p) {
  if (p == nullptr)
    return;
  if (trk::phase == trk::OFF) {
    free(p);
    return;
  }
  trk::lock();
  if ((uintptr_t)p == trk::POISON) {
    trk::event(p, 2);
    trk::unlock();
    return;
  }
  trk::Rec *r = trk::find(p);
  if (r == nullptr) {
    // allocated before the case started (not ours): really free it
    trk::unlock();
    free(p);
    return;
  }
  if (r->freed > 0) {
    ++r->freed;
    trk::event(p, 1);
  } else {
    r->freed = 1;
    r->freed_in = trk::phase;
    trk::event(p, 0);
    // quarantine: the memory is released at the end of the case, so that addresses are not
    // reused and a second delete of the same pointer is seen as such
  }
  trk::unlock();
}
void *operator new(size_t n) { return tracked_new(n); }
void *operator new[](size_t n) { return tracked_new(n); }
void operator delete(void *p) noexcept { tracked_delete(p); }
void operator delete[](void *p) noexcept { tracked_delete(p); }
void operator delete(void *p, size_t) noexcept { tracked_delete(p); }
void operator delete[](void *p, size_t) noexcept { tracked_delete(p); }

// ------------------------------------------------------------------ the real classes
#define private public
#define protected public
#include "CaproniPhotonSourceDistribution.hpp"
#include "DiscPatchPhotonSourceDistribution.hpp"
#include "LiveOutputManager.hpp"
#include "RestartReader.hpp"
#include "RestartWriter.hpp"
#include "TaskBasedIonizationSimulation.hpp"
#include "TrackerManager.hpp"
#include "UniformRandomPhotonSourceDistribution.hpp"
#undef private
#undef protected
#include "c12_gen.hpp"

static std::string unhex(const std::string &h) {
  std::string s;
  for (size_t i = 0; i + 1 < h.size(); i += 2)
    s.push_back((char)std::strtol(h.substr(i, 2).c_str(), nullptr, 16));
  return s;
}

// leaks that the Lean theorems state per class (argv: --leak-ok=Class::field,...) are reported
// on stderr, not as ORACLE lines
static std::vector< std::string > g_leak_ok;
static bool leak_ok(const std::string &name) {
  for (const std::string &s : g_leak_ok)
    if (s == name)
      return true;
  return false;
}

struct FieldObs {
  std::string name;
  bool is_vec;
  std::vector< const void * > vals;
};

static char classify(const void *v) {
  if ((uintptr_t)v == trk::POISON)
    return 'u';
  if (v == nullptr)
    return 'n';
  trk::Rec *r = trk::find(const_cast< void * >(v));
  if (r == nullptr)
    return '?';
  return r->freed ? 'f' : 'o';
}
static char collapse(const FieldObs &f, long *firstseq) {
  if (f.vals.empty())
    return 'x';
  char c0 = 0;
  long s0 = -1;
  for (const void *v : f.vals) {
    const char c = classify(v);
    if (c0 == 0)
      c0 = c;
    else if (c != c0)
      return 'm';
    if (c == 'o' || c == 'f') {
      trk::Rec *r = trk::find(const_cast< void * >(v));
      if (s0 < 0 || r->seq < s0)
        s0 = r->seq;
    }
  }
  if (firstseq)
    *firstseq = s0;
  return c0;
}

template < class T > struct Case {
  const char *unit;
  const char *cls;
  std::function< T *(void *) > construct;
  std::function< void(T *, std::vector< FieldObs > &) > observe;
};

template < class T > static void run_case(const Case< T > &c, long lineno) {
  alignas(64) static unsigned char buf[sizeof(T)];
  memset(buf, 0xAA, sizeof(buf));
  std::ostringstream oracle;
  trk::phase = trk::CTOR;
  T *obj = c.construct(buf);
  trk::phase = trk::MID;
  std::vector< FieldObs > fields;
  c.observe(obj, fields);
  // state after the constructor
  std::string after;
  std::vector< std::pair< long, size_t > > owned;
  bool any_uninit = false;
  for (size_t i = 0; i < fields.size(); ++i) {
    long s = -1;
    const char k = collapse(fields[i], &s);
    after.push_back(k);
    if (k == 'o')
      owned.push_back(std::make_pair(s, i));
    if (k == 'u' || k == 'm') {
      bool u = false;
      for (const void *v : fields[i].vals)
        u = u || classify(v) == 'u';
      if (u) {
        any_uninit = true;
        oracle << "ORACLE line=" << lineno << " uninit-field " << c.cls << "::" << fields[i].name
               << " is still 0xAA-poison after the constructor\n";
      }
    }
  }
  std::sort(owned.begin(), owned.end());
  size_t ctor_frees = 0;
  for (size_t i = 0; i < trk::nev; ++i)
    if (trk::evs[i].kind == 0)
      ++ctor_frees;
  const size_t ev0 = trk::nev;
  std::string dtor;
  std::string end;
  if (any_uninit) {
    // the destructor would read the poison: run it in a child to see what happens to a run
    fflush(stdout);
    const pid_t pid = fork();
    if (pid == 0) {
      trk::phase = trk::OFF;
      FILE *devnull = freopen("/dev/null", "w", stderr);
      (void)devnull;
      obj->~T();
      _exit(0);
    }
    int st = 0;
    waitpid(pid, &st, 0);
    if (WIFSIGNALED(st))
      oracle << "ORACLE line=" << lineno << " dtor-crash the destructor of " << c.cls
             << " dies with signal " << WTERMSIG(st) << "\n";
    dtor = "SKIPPED";
    end = after;
  } else {
    trk::phase = trk::DTOR;
    obj->~T();
    trk::phase = trk::MID;
    // events of the destructor, attributed to fields through the pointer values seen above
    int last_vec = -1;
    for (size_t e = ev0; e < trk::nev; ++e) {
      const trk::Ev &ev = trk::evs[e];
      if (ev.kind == 2) {
        dtor += std::string(dtor.empty() ? "" : ".") + "W?";
        oracle << "ORACLE line=" << lineno << " wild-free the destructor of " << c.cls
               << " deletes a 0xAA-poison pointer\n";
        last_vec = -1;
        continue;
      }
      int fi = -1;
      for (size_t i = 0; i < fields.size() && fi < 0; ++i)
        for (const void *v : fields[i].vals)
          if (v == ev.p) {
            fi = (int)i;
            break;
          }
      if (fi < 0) {
        if (ev.kind == 1)
          oracle << "ORACLE line=" << lineno << " double-free inside the destructor of " << c.cls
                 << " (a block owned by a sub-object is deleted twice)\n";
        continue; // allocation of a sub-object
      }
      if (ev.kind == 1)
        oracle << "ORACLE line=" << lineno << " double-free " << c.cls << "::" << fields[fi].name
               << " is deleted twice\n";
      if (fields[fi].is_vec && ev.kind == 0 && last_vec == fi)
        continue; // further elements of the same vector
      dtor += std::string(dtor.empty() ? "" : ".") + (ev.kind == 1 ? "D" : "F") + std::to_string(fi);
      last_vec = (fields[fi].is_vec && ev.kind == 0) ? fi : -1;
    }
    for (size_t i = 0; i < fields.size(); ++i) {
      const char k = collapse(fields[i], nullptr);
      end.push_back(k);
      if (k == 'o' || k == 'm') {
        if (leak_ok(std::string(c.cls) + "::" + fields[i].name))
          std::cerr << "note line=" << lineno << " expected leak " << c.cls << "::" << fields[i].name
                    << "\n";
        else
          oracle << "ORACLE line=" << lineno << " leak " << c.cls << "::" << fields[i].name
                 << " still owns its allocation after the destructor\n";
      }
    }
  }
  // blocks allocated by the constructor and alive after the destructor
  size_t rawleak = 0, rawbytes = 0;
  if (!any_uninit) {
    for (size_t i = 0; i < trk::CAP; ++i)
      if (trk::tab[i].p != nullptr && trk::tab[i].freed == 0) {
        ++rawleak;
        rawbytes += trk::tab[i].size;
      }
  }
  std::string ownedstr;
  for (size_t i = 0; i < owned.size(); ++i)
    ownedstr += std::string(i ? "." : "") + std::to_string(owned[i].second);
  std::cout << c.unit << " after=" << after << " owned=" << ownedstr << " ctor= dtor=" << dtor
            << " end=" << end << " ctorfrees=" << ctor_frees << " rawleak=" << rawleak << ":"
            << rawbytes << "\n";
  std::cout << oracle.str();
  trk::phase = trk::OFF;
  trk::reset();
}

#define OBS_S(i, MEMBER)                                                                           \
  {                                                                                                \
    FieldObs f;                                                                                    \
    f.name = #MEMBER;                                                                              \
    f.is_vec = false;                                                                              \
    f.vals.push_back((const void *)o->MEMBER);                                                     \
    fs.push_back(f);                                                                               \
  }
#define OBS_V(i, MEMBER)                                                                           \
  {                                                                                                \
    FieldObs f;                                                                                    \
    f.name = #MEMBER;                                                                              \
    f.is_vec = true;                                                                               \
    for (size_t k = 0; k < o->MEMBER.size(); ++k)                                                  \
      f.vals.push_back((const void *)o->MEMBER[k]);                                                \
    fs.push_back(f);                                                                               \
  }

int main(int argc, char **argv) {
  trk::init();
  for (int i = 1; i < argc; ++i) {
    const std::string a = argv[i];
    if (a.compare(0, 10, "--leak-ok=") == 0) {
      std::string rest = a.substr(10), cur;
      for (char ch : rest) {
        if (ch == ',') {
          g_leak_ok.push_back(cur);
          cur.clear();
        } else
          cur.push_back(ch);
      }
      if (!cur.empty())
        g_leak_ok.push_back(cur);
    }
  }
  char tmpl[] = "/tmp/verif_c12_XXXXXX";
  const std::string dir = mkdtemp(tmpl);
  if (chdir(dir.c_str()) != 0)
    return 2;
  std::string line;
  long lineno = 0;
  while (std::getline(std::cin, line)) {
    ++lineno;
    const std::vector< std::string > w = words(line);
    if (w.size() < 4) {
      std::cout << "bad-op\n";
      continue;
    }
    {
      std::ofstream f("run.param");
      f << unhex(w[3]);
    }
    if (w.size() > 4) {
      std::ofstream f("trackers.yml");
      f << unhex(w[4]);
    }
    if (w[0] == "lom") {
      ParameterFile params("run.param");
      Case< LiveOutputManager > c;
      c.unit = "lom";
      c.cls = "LiveOutputManager";
      c.construct = [&](void *buf) {
        return new (buf) LiveOutputManager(CoordinateVector< int_fast32_t >(2, 2, 1),
                                           CoordinateVector< int_fast32_t >(4, 4, 4), params);
      };
      c.observe = [](LiveOutputManager *o, std::vector< FieldObs > &fs) {
        C12_LIVEOUTPUTMANAGER_FIELDS(OBS_S, OBS_V)
      };
      run_case(c, lineno);
    } else if (w[0] == "tm") {
      ParameterFile params("run.param");
      Case< TrackerManager > c;
      c.unit = "tm";
      c.cls = "TrackerManager";
      c.construct = [&](void *buf) { return new (buf) TrackerManager(params); };
      c.observe = [](TrackerManager *o, std::vector< FieldObs > &fs) {
        C12_TRACKERMANAGER_FIELDS(OBS_S, OBS_V)
      };
      run_case(c, lineno);
    } else if (w[0] == "tbis") {
      const int nthread = std::atoi(w[1].c_str());
      Case< TaskBasedIonizationSimulation > c;
      c.unit = "tbis";
      c.cls = "TaskBasedIonizationSimulation";
      c.construct = [&](void *buf) {
        return new (buf) TaskBasedIonizationSimulation(nthread, "run.param", false, false, nullptr);
      };
      c.observe = [](TaskBasedIonizationSimulation *o, std::vector< FieldObs > &fs) {
        C12_TASKBASEDIONIZATIONSIMULATION_FIELDS(OBS_S, OBS_V)
      };
      run_case(c, lineno);
    } else if (w[0] == "urm" || w[0] == "urr" || w[0] == "dpm" || w[0] == "dpr" || w[0] == "cam" ||
               w[0] == "car") {
      const bool output = std::atoi(w[1].c_str()) != 0;
      const double yr = 3.154e7;
      const bool restart = w[0][2] == 'r';
      // the restart constructors read a dump written by a normally constructed object
      auto make_ur = [&](void *buf, bool out) {
        UniformRandomPhotonSourceDistribution *p =
            buf ? new (buf) UniformRandomPhotonSourceDistribution(
                      2.e6 * yr, 1.e48, 3, CoordinateVector<>(0.), CoordinateVector<>(1.), 42,
                      1.e6 * yr, 3.e6 * yr, out)
                : new UniformRandomPhotonSourceDistribution(2.e6 * yr, 1.e48, 3,
                                                            CoordinateVector<>(0.),
                                                            CoordinateVector<>(1.), 42, 1.e6 * yr,
                                                            3.e6 * yr, out);
        return p;
      };
      auto make_dp = [&](void *buf, bool out) {
        return buf ? new (buf) DiscPatchPhotonSourceDistribution(2.e6 * yr, 1.e48, 5, -1., 2., -1.,
                                                                 2., 0., 0.3, 42, 1.e6 * yr,
                                                                 3.e6 * yr, out)
                   : new DiscPatchPhotonSourceDistribution(2.e6 * yr, 1.e48, 5, -1., 2., -1., 2.,
                                                           0., 0.3, 42, 1.e6 * yr, 3.e6 * yr, out);
      };
      auto make_ca = [&](void *buf, bool out) {
        return buf ? new (buf) CaproniPhotonSourceDistribution(
                         1., 1., 8. * 1.98855e30, 20. * 1.98855e30, 100. * 1.98855e30, -2.3, 42,
                         1.e6 * yr, 3.e6 * yr, 10., out)
                   : new CaproniPhotonSourceDistribution(1., 1., 8. * 1.98855e30, 20. * 1.98855e30,
                                                         100. * 1.98855e30, -2.3, 42, 1.e6 * yr,
                                                         3.e6 * yr, 10., out);
      };
      if (restart) {
        PhotonSourceDistribution *a = nullptr;
        if (w[0][0] == 'u')
          a = make_ur(nullptr, output);
        else if (w[0][0] == 'd')
          a = make_dp(nullptr, output);
        else
          a = make_ca(nullptr, output);
        {
          RestartWriter rw("psd.dump");
          a->write_restart_file(rw);
        }
        delete a;
      }
      if (w[0][0] == 'u') {
        Case< UniformRandomPhotonSourceDistribution > c;
        c.unit = restart ? "urr" : "urm";
        c.cls = "UniformRandomPhotonSourceDistribution";
        c.construct = [&](void *buf) {
          if (!restart)
            return make_ur(buf, output);
          RestartReader rr("psd.dump");
          return new (buf) UniformRandomPhotonSourceDistribution(rr);
        };
        c.observe = [](UniformRandomPhotonSourceDistribution *o, std::vector< FieldObs > &fs) {
          C12_UNIFORMRANDOMPSD_FIELDS(OBS_S, OBS_V)
        };
        run_case(c, lineno);
      } else if (w[0][0] == 'd') {
        Case< DiscPatchPhotonSourceDistribution > c;
        c.unit = restart ? "dpr" : "dpm";
        c.cls = "DiscPatchPhotonSourceDistribution";
        c.construct = [&](void *buf) {
          if (!restart)
            return make_dp(buf, output);
          RestartReader rr("psd.dump");
          return new (buf) DiscPatchPhotonSourceDistribution(rr);
        };
        c.observe = [](DiscPatchPhotonSourceDistribution *o, std::vector< FieldObs > &fs) {
          C12_DISCPATCHPSD_FIELDS(OBS_S, OBS_V)
        };
        run_case(c, lineno);
      } else {
        Case< CaproniPhotonSourceDistribution > c;
        c.unit = restart ? "car" : "cam";
        c.cls = "CaproniPhotonSourceDistribution";
        c.construct = [&](void *buf) {
          if (!restart)
            return make_ca(buf, output);
          RestartReader rr("psd.dump");
          return new (buf) CaproniPhotonSourceDistribution(rr);
        };
        c.observe = [](CaproniPhotonSourceDistribution *o, std::vector< FieldObs > &fs) {
          C12_CAPRONIPSD_FIELDS(OBS_S, OBS_V)
        };
        run_case(c, lineno);
      }
    } else {
      std::cout << "bad-unit\n";
    }
    std::cout.flush();
  }
  if (chdir("/") == 0) {
    const std::string cmd = "rm -rf " + dir;
    if (system(cmd.c_str()) != 0)
      return 0;
  }
  return 0;
}
