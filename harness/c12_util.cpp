// C12 utility harness (compiled with -fsanitize=address,undefined): small generic helpers that the
// task-based drivers call from every worker thread, exercised on their own with adversarial inputs.
//
// op line:  argsort <type> <n> v0 v1 ... v(n-1)     type = u (size_t, the queue sizes the idle
//                                                   workers rank) | d (double; values as integers)
// answer:   argsort ok <n>
// ORACLE lines when the result of Utilities::argsort is not a permutation of 0..n-1 or does not
// sort the input.  An out-of-bounds access inside std::sort (a comparison that is not a strict
// weak ordering makes introsort run off the ends for n > 16) aborts under AddressSanitizer: the
// check reports the op line that was running.
#include "common.hpp"
#include "Utilities.hpp"

template < typename T > static void check_argsort(const std::vector< T > &v, long lineno) {
  // the result lives in a heap block of exactly n elements: any access outside is seen by ASan
  const std::vector< uint_fast32_t > idx = Utilities::argsort(v);
  bool ok = idx.size() == v.size();
  std::vector< int > seen(v.size(), 0);
  for (size_t i = 0; ok && i < idx.size(); ++i) {
    if (idx[i] >= v.size() || seen[idx[i]]++) {
      ok = false;
    }
  }
  if (!ok) {
    std::cout << "argsort bad " << v.size() << "\n";
    std::cout << "ORACLE line=" << lineno << " argsort-not-a-permutation of 0.." << v.size() << "-1\n";
    return;
  }
  for (size_t i = 1; i < idx.size(); ++i) {
    if (v[idx[i]] < v[idx[i - 1]]) {
      std::cout << "argsort bad " << v.size() << "\n";
      std::cout << "ORACLE line=" << lineno << " argsort-does-not-sort position " << i << "\n";
      return;
    }
  }
  std::cout << "argsort ok " << v.size() << "\n";
}

int main() {
  std::string line;
  long lineno = 0;
  while (std::getline(std::cin, line)) {
    ++lineno;
    const std::vector< std::string > w = words(line);
    if (w.size() >= 3 && w[0] == "argsort") {
      const size_t n = u64(w[2]);
      if (w.size() != n + 3) {
        std::cout << "bad-op\n";
        continue;
      }
      if (w[1] == "u") {
        std::vector< size_t > v(n);
        for (size_t i = 0; i < n; ++i)
          v[i] = u64(w[3 + i]);
        check_argsort(v, lineno);
      } else {
        std::vector< double > v(n);
        for (size_t i = 0; i < n; ++i)
          v[i] = (double)std::atol(w[3 + i].c_str());
        check_argsort(v, lineno);
      }
    } else {
      std::cout << "bad-op\n";
    }
    std::cout.flush();
  }
  return 0;
}
