// C09 harness: write -> read -> write through the REAL restartable classes.
//
// op line:   comp <Class> <case> <path> <seed>
// answer:    comp <Class> <case> bytes=<n> fnv=<FNV-1a of the bytes written> info=<run-length coded size log of the writer>
// The bytes of the first write are left in <path> (the Lean driver decodes them with the generated
// schema, re-encodes them and reproduces the size log).  ORACLE lines:
//   write-read-write-differs   second write (of the object read back) differs from the first
//   reader-log-differs         RESTARTREADER_INFO log of the restart constructor != RESTARTWRITER_INFO log
//   restored-state-differs     a member that is not stored differs between the dumped and the restored object
//   continuation-differs       the restored object behaves differently afterwards (next random numbers, next
//                              time steps, next turbulence amplitudes, next source update)
#define RESTARTWRITER_INFO
#define RESTARTREADER_INFO
#include "common.hpp"
#include <fstream>
#include <limits>
#include <new>
#include <sys/wait.h>
#include <unistd.h>

#define private public
#define protected public
#include "AlveliusTurbulenceForcing.hpp"
#include "AsciiFilePhotonSourceDistribution.hpp"
#include "Box.hpp"
#include "CaproniPhotonSourceDistribution.hpp"
#include "CoordinateVector.hpp"
#include "DensitySubGrid.hpp"
#include "DensitySubGridCreator.hpp"
#include "DiscPatchPhotonSourceDistribution.hpp"
#include "HydroDensitySubGrid.hpp"
#include "HydroMaskFactory.hpp"
#include "HydroVariables.hpp"
#include "IonizationVariables.hpp"
#include "ParameterFile.hpp"
#include "PhotonSourceDistributionFactory.hpp"
#include "RandomGenerator.hpp"
#include "RescaledICHydroMask.hpp"
#include "RestartReader.hpp"
#include "RestartWriter.hpp"
#include "SingleStarPhotonSourceDistribution.hpp"
#include "SingleSupernovaPhotonSourceDistribution.hpp"
#include "TimeLine.hpp"
#include "Timer.hpp"
#include "UniformRandomPhotonSourceDistribution.hpp"
#include "YAMLDictionary.hpp"
#undef private
#undef protected

// every heap object starts as 0xAA garbage: a member that a restart constructor forgets is never
// accidentally zero
void *operator new(size_t n) {
  void *p = malloc(n ? n : 1);
  if (p == nullptr)
    throw std::bad_alloc();
  memset(p, 0xAA, n);
  return p;
}
void *operator new[](size_t n) { return operator new(n); }
void operator delete(void *p) noexcept { free(p); }
void operator delete[](void *p) noexcept { free(p); }
void operator delete(void *p, size_t) noexcept { free(p); }
void operator delete[](void *p, size_t) noexcept { free(p); }

static uint64_t g_state = 1;
static uint64_t rnd() {
  uint64_t z = (g_state += 0x9E3779B97F4A7C15ull);
  z = (z ^ (z >> 30)) * 0xBF58476D1CE4E5B9ull;
  z = (z ^ (z >> 27)) * 0x94D049BB133111EBull;
  return z ^ (z >> 31);
}
static double uni() { return (rnd() >> 11) * (1.0 / 9007199254740992.0); }
static uint64_t below(uint64_t n) { return rnd() % n; }
// doubles of all kinds: ordinary values over many decades, special values
static double anyd() {
  const uint64_t k = below(20);
  if (k == 0)
    return 0.;
  if (k == 1)
    return -0.;
  if (k == 2)
    return DBL_MAX;
  if (k == 3)
    return -DBL_MAX;
  if (k == 4)
    return 4.9406564584124654e-324;
  if (k == 5)
    return std::numeric_limits< double >::infinity();
  return (uni() - 0.3) * std::pow(10., (double)below(40) - 20.);
}
static double posd() { return (0.1 + uni()) * std::pow(10., (double)below(8) - 4.); }
static CoordinateVector<> anyv() { return CoordinateVector<>(anyd(), anyd(), anyd()); }

static std::string slurp(const std::string &name) {
  std::ifstream f(name, std::ios::binary);
  std::stringstream ss;
  ss << f.rdbuf();
  return ss.str();
}
static uint64_t fnv(const std::string &s) {
  uint64_t h = 14695981039346656037ull;
  for (unsigned char c : s) {
    h ^= c;
    h *= 1099511628211ull;
  }
  return h;
}
static std::string rle(const std::string &log) {
  std::istringstream is(log);
  std::string t, cur, out;
  long n = 0;
  auto flush = [&]() {
    if (n == 0)
      return;
    if (!out.empty())
      out += ",";
    out += cur;
    if (n > 1)
      out += "*" + std::to_string(n);
  };
  while (is >> t) {
    if (n > 0 && t == cur) {
      ++n;
    } else {
      flush();
      cur = t;
      n = 1;
    }
  }
  flush();
  return out;
}

static long g_line = 0;
static std::vector< std::string > g_oracle;
static void oracle(const std::string &what) {
  g_oracle.push_back("ORACLE line=" + std::to_string(g_line) + " " + what);
}

struct Cycle {
  std::string bytes, winfo;
};

// the generic cycle; `check(original, restored)` may compare members and continuations
template < class T, class Check >
static Cycle cycle(T &obj, const std::string &path, const std::string &cls, Check check) {
  Cycle c;
  {
    RestartWriter w(path);
    obj.write_restart_file(w);
  }
  c.bytes = slurp(path);
  c.winfo = slurp("restart_writer_info.txt");
  std::string rinfo, bytes2;
  {
    RestartReader r(path);
    T *copyp = new T(r);
    T &copy = *copyp;
    // the reader must have consumed the whole file
    const std::streampos pos = r._file.tellg();
    if (r._file.fail() || (size_t)pos != c.bytes.size())
      oracle("reader-consumed-wrong-number-of-bytes " + cls + " read " + std::to_string((long)pos) + " of " +
             std::to_string(c.bytes.size()));
    {
      RestartWriter w2(path + ".w2");
      copy.write_restart_file(w2);
    }
    bytes2 = slurp(path + ".w2");
    check(obj, copy);
    delete copyp;
  }
  rinfo = slurp("restart_reader_info.txt");
  if (bytes2 != c.bytes) {
    size_t k = 0;
    while (k < bytes2.size() && k < c.bytes.size() && bytes2[k] == c.bytes[k])
      ++k;
    oracle("write-read-write-differs " + cls + " first difference at byte " + std::to_string(k) + " of " +
           std::to_string(c.bytes.size()));
  }
  if (rle(rinfo) != rle(c.winfo))
    oracle("reader-log-differs " + cls + " writer " + rle(c.winfo).substr(0, 200) + " reader " + rle(rinfo).substr(0, 200));
  unlink((path + ".w2").c_str());
  return c;
}
struct NoCheck {
  template < class T > void operator()(T &, T &) const {}
};

static bool same(double a, double b) { return bits_of(a) == bits_of(b); }
static bool samev(const CoordinateVector<> &a, const CoordinateVector<> &b) {
  return same(a.x(), b.x()) && same(a.y(), b.y()) && same(a.z(), b.z());
}

static void fill_hydro(HydroVariables &h, bool dump_point) {
  for (int i = 0; i < 5; ++i) {
    h._primitives[i] = anyd();
    h._conserved[i] = anyd();
    h._delta_conserved[i] = dump_point ? 0. : anyd();
    h._primitive_gradients[i] = dump_point ? CoordinateVector<>(0.) : anyv();
  }
  h._gravitational_acceleration = anyv();
  h._energy_rate_term = anyd();
  h._energy_term = anyd();
}
static void fill_ion(IonizationVariables &v) {
  v._number_density = anyd();
  v._temperature = anyd();
  for (int i = 0; i < NUMBER_OF_IONNAMES; ++i) {
    v._ionic_fractions[i] = uni();
    v._mean_intensity[i] = anyd();
  }
  for (int i = 0; i < NUMBER_OF_REEMISSIONPROBABILITIES; ++i)
    v._reemission_probabilities[i] = uni();
  for (int i = 0; i < NUMBER_OF_HEATINGTERMS; ++i)
    v._heating[i] = anyd();
  v._cosmic_ray_factor = anyd();
}

static const double SIDES[] = {1., 0.5, 2., 0.3, 0.7, 1.1, 3., 0.1, 1.e-3, 7.e-3, 1. / 3., 3.0856e16};

// compare every member of a hydro subgrid that is NOT in the restart file
// (the active-buffer table of a COPY is not initialised by the copy constructor: every radiation step sets it for all
// subgrids before use, so it is only compared for original subgrids)
static void compare_subgrid(const HydroDensitySubGrid &a, const HydroDensitySubGrid &b, const std::string &tag, bool active = true) {
  std::string bad;
  for (int i = 0; i < 3; ++i) {
    if (!same(a._inv_cell_size[i], b._inv_cell_size[i]))
      bad += " _inv_cell_size";
    if (!same(a._cell_size[i], b._cell_size[i]))
      bad += " _cell_size";
  }
  for (int i = 0; i < 4; ++i)
    if (a._number_of_cells[i] != b._number_of_cells[i])
      bad += " _number_of_cells[" + std::to_string(i) + "]";
  if (!same(a._inverse_cell_volume, b._inverse_cell_volume))
    bad += " _inverse_cell_volume";
  if (!same(a._cell_volume, b._cell_volume))
    bad += " _cell_volume";
  for (int i = 0; active && i < TRAVELDIRECTION_NUMBER; ++i)
    if (a._active_buffers[i] != b._active_buffers[i]) {
      bad += " _active_buffers";
      break;
    }
  if (a._largest_buffer_index != b._largest_buffer_index)
    bad += " _largest_buffer_index";
  if (a._largest_buffer_size != b._largest_buffer_size)
    bad += " _largest_buffer_size";
  if (a._computational_cost != b._computational_cost)
    bad += " _computational_cost";
  const int_fast32_t n = a._number_of_cells[0] * a._number_of_cells[3];
  for (int_fast32_t i = 0; i < 10 * n; ++i)
    if (!same(a._primitive_variable_limiters[i], b._primitive_variable_limiters[i])) {
      bad += " _primitive_variable_limiters";
      break;
    }
  if (!bad.empty())
    oracle("restored-state-differs " + tag + ":" + bad);
}

// put a freshly constructed subgrid into the state it has at the end of a step
static void fill_subgrid(HydroDensitySubGrid &g, bool touch_limiters, bool set_ngbs = true) {
  const int_fast32_t n = g._number_of_cells[0] * g._number_of_cells[3];
  for (int_fast32_t i = 0; i < n; ++i) {
    fill_ion(g._ionization_variables[i]);
    fill_hydro(g._hydro_variables[i], true);
  }
  if (touch_limiters) {
    // a gradient sweep wrote the limiters; the last sweep of the step resets them
    for (int_fast32_t i = 0; i < 10 * n; ++i)
      g._primitive_variable_limiters[i] = anyd();
    g.update_conserved_variables(0.);
    for (int_fast32_t i = 0; i < n; ++i)
      fill_hydro(g._hydro_variables[i], true);
  }
  if (set_ngbs)
    for (int i = 0; i < TRAVELDIRECTION_NUMBER; ++i)
      g._ngbs[i] = (uint_least32_t)below(1000);
  g._owning_thread = (int_least32_t)below(64);
}

static Cycle run_case(const std::string &cls, const std::string &path) {
  if (cls == "CoordinateVector<double>") {
    CoordinateVector<> v = anyv();
    return cycle(v, path, cls, [&](CoordinateVector<> &a, CoordinateVector<> &b) {
      if (!samev(a, b))
        oracle("restored-state-differs CoordinateVector");
    });
  }
  if (cls == "CoordinateVector<int_fast32_t>") {
    CoordinateVector< int_fast32_t > v((int_fast32_t)rnd(), -(int_fast32_t)below(1000), (int_fast32_t)below(7));
    return cycle(v, path, cls, NoCheck());
  }
  if (cls == "CoordinateVector<bool>") {
    CoordinateVector< bool > v(below(2), below(2), below(2));
    return cycle(v, path, cls, NoCheck());
  }
  if (cls == "Box<double>") {
    Box<> b(anyv(), anyv());
    return cycle(b, path, cls, NoCheck());
  }
  if (cls == "RandomGenerator") {
    RandomGenerator g((int_fast32_t)below(1u << 31));
    const uint64_t k = below(500);
    for (uint64_t i = 0; i < k; ++i)
      g.get_uniform_random_double();
    return cycle(g, path, cls, [&](RandomGenerator &a, RandomGenerator &b) {
      RandomGenerator a2(a);
      for (int i = 0; i < 60; ++i)
        if (!same(a2.get_uniform_random_double(), b.get_uniform_random_double())) {
          oracle("continuation-differs RandomGenerator draw " + std::to_string(i));
          break;
        }
    });
  }
  if (cls == "TimeLine") {
    const double t0 = (below(2) ? 0. : posd()), len = posd();
    TimeLine tl(t0, t0 + len, len * 1.e-6, len * 0.1 * (0.5 + uni()));
    double dt, t;
    const uint64_t k = below(12);
    bool more = true;
    for (uint64_t i = 0; i < k && more; ++i)
      more = tl.advance(len * uni() * 0.05, dt, t);
    return cycle(tl, path, cls, [&](TimeLine &a, TimeLine &b) {
      TimeLine a2(a);
      for (int i = 0; i < 10; ++i) {
        const double req = len * uni() * 0.05;
        double dta, ta, dtb, tb;
        const bool ma = a2.advance(req, dta, ta), mb = b.advance(req, dtb, tb);
        if (ma != mb || !same(dta, dtb) || !same(ta, tb)) {
          oracle("continuation-differs TimeLine step " + std::to_string(i));
          break;
        }
        if (!ma)
          break;
      }
    });
  }
  if (cls == "Timer") {
    Timer t;
    t.start();
    for (volatile int i = 0; i < 1000; ++i) {
    }
    t.stop();
    return cycle(t, path, cls, [&](Timer &a, Timer &b) {
      if (a.value() != b.value())
        oracle("restored-state-differs Timer value");
    });
  }
  if (cls == "HydroVariables") {
    HydroVariables h;
    fill_hydro(h, below(2));
    return cycle(h, path, cls, NoCheck());
  }
  if (cls == "IonizationVariables") {
    IonizationVariables v;
    fill_ion(v);
    return cycle(v, path, cls, NoCheck());
  }
  if (cls == "HydroDensitySubGrid" || cls == "DensitySubGrid") {
    double box[6] = {anyd() == 0. ? 0. : uni() - 0.5, uni(), -uni(), SIDES[below(12)], SIDES[below(12)], SIDES[below(12)]};
    CoordinateVector< int_fast32_t > nc(1 + below(4), 1 + below(4), 1 + below(4));
    if (cls == "DensitySubGrid") {
      DensitySubGrid g(box, nc);
      for (int_fast32_t i = 0; i < nc[0] * nc[1] * nc[2]; ++i)
        fill_ion(g._ionization_variables[i]);
      for (int i = 0; i < TRAVELDIRECTION_NUMBER; ++i) {
        g._ngbs[i] = (uint_least32_t)below(1000);
        g._active_buffers[i] = NEIGHBOUR_OUTSIDE;
      }
      return cycle(g, path, cls, [&](DensitySubGrid &a, DensitySubGrid &b) {
        for (int i = 0; i < 3; ++i)
          if (!same(a._inv_cell_size[i], b._inv_cell_size[i]) || a._number_of_cells[3] != b._number_of_cells[3]) {
            oracle("restored-state-differs DensitySubGrid: _inv_cell_size/_number_of_cells[3]");
            break;
          }
      });
    }
    HydroDensitySubGrid g(box, nc);
    for (int i = 0; i < TRAVELDIRECTION_NUMBER; ++i)
      g._active_buffers[i] = NEIGHBOUR_OUTSIDE;   // done by DensitySubGridCreator::create_subgrid
    fill_subgrid(g, below(2));
    return cycle(g, path, cls, [&](HydroDensitySubGrid &a, HydroDensitySubGrid &b) { compare_subgrid(a, b, "HydroDensitySubGrid"); });
  }
  if (cls == "DensitySubGridCreator<HydroDensitySubGrid>") {
    const int_fast32_t ns[3] = {(int_fast32_t)(1 + below(3)), (int_fast32_t)(1 + below(2)), (int_fast32_t)(1 + below(3))};
    const int_fast32_t cs[3] = {(int_fast32_t)(1 + below(3)), (int_fast32_t)(1 + below(3)), (int_fast32_t)(1 + below(3))};
    Box<> box(CoordinateVector<>(uni() - 0.5, uni(), -uni()),
              CoordinateVector<>(SIDES[below(12)], SIDES[below(12)], SIDES[below(12)]));
    DensitySubGridCreator< HydroDensitySubGrid > creator(
        box, CoordinateVector< int_fast32_t >(ns[0] * cs[0], ns[1] * cs[1], ns[2] * cs[2]),
        CoordinateVector< int_fast32_t >(ns[0], ns[1], ns[2]), CoordinateVector< bool >(below(2), below(2), below(2)));
    const uint_fast32_t n = creator.number_of_original_subgrids();
    for (uint_fast32_t i = 0; i < n; ++i)
      creator._subgrids[i] = creator.create_subgrid(i);
    for (uint_fast32_t i = 0; i < n; ++i)
      fill_subgrid(*creator._subgrids[i], below(2), false);
    if (below(2)) {
      std::vector< uint_fast8_t > levels(n, 0);
      levels[below(n)] = 1 + below(2);
      creator.create_copies(levels);
    }
    return cycle(creator, path, cls,
                 [&](DensitySubGridCreator< HydroDensitySubGrid > &a, DensitySubGridCreator< HydroDensitySubGrid > &b) {
                   if (a._subgrids.size() != b._subgrids.size() || a._originals != b._originals || a._copies != b._copies) {
                     oracle("restored-state-differs DensitySubGridCreator: subgrid / copy tables");
                     return;
                   }
                   for (size_t i = 0; i < a._subgrids.size(); ++i)
                     compare_subgrid(*a._subgrids[i], *b._subgrids[i], "DensitySubGridCreator subgrid " + std::to_string(i),
                                     i < a.number_of_original_subgrids());
                 });
  }
  if (cls == "AlveliusTurbulenceForcing") {
    const double L = SIDES[below(12)];
    const CoordinateVector< int_fast32_t > ns(1 + below(2), 1 + below(2), 1 + below(2)), nc(1 + below(3), 1 + below(3), 1 + below(3));
    const double dt = posd();
    AlveliusTurbulenceForcing f(ns, nc, Box<>(anyv() * 1.e-30, CoordinateVector<>(L)), 1., 2. + below(2), 1.5 + uni(), 0.2,
                                posd(), (int_fast32_t)below(100000), dt, below(2) ? 0. : 3. * dt);
    const double t1 = dt * (double)below(9);
    f.update_turbulence(t1);
    return cycle(f, path, cls, [&](AlveliusTurbulenceForcing &a, AlveliusTurbulenceForcing &b) {
      // the amplitudes are not stored: they are rebuilt from zero by every update
      const double t2 = t1 + dt * (double)(1 + below(5));
      a.update_turbulence(t2);
      b.update_turbulence(t2);
      bool ok = a._number_of_driving_steps == b._number_of_driving_steps && a._amplitudes_real.size() == b._amplitudes_real.size();
      for (size_t i = 0; ok && i < a._amplitudes_real.size(); ++i)
        ok = samev(a._amplitudes_real[i], b._amplitudes_real[i]) && samev(a._amplitudes_imaginary[i], b._amplitudes_imaginary[i]);
      if (!ok)
        oracle("continuation-differs AlveliusTurbulenceForcing amplitudes after the next update");
      const double sbox[6] = {0., 0., 0., L / ns[0], L / ns[1], L / ns[2]};
      HydroDensitySubGrid ga(sbox, nc), gb(sbox, nc);
      const int_fast32_t n = nc[0] * nc[1] * nc[2];
      for (int_fast32_t i = 0; i < n; ++i) {
        fill_hydro(ga._hydro_variables[i], true);
        gb._hydro_variables[i] = ga._hydro_variables[i];
      }
      a.add_turbulent_forcing(0, ga);
      b.add_turbulent_forcing(0, gb);
      for (int_fast32_t i = 0; i < n; ++i)
        for (int j = 0; j < 5; ++j)
          if (!same(ga._hydro_variables[i]._conserved[j], gb._hydro_variables[i]._conserved[j]) ||
              !same(ga._hydro_variables[i]._primitives[j], gb._hydro_variables[i]._primitives[j])) {
            oracle("continuation-differs AlveliusTurbulenceForcing forcing applied to a subgrid");
            return;
          }
    });
  }
  if (cls == "RescaledICHydroMask" || cls == "HydroMaskFactory") {
    const double L = SIDES[below(12)];
    RescaledICHydroMask m(CoordinateVector<>(L * uni(), L * uni(), L * uni()), L * (0.2 + uni()), uni(), 0.5 + uni(), uni(),
                          below(2) ? 0. : posd());
    const CoordinateVector< int_fast32_t > nc(1 + below(3), 1 + below(3), 1 + below(3));
    std::vector< HydroDensitySubGrid * > grids;
    const int ng = 1 + below(3);
    for (int g = 0; g < ng; ++g) {
      const double sbox[6] = {g * L / ng, 0., 0., L / ng, L, L};
      grids.push_back(new HydroDensitySubGrid(sbox, nc));
      fill_subgrid(*grids.back(), false);
      for (int_fast32_t i = 0; i < nc[0] * nc[1] * nc[2]; ++i)
        for (int j = 0; j < 5; ++j)
          grids.back()->_hydro_variables[i]._primitives[j] = posd();
      m.initialize_mask(g, *grids.back());
    }
    m._snap_n = below(50);
    auto check = [&](RescaledICHydroMask &a, RescaledICHydroMask &b) {
      std::string bad;
      if (!same(a._mask_density, b._mask_density))
        bad += " _mask_density";
      if (!same(a._mask_velocity, b._mask_velocity))
        bad += " _mask_velocity";
      if (!same(a._mask_pressure, b._mask_pressure))
        bad += " _mask_pressure";
      if (a._snap_n != b._snap_n)
        bad += " _snap_n";
      if (a._subgrid_offsets != b._subgrid_offsets)
        bad += " _subgrid_offsets";
      if (!same(a._radius2, b._radius2) || !same(a._delta_t, b._delta_t) || !samev(a._center, b._center))
        bad += " geometry";
      if (!bad.empty())
        oracle("restored-state-differs RescaledICHydroMask:" + bad);
      // continuation: apply the mask with both objects
      for (int g = 0; g < ng; ++g) {
        HydroDensitySubGrid ga(*grids[g]), gb(*grids[g]);
        a.apply_mask(g, ga, 1., 2.);
        b.apply_mask(g, gb, 1., 2.);
        for (int_fast32_t i = 0; i < nc[0] * nc[1] * nc[2]; ++i)
          for (int j = 0; j < 5; ++j)
            if (!same(ga._hydro_variables[i]._conserved[j], gb._hydro_variables[i]._conserved[j]) ||
                !same(ga._hydro_variables[i]._primitives[j], gb._hydro_variables[i]._primitives[j])) {
              oracle("continuation-differs RescaledICHydroMask apply_mask after restart");
              return;
            }
      }
    };
    Cycle c;
    if (cls == "RescaledICHydroMask") {
      c = cycle(m, path, cls, check);
    } else {
      {
        RestartWriter w(path);
        HydroMaskFactory::write_restart_file(w, m);
      }
      c.bytes = slurp(path);
      c.winfo = slurp("restart_writer_info.txt");
      {
        RestartReader r(path);
        HydroMask *m2 = HydroMaskFactory::restart(r);
        {
          RestartWriter w2(path + ".w2");
          HydroMaskFactory::write_restart_file(w2, *m2);
        }
        check(m, *static_cast< RescaledICHydroMask * >(m2));
        delete m2;
      }
      if (slurp(path + ".w2") != c.bytes)
        oracle("write-read-write-differs HydroMaskFactory");
      if (rle(slurp("restart_reader_info.txt")) != rle(c.winfo))
        oracle("reader-log-differs HydroMaskFactory");
      unlink((path + ".w2").c_str());
    }
    for (auto g : grids)
      delete g;
    return c;
  }
  if (cls == "YAMLDictionary" || cls == "ParameterFile") {
    std::ostringstream y;
    const int ngroups = 1 + below(4);
    std::vector< std::string > keys;
    for (int g = 0; g < ngroups; ++g) {
      const std::string gn = std::string(1, (char)('A' + below(26))) + "group " + std::to_string(g);
      y << gn << ":\n";
      const int nk = 1 + below(4);
      for (int k = 0; k < nk; ++k) {
        const std::string kn = std::string(1, (char)('a' + below(26))) + " key" + std::to_string(k);
        y << "  " << kn << ": " << (below(2) ? std::to_string(anyd()) + " m" : std::string("[1., 2., ") + std::to_string(below(9)) + "]") << "\n";
        keys.push_back(gn + ":" + kn);
      }
    }
    std::istringstream is(y.str());
    YAMLDictionary d(is);
    for (auto &k : keys)
      if (below(2))
        d.get_value< std::string >(k);
    d.get_value< std::string >("Default:not present " + std::to_string(below(100)), "default value");
    auto check = [&](YAMLDictionary &a, YAMLDictionary &b) {
      if (a._dictionary != b._dictionary || a._used_values != b._used_values)
        oracle("restored-state-differs YAMLDictionary");
    };
    if (cls == "YAMLDictionary")
      return cycle(d, path, cls, check);
    ParameterFile p;
    p._yaml_dictionary = d;
    return cycle(p, path, cls, [&](ParameterFile &a, ParameterFile &b) { check(a._yaml_dictionary, b._yaml_dictionary); });
  }
  // photon source distributions (directly and through the factory)
  {
    PhotonSourceDistribution *psd = nullptr;
    std::string real = cls;
    const bool factory = (cls == "PhotonSourceDistributionFactory");
    if (factory) {
      const char *names[] = {"SingleStarPhotonSourceDistribution", "SingleSupernovaPhotonSourceDistribution",
                             "UniformRandomPhotonSourceDistribution", "DiscPatchPhotonSourceDistribution",
                             "CaproniPhotonSourceDistribution", "AsciiFilePhotonSourceDistribution"};
      real = names[below(6)];
    }
    const double yr = 3.15576e7;
    const double tnext = 1.e6 * yr * (1. + below(20));
    if (real == "SingleStarPhotonSourceDistribution")
      psd = new SingleStarPhotonSourceDistribution(anyv(), posd() * 1.e48);
    else if (real == "SingleSupernovaPhotonSourceDistribution") {
      auto *s = new SingleSupernovaPhotonSourceDistribution(anyv(), posd() * yr, posd() * 1.e48, posd() * 1.e44);
      s->_has_exploded = below(2);
      psd = s;
    } else if (real == "UniformRandomPhotonSourceDistribution") {
      auto *s = new UniformRandomPhotonSourceDistribution(2.e6 * yr * (1 + below(10)), posd() * 1.e48, 1 + below(12), anyv(), anyv(),
                                                          (int_fast32_t)below(100000), 1.e6 * yr, below(2) ? 0. : 3.e6 * yr, false);
      const int k = below(6);
      for (int i = 0; i < k; ++i)
        s->update(1.e6 * yr * (i + 1));
      psd = s;
    } else if (real == "DiscPatchPhotonSourceDistribution") {
      auto *s = new DiscPatchPhotonSourceDistribution(2.e6 * yr * (1 + below(10)), posd() * 1.e48, 1 + below(30), -1., 2., -1., 2., 0., 0.3,
                                                      (int_fast32_t)below(100000), 1.e6 * yr, below(2) ? 0. : 3.e6 * yr, false);
      const int k = below(6);
      for (int i = 0; i < k; ++i)
        s->update(1.e6 * yr * (i + 1));
      psd = s;
    } else if (real == "CaproniPhotonSourceDistribution") {
      auto *s = new CaproniPhotonSourceDistribution(1., 1., 8. * 1.98855e30, 20. * 1.98855e30, 100. * 1.98855e30, -2.3,
                                                    (int_fast32_t)below(100000), 1.e6 * yr, below(2) ? 0. : 3.e6 * yr, 1. + below(50), false);
      const int k = below(6);
      for (int i = 0; i < k; ++i)
        s->update(1.e6 * yr * (i + 1));
      psd = s;
    } else if (real == "AsciiFilePhotonSourceDistribution") {
      {
        std::ofstream f("sources.yml");
        const int n = 1 + below(5);
        f << "number of sources: " << n << "\n";
        for (int i = 0; i < n; ++i)
          f << "source[" << i << "]:\n  position: [" << uni() << " m, " << uni() << " m, " << -uni() << " m]\n  luminosity: " << (1. + uni())
            << "e48 s^-1\n";
      }
      psd = new AsciiFilePhotonSourceDistribution("sources.yml");
    } else {
      return Cycle{"", "unknown-class"};
    }
    Cycle c;
    {
      RestartWriter w(path);
      if (factory)
        PhotonSourceDistributionFactory::write_restart_file(w, *psd);
      else
        psd->write_restart_file(w);
    }
    c.bytes = slurp(path);
    c.winfo = slurp("restart_writer_info.txt");
    {
      RestartReader r(path);
      PhotonSourceDistribution *p2 = nullptr;
      if (factory)
        p2 = PhotonSourceDistributionFactory::restart(r);
      else if (real == "SingleStarPhotonSourceDistribution")
        p2 = new SingleStarPhotonSourceDistribution(r);
      else if (real == "SingleSupernovaPhotonSourceDistribution")
        p2 = new SingleSupernovaPhotonSourceDistribution(r);
      else if (real == "UniformRandomPhotonSourceDistribution")
        p2 = new UniformRandomPhotonSourceDistribution(r);
      else if (real == "DiscPatchPhotonSourceDistribution")
        p2 = new DiscPatchPhotonSourceDistribution(r);
      else if (real == "CaproniPhotonSourceDistribution")
        p2 = new CaproniPhotonSourceDistribution(r);
      else
        p2 = new AsciiFilePhotonSourceDistribution(r);
      const std::streampos pos = r._file.tellg();
      if (r._file.fail() || (size_t)pos != c.bytes.size())
        oracle("reader-consumed-wrong-number-of-bytes " + real);
      // members that are only stored when a source output file is open
      {
        std::string bad;
#define CMP_OUTPUT(Class)                                                                                              \
  if (real == #Class) {                                                                                                \
    Class *a = static_cast< Class * >(psd), *b = static_cast< Class * >(p2);                                           \
    if ((a->_output_file == nullptr) != (b->_output_file == nullptr))                                                  \
      bad += " _output_file";                                                                                          \
    if (a->_next_index != b->_next_index)                                                                              \
      bad += " _next_index";                                                                                           \
  }
        CMP_OUTPUT(UniformRandomPhotonSourceDistribution)
        CMP_OUTPUT(DiscPatchPhotonSourceDistribution)
        CMP_OUTPUT(CaproniPhotonSourceDistribution)
        if (!bad.empty()) {
          // writing or updating or destroying the restored object would go through the garbage pointer
          oracle("restored-state-differs " + real + ":" + bad + " (not set by the restart constructor when no source output file is open)");
          delete psd;
          return c;
        }
      }
      {
        RestartWriter w2(path + ".w2");
        if (factory)
          PhotonSourceDistributionFactory::write_restart_file(w2, *p2);
        else
          p2->write_restart_file(w2);
      }
      // continuation: same sources now and after the next update
      for (int round = 0; round < 2; ++round) {
        bool ok = psd->get_number_of_sources() == p2->get_number_of_sources() &&
                  same(psd->get_total_luminosity(), p2->get_total_luminosity());
        for (photonsourcenumber_t i = 0; ok && i < psd->get_number_of_sources(); ++i)
          ok = samev(psd->get_position(i), p2->get_position(i)) && same(psd->get_weight(i), p2->get_weight(i));
        if (!ok) {
          oracle(std::string(round == 0 ? "restored-state-differs " : "continuation-differs ") + real + " sources");
          break;
        }
        psd->update(tnext);
        p2->update(tnext);
      }
      delete p2;
    }
    if (slurp(path + ".w2") != c.bytes)
      oracle("write-read-write-differs " + real);
    if (rle(slurp("restart_reader_info.txt")) != rle(c.winfo))
      oracle("reader-log-differs " + real);
    unlink((path + ".w2").c_str());
    delete psd;
    return c;
  }
}

int main() {
  std::string line;
  while (std::getline(std::cin, line)) {
    ++g_line;
    const std::vector< std::string > w = words(line);
    if (w.size() >= 5 && w[0] == "comp") {
      g_state = u64(w[4]) * 0x2545F4914F6CDD1Dull + 12345;
      // the size logs are written to the current directory
      const std::string dir = w[3].substr(0, w[3].rfind('/'));
      if (chdir(dir.c_str()) != 0) {
        std::cout << "comp " << w[1] << " " << w[2] << " cannot-chdir" << std::endl;
        continue;
      }
      std::cout.flush();
      const pid_t pid = fork();
      if (pid == 0) {
        const Cycle c = run_case(w[1], w[3]);
        if (c.winfo == "unknown-class")
          std::cout << "comp " << w[1] << " " << w[2] << " no-such-class" << std::endl;
        else
          std::cout << "comp " << w[1] << " " << w[2] << " bytes=" << c.bytes.size() << " fnv=" << fnv(c.bytes) << " info=" << rle(c.winfo)
                    << std::endl;
        for (auto &o : g_oracle)
          std::cout << o << std::endl;
        std::cout.flush();
        _exit(0);
      }
      int status = 0;
      waitpid(pid, &status, 0);
      if (!WIFEXITED(status) || WEXITSTATUS(status) != 0) {
        std::cout << "comp " << w[1] << " " << w[2] << " crashed" << std::endl;
        std::cout << "ORACLE line=" << g_line << " impl-crash " << w[1] << " status " << status
                  << (WIFSIGNALED(status) ? " signal " + std::to_string(WTERMSIG(status)) : std::string("")) << std::endl;
      }
    } else {
      std::cout << "bad-op" << std::endl;
    }
    for (auto &o : g_oracle)
      std::cout << o << std::endl;
    g_oracle.clear();
  }
  return 0;
}
