// C13 harness, part 2: OWNERSHIP of the per-thread random streams.  Drives the real task
// contexts (SourceDiscretePhotonTaskContext, PhotonReemitTaskContext) constructed the way
// TaskBasedIonizationSimulation constructs them (with the driver's vector of per-thread
// generators, new contexts every iteration), executes tasks and checks ON THE CALLER'S
// GENERATORS that
//  (1) the generator of the executing thread advanced by exactly the number of draws the task
//      consumed (draws of the stub spectrum / stub re-emission handler, counted by the stubs,
//      + 3 per emitted packet),
//  (2) no other thread's generator moved,
//  (3) every emitted packet carries the values of the stream positions that come next in the
//      thread's stream (no position handed out twice or skipped, also across contexts).
// Op:  ctx <seed> <nthreads> <tok>...   tok = I (new iteration: new contexts)
//                                            | S<thread>:<npackets> | R<thread>
// Answer: ctx {<thread>:<draws>:<emitted>:<hash of the tau bit patterns>}   (compared with Lean)
// Op:  own   -> "own a b c": the three contexts hold the generators BY REFERENCE (static check)
#include "common.hpp"
#include <type_traits>
#define private public
#include "RandomGenerator.hpp"
#include "DensitySubGridCreator.hpp"
#include "DistributedPhotonSource.hpp"
#include "PhotonReemitTaskContext.hpp"
#include "SourceContinuousPhotonTaskContext.hpp"
#include "SourceDiscretePhotonTaskContext.hpp"
#undef private

static uint64_t g_stub_draws = 0;
static RandomGenerator *g_stub_generator = nullptr; // generator the stubs were handed last

class StubSpectrum : public PhotonSourceSpectrum {
public:
  virtual double get_random_frequency(RandomGenerator &rg, double = 0.) const {
    ++g_stub_draws;
    g_stub_generator = &rg;
    return 3.3e15 * (1. + rg.get_uniform_random_double());
  }
  virtual double get_total_flux() const { return 1.; }
};
class StubCross : public CrossSections {
public:
  virtual double get_cross_section(const int_fast32_t, const double) const { return 1.e-22; }
};
// re-emits a packet iff its draw is < 0.5
class StubHandler : public DiffuseReemissionHandler {
public:
  virtual double reemit(const Photon &, double, const IonizationVariables &, RandomGenerator &,
                        PhotonType &) const {
    return 0.;
  }
  virtual double reemit(const PhotonPacket &, const double, const IonizationVariables &,
                        RandomGenerator &rg, PhotonType &type) const {
    ++g_stub_draws;
    g_stub_generator = &rg;
    type = PHOTONTYPE_DIFFUSE_HI;
    return (rg.get_uniform_random_double() < 0.5) ? 3.3e15 : 0.;
  }
};
class OneSource : public PhotonSourceDistribution {
public:
  virtual photonsourcenumber_t get_number_of_sources() const { return 1; }
  virtual CoordinateVector<> get_position(photonsourcenumber_t) {
    return CoordinateVector<>(0.5, 0.5, 0.5);
  }
  virtual double get_weight(photonsourcenumber_t) const { return 1.; }
  virtual double get_total_luminosity() const { return 1.; }
};

static bool same_state(const RandomGenerator &a, const RandomGenerator &b) {
  return std::memcmp(a._xdbl, b._xdbl, sizeof(a._xdbl)) == 0 &&
         bits_of(a._carry) == bits_of(b._carry) && a._ir == b._ir && a._jr == b._jr &&
         a._ir_old == b._ir_old && a._pr == b._pr;
}
static inline void mix(uint64_t &h, double v) {
  h = h * 6364136223846793005ull + bits_of(v) + 1442695040888963407ull;
}

int main() {
  std::string line;
  uint64_t lineno = 0, noracle = 0;
  while (std::getline(std::cin, line)) {
    ++lineno;
    auto w = words(line);
    std::ostringstream bad;
    if (w.size() == 1 && w[0] == "own") {
      std::cout << "own "
                << std::is_reference< decltype(
                       SourceDiscretePhotonTaskContext< DensitySubGrid >::_random_generators) >::value
                << " "
                << std::is_reference< decltype(
                       PhotonReemitTaskContext< DensitySubGrid >::_random_generators) >::value
                << " "
                << std::is_reference<
                       decltype(SourceContinuousPhotonTaskContext::_random_generators) >::value
                << "\n";
    } else if (w.size() >= 4 && w[0] == "ctx") {
      const long long seed = std::strtoll(w[1].c_str(), nullptr, 10);
      const size_t nthread = u64(w[2]);
      // the world of one driver run
      std::vector< RandomGenerator > gens(nthread); // the CALLER's generators
      for (size_t i = 0; i < nthread; ++i) gens[i].set_seed(seed + i);
      std::vector< RandomGenerator > ref(gens); // where every thread's stream should be
      DensitySubGridCreator< DensitySubGrid > creator(
          Box<>(CoordinateVector<>(0.), CoordinateVector<>(1.)),
          CoordinateVector< int_fast32_t >(2, 2, 2), CoordinateVector< int_fast32_t >(1, 1, 1),
          CoordinateVector< bool >(false));
      const double box[6] = {0., 0., 0., 1., 1., 1.};
      creator._subgrids[0] = new DensitySubGrid(box, CoordinateVector< int_fast32_t >(2, 2, 2));
      OneSource dist;
      DistributedPhotonSource< DensitySubGrid > source(1000000, dist, creator);
      MemorySpace buffers(64);
      ThreadSafeVector< Task > tasks(1024, "Tasks");
      StubSpectrum spectrum;
      StubCross cross;
      StubHandler handler;
      Abundances abundances;
      AtomicValue< uint_fast32_t > num_photon_done(0);
      SourceDiscretePhotonTaskContext< DensitySubGrid > *sctx = nullptr;
      PhotonReemitTaskContext< DensitySubGrid > *rctx = nullptr;
      long last_buffer = -1;
      std::cout << "ctx";
      for (size_t it = 3; it < w.size(); ++it) {
        const std::string &tok = w[it];
        if (tok == "I" || sctx == nullptr) {
          delete sctx;
          delete rctx;
          sctx = new SourceDiscretePhotonTaskContext< DensitySubGrid >(
              source, buffers, gens, 1., spectrum, abundances, cross, creator, tasks);
          rctx = new PhotonReemitTaskContext< DensitySubGrid >(
              buffers, gens, handler, abundances, cross, creator, tasks, num_photon_done);
          if (tok == "I") continue;
        }
        const size_t colon = tok.find(':');
        const size_t thread = u64(tok.substr(1, colon == std::string::npos ? std::string::npos : colon - 1));
        if (thread >= nthread) { std::cout << " bad-token"; continue; }
        uint_fast32_t tasks_to_add[8];
        int_fast32_t queues_to_add[8];
        g_stub_draws = 0;
        g_stub_generator = nullptr;
        size_t emitted = 0;
        uint64_t h = 0;
        RandomGenerator walk(ref[thread]); // replays the positions the packets must come from
        bool values_ok = true;
        if (tok[0] == 'S') {
          const size_t n = u64(tok.substr(colon + 1));
          Task t;
          t.set_subgrid(0);
          t.set_buffer(n);
          sctx->execute(thread, nullptr, tasks_to_add, queues_to_add, t);
          last_buffer = tasks[tasks_to_add[0]].get_buffer();
          PhotonBuffer &b = buffers[last_buffer];
          emitted = b.size();
          for (size_t i = 0; i < b.size(); ++i) {
            const double u1 = walk.get_uniform_random_double();
            walk.get_uniform_random_double();
            const double u3 = walk.get_uniform_random_double();
            walk.get_uniform_random_double(); // the spectrum's draw
            // (PhotonPacket::set_direction renormalises: z only to 1e-15, tau bit for bit)
            if (!(std::fabs(b[i].get_direction().z() - (2. * u1 - 1.)) <= 1.e-15) ||
                bits_of(b[i].get_target_optical_depth()) != bits_of(-std::log(u3)))
              values_ok = false;
            mix(h, b[i].get_target_optical_depth());
          }
        } else if (tok[0] == 'R' && last_buffer >= 0) {
          const size_t before = buffers[last_buffer].size();
          Task t;
          t.set_subgrid(0);
          t.set_buffer(last_buffer);
          const uint_fast32_t nnew = rctx->execute(thread, nullptr, tasks_to_add, queues_to_add, t);
          // expected survivors, from the positions that come next in the thread's stream
          std::vector< std::pair< double, double > > expect;
          for (size_t i = 0; i < before; ++i) {
            if (walk.get_uniform_random_double() < 0.5) {
              const double u1 = walk.get_uniform_random_double();
              walk.get_uniform_random_double();
              const double u3 = walk.get_uniform_random_double();
              expect.push_back(std::make_pair(2. * u1 - 1., -std::log(u3)));
            }
          }
          if (nnew > 0) {
            PhotonBuffer &b = buffers[last_buffer];
            emitted = b.size();
            if (emitted != expect.size()) values_ok = false;
            for (size_t i = 0; i < b.size(); ++i) {
              if (i < expect.size() &&
                  (!(std::fabs(b[i].get_direction().z() - expect[i].first) <= 1.e-15) ||
                   bits_of(b[i].get_target_optical_depth()) != bits_of(expect[i].second)))
                values_ok = false;
              mix(h, b[i].get_target_optical_depth());
            }
          } else {
            emitted = 0;
            if (!expect.empty()) values_ok = false;
            last_buffer = -1; // the context released the buffer
          }
        } else {
          std::cout << " " << thread << ":-";
          continue;
        }
        const uint64_t consumed = g_stub_draws + 3 * emitted;
        std::cout << " " << thread << ":" << consumed << ":" << emitted << ":" << h;
        // ---- oracle on the caller's generators ----
        for (uint64_t k = 0; k < consumed; ++k) ref[thread].get_uniform_random_double();
        if (!same_state(gens[thread], ref[thread]))
          bad << " generator-of-the-executing-thread-did-not-advance-by-the-draws-consumed";
        for (size_t j = 0; j < nthread; ++j)
          if (j != thread && !same_state(gens[j], ref[j])) bad << " generator-of-another-thread-moved";
        if (g_stub_generator != nullptr && g_stub_generator != &gens[thread])
          bad << " task-drew-from-a-generator-that-is-not-the-callers";
        if (!values_ok) bad << " packet-not-drawn-from-the-next-positions-of-the-thread-stream";
      }
      std::cout << "\n";
      delete sctx;
      delete rctx;
    } else {
      std::cout << "bad-op\n";
    }
    if (!bad.str().empty() && ++noracle <= 25)
      std::cout << "ORACLE line=" << lineno << bad.str() << "\n";
  }
  return 0;
}
