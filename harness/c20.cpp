// C20 harness: the real YAMLDictionary / ParameterFile / UnitConverter / Unit on the op lines of
// tools/props/c20.py.  Strings are hex encoded ("-" = empty).  cmac_error is turned into an
// exception so that a rejected input gives the answer "err" instead of killing the harness.
#include "common.hpp"
#include <cctype>
#include <fstream>
#include <map>
#include <stdexcept>

#include "Error.hpp"
#undef cmac_error
struct HarnessError {};
#define cmac_error(s, ...)                                                                         \
  { throw HarnessError(); }

#define private public
#include "ParameterFile.hpp"
#include "UnitConverter.hpp"
#undef private
// the two non-inline members of ParameterFile (src/ParameterFile.cpp)
#include "ParameterFile.cpp"

static int hexval(char c) {
  if (c >= '0' && c <= '9')
    return c - '0';
  if (c >= 'a' && c <= 'f')
    return c - 'a' + 10;
  if (c >= 'A' && c <= 'F')
    return c - 'A' + 10;
  return 0;
}
static std::string unhex(const std::string &s) {
  if (s == "-")
    return "";
  std::string r;
  for (size_t i = 0; i + 1 < s.size(); i += 2)
    r.push_back((char)(16 * hexval(s[i]) + hexval(s[i + 1])));
  return r;
}
static std::string hex(const std::string &s) {
  if (s.empty())
    return "-";
  static const char *d = "0123456789abcdef";
  std::string r;
  for (unsigned char c : s) {
    r.push_back(d[c >> 4]);
    r.push_back(d[c & 15]);
  }
  return r;
}

typedef std::map< std::string, std::string > Map;

static std::string show_dict(const Map &m) {
  std::string r;
  for (auto &kv : m) {
    r += kv.first;
    r.push_back((char)31);
    r += kv.second;
    r.push_back((char)30);
  }
  return r;
}

static YAMLDictionary parse(const std::string &text) {
  std::istringstream is(text);
  return YAMLDictionary(is);
}
static std::string print(const YAMLDictionary &d, bool used = false) {
  std::ostringstream os;
  d.print_contents(os, used);
  return os.str();
}

static long lineno = 0;

// ---------------------------------------------------------------- yaml round trip
static void op_yaml(const std::string &text) {
  YAMLDictionary d;
  try {
    d = parse(text);
  } catch (HarnessError &) {
    std::printf("err\n");
    return;
  }
  const std::string out = print(d);
  std::printf("ok %zu %s %s\n", d._dictionary.size(), hex(out).c_str(),
              hex(show_dict(d._dictionary)).c_str());
  // the property on the implementation: parse(print(d)) = d and print is idempotent
  try {
    YAMLDictionary d2 = parse(out);
    if (d2._dictionary != d._dictionary) {
      std::string what;
      for (auto &kv : d._dictionary) {
        auto it = d2._dictionary.find(kv.first);
        if (it == d2._dictionary.end()) {
          what = "key lost: " + kv.first;
          break;
        }
        if (it->second != kv.second) {
          what = "value of " + kv.first + " changed to " + it->second;
          break;
        }
      }
      if (what.empty())
        for (auto &kv : d2._dictionary)
          if (!d._dictionary.count(kv.first)) {
            what = "key appeared: " + kv.first;
            break;
          }
      std::printf("ORACLE line=%ld yaml-roundtrip-differs (%s)\n", lineno, what.c_str());
    }
    const std::string out2 = print(d2);
    if (out2 != out)
      std::printf("ORACLE line=%ld yaml-print-not-idempotent\n", lineno);
  } catch (HarnessError &) {
    std::printf("ORACLE line=%ld yaml-printed-file-rejected by the parser\n", lineno);
  }
}

// ---------------------------------------------------------------- used-values dump, injected
static void op_used(const std::vector< std::string > &w) {
  YAMLDictionary d;
  try {
    d = parse(unhex(w[1]));
  } catch (HarnessError &) {
    std::printf("err\n");
    return;
  }
  for (size_t i = 2; i + 1 < w.size(); i += 2)
    d._used_values[unhex(w[i])] = unhex(w[i + 1]);
  const std::string out = print(d, true);
  std::printf("ok %s\n", hex(out).c_str());
  // feeding the dump back: every key carries its used value (or "value not used")
  try {
    YAMLDictionary d2 = parse(out);
    for (auto &kv : d._dictionary) {
      const std::string expect =
          d._used_values.count(kv.first) ? d._used_values.at(kv.first) : "value not used";
      auto it = d2._dictionary.find(kv.first);
      if (it == d2._dictionary.end() || it->second != expect) {
        std::printf("ORACLE line=%ld used-dump-not-reproduced (key %s: expected '%s' got '%s')\n",
                    lineno, kv.first.c_str(), expect.c_str(),
                    it == d2._dictionary.end() ? "<missing>" : it->second.c_str());
        break;
      }
    }
    if (d2._dictionary.size() != d._dictionary.size())
      std::printf("ORACLE line=%ld used-dump-not-reproduced (number of keys %zu -> %zu)\n", lineno,
                  d._dictionary.size(), d2._dictionary.size());
  } catch (HarnessError &) {
    std::printf("ORACLE line=%ld used-dump-rejected by the parser\n", lineno);
  }
}

// ---------------------------------------------------------------- typed queries through ParameterFile
#define QCASES(X)                                                                                  \
  X(0) X(1) X(2) X(3) X(4) X(5) X(6) X(7) X(8) X(9) X(10) X(11) X(12) X(13) X(14) X(15) X(16)     \
  X(17) X(18) X(19) X(20) X(21) X(22) X(23) X(24) X(25)

static double phys(ParameterFile &p, int q, const std::string &key, bool has_def,
                   const std::string &def) {
  switch (q) {
#define X(n)                                                                                       \
  case n:                                                                                          \
    return has_def ? p.get_physical_value< (Quantity)n >(key, def)                                 \
                   : p.get_physical_value< (Quantity)n >(key);
    QCASES(X)
#undef X
  }
  throw HarnessError();
}
static CoordinateVector<> physv(ParameterFile &p, int q, const std::string &key, bool has_def,
                                const std::string &def) {
  switch (q) {
#define X(n)                                                                                       \
  case n:                                                                                          \
    return has_def ? p.get_physical_vector< (Quantity)n >(key, def)                                \
                   : p.get_physical_vector< (Quantity)n >(key);
    QCASES(X)
#undef X
  }
  throw HarnessError();
}
static double to_si(int q, double v, const std::string &u) {
  switch (q) {
#define X(n)                                                                                       \
  case n:                                                                                          \
    return UnitConverter::to_SI< (Quantity)n >(v, u);
    QCASES(X)
#undef X
  }
  throw HarnessError();
}
static double to_unit(int q, double v, const std::string &u) {
  switch (q) {
#define X(n)                                                                                       \
  case n:                                                                                          \
    return UnitConverter::to_unit< (Quantity)n >(v, u);
    QCASES(X)
#undef X
  }
  throw HarnessError();
}

// result of one query as a list of "kind:value" strings; doubles as bit patterns
static std::vector< std::string > run_query(ParameterFile &p, const std::string &spec) {
  // spec = type:hexkey[:hexdefault]
  std::vector< std::string > f;
  {
    std::istringstream is(spec);
    std::string t;
    while (std::getline(is, t, ':'))
      f.push_back(t);
  }
  const std::string type = f.at(0);
  const std::string key = unhex(f.at(1));
  const bool has_def = f.size() > 2;
  const std::string def = has_def ? unhex(f[2]) : "";
  std::vector< std::string > r;
  if (type == "i") {
    const long v = has_def ? p.get_value< long >(key, Utilities::convert< long >(def))
                           : p.get_value< long >(key);
    r.push_back("i" + std::to_string(v));
  } else if (type == "d") {
    const double v = has_def ? p.get_value< double >(key, Utilities::convert< double >(def))
                             : p.get_value< double >(key);
    r.push_back("d" + showF(v));
  } else if (type == "b") {
    const bool v = has_def ? p.get_value< bool >(key, Utilities::convert< bool >(def))
                           : p.get_value< bool >(key);
    r.push_back(v ? "btrue" : "bfalse");
  } else if (type == "s") {
    const std::string v =
        has_def ? p.get_value< std::string >(key, def) : p.get_value< std::string >(key);
    r.push_back("s" + hex(v));
  } else if (type == "v") {
    const CoordinateVector<> v =
        has_def ? p.get_value< CoordinateVector<> >(
                      key, Utilities::convert< CoordinateVector<> >(def))
                : p.get_value< CoordinateVector<> >(key);
    for (int i = 0; i < 3; ++i)
      r.push_back("d" + showF(v[i]));
  } else if (type == "vi") {
    const CoordinateVector< long > v =
        has_def ? p.get_value< CoordinateVector< long > >(
                      key, Utilities::convert< CoordinateVector< long > >(def))
                : p.get_value< CoordinateVector< long > >(key);
    for (int i = 0; i < 3; ++i)
      r.push_back("i" + std::to_string(v[i]));
  } else if (type == "vb") {
    const CoordinateVector< bool > v =
        has_def ? p.get_value< CoordinateVector< bool > >(
                      key, Utilities::convert< CoordinateVector< bool > >(def))
                : p.get_value< CoordinateVector< bool > >(key);
    for (int i = 0; i < 3; ++i)
      r.push_back(v[i] ? "btrue" : "bfalse");
  } else if (type.size() > 1 && type[0] == 'p' && type[1] != 'v') {
    r.push_back("d" + showF(phys(p, std::atoi(type.c_str() + 1), key, has_def, def)));
  } else if (type.size() > 2 && type[0] == 'p' && type[1] == 'v') {
    const CoordinateVector<> v = physv(p, std::atoi(type.c_str() + 2), key, has_def, def);
    for (int i = 0; i < 3; ++i)
      r.push_back("d" + showF(v[i]));
  } else {
    throw HarnessError();
  }
  return r;
}

static bool same_value(const std::string &a, const std::string &b, double rel) {
  if (a == b)
    return true;
  if (a.empty() || b.empty() || a[0] != 'd' || b[0] != 'd')
    return false;
  if (a == "dnan" || b == "dnan")
    return false;
  const double x = dbl(a.substr(1)), y = dbl(b.substr(1));
  return std::fabs(x - y) <= rel * std::max(std::fabs(x), std::fabs(y));
}

static ParameterFile pf_from_text(const std::string &text) {
  ParameterFile p;
  std::istringstream is(text);
  p._yaml_dictionary = YAMLDictionary(is);
  return p;
}

static void op_query(const std::vector< std::string > &w) {
  // query <hex text> <spec>...   answer: ok <hex used-dump> <hex plain print> <hexkey> <hexused> ...
  try {
    ParameterFile p = pf_from_text(unhex(w[1]));
    std::vector< std::vector< std::string > > first;
    for (size_t i = 2; i < w.size(); ++i)
      first.push_back(run_query(p, w[i]));
    std::ostringstream os;
    p.print_contents(os); // the used-values dump, with the time stamp comment
    const std::string dump = os.str();
    std::string ans = "ok " + hex(dump) + " " + hex(print(p._yaml_dictionary));
    for (auto it = p.begin(); it != p.end(); ++it)
      ans += " " + hex(it.get_key()) + " " + hex(it.get_value());
    std::printf("%s\n", ans.c_str());
    // feed the dump back as a parameter file and repeat the same queries
    try {
      ParameterFile p2 = pf_from_text(dump);
      for (size_t i = 2; i < w.size(); ++i) {
        // every key queried the first time is now present: the default must not matter
        std::vector< std::string > second = run_query(p2, w[i]);
        bool same = second.size() == first[i - 2].size();
        for (size_t k = 0; same && k < second.size(); ++k)
          same = same_value(first[i - 2][k], second[k], 1.e-5);
        if (!same) {
          std::string a, b;
          for (auto &s : first[i - 2])
            a += s + ",";
          for (auto &s : second)
            b += s + ",";
          std::printf("ORACLE line=%ld used-dump-value-differs (query %s first=%s fed-back=%s)\n",
                      lineno, w[i].c_str(), a.c_str(), b.c_str());
        }
      }
    } catch (HarnessError &) {
      std::printf("ORACLE line=%ld used-dump-rejected when fed back as a parameter file\n", lineno);
    } catch (std::exception &e) {
      std::printf("ORACLE line=%ld used-dump-rejected when fed back (%s)\n", lineno, e.what());
    }
  } catch (HarnessError &) {
    std::printf("err\n");
  } catch (std::exception &) {
    std::printf("err\n");
  }
}

// ---------------------------------------------------------------- units
static std::string show_unit(const Unit &u) {
  std::ostringstream o;
  o << showF(u._value) << " " << u._length << " " << u._time << " " << u._mass << " "
    << u._temperature << " " << u._current << " " << u._angle;
  return o.str();
}
static bool close(double a, double b, double rel) {
  return a == b || std::fabs(a - b) <= rel * std::max(std::fabs(a), std::fabs(b));
}

// part = name or name^p (as generated): mathematical value of the part from the table
static bool part_reference(const std::string &part, double &value, long e[6]) {
  size_t hat = part.find('^');
  std::string name = part.substr(0, hat);
  while (!name.empty() && name.back() == ' ')
    name.pop_back();
  size_t a = 0;
  while (a < name.size() && !isalpha((unsigned char)name[a]))
    ++a;
  name = name.substr(a);
  long p = 1;
  if (hat != std::string::npos)
    p = std::strtol(part.c_str() + hat + 1, nullptr, 10);
  const Unit u = UnitConverter::get_single_unit(name);
  value = std::pow(u._value, (double)p);
  const long ue[6] = {(long)u._length, (long)u._time,    (long)u._mass,
                      (long)u._temperature, (long)u._current, (long)u._angle};
  for (int i = 0; i < 6; ++i)
    e[i] = ue[i] * p;
  return p == 0;
}

static void op_compound(const std::vector< std::string > &w) {
  std::string whole;
  for (size_t i = 1; i < w.size(); ++i)
    whole += (i > 1 ? " " : "") + unhex(w[i]);
  Unit u(0., 0, 0, 0, 0, 0, 0);
  try {
    u = UnitConverter::get_unit(whole);
  } catch (HarnessError &) {
    std::printf("err\n");
    return;
  } catch (std::exception &) {
    std::printf("err\n");
    return;
  }
  std::printf("ok %s\n", show_unit(u).c_str());
  // oracle: compound = product of its parts, a part name^p = (table value)^p
  try {
    double prod = 1.;
    long e[6] = {0, 0, 0, 0, 0, 0};
    double prod_parts = 1.;
    bool zero_pow = false;
    for (size_t i = 1; i < w.size(); ++i) {
      double v;
      long pe[6];
      zero_pow |= part_reference(unhex(w[i]), v, pe);
      prod *= v;
      for (int k = 0; k < 6; ++k)
        e[k] += pe[k];
      prod_parts *= UnitConverter::get_unit(unhex(w[i]))._value;
    }
    const long ue[6] = {(long)u._length, (long)u._time,    (long)u._mass,
                        (long)u._temperature, (long)u._current, (long)u._angle};
    bool exps_ok = true;
    for (int k = 0; k < 6; ++k)
      exps_ok &= ue[k] == e[k];
    if (!exps_ok)
      std::printf("ORACLE line=%ld units-compound-exponents (\"%s\")\n", lineno, whole.c_str());
    if (!close(u._value, prod_parts, 1.e-14))
      std::printf("ORACLE line=%ld units-compound-not-product-of-parts (\"%s\": %.17g vs %.17g)\n",
                  lineno, whole.c_str(), u._value, prod_parts);
    if (!close(u._value, prod, 1.e-13)) {
      if (zero_pow)
        std::printf("ORACLE line=%ld units-pow-zero (\"%s\" has value %.17g, the product of the "
                    "powers of the table values is %.17g: x^0 keeps the value of x)\n",
                    lineno, whole.c_str(), u._value, prod);
      else
        std::printf("ORACLE line=%ld units-power-wrong (\"%s\": %.17g vs %.17g)\n", lineno,
                    whole.c_str(), u._value, prod);
    }
  } catch (...) {
  }
}

static void op_conv(const std::vector< std::string > &w) {
  const bool tosi = w[0] == "tosi";
  const int q = std::atoi(w[1].c_str());
  const double v = dbl(w[2]);
  const std::string u = unhex(w[3]);
  double r;
  try {
    r = tosi ? to_si(q, v, u) : to_unit(q, v, u);
  } catch (HarnessError &) {
    std::printf("err\n");
    return;
  } catch (std::exception &) {
    std::printf("err\n");
    return;
  }
  std::printf("ok %s\n", showF(r).c_str());
  try {
    const double back = tosi ? to_unit(q, r, u) : to_si(q, r, u);
    if (std::isfinite(r) && std::isfinite(v) && r != 0. && v != 0. && !close(back, v, 1.e-14))
      std::printf("ORACLE line=%ld units-toSI-toUnit-not-inverse (quantity %d, %.17g \"%s\": %.17g "
                  "-> back %.17g)\n",
                  lineno, q, v, u.c_str(), r, back);
  } catch (...) {
    std::printf("ORACLE line=%ld units-inverse-conversion-rejected (quantity %d \"%s\")\n", lineno, q,
                u.c_str());
  }
}

int main() {
  std::string line;
  while (std::getline(std::cin, line)) {
    ++lineno;
    const std::vector< std::string > w = words(line);
    if (w.empty()) {
      std::printf("bad-op\n");
      continue;
    }
    if (w[0] == "yaml" && w.size() == 2) {
      op_yaml(unhex(w[1]));
    } else if (w[0] == "used" && w.size() >= 2) {
      op_used(w);
    } else if (w[0] == "query" && w.size() >= 2) {
      op_query(w);
    } else if (w[0] == "single" && w.size() == 2) {
      try {
        std::printf("ok %s\n", show_unit(UnitConverter::get_single_unit(unhex(w[1]))).c_str());
      } catch (HarnessError &) {
        std::printf("err\n");
      }
    } else if (w[0] == "tablerel" && w.size() == 4) {
      // tablerel <a> <factor> <b>: the table must satisfy a = factor * b
      try {
        const Unit ua = UnitConverter::get_single_unit(unhex(w[1]));
        const Unit ub = UnitConverter::get_single_unit(unhex(w[3]));
        const double a = ua._value;
        const double b = ub._value;
        const double f = std::strtod(w[2].c_str(), nullptr);
        std::printf("ok\n");
        if (!ua.is_same_quantity(ub))
          std::printf("ORACLE line=%ld units-table-inconsistent (%s and %s have different dimensions)\n",
                      lineno, unhex(w[1]).c_str(), unhex(w[3]).c_str());
        if (!close(a, f * b, 1.e-15))
          std::printf("ORACLE line=%ld units-table-inconsistent (1 %s = %.17g, but %s * 1 %s = %.17g)\n",
                      lineno, unhex(w[1]).c_str(), a, w[2].c_str(), unhex(w[3]).c_str(), f * b);
      } catch (HarnessError &) {
        std::printf("err\n");
      }
    } else if (w[0] == "unit" && w.size() == 2) {
      try {
        std::printf("ok %s\n", show_unit(UnitConverter::get_unit(unhex(w[1]))).c_str());
      } catch (HarnessError &) {
        std::printf("err\n");
      } catch (std::exception &) {
        std::printf("err\n");
      }
    } else if (w[0] == "compound" && w.size() >= 2) {
      op_compound(w);
    } else if ((w[0] == "tosi" || w[0] == "tounit") && w.size() == 4) {
      op_conv(w);
    } else if (w[0] == "convert" && w.size() == 4) {
      try {
        std::printf("ok %s\n",
                    showF(UnitConverter::convert(dbl(w[1]), unhex(w[2]), unhex(w[3]))).c_str());
      } catch (HarnessError &) {
        std::printf("err\n");
      } catch (std::exception &) {
        std::printf("err\n");
      }
    } else {
      std::printf("bad-op\n");
    }
    std::fflush(stdout);
  }
  return 0;
}
