// C20, HDF5 clause (search-only experiment, no Lean model): write a Cartesian grid with the real
// GadgetDensityGridWriter, read the file back with the real CMacIonizeSnapshotDensityFunction on
// the same geometry, compare number density, temperature and neutral fractions cell by cell.
// op line:  snap <nx> <ny> <nz> <ax> <ay> <az> <sx> <sy> <sz> <seed>     (box in metres, bit patterns)
// answer:   ok <ncell> maxrel=<..>   (+ ORACLE line when a cell differs by more than 1e-12 relative)
// op line:  snapb <nx> <ny> <nz> <gx> <gy> <gz> <ax> <ay> <az> <sx> <sy> <sz> <buffer> <seed>
//           task-based snapshot: nx x ny x nz cells in gx x gy x gz subgrids, written through the
//           writer's DensitySubGridCreator overload (density, temperature, one dataset per ion, all
//           position dependent), read back on the same geometry through
//           CMacIonizeSnapshotDensityFunction and - for cubic boxes with cubic cells, the only ones
//           it supports - BufferedCMacIonizeSnapshotDensityFunction (buffer of <buffer> subgrids,
//           cells visited in global order so that subgrids are evicted)
#include "common.hpp"
#include <unistd.h>

#define private public
#include "ParameterFile.hpp"
#undef private
#include "BufferedCMacIonizeSnapshotDensityFunction.hpp"
#include "CMacIonizeSnapshotDensityFunction.hpp"
#include "DensitySubGrid.hpp"
#include "DensitySubGridCreator.hpp"
#include "CartesianDensityGrid.hpp"
#include "DensityFunction.hpp"
#include "DensityGridWriterFields.hpp"
#include "GadgetDensityGridWriter.hpp"
#include "HDF5Tools.hpp"
#include "Hydro.hpp"
#include "HydroDensitySubGrid.hpp"

static uint64_t mix(uint64_t x) {
  x += 0x9e3779b97f4a7c15ull;
  x = (x ^ (x >> 30)) * 0xbf58476d1ce4e5b9ull;
  x = (x ^ (x >> 27)) * 0x94d049bb133111ebull;
  return x ^ (x >> 31);
}
static double unit01(uint64_t x) { return (mix(x) >> 11) * (1. / 9007199254740992.); }

// field values as a function of the integer cell index (so that writer and comparison agree on
// which value belongs to which cell independently of floating point positions)
struct Field {
  uint64_t seed;
  CoordinateVector<> anchor, sides;
  long n[3];
  long index(const CoordinateVector<> p) const {
    long i[3];
    for (int k = 0; k < 3; ++k) {
      i[k] = (long)std::floor((p[k] - anchor[k]) / sides[k] * n[k]);
      i[k] = std::max(0l, std::min(n[k] - 1, i[k]));
    }
    return (i[0] * n[1] + i[1]) * n[2] + i[2];
  }
  double dens(long c) const { return std::pow(10., -3. + 12. * unit01(seed * 7919 + 3 * c)); }
  double temp(long c) const { return 10. + 3.e4 * unit01(seed * 7919 + 3 * c + 1); }
  double xH(long c) const { return unit01(seed * 7919 + 3 * c + 2); }
  // neutral/ionic fraction of every ion the writer stores (ion 0 = H as before)
  double xion(long c, int ion) const {
    return ion == 0 ? xH(c) : unit01(mix(seed * 7919 + 3 * c + 2) + 1000003ull * ion);
  }
};

class FieldFunction : public DensityFunction {
public:
  Field f;
  virtual DensityValues operator()(const Cell &cell) {
    const long c = f.index(cell.get_cell_midpoint());
    DensityValues v;
    v.set_number_density(f.dens(c));
    v.set_temperature(f.temp(c));
    for (int ion = 0; ion < NUMBER_OF_IONNAMES; ++ion)
      v.set_ionic_fraction(ion, f.xion(c, ion));
    return v;
  }
};

class PointCell : public Cell {
  CoordinateVector<> _p;

public:
  PointCell(CoordinateVector<> p) : _p(p) {}
  virtual CoordinateVector<> get_cell_midpoint() const { return _p; }
  virtual std::vector< Face > get_faces() const { return std::vector< Face >(); }
  virtual double get_volume() const { return 0.; }
};

// compare what a reader returns at the midpoint of every cell (global x,y,z order) with the field
template < typename _reader_ >
static void compare(_reader_ &reader, const Field &f, const char *rname, double &maxrel,
                    std::string &what) {
  for (long ix = 0; ix < f.n[0]; ++ix)
    for (long iy = 0; iy < f.n[1]; ++iy)
      for (long iz = 0; iz < f.n[2]; ++iz) {
        const long c = (ix * f.n[1] + iy) * f.n[2] + iz;
        const CoordinateVector<> p(f.anchor[0] + (ix + 0.5) * f.sides[0] / f.n[0],
                                   f.anchor[1] + (iy + 0.5) * f.sides[1] / f.n[1],
                                   f.anchor[2] + (iz + 0.5) * f.sides[2] / f.n[2]);
        const DensityValues v = reader(PointCell(p));
        for (int k = 0; k < 2 + NUMBER_OF_IONNAMES; ++k) {
          const double got = k == 0   ? v.get_number_density()
                             : k == 1 ? v.get_temperature()
                                      : v.get_ionic_fraction(k - 2);
          const double want = k == 0 ? f.dens(c) : k == 1 ? f.temp(c) : f.xion(c, k - 2);
          const double rel = (got == want) ? 0.
                                           : std::fabs(got - want) /
                                                 std::max(std::fabs(got), std::fabs(want));
          if (rel > maxrel)
            maxrel = rel;
          if (!(rel <= 1.e-12) && what.empty()) {
            std::ostringstream o;
            o.precision(17);
            o << rname << ": "
              << (k == 0   ? std::string("number density")
                  : k == 1 ? std::string("temperature")
                           : "fraction of ion " + get_ion_name(k - 2))
              << " of cell (" << ix << "," << iy << "," << iz << "): written " << want << " read "
              << got;
            what = o.str();
          }
        }
      }
}

static void op_snapb(const std::vector< std::string > &w, const std::string &dir, long lineno) {
  // snapb nx ny nz gx gy gz ax ay az sx sy sz buffer seed
  Field f;
  long g[3];
  for (int k = 0; k < 3; ++k) {
    f.n[k] = std::atol(w[1 + k].c_str());
    g[k] = std::atol(w[4 + k].c_str());
    f.anchor[k] = dbl(w[7 + k]);
    f.sides[k] = dbl(w[10 + k]);
  }
  const long buffer = std::atol(w[13].c_str());
  f.seed = u64(w[14]);
  // the buffered reader only supports cubic boxes with cubic cells
  const bool cubic = f.n[0] == f.n[1] && f.n[1] == f.n[2] && f.sides[0] == f.sides[1] &&
                     f.sides[1] == f.sides[2];
  std::ostringstream pt;
  pt.precision(17);
  pt << "SimulationBox:\n  anchor: [" << f.anchor[0] << " m, " << f.anchor[1] << " m, " << f.anchor[2]
     << " m]\n  sides: [" << f.sides[0] << " m, " << f.sides[1] << " m, " << f.sides[2] << " m]\n"
     << "  periodicity: [false, false, false]\n"
     << "DensityGrid:\n  number of cells: [" << f.n[0] << ", " << f.n[1] << ", " << f.n[2] << "]\n"
     << "DensitySubGridCreator:\n  number of subgrids: [" << g[0] << ", " << g[1] << ", " << g[2]
     << "]\n  periodicity: [false, false, false]\n";
  ParameterFile params;
  {
    std::istringstream is(pt.str());
    params._yaml_dictionary = YAMLDictionary(is);
  }
  const CoordinateVector<> anchor =
      params.get_physical_vector< QUANTITY_LENGTH >("SimulationBox:anchor");
  const CoordinateVector<> sides =
      params.get_physical_vector< QUANTITY_LENGTH >("SimulationBox:sides");
  params.get_value< CoordinateVector< bool > >("SimulationBox:periodicity");
  Box<> box(anchor, sides);
  FieldFunction ff;
  ff.f = f;
  // the real task-based grid: the constructor reads (and thereby records as used) the number of
  // cells, the number of subgrids and the periodicity
  DensitySubGridCreator< DensitySubGrid > creator(box, params);
  creator.initialize(ff);

  uint_fast32_t fields[DENSITYGRIDFIELD_NUMBER];
  for (int_fast32_t p = 0; p < DENSITYGRIDFIELD_NUMBER; ++p)
    fields[p] = 0;
  fields[DENSITYGRIDFIELD_COORDINATES] = true;
  fields[DENSITYGRIDFIELD_NUMBER_DENSITY] = true;
  fields[DENSITYGRIDFIELD_TEMPERATURE] = true;
  // one dataset per ion: all of them
  fields[DENSITYGRIDFIELD_NEUTRAL_FRACTION] = (uint_fast32_t(1) << NUMBER_OF_IONNAMES) - 1;
  const std::string prefix = "snapb" + std::to_string(lineno) + "_";
  {
    GadgetDensityGridWriter writer(prefix, dir, false, DensityGridWriterFields(fields), nullptr);
    writer.write(creator, 0, params);
  }
  const std::string file = dir + "/" + prefix + "000.hdf5";
  double maxrel = 0.;
  std::string what_plain, what_buffered;
  {
    CMacIonizeSnapshotDensityFunction reader(file, false, false, 1.e-6, nullptr);
    reader.initialize();
    compare(reader, f, "CMacIonizeSnapshotDensityFunction", maxrel, what_plain);
    reader.free();
  }
  if (cubic) {
    BufferedCMacIonizeSnapshotDensityFunction reader(
        file, buffer, box, CoordinateVector< uint_fast32_t >(f.n[0], f.n[1], f.n[2]), nullptr);
    reader.initialize();
    compare(reader, f, "BufferedCMacIonizeSnapshotDensityFunction", maxrel, what_buffered);
    reader.free();
  }
  unlink(file.c_str());
  std::printf("ok %ld maxrel=%.3g %s\n", f.n[0] * f.n[1] * f.n[2], maxrel,
              cubic ? "both-readers" : "plain-reader");
  if (!what_plain.empty())
    std::printf("ORACLE line=%ld snapshot-roundtrip-differs (%s)\n", lineno, what_plain.c_str());
  if (!what_buffered.empty())
    std::printf("ORACLE line=%ld snapshot-buffered-roundtrip-differs (%s)\n", lineno,
                what_buffered.c_str());
  std::fflush(stdout);
}

// ---------------------------------------------------------------------------------------------
// snapidx <task|legacy> <nx> <ny> <nz> <gx> <gy> <gz> <B> <buffer>
// Index maps of the REAL writer and readers (compared with Model/Snapshot.lean): box anchor 0, cell
// size 1, every cell holds its own global one-index `cid` (density cid+1, temperature cid+1.25, ion
// k cid+1+(k+2)/64, all exact doubles).  Printed as FNV digests:
//   W: cid stored at every file position of NumberDensity (all other scalar datasets must agree)
//   C: the same decoded from the Coordinates dataset
//   P / R: file position whose value the plain / buffered reader returns for every cell (x,y,z order)
// <B> (block size found in the writer's source) is only used by the model.
class IdxFunction : public DensityFunction {
public:
  long n[3];
  virtual DensityValues operator()(const Cell &cell) {
    const CoordinateVector<> p = cell.get_cell_midpoint();
    const long cid = ((long)std::floor(p.x()) * n[1] + (long)std::floor(p.y())) * n[2] +
                     (long)std::floor(p.z());
    DensityValues v;
    v.set_number_density(cid + 1.);
    v.set_temperature(cid + 1.25);
    for (int ion = 0; ion < NUMBER_OF_IONNAMES; ++ion)
      v.set_ionic_fraction(ion, cid + 1. + (ion + 2) / 64.);
    return v;
  }
};

static uint64_t fnv(uint64_t h, uint64_t x) { return (h ^ x) * 1099511628211ull; }
static const uint64_t FNV0 = 14695981039346656037ull;
static const uint64_t NOPOS = 4294967295ull;

template < typename _reader_ >
static uint64_t reader_positions(_reader_ &reader, const long n[3], const std::vector< long > &inv,
                                 std::string &what, const char *rname) {
  uint64_t h = FNV0;
  const long total = n[0] * n[1] * n[2];
  for (long ix = 0; ix < n[0]; ++ix)
    for (long iy = 0; iy < n[1]; ++iy)
      for (long iz = 0; iz < n[2]; ++iz) {
        const long cid = (ix * n[1] + iy) * n[2] + iz;
        const DensityValues v = reader(PointCell(CoordinateVector<>(ix + 0.5, iy + 0.5, iz + 0.5)));
        const double d = v.get_number_density();
        const long got = (d >= 1. && d < total + 1.) ? (long)std::floor(d) - 1 : -1;
        h = fnv(h, (got >= 0 && inv[got] >= 0) ? (uint64_t)inv[got] : NOPOS);
        bool same = got == cid && v.get_temperature() == cid + 1.25;
        for (int ion = 0; same && ion < NUMBER_OF_IONNAMES; ++ion)
          same = v.get_ionic_fraction(ion) == cid + 1. + (ion + 2) / 64.;
        if (!same && what.empty()) {
          std::ostringstream o;
          o.precision(17);
          o << rname << ": cell (" << ix << "," << iy << "," << iz << ") = cell number " << cid
            << " gets density " << d << " temperature " << v.get_temperature() << " H fraction "
            << v.get_ionic_fraction(0);
          what = o.str();
        }
      }
  return h;
}

static void op_snapidx(const std::vector< std::string > &w, const std::string &dir, long lineno) {
  const bool legacy = w[1] == "legacy";
  long n[3], g[3];
  for (int k = 0; k < 3; ++k) {
    n[k] = std::atol(w[2 + k].c_str());
    g[k] = std::atol(w[5 + k].c_str());
  }
  const long buffer = std::atol(w[9].c_str());
  const long total = n[0] * n[1] * n[2];
  const bool cubic = !legacy && n[0] == n[1] && n[1] == n[2];
  std::ostringstream pt;
  pt << "SimulationBox:\n  anchor: [0. m, 0. m, 0. m]\n  sides: [" << n[0] << ". m, " << n[1] << ". m, "
     << n[2] << ". m]\n  periodicity: [false, false, false]\n"
     << "DensityGrid:\n" << (legacy ? "  type: Cartesian\n" : "") << "  number of cells: [" << n[0]
     << ", " << n[1] << ", " << n[2] << "]\n";
  if (!legacy)
    pt << "DensitySubGridCreator:\n  number of subgrids: [" << g[0] << ", " << g[1] << ", " << g[2]
       << "]\n  periodicity: [false, false, false]\n";
  ParameterFile params;
  {
    std::istringstream is(pt.str());
    params._yaml_dictionary = YAMLDictionary(is);
  }
  const CoordinateVector<> anchor =
      params.get_physical_vector< QUANTITY_LENGTH >("SimulationBox:anchor");
  const CoordinateVector<> sides =
      params.get_physical_vector< QUANTITY_LENGTH >("SimulationBox:sides");
  params.get_value< CoordinateVector< bool > >("SimulationBox:periodicity");
  Box<> box(anchor, sides);
  IdxFunction ff;
  for (int k = 0; k < 3; ++k)
    ff.n[k] = n[k];
  uint_fast32_t fields[DENSITYGRIDFIELD_NUMBER];
  for (int_fast32_t p = 0; p < DENSITYGRIDFIELD_NUMBER; ++p)
    fields[p] = 0;
  fields[DENSITYGRIDFIELD_COORDINATES] = true;
  fields[DENSITYGRIDFIELD_NUMBER_DENSITY] = true;
  fields[DENSITYGRIDFIELD_TEMPERATURE] = true;
  fields[DENSITYGRIDFIELD_NEUTRAL_FRACTION] = (uint_fast32_t(1) << NUMBER_OF_IONNAMES) - 1;
  const std::string prefix = "snapidx" + std::to_string(lineno) + "_";
  {
    GadgetDensityGridWriter writer(prefix, dir, false, DensityGridWriterFields(fields), nullptr);
    if (legacy) {
      params.get_value< std::string >("DensityGrid:type");
      const CoordinateVector< uint_fast32_t > nc =
          params.get_value< CoordinateVector< uint_fast32_t > >("DensityGrid:number of cells");
      CartesianDensityGrid grid(box, CoordinateVector< int_fast32_t >(nc.x(), nc.y(), nc.z()));
      std::pair< cellsize_t, cellsize_t > block = std::make_pair(0, grid.get_number_of_cells());
      grid.initialize(block, ff);
      writer.write(grid, 0, params);
    } else {
      DensitySubGridCreator< DensitySubGrid > creator(box, params);
      creator.initialize(ff);
      writer.write(creator, 0, params);
    }
  }
  const std::string file = dir + "/" + prefix + "000.hdf5";
  // the raw datasets
  std::string misaligned;
  uint64_t hw = FNV0, hc = FNV0;
  std::vector< long > inv(total, -1);
  {
    HDF5Tools::HDF5File h5 = HDF5Tools::open_file(file, HDF5Tools::HDF5FILEMODE_READ);
    HDF5Tools::HDF5Group grp = HDF5Tools::open_group(h5, "PartType0");
    const std::vector< double > dens = HDF5Tools::read_dataset< double >(grp, "NumberDensity");
    const std::vector< double > temp = HDF5Tools::read_dataset< double >(grp, "Temperature");
    const std::vector< CoordinateVector<> > coords =
        HDF5Tools::read_dataset< CoordinateVector<> >(grp, "Coordinates");
    std::vector< std::vector< double > > ions(NUMBER_OF_IONNAMES);
    for (int ion = 0; ion < NUMBER_OF_IONNAMES; ++ion)
      ions[ion] = HDF5Tools::read_dataset< double >(grp, "NeutralFraction" + get_ion_name(ion));
    HDF5Tools::close_group(grp);
    HDF5Tools::close_file(h5);
    for (long k = 0; k < total; ++k) {
      const double d = k < (long)dens.size() ? dens[k] : 0.;
      const long cid = (d >= 1. && d < total + 1. && d == std::floor(d)) ? (long)d - 1 : -1;
      hw = fnv(hw, cid >= 0 ? (uint64_t)cid : NOPOS);
      if (cid >= 0)
        inv[cid] = k;
      long ccid = -1;
      if (k < (long)coords.size()) {
        const long cx = (long)std::floor(coords[k].x()), cy = (long)std::floor(coords[k].y()),
                   cz = (long)std::floor(coords[k].z());
        if (cx >= 0 && cx < n[0] && cy >= 0 && cy < n[1] && cz >= 0 && cz < n[2])
          ccid = (cx * n[1] + cy) * n[2] + cz;
      }
      hc = fnv(hc, ccid >= 0 ? (uint64_t)ccid : NOPOS);
      if (misaligned.empty()) {
        std::ostringstream o;
        o.precision(17);
        if (ccid != cid)
          o << "position " << k << ": NumberDensity holds cell " << cid << ", Coordinates cell " << ccid;
        else if (k >= (long)temp.size() || temp[k] != d + 0.25)
          o << "position " << k << ": NumberDensity holds cell " << cid << ", Temperature "
            << (k < (long)temp.size() ? temp[k] : -1.);
        else
          for (int ion = 0; ion < NUMBER_OF_IONNAMES; ++ion)
            if (k >= (long)ions[ion].size() || ions[ion][k] != d + (ion + 2) / 64.) {
              o << "position " << k << ": NumberDensity holds cell " << cid << ", NeutralFraction"
                << get_ion_name(ion) << " holds " << (k < (long)ions[ion].size() ? ions[ion][k] : -1.)
                << " (cell " << (k < (long)ions[ion].size() ? std::floor(ions[ion][k]) - 1 : -1.)
                << ")";
              break;
            }
        misaligned = o.str();
      }
    }
  }
  std::string what_plain, what_buffered;
  uint64_t hp, hr = 0;
  {
    CMacIonizeSnapshotDensityFunction reader(file, false, false, 1.e-6, nullptr);
    reader.initialize();
    hp = reader_positions(reader, n, inv, what_plain, "CMacIonizeSnapshotDensityFunction");
    reader.free();
  }
  if (cubic) {
    BufferedCMacIonizeSnapshotDensityFunction reader(
        file, buffer, box, CoordinateVector< uint_fast32_t >(n[0], n[1], n[2]), nullptr);
    reader.initialize();
    hr = reader_positions(reader, n, inv, what_buffered, "BufferedCMacIonizeSnapshotDensityFunction");
    reader.free();
  }
  unlink(file.c_str());
  std::printf("ok %ld W=%" PRIu64 " C=%" PRIu64 " P=%" PRIu64 " R=", total, hw, hc, hp);
  if (cubic)
    std::printf("%" PRIu64 "\n", hr);
  else
    std::printf("-\n");
  if (!misaligned.empty())
    std::printf("ORACLE line=%ld snapshot-datasets-misaligned (%s)\n", lineno, misaligned.c_str());
  if (!what_plain.empty())
    std::printf("ORACLE line=%ld snapshot-roundtrip-differs (%s)\n", lineno, what_plain.c_str());
  if (!what_buffered.empty())
    std::printf("ORACLE line=%ld snapshot-buffered-roundtrip-differs (%s)\n", lineno,
                what_buffered.c_str());
  std::fflush(stdout);
}

// ---------------------------------------------------------------------------------------------
// snapfields <hydro> <nd> <rho> <T> <P> <frac> <vel> <useDensity> <usePressure> <nx> <ny> <nz> <gx> <gy> <gz> <buffer>
// Every combination of stored quantities: task-based grid (hydro subgrids when <hydro>=1, their
// primitive variables set by the real Hydro::ionization_to_hydro), the writer configured to store
// NumberDensity / Density / Temperature / Pressure / neutral fractions / Velocities as flagged,
// read back through both readers (plain reader with the two flags).  Cell state as a function of
// the cell number (same expressions as Driver/C20.lean):
//   n = (cid+1)*1e6, T = 100 + cid*3.7, x_H = (cid%97+1)/100  (1e-6, the readers' default, when
//   the fractions are not stored), other ions (ion+1)/64 + x_H/2, velocity (cid, -cid, 0.5)
// answer: ok <total> P=<n,T,xH bits per cell;...> R=<...|->
class StateFunction : public DensityFunction {
public:
  long n[3];
  bool fractions;
  static double dens(long cid) { return (double)(cid + 1) * 1.0e6; }
  static double temp(long cid) { return 100.0 + (double)cid * 3.7; }
  double xH(long cid) const { return fractions ? ((double)(cid % 97) + 1.0) / 100.0 : 1.0e-6; }
  double xion(long cid, int ion) const {
    return ion == 0 ? xH(cid) : (fractions ? (ion + 1) / 64. + xH(cid) / 2. : 1.0e-6);
  }
  virtual DensityValues operator()(const Cell &cell) {
    const CoordinateVector<> p = cell.get_cell_midpoint();
    const long cid = ((long)std::floor(p.x()) * n[1] + (long)std::floor(p.y())) * n[2] +
                     (long)std::floor(p.z());
    DensityValues v;
    v.set_number_density(dens(cid));
    v.set_temperature(temp(cid));
    for (int ion = 0; ion < NUMBER_OF_IONNAMES; ++ion)
      v.set_ionic_fraction(ion, xion(cid, ion));
    v.set_velocity(CoordinateVector<>((double)cid, -(double)cid, 0.5));
    return v;
  }
};

template < typename _reader_ >
static std::string read_states(_reader_ &reader, const StateFunction &sf, const bool check_velocity,
                               std::string &what, const char *rname) {
  std::string out;
  const long *n = sf.n;
  for (long ix = 0; ix < n[0]; ++ix)
    for (long iy = 0; iy < n[1]; ++iy)
      for (long iz = 0; iz < n[2]; ++iz) {
        const long cid = (ix * n[1] + iy) * n[2] + iz;
        const DensityValues v = reader(PointCell(CoordinateVector<>(ix + 0.5, iy + 0.5, iz + 0.5)));
        if (!out.empty())
          out += ";";
        out += showF(v.get_number_density()) + "," + showF(v.get_temperature()) + "," +
               showF(v.get_ionic_fraction(ION_H_n));
        // the property: the state that is read back is the state of the cell (round-off of the
        // conversions only)
        auto rel = [](double a, double b) {
          return a == b ? 0. : std::fabs(a - b) / std::max(std::fabs(a), std::fabs(b));
        };
        std::string bad;
        if (!(rel(v.get_number_density(), sf.dens(cid)) <= 1.e-13))
          bad = "number density";
        else if (!(rel(v.get_temperature(), sf.temp(cid)) <= 1.e-13))
          bad = "temperature";
        else {
          for (int ion = 0; ion < NUMBER_OF_IONNAMES && bad.empty(); ++ion)
            if (v.get_ionic_fraction(ion) != sf.xion(cid, ion))
              bad = "fraction of ion " + get_ion_name(ion);
          if (bad.empty() && check_velocity &&
              !(v.get_velocity().x() == (double)cid && v.get_velocity().y() == -(double)cid &&
                v.get_velocity().z() == 0.5))
            bad = "velocity";
        }
        if (!bad.empty() && what.empty()) {
          std::ostringstream o;
          o.precision(17);
          o << rname << ": " << bad << " of cell (" << ix << "," << iy << "," << iz << "): state n="
            << sf.dens(cid) << " T=" << sf.temp(cid) << " xH=" << sf.xH(cid) << ", read n="
            << v.get_number_density() << " T=" << v.get_temperature()
            << " xH=" << v.get_ionic_fraction(ION_H_n);
          what = o.str();
        }
      }
  return out;
}

static void op_snapfields(const std::vector< std::string > &w, const std::string &dir, long lineno) {
  const bool hydro = w[1] == "1", s_nd = w[2] == "1", s_rho = w[3] == "1", s_T = w[4] == "1",
             s_P = w[5] == "1", s_frac = w[6] == "1", s_vel = w[7] == "1", use_density = w[8] == "1",
             use_pressure = w[9] == "1";
  long n[3], g[3];
  for (int k = 0; k < 3; ++k) {
    n[k] = std::atol(w[10 + k].c_str());
    g[k] = std::atol(w[13 + k].c_str());
  }
  const long buffer = std::atol(w[16].c_str());
  const bool cubic = n[0] == n[1] && n[1] == n[2];
  std::ostringstream pt;
  pt << "SimulationBox:\n  anchor: [0. m, 0. m, 0. m]\n  sides: [" << n[0] << ". m, " << n[1] << ". m, "
     << n[2] << ". m]\n  periodicity: [false, false, false]\n"
     << "DensityGrid:\n  number of cells: [" << n[0] << ", " << n[1] << ", " << n[2] << "]\n"
     << "DensitySubGridCreator:\n  number of subgrids: [" << g[0] << ", " << g[1] << ", " << g[2]
     << "]\n  periodicity: [false, false, false]\n";
  ParameterFile params;
  {
    std::istringstream is(pt.str());
    params._yaml_dictionary = YAMLDictionary(is);
  }
  const CoordinateVector<> anchor =
      params.get_physical_vector< QUANTITY_LENGTH >("SimulationBox:anchor");
  const CoordinateVector<> sides =
      params.get_physical_vector< QUANTITY_LENGTH >("SimulationBox:sides");
  params.get_value< CoordinateVector< bool > >("SimulationBox:periodicity");
  Box<> box(anchor, sides);
  StateFunction sf;
  for (int k = 0; k < 3; ++k)
    sf.n[k] = n[k];
  sf.fractions = s_frac;
  uint_fast32_t fields[DENSITYGRIDFIELD_NUMBER];
  for (int_fast32_t p = 0; p < DENSITYGRIDFIELD_NUMBER; ++p)
    fields[p] = 0;
  fields[DENSITYGRIDFIELD_COORDINATES] = true;
  fields[DENSITYGRIDFIELD_NUMBER_DENSITY] = s_nd;
  fields[DENSITYGRIDFIELD_TEMPERATURE] = s_T;
  fields[DENSITYGRIDFIELD_NEUTRAL_FRACTION] = s_frac ? (uint_fast32_t(1) << NUMBER_OF_IONNAMES) - 1 : 0;
  if (hydro) {
    fields[DENSITYGRIDFIELD_DENSITY] = s_rho;
    fields[DENSITYGRIDFIELD_PRESSURE] = s_P;
    fields[DENSITYGRIDFIELD_VELOCITIES] = s_vel;
  }
  const std::string prefix = "snapfields" + std::to_string(lineno) + "_";
  {
    GadgetDensityGridWriter writer(prefix, dir, hydro, DensityGridWriterFields(fields), nullptr);
    if (hydro) {
      DensitySubGridCreator< HydroDensitySubGrid > creator(box, params);
      creator.initialize(sf);
      const Hydro hydro_scheme(5. / 3., 100., 1.e4, 1.e99, false);
      for (auto it = creator.begin(); it != creator.original_end(); ++it)
        (*it).initialize_hydrodynamic_variables(hydro_scheme, true);
      writer.write(creator, 0, params, 0.);
    } else {
      DensitySubGridCreator< DensitySubGrid > creator(box, params);
      creator.initialize(sf);
      writer.write(creator, 0, params);
    }
  }
  const std::string file = dir + "/" + prefix + "000.hdf5";
  std::string what_plain, what_buffered, sp, sr = "-";
  {
    CMacIonizeSnapshotDensityFunction reader(file, use_density, use_pressure, 1.e-6, nullptr);
    reader.initialize();
    sp = read_states(reader, sf, hydro && s_vel, what_plain, "CMacIonizeSnapshotDensityFunction");
    reader.free();
  }
  if (cubic) {
    BufferedCMacIonizeSnapshotDensityFunction reader(
        file, buffer, box, CoordinateVector< uint_fast32_t >(n[0], n[1], n[2]), nullptr);
    reader.initialize();
    // (the buffered reader does not read velocities)
    sr = read_states(reader, sf, false, what_buffered, "BufferedCMacIonizeSnapshotDensityFunction");
    reader.free();
  }
  unlink(file.c_str());
  std::printf("ok %ld P=%s R=%s\n", n[0] * n[1] * n[2], sp.c_str(), sr.c_str());
  const std::string combo = std::string("stored:") + (s_nd ? " NumberDensity" : "") +
                            (s_rho ? " Density" : "") + (s_T ? " Temperature" : "") +
                            (s_P ? " Pressure" : "") + (s_frac ? " NeutralFractions" : "") +
                            (s_vel ? " Velocities" : "") + (hydro ? "; hydro subgrids" : "; no hydro");
  if (!what_plain.empty())
    std::printf("ORACLE line=%ld snapshot-fields-differ (%s; use_density=%d use_pressure=%d; %s)\n", lineno,
                combo.c_str(), (int)use_density, (int)use_pressure, what_plain.c_str());
  if (!what_buffered.empty())
    std::printf("ORACLE line=%ld snapshot-fields-differ-buffered (%s; %s)\n", lineno, combo.c_str(),
                what_buffered.c_str());
  std::fflush(stdout);
}

int main() {
  std::string line;
  long lineno = 0;
  char tmpl[] = "/tmp/c20snapXXXXXX";
  const std::string dir = mkdtemp(tmpl);
  while (std::getline(std::cin, line)) {
    ++lineno;
    const std::vector< std::string > w = words(line);
    if (w.size() == 17 && w[0] == "snapfields") {
      op_snapfields(w, dir, lineno);
      continue;
    }
    if (w.size() == 10 && w[0] == "snapidx") {
      op_snapidx(w, dir, lineno);
      continue;
    }
    if (w.size() == 15 && w[0] == "snapb") {
      op_snapb(w, dir, lineno);
      continue;
    }
    if (w.size() != 11 || w[0] != "snap") {
      std::printf("bad-op\n");
      continue;
    }
    Field f;
    for (int k = 0; k < 3; ++k) {
      f.n[k] = std::atol(w[1 + k].c_str());
      f.anchor[k] = dbl(w[4 + k]);
      f.sides[k] = dbl(w[7 + k]);
    }
    f.seed = u64(w[10]);
    // the parameter file of the run: the writer stores the USED values as attributes and the
    // reader rebuilds box and resolution from them
    std::ostringstream pt;
    pt.precision(17);
    pt << "SimulationBox:\n  anchor: [" << f.anchor[0] << " m, " << f.anchor[1] << " m, " << f.anchor[2]
       << " m]\n  sides: [" << f.sides[0] << " m, " << f.sides[1] << " m, " << f.sides[2] << " m]\n"
       << "  periodicity: [false, false, false]\n"
       << "DensityGrid:\n  type: Cartesian\n  number of cells: [" << f.n[0] << ", " << f.n[1] << ", "
       << f.n[2] << "]\n";
    ParameterFile params;
    {
      std::istringstream is(pt.str());
      params._yaml_dictionary = YAMLDictionary(is);
    }
    const CoordinateVector<> anchor =
        params.get_physical_vector< QUANTITY_LENGTH >("SimulationBox:anchor");
    const CoordinateVector<> sides =
        params.get_physical_vector< QUANTITY_LENGTH >("SimulationBox:sides");
    params.get_value< CoordinateVector< bool > >("SimulationBox:periodicity");
    params.get_value< std::string >("DensityGrid:type");
    const CoordinateVector< uint_fast32_t > nc =
        params.get_value< CoordinateVector< uint_fast32_t > >("DensityGrid:number of cells");
    Box<> box(anchor, sides);
    CoordinateVector< int_fast32_t > ncell(nc.x(), nc.y(), nc.z());
    FieldFunction ff;
    ff.f = f;
    CartesianDensityGrid grid(box, ncell);
    std::pair< cellsize_t, cellsize_t > block = std::make_pair(0, grid.get_number_of_cells());
    grid.initialize(block, ff);

    uint_fast32_t fields[DENSITYGRIDFIELD_NUMBER];
    for (int_fast32_t p = 0; p < DENSITYGRIDFIELD_NUMBER; ++p)
      fields[p] = 0;
    fields[DENSITYGRIDFIELD_COORDINATES] = true;
    fields[DENSITYGRIDFIELD_NUMBER_DENSITY] = true;
    fields[DENSITYGRIDFIELD_TEMPERATURE] = true;
    fields[DENSITYGRIDFIELD_NEUTRAL_FRACTION] = (uint_fast32_t(1) << NUMBER_OF_IONNAMES) - 1;
    const std::string prefix = "snap" + std::to_string(lineno) + "_";
    {
      GadgetDensityGridWriter writer(prefix, dir, false, DensityGridWriterFields(fields), nullptr);
      writer.write(grid, 0, params);
    }
    const std::string file = dir + "/" + prefix + "000.hdf5";
    CMacIonizeSnapshotDensityFunction reader(file, false, false, 1.e-6, nullptr);
    reader.initialize();
    double maxrel = 0.;
    std::string what;
    const long ntot = f.n[0] * f.n[1] * f.n[2];
    compare(reader, f, "CMacIonizeSnapshotDensityFunction", maxrel, what);
    reader.free();
    unlink(file.c_str());
    std::printf("ok %ld maxrel=%.3g\n", ntot, maxrel);
    if (!what.empty())
      std::printf("ORACLE line=%ld snapshot-roundtrip-differs (%s)\n", lineno, what.c_str());
    std::fflush(stdout);
  }
  rmdir(dir.c_str());
  return 0;
}
