"""C20 — parameter files, units, snapshots round-trip (DESIGN §6 C20).

Op lines (strings hex encoded, "-" = empty):
  yaml <text>                      parse -> print; answer `ok <n> <printed text> <dictionary>` | err
  used <text> <key> <used> ...     parse, inject used values, print_contents(true); answer `ok <text>`
  query <text> <type:key[:default]> ...   (implementation only) typed queries through ParameterFile,
                                   used-values dump fed back and queried again (oracle)
  single <name> | unit <string> | compound <part> ...      `ok <bits> <6 exponents>` | err
  tosi <q> <bits> <string> | tounit <q> <bits> <string> | convert <bits> <from> <to>   `ok <bits>` | err
"""
import os
import re
from fractions import Fraction

import vlib
import gen_c20_units


def hx(s):
    return s.encode("latin-1").hex() if s else "-"


def unhx(h):
    return "" if h == "-" else bytes.fromhex(h).decode("latin-1")


# ----------------------------------------------------------------------------- YAML generator

# names that sort on both sides of ':' (0x3a) and of each other, prefixes of each other
LOW = "0-. !$%&()*+,/9"       # < ':'
HIGH = ";<=>?@AZ_az~"         # > ':'


def gen_name(rng, pool):
    if pool and rng.random() < 0.45:
        base = rng.choice(pool)
        r = rng.random()
        if r < 0.35:
            n = base + rng.choice(LOW + HIGH)
        elif r < 0.5 and len(base) > 1:
            n = base[:-1]
        elif r < 0.6:
            n = base + rng.choice(LOW) + rng.choice("ab")
        else:
            n = base
    else:
        L = rng.choice([1, 1, 2, 2, 3, 6])
        n = "".join(rng.choice("ab" + LOW + HIGH + "abcxyz") for _ in range(L))
    n = n.strip(" \t")
    if n == "" and rng.random() > 0.03:
        n = rng.choice("abk")
    return n


SCALARS = [("i", ["42", "0x2a", "1e6", "-7", "0", "123456789"]),
           ("d", ["3.14", "-1.5e-3", "1.e-14", "0.", "6.02214076e23", "1e300", "42"]),
           ("b", ["true", "Yes", "ON", "y", "False", "no", "off", "N"]),
           ("s", ["This is a test string.", "12:30:00", "/path/to/file.name", "a:b", "x", "default value",
                  "value not used", "[not a vector", "semi;colon", "-"]),
           ("v", ["[0.1, 2.e-1, 0.3]", "[1.,2.,3.]", "[-1e3, 0, 4.5e-7]"]),
           ("vi", ["[42, 0x2a, 4e1]", "[1,2,3]"]),
           ("vb", ["[false, true, ON ]", "[y, n, Off]"])]


class UnitGen:
    """unit strings with a prescribed dimension, built from the generated table"""

    def __init__(self, info):
        self.units = {n: tuple(ex) for (n, b, ex) in info["units"]}
        self.val = {n: vlib.bits2f(b) for (n, b, ex) in info["units"]}
        self.names = list(self.units)
        self.si = info["si"]
        self.qdims = [self.dims_of(s) for s in self.si]
        self.base = {}     # axis -> names that are pure in that axis with exponent +1
        for n, ex in self.units.items():
            nz = [i for i, e in enumerate(ex) if e != 0]
            if len(nz) == 1 and ex[nz[0]] == 1:
                self.base.setdefault(nz[0], []).append(n)
        self.compound = [n for n, ex in self.units.items() if len([e for e in ex if e != 0]) > 1 or (sum(1 for e in ex if e) == 1 and 1 not in ex)]

    def dims_of(self, s):
        d = [0] * 6
        for part in s.split():
            m = re.fullmatch(r"([A-Za-z]+)(?:\^([+-]?\d+))?", part)
            p = int(m.group(2)) if m.group(2) else 1
            for i, e in enumerate(self.units[m.group(1)]):
                d[i] += e * p
        return tuple(d)

    @staticmethod
    def part(rng, name, p):
        if p == 1 and rng.random() < 0.8:
            return name
        sign = "+" if (p > 0 and rng.random() < 0.2) else ""
        return "%s^%s%d" % (name, sign, p)

    def parts(self, rng, dims, allow_zero=True):
        """list of parts (name or name^p) whose product has dimension `dims`"""
        d = list(dims)
        parts = []
        if self.compound and rng.random() < 0.35:
            n = rng.choice(self.compound)
            p = rng.choice([-2, -1, 1, 1, 2])
            parts.append((n, p))
            for i, e in enumerate(self.units[n]):
                d[i] -= e * p
        for ax in range(6):
            r = d[ax]
            names = self.base.get(ax, [])
            if not names:
                if r != 0:
                    return None
                continue
            if r == 0 and rng.random() < 0.9:
                continue
            k = rng.choice([1, 1, 1, 2])
            if k == 2 or r == 0:
                a = rng.randint(-3, 3)
                split = [a, r - a]
            else:
                split = [r]
            for e in split:
                if e == 0 and not (allow_zero and rng.random() < 0.5):
                    continue
                parts.append((rng.choice(names), e))
        if allow_zero and rng.random() < 0.06:
            parts.append((rng.choice(self.names), 0))
        if not parts:
            parts.append(("m", 0))
        rng.shuffle(parts)
        return [self.part(rng, n, p) for n, p in parts], parts

    def string(self, rng, q=None, dims=None, allow_zero=True, fancy=True):
        dims = self.qdims[q] if dims is None else dims
        r = self.parts(rng, dims, allow_zero)
        if r is None:
            return None, None
        strs, raw = r
        if not fancy:
            return " ".join(strs), raw
        s = ""
        for i, p in enumerate(strs):
            if i > 0:
                # "K kg^3 s^-1m " : after an exponent the next name may follow directly
                if "^" in strs[i - 1] and rng.random() < 0.1:
                    sep = ""
                else:
                    sep = " " * rng.choice([1, 1, 1, 2, 3])
                s += sep
            s += p
        if rng.random() < 0.15:
            s = " " + s
        if rng.random() < 0.15:
            s += " " * rng.randint(1, 2)
        return s, raw


def gen_value(rng, ug):
    """(type spec, value text)"""
    r = rng.random()
    if r < 0.62:
        t, vals = rng.choice(SCALARS)
        return t, rng.choice(vals)
    q = rng.randrange(len(ug.si))
    if r < 0.9:
        u, _ = ug.string(rng, q, allow_zero=False)
        num = rng.choice(["1.0", "2.5e3", "-4.", "1e-12", "7", "3.086e16", "0.5"])
        return "p%d" % q, num + rng.choice([" ", " ", "  ", ""]) + u.strip()
    comps = []
    for i in range(3):
        u, _ = ug.string(rng, q, allow_zero=False, fancy=False)
        comps.append(rng.choice(["1.0", "2.", "2.4e19", "-3e-2"]) + " " + u)
    return "pv%d" % q, "[" + rng.choice([", ", ","]).join(comps) + "]"


def gen_tree(rng, ug, depth, pool, exotic):
    """nested dict: name -> (type, value) | dict"""
    node = {}
    nchild = rng.choice([1, 1, 2, 2, 3, 4, 6])
    for _ in range(nchild):
        n = gen_name(rng, pool)
        if not exotic and n == "":
            n = "k"
        pool.append(n)
        if depth > 0 and rng.random() < (0.55 if depth > 1 else 0.4):
            sub = gen_tree(rng, ug, depth - 1, pool, exotic)
            if n in node and isinstance(node[n], dict):
                node[n].update(sub)
            elif n in node:
                # the same name as key and as group: keep both (flat keys "n" and "n:..."):
                node[n + "\0g"] = sub
            else:
                node[n] = sub
        else:
            if n in node and isinstance(node[n], dict):
                node[n + "\0k"] = gen_value(rng, ug)
            else:
                node[n] = gen_value(rng, ug)
    return node


def chain(rng, ug, names, leafs):
    node = cur = {}
    for n in names[:-1]:
        cur[n] = {}
        cur = cur[n]
    cur[names[-1]] = {l: gen_value(rng, ug) for l in leafs}
    return node


def merge(a, b):
    for k, v in b.items():
        if k in a and isinstance(a[k], dict) and isinstance(v, dict):
            merge(a[k], v)
        elif k in a and isinstance(a[k], dict) != isinstance(v, dict):
            a[k + ("\0g" if isinstance(v, dict) else "\0k")] = v
        else:
            a[k] = v
    return a


def flatten(node, prefix=""):
    out = {}
    for k, v in node.items():
        name = k.split("\0")[0]
        if isinstance(v, dict):
            out.update(flatten(v, prefix + name + ":"))
        else:
            out[prefix + name] = v
    return out


def render(rng, node, indent, style, lines):
    items = list(node.items())
    rng.shuffle(items)
    for k, v in items:
        name = k.split("\0")[0]
        pad = style["ws"](indent)
        if style["noise"] and rng.random() < 0.1:
            lines.append(rng.choice(["", "   ", "# a comment", pad + "# indented comment: x", "\t"]))
        if isinstance(v, dict):
            lines.append(pad + name + rng.choice([":", ":", " :", ":  ", ": # comment"] if style["noise"] else [":"]))
            step = style["step"](rng)
            render(rng, v, indent + step, style, lines)
        else:
            val = v[1]
            if style["noise"]:
                sep = rng.choice([": ", ": ", ":", " : ", ":   ", ":\t"])
                tail = rng.choice(["", "", "", "  ", " # trailing comment", "\t#c"])
            else:
                sep, tail = ": ", ""
            lines.append(pad + name + sep + val + tail)


def gen_file(rng, ug):
    """returns (text, flat: key -> (type, value), kind)"""
    kind = rng.choice(["random", "random", "random", "deep-chains", "prefix-names", "exotic", "flat"])
    exotic = kind == "exotic"
    pool = []
    if kind == "deep-chains":
        # nesting jumps >= 2 in both directions, shared prefixes, stale stack entries
        a, b, c = gen_name(rng, pool) or "a", gen_name(rng, pool) or "b", gen_name(rng, pool) or "c"
        tree = {}
        for _ in range(rng.randint(2, 5)):
            L = rng.randint(1, 5)
            names = [rng.choice([a, b, c, a + "0", a + ";", b + "-", "x", "y"]) for _ in range(L)]
            merge(tree, chain(rng, ug, names, [rng.choice(["k", "l", a, "0", "~"]) for _ in range(rng.randint(1, 2))]))
        for _ in range(rng.randint(0, 3)):
            tree.setdefault(rng.choice([a, "k", "0k", "~z"]) + "\0k", gen_value(rng, ug))
        tree = {k: v for k, v in tree.items()}
    elif kind == "prefix-names":
        base = gen_name(rng, pool) or "g"
        pool += [base, base + "0", base + ";", base + " x", base + "-", base + "a"]
        tree = gen_tree(rng, ug, rng.randint(1, 4), pool, False)
    elif kind == "flat":
        tree = gen_tree(rng, ug, 0, pool, False)
    else:
        tree = gen_tree(rng, ug, rng.randint(1, 4), pool, exotic)
    # a name used both as key and as group at one level is stored under two dict keys
    flat = flatten(tree)
    noise = rng.random() < 0.6
    stepkind = rng.choice(["2", "2", "1", "4", "tab", "vary"])

    def step(r):
        return {"2": 2, "1": 1, "4": 4, "tab": 1, "vary": r.randint(1, 5)}[stepkind]

    def ws(n):
        return ("\t" if stepkind == "tab" else " ") * n
    lines = []
    render(rng, tree, 0, {"noise": noise, "step": step, "ws": ws}, lines)
    text = "\n".join(lines) + ("\n" if rng.random() < 0.9 else "")
    return text, flat, kind


def break_file(rng, text):
    """inputs the parser must reject (cmac_error) or read in a surprising way — model and code must agree"""
    lines = text.split("\n")
    how = rng.choice(["no-colon", "empty-group", "orphan-indent", "dup"])
    i = rng.randrange(len(lines)) if lines else 0
    if how == "no-colon":
        lines.insert(i, "this line has no colon")
    elif how == "empty-group":
        lines.insert(0, "lonely:")
        lines.insert(1, "next: 1")
    elif how == "orphan-indent":
        lines.insert(0, "top: 1")
        lines.insert(1, "    orphan: 2")
    else:
        lines = lines + [l for l in lines if l.strip() and not l.startswith((" ", "\t"))][:2]
    return "\n".join(lines)


def defaults_for(rng, ug, flat):
    """queries with default values: keys absent from the file (new top-level keys, new members of
    existing groups, new deep groups) and keys present in the file"""
    specs = []
    groups = sorted({k.rsplit(":", 1)[0] for k in flat if ":" in k})
    for _ in range(rng.randint(0, 4)):
        r = rng.random()
        if r < 0.3 or not groups:
            key = rng.choice(["zz_new", "0new", "new key", "A"])
        elif r < 0.7:
            key = rng.choice(groups) + ":" + rng.choice(["added", "0added", "~added"])
        else:
            key = rng.choice(groups + ["fresh"]) + ":" + ":".join(rng.choice(["n1", "n2", "0", "zz"]) for _ in range(rng.randint(1, 3))) + ":leaf"
        t, v = gen_value(rng, ug)
        specs.append((key, t, v))
    return specs


# ----------------------------------------------------------------------------- comparison

class Stats:
    def __init__(self):
        self.n = 0
        self.bitexact = 0
        self.maxrel_float = 0.0
        self.maxrel_rat = 0.0
        self.out_of_range = 0


def make_cmp(stats):
    def cmp(a, b, op):
        if op.startswith("query"):
            return True
        b = vlib.strip_branch(b).strip()
        if a == b:
            return True
        aw, bw = a.split(), b.split()
        if not aw or not bw or aw[0] != bw[0] or aw[0] != "ok":
            return False
        kind = op.split()[0]
        if kind not in ("single", "unit", "compound", "tosi", "tounit", "convert"):
            return False
        rat = None
        if bw[-1].startswith("r="):
            rat = bw[-1][2:]
            bw = bw[:-1]
        if len(aw) != len(bw) or aw[2:] != bw[2:]:
            return False
        stats.n += 1
        if aw[1] == bw[1]:
            stats.bitexact += 1
        elif "nan" in (aw[1], bw[1]):
            return False
        else:
            x, y = vlib.bits2f(aw[1]), vlib.bits2f(bw[1])
            if not (x == y):
                if x != x or y != y or abs(x) == float("inf") or abs(y) == float("inf"):
                    return False
                rel = abs(x - y) / max(abs(x), abs(y))
                stats.maxrel_float = max(stats.maxrel_float, rel)
                if rel > 1e-15:
                    return False
        if rat is not None and aw[1] != "nan":
            x = vlib.bits2f(aw[1])
            if x == x and abs(x) != float("inf"):
                num, den = rat.split("/")
                r = Fraction(int(num), int(den))
                fx = Fraction(x)
                if r == 0:
                    if fx != 0:
                        return False
                elif abs(r) < Fraction(1, 10 ** 290) or abs(r) > 10 ** 290:
                    stats.out_of_range += 1      # the double result under/overflows: outside exact-arithmetic reach
                elif r != fx:
                    m = max(abs(r), abs(fx))
                    rel = float(abs(r - fx) / m)
                    stats.maxrel_rat = max(stats.maxrel_rat, rel)
                    # exact-arithmetic model vs doubles: one rounding (2^-53) per operation
                    if rel > RAT_TOL:
                        return False
        return True
    return cmp


RAT_TOL = 2e-15


# ----------------------------------------------------------------------------- run

def unit_ops(ctx, ug, n_per_q):
    rng = ctx.rng
    ops = []
    for n in ug.names + ["foo", "M", "kgs", "-x", "Kg", "radian"]:
        ops.append("single " + hx(n))
    # x^0 for every table entry (was a defect: operator^= kept the value; fixed in /repo 6c2926b), minimal input first
    for n in (["kpc"] if "kpc" in ug.names else []) + ug.names:
        ops.append("compound " + hx(n + "^0"))
        ops.append("compound " + hx("K") + " " + hx(n + "^0"))
    for (a, f, b) in [("kpc", 1000, "pc"), ("Myr", 10 ** 6, "yr"), ("Gyr", 1000, "Myr"), ("km", 1000, "m"), ("bar", 10 ** 5, "Pa"),
                      ("h", 3600, "s"), ("m", 100, "cm"), ("kg", 1000, "g"), ("J", 10 ** 7, "erg"), ("m", 10 ** 10, "angstrom")]:
        ops.append("tablerel %s %d %s" % (hx(a), f, hx(b)))
    for s in ["", "  ", "123", "m^", "m^x", "m^--2", "m^2-3", "m ^2", "^2", "m^ 2", "K kg^3 s^-1m ", " m",
              "kgs", "m2", "m^2x", "m^+2", "m^-0", "s^-1m", "kg  m^-3", "pc^0", "K kpc^0", "m^1", "m^-1 ", "m^2^3",
              "Hz kg^-1", "J m^-3 s^-1", "1 m", "m,s", "m/s", "m s^-1.5"]:
        ops.append("unit " + hx(s))
    vals = lambda: rng.choice([1.0, 1.0, 10 ** rng.uniform(-30, 30), -10 ** rng.uniform(-5, 5), rng.random(), 3.086e16, 0.0])
    nq = len(ug.si)
    for q in range(nq):
        for _ in range(n_per_q):
            s, raw = ug.string(rng, q)
            v = vals()
            ops.append("%s %d %d %s" % (rng.choice(["tosi", "tosi", "tounit"]), q, vlib.f2bits(v), hx(s)))
            if rng.random() < 0.5:
                strs, raw = ug.parts(rng, ug.qdims[q])
                ops.append("compound " + " ".join(hx(p) for p in strs))
            if rng.random() < 0.15:
                q2 = rng.randrange(nq)
                s2, _ = ug.string(rng, q2)
                ops.append("%s %d %d %s" % (rng.choice(["tosi", "tounit"]), q, vlib.f2bits(vals()), hx(s2)))
            if rng.random() < 0.2:
                s2, _ = ug.string(rng, q)
                ops.append("convert %d %s %s" % (vlib.f2bits(vals()), hx(s), hx(s2)))
    # the two cross-quantity conversions of try_conversion, both directions
    qE, qF, qL = ug.si.index("J"), ug.si.index("Hz"), ug.si.index("m")
    for _ in range(max(4, n_per_q)):
        v = 10 ** rng.uniform(-20, 20)
        for (qa, qb) in ((qE, qF), (qF, qE), (qL, qF), (qF, qL), (qE, qL)):
            s, _ = ug.string(rng, qb)
            ops.append("%s %d %d %s" % (rng.choice(["tosi", "tounit"]), qa, vlib.f2bits(v), hx(s)))
            s2, _ = ug.string(rng, qa)
            ops.append("convert %d %s %s" % (vlib.f2bits(v), hx(s), hx(s2)))
    return ops


def yaml_ops(ctx, ug, nfiles):
    rng = ctx.rng
    ops, meta = [], []
    for _ in range(nfiles):
        text, flat, kind = gen_file(rng, ug)
        if rng.random() < 0.08:
            text = break_file(rng, text)
            kind = "broken"
        ops.append("yaml " + hx(text))
        meta.append((kind, len(flat)))
        if kind != "broken" and rng.random() < 0.5:
            specs = ["%s:%s" % (t, hx(k)) for k, (t, v) in flat.items() if rng.random() < 0.8]
            seen = set(flat)
            for (k, t, v) in defaults_for(rng, ug, flat):
                if k in seen:
                    continue          # one query per key (two defaults for one key contradict each other)
                seen.add(k)
                specs.append("%s:%s:%s" % (t, hx(k), hx(v)))
            # also: default given for keys that ARE in the file
            specs = [sp + ":" + hx(flat[unhx(sp.split(":")[1])][1]) if (rng.random() < 0.15 and unhx(sp.split(":")[1]) in flat) else sp for sp in specs]
            rng.shuffle(specs)
            ops.append("query " + hx(text) + " " + " ".join(specs))
            meta.append(("query", len(specs)))
    return ops, meta


def run(ctx):
    ctx.level = "proof"
    ctx.assumptions += [
        "HDF5 snapshot clause: proved at the level of index maps only (Model/Snapshot.lean: which file position every cell is written to, which position each reader fetches; theorems snapshot_layout, buffered_roundtrip, plain_roundtrip, legacy_roundtrip); HDF5 itself, the stored doubles, the floating point position->index computations of the readers, the /Units group (internal hydro units), the velocity limiter of ionization_to_hydro, velocities (oracle only; the buffered reader does not read them), resolution degrading (more than one old cell per new cell) and the AMR/Voronoi branches of the plain reader are not modelled - the first three are exercised by the snap/snapb experiment (search only)",
        "text is handled as lines of characters (getline); names and values contain no newline; characters are compared by code point (the generator stays in ASCII, where this is std::string's byte order)",
        "theorems about units are over exact rationals (the exact values of the table's doubles); rounding of the double operations is only measured (bit-exact rate, max relative deviation)",
        "std::stoi overflow of an exponent and exponents with |p| > 6 are outside the generated domain",
        "value formatting of the used-values dump (operator<< of double, 6 significant digits) is not modelled: the dump text is taken from the real code, its structure (keys, groups, comments) is modelled, the values are compared by the oracle to 1e-5 relative",
        "undefined behaviour of the parser on a line indented less than the first indentation level (levels.back() on an empty vector) is modelled as a rejected file and not generated",
    ]
    info = gen_c20_units.generate()
    ctx.cov["translator"] = {"units": len(info["names"]), "quantities": len(info["quantities"]), "regenerated": info["changed"]}
    ok = ctx.obligations("CMacVerif.Props.C20", ["drv_c20"])
    h = vlib.build_harness("c20")
    ug = UnitGen(info)
    stats = Stats()
    cmp = make_cmp(stats)
    corpus = vlib.corpus_ops("C20")
    ctx.cov["rule"] = ("yaml: generated parameter trees (depth 0..5, nesting jumps >= 2, names sorting on both sides of ':' and being prefixes of each other, same name as key and group, "
                       "scalar/vector/boolean/unit-bearing values, random indentation widths, comments, blank lines, re-opened groups, rejected files); distinct = different file text; "
                       "non-trivial = the printer took the more-groups branch and the fewer-or-equal branch and at least one nesting jump >= 2 or stale stack entry. "
                       "units: every table name, every quantity x generated unit strings (integer exponents -3..3, compound units, x^0, explicit '+', irregular spacing), mismatching dimensions, "
                       "the two cross-quantity conversions in both directions; distinct = different (op, string); non-trivial = at least two parts or an exponent")
    if not ok:
        # violation search (DESIGN §3.5): the theorems no longer check — still run the oracles on the
        # implementation to find a concrete failing input (the driver does not depend on Props)
        ok_drv, out = vlib.lake_build(["drv_c20"])
        if not ok_drv:
            return
    # ---- units
    uops = [o for o in corpus if o.split()[0] in ("single", "unit", "compound", "tosi", "tounit", "convert", "tablerel")]
    uops += unit_ops(ctx, ug, ctx.budget(12, 1000))
    n, impl, model, orc = ctx.correspond("units", h, vlib.driver("drv_c20"), uops, cmp=cmp,
                                         oracle_key=lambda what, grp: "units:" + what.split()[0])
    for op, ml in zip(uops, model):
        ctx.count()
        w = op.split()
        s = unhx(w[-1]) if w[0] not in ("compound", "tablerel") else " ".join(unhx(x) if i != 1 or w[0] == "compound" else x for i, x in enumerate(w[1:]))
        ctx.distinct((w[0], w[1] if w[0] in ("tosi", "tounit") else "", s), nontrivial=("^" in s or len(s.split()) > 1))
        if " #" in ml:
            ctx.branch("units:" + ml.split(" #")[1])
    ctx.cov["units_bit_exact_rate"] = round(stats.bitexact / max(1, stats.n), 6)
    ctx.cov["units_max_rel_dev_float_model"] = stats.maxrel_float
    ctx.cov["units_max_rel_dev_exact_model"] = stats.maxrel_rat
    ctx.cov["units_results_outside_double_range"] = stats.out_of_range
    ctx.cov["tolerance"] = {"float model vs code": 1e-15, "exact (Rat) model vs code": RAT_TOL,
                            "oracle to_SI/to_unit inverse": 1e-14, "oracle compound = product": 1e-14,
                            "oracle used-values dump fed back": 1e-5}
    j = next((i for i, o in enumerate(uops) if o.startswith("tosi")), 0)
    ctx.sample({"ops": [readable(o) for o in uops[j:j + 4]], "impl": impl[j:j + 4]})
    # ---- yaml
    yops = [o for o in corpus if o.split()[0] in ("yaml", "used", "query")]
    gops, meta = yaml_ops(ctx, ug, ctx.budget(1500, 150000))
    yops += gops
    n, impl, model, orc = ctx.correspond("yaml", h, vlib.driver("drv_c20"), yops, cmp=cmp,
                                         oracle_key=lambda what, grp: "yaml:" + what.split()[0])
    stage2 = []
    for op, il, ml in zip(yops, impl, model):
        ctx.count()
        w = op.split()
        if w[0] == "yaml":
            tags = ml.split(" #")[1] if " #" in ml else ""
            for t in tags.split(","):
                if t:
                    ctx.branch("yaml:" + t)
            nt = ("A=1" in tags and "B=1" in tags and ("jump=1" in tags or "stale=1" in tags))
            ctx.distinct(("yaml", w[1]), nontrivial=nt)
        elif w[0] == "query":
            iw = il.split()
            ctx.branch("query:" + iw[0])
            if iw[0] == "ok":
                # stage 2: the same dictionary (defaults included) and the used values of the real
                # code through the model's printer, and the dump itself through parse -> print
                stage2.append("used " + iw[2] + " " + " ".join(iw[3:]))
                stage2.append("yaml " + iw[1])
                ctx.distinct(("query", w[1], len(w)), nontrivial=True)
    k = next((i for i, o in enumerate(yops) if o.startswith("yaml") and "stale=1" in model[i]), 0) if model else 0
    if yops:
        ctx.sample({"file": unhx(yops[k].split()[1]), "printed_by_code": unhx(impl[k].split()[2]) if impl[k].startswith("ok") else impl[k]})
    if stage2:
        n, impl2, model2, orc2 = ctx.correspond("yaml-used-dump", h, vlib.driver("drv_c20"), stage2, cmp=cmp,
                                                oracle_key=lambda what, grp: "yaml:" + what.split()[0])
        for op, ml in zip(stage2, model2):
            ctx.count()
            ctx.branch("stage2:" + op.split()[0] + ":" + ml.split()[0])
        k = next((i for i, o in enumerate(stage2) if o.startswith("used")), 0)
        ctx.sample({"used_dump_printed_by_code": unhx(impl2[k].split()[1]) if impl2[k].startswith("ok") else impl2[k]})
    # ---- HDF5 clause: replayable experiment only (search, no proof); small budget in quick, larger in thorough
    snapshot_experiment(ctx)
    # coverage gate (thorough): every printer branch of the model must have been taken
    if ctx.thorough:
        need = ["yaml:A=1", "yaml:B=1", "yaml:stale=1", "yaml:reemit=1", "yaml:jump=1", "units:tosi-same", "units:tosi-cross",
                "units:tosi-cross-to-freq", "units:tounit-same", "units:compound", "units:convert"]
        missing = [b for b in need if not ctx.cov["branch_histogram"].get(b)]
        if missing:
            ctx.notes.append("coverage gate: model branches never taken: %s" % missing)
            ctx.cov["coverage_gate"] = "insufficient: " + ",".join(missing)
        else:
            ctx.cov["coverage_gate"] = "all model branches taken"


# ----------------------------------------------------------------------------- HDF5 snapshot experiment

def snap_build():
    """harness/c20_snap.cpp against the real writer/reader (needs the engine libraries and HDF5);
    flags are taken from the scratch CMake tree.  Returns the executable or raises."""
    vlib.full_binary(targets=("LegacyEngine",))
    nin = open(os.path.join(vlib.FULL, "build.ninja"), encoding="utf-8").read()
    mi = re.search(r"build test/CMakeFiles/testGadgetDensityGridWriter\.dir/testGadgetDensityGridWriter\.cpp\.o:.*?\n((?:  .*\n)+)", nin)
    ml = re.search(r"build rundir/test/testGadgetDensityGridWriter:.*?\n((?:  .*\n)+)", nin)
    if not mi or not ml:
        raise RuntimeError("HDF5 test target not configured (no HDF5?)")
    inc = re.search(r"INCLUDES = (.*)", mi.group(1)).group(1).split()
    libs = []
    for t in re.search(r"LINK_LIBRARIES = (.*)", ml.group(1)).group(1).split():
        libs.append(os.path.join(vlib.FULL, t) if t.startswith("lib/") else t)
    return vlib.build_harness("c20_snap", extra=[i for i in inc if i.startswith("-I")], libs=libs)


LAYOUTS = {4: [(1, 2, 4), (2, 2, 4), (1, 1, 2), (2, 2, 2)],
           6: [(1, 2, 3), (2, 3, 6), (1, 3, 6), (3, 3, 3)],
           8: [(1, 2, 4), (2, 4, 8), (1, 4, 8), (2, 4, 2), (2, 2, 2)],
           12: [(2, 3, 4), (1, 3, 6), (2, 6, 12), (3, 4, 6), (4, 4, 4)]}


def writer_block_sizes():
    """the cell-block size(s) the writer uses when it streams a (sub)grid into the datasets"""
    src = open(os.path.join(vlib.REPO, "src", "GadgetDensityGridWriter.cpp"), encoding="utf-8").read()
    bs = sorted({int(x) for x in re.findall(r"\bblocksize\s*=\s*(\d+)\s*;", src)})
    return [b for b in bs if 8 <= b <= 200000] or [10000]


_DIMS_CACHE = {}


def subgrid_dims(target, mode, cmax=128):
    """(a, b, c), a <= b <= c <= cmax, with a*b*c == target ('eq'), the largest product < target
    ('below') or the smallest product > target ('above'); None if there is none"""
    key = (target, mode, cmax)
    if key in _DIMS_CACHE:
        return _DIMS_CACHE[key]
    best = None
    for a in range(1, cmax + 1):
        if a * a * a > target * 2:
            break
        for b in range(a, cmax + 1):
            if a * b * b > target * 2:
                break
            lo = max(b, (target // (a * b)) - 1)
            for c in range(lo, min(cmax, lo + 3) + 1):
                p = a * b * c
                if mode == "eq" and p == target:
                    cand = (0, -a)          # prefer the most cubic shape
                elif mode == "below" and p < target:
                    cand = (target - p, -a)
                elif mode == "above" and p > target:
                    cand = (p - target, -a)
                else:
                    continue
                if best is None or cand < best[0]:
                    best = (cand, (a, b, c))
    _DIMS_CACHE[key] = best[1] if best else None
    return _DIMS_CACHE[key]


def big_subgrid_ops(rng, thorough):
    """task-based layouts whose subgrids are written in MORE THAN ONE block of the writer: cell
    counts per subgrid just below / exactly / just above one and two blocks (sizes derived from the
    block size found in the writer), and cubic grids (both readers) whose subgrids hold a
    non-integer number of blocks"""
    ops = []

    def op(n, g, cell, buf):
        anchor = [cell * rng.choice([0.0, -1.0, 2.0, -0.5 * n[k]]) for k in range(3)]
        sides = [cell * n[k] for k in range(3)]
        ops.append("snapb %d %d %d %d %d %d %s %s %d %d" % (n[0], n[1], n[2], g[0], g[1], g[2], " ".join(str(vlib.f2bits(a)) for a in anchor),
                                                           " ".join(str(vlib.f2bits(x)) for x in sides), buf, rng.getrandbits(40)))
    for B in writer_block_sizes():
        # cubic: smallest even n with n^3/2 cells per subgrid > B (and > 2B in thorough): both readers
        for mult in ([1, 2] if thorough else [1]):
            n = 2
            while n ** 3 // 2 <= mult * B:
                n += 2
            axes = [0, 1, 2] if thorough else [2, 0]
            for ax in axes:
                g = [1, 1, 1]
                g[ax] = 2
                # buffer of one subgrid only when the global cell order crosses the subgrid boundary once
                op([n, n, n], g, rng.choice([1.0, 0.25, 2.0]), 1 if ax == 0 else 2)
        targets = [(B, "eq"), (B, "above"), (2 * B, "above"), (B, "below"), (2 * B, "eq"), (2 * B, "below")]
        for (t, mode) in (targets if thorough else targets[:3]):
            d = subgrid_dims(t, mode)
            if d is None:
                continue
            for ax in ([0, 1, 2] if thorough else [rng.randrange(3)]):
                perm = list(d)
                rng.shuffle(perm)
                g = [1, 1, 1]
                g[ax] = 2
                n = [perm[k] * g[k] for k in range(3)]
                op(n, g, rng.choice([1.0, 0.25]), 1)
    return ops


def idx_ops(rng, n_small, thorough):
    """`snapidx`: the index maps of the real writer and readers against Model/Snapshot.lean.
    Small layouts of every shape (cell counts per subgrid and subgrid counts independent per
    dimension; cubic ones go through the buffered reader too, with a buffer smaller than the number
    of subgrids), legacy grids, and the multi-block sizes derived from the writer's block size."""
    import itertools
    B = writer_block_sizes()[-1]
    ops = []

    def op(mode, n, g, buf):
        ops.append("snapidx %s %d %d %d %d %d %d %d %d" % (mode, n[0], n[1], n[2], g[0], g[1], g[2], B, buf))
    for p in sorted(set(itertools.permutations((1, 2, 4)))):
        op("task", (8, 8, 8), p, rng.randint(1, 7))
    perms = [(n, p) for n, ls in LAYOUTS.items() for l in ls for p in sorted(set(itertools.permutations(l)))]
    for _ in range(n_small):
        r = rng.random()
        if r < 0.4:
            n, g = rng.choice(perms)
            op("task", (n, n, n), g, rng.randint(1, max(1, g[0] * g[1] * g[2] - 1)))
        elif r < 0.8:
            sc = [rng.choice([1, 2, 3, 4, 5, 7]) for _ in range(3)]
            g = [rng.choice([1, 1, 2, 3, 4]) for _ in range(3)]
            op("task", [sc[k] * g[k] for k in range(3)], g, 1)
        else:
            op("legacy", [rng.choice([1, 2, 3, 4, 5, 8, 11]) for _ in range(3)], (1, 1, 1), 1)
    # more than one block per subgrid
    n = 2
    while n ** 3 // 2 <= B:
        n += 2
    for ax in ([0, 1, 2] if thorough else [2, 0]):
        g = [1, 1, 1]
        g[ax] = 2
        op("task", (n, n, n), g, 1 if ax == 0 else 2)
    if thorough:
        m = n
        while m ** 3 // 2 <= 2 * B:
            m += 2
        op("task", (m, m, m), (1, 2, 1), 2)
    for (t, mode) in [(B, "eq"), (B, "above"), (2 * B, "above"), (B, "below"), (2 * B, "eq"), (2 * B, "below")]:
        d = subgrid_dims(t, mode)
        if d is None:
            continue
        for ax in ([0, 1, 2] if thorough else [rng.randrange(3)]):
            perm = list(d)
            rng.shuffle(perm)
            g = [1, 1, 1]
            g[ax] = 2
            op("task", [perm[k] * g[k] for k in range(3)], g, 1)
        if mode != "below" or thorough:
            perm = list(d)
            rng.shuffle(perm)
            op("legacy", perm, (1, 1, 1), 1)      # the legacy writer streams the whole grid in blocks
    return ops


def field_ops(rng, thorough):
    """`snapfields`: every combination of stored quantities the writer can produce and the readers
    accept — number density and/or mass density, temperature and/or pressure, with/without neutral
    fractions, with/without velocities (hydro subgrids), and the two admissible combinations without
    hydro — on small cubic task-based layouts (both readers), the plain reader with its flags
    use_density / use_pressure (every admissible setting in thorough, a random one in quick)."""
    import itertools
    ops = []
    layouts = [(4, p) for p in sorted(set(itertools.permutations((1, 2, 4))))] + [(4, (2, 2, 1)), (4, (1, 2, 2)), (2, (1, 1, 2)), (3, (1, 3, 1)), (6, (2, 3, 1))]

    def op(hydro, nd, rho, T, P, fr, vel, ud, up):
        n, g = rng.choice(layouts)
        buf = rng.randint(1, max(1, g[0] * g[1] * g[2] - 1))
        ops.append("snapfields %d %d %d %d %d %d %d %d %d %d %d %d %d %d %d %d" % (hydro, nd, rho, T, P, fr, vel, ud, up, n, n, n, g[0], g[1], g[2], buf))
    for (nd, rho) in ((0, 1), (1, 0), (1, 1)):
        for (T, P) in ((0, 1), (1, 0), (1, 1)):
            for fr in (1, 0):
                for vel in (0, 1):
                    flags = [(ud, up) for ud in ([0, 1] if rho else [0]) for up in ([0, 1] if P else [0])]
                    for (ud, up) in (flags if thorough else [rng.choice(flags)]):
                        op(1, nd, rho, T, P, fr, vel, ud, up)
    for fr in (1, 0):
        for _ in range(3 if thorough else 1):
            op(0, 1, 0, 1, 0, fr, 0, 0, 0)
    # the combination in which the order of the two fallback statements of the buffered reader
    # matters, on every layout
    for (n, g) in (layouts if thorough else layouts[:3]):
        ops.append("snapfields 1 0 1 0 1 1 0 0 0 %d %d %d %d %d %d 1" % (n, n, n, g[0], g[1], g[2]))
    return ops


def snap_ops(rng, n_plain, n_task, thorough=False):
    """`snap`: legacy Cartesian grid -> CMacIonizeSnapshotDensityFunction;
    `snapb`: task-based grid (DensitySubGridCreator) -> both readers.  For `snapb` the per-subgrid
    cell counts differ in x, y and z in every ordering, and the buffer is smaller than the number
    of subgrids.  Box values have short mantissas and <= 5 decimal digits, so that the box the
    reader rebuilds from the stored (6 digit) parameters is the same box."""
    import itertools
    ops = []
    for _ in range(n_plain):
        nc = [rng.choice([1, 2, 3, 4, 5, 8]) for _ in range(3)]
        scale = rng.choice([1.0, 3.086e16, 1e-3, 10 ** rng.uniform(-6, 20)])
        anchor = [rng.choice([0.0, -0.5 * scale, scale * rng.uniform(-2, 2)]) for _ in range(3)]
        sides = [scale * rng.choice([1.0, 2.0, rng.uniform(0.1, 3.0), 1.0 / 3]) for _ in range(3)]
        ops.append("snap %d %d %d %s %s %d" % (nc[0], nc[1], nc[2], " ".join(str(vlib.f2bits(a)) for a in anchor),
                                              " ".join(str(vlib.f2bits(x)) for x in sides), rng.getrandbits(40)))
    perms = [(n, p) for n, ls in LAYOUTS.items() for l in ls for p in sorted(set(itertools.permutations(l)))]
    # all orderings of one unequal layout first (8^3 cells: the six permutations of 1,2,4 subgrids)
    first = [(8, p) for p in sorted(set(itertools.permutations((1, 2, 4))))]
    chosen = (first + [rng.choice(perms) for _ in range(max(0, n_task - len(first)))])[:n_task]
    for (n, g) in chosen:
        scale = rng.choice([1.0, 3.086e16, 1e5, 0.25, 1024.0])
        side = scale * rng.choice([1.0, 2.0, 10.0, 8.0])
        anchor = [side * rng.choice([0.0, -0.5, -1.0, 0.5, 1.5, 2.0]) for _ in range(3)]
        nsub = g[0] * g[1] * g[2]
        buf = rng.randint(1, max(1, nsub - 1))
        sb = str(vlib.f2bits(side))
        ops.append("snapb %d %d %d %d %d %d %s %s %d %d" % (n, n, n, g[0], g[1], g[2], " ".join(str(vlib.f2bits(a)) for a in anchor),
                                                           " ".join([sb, sb, sb]), buf, rng.getrandbits(40)))
    return ops + big_subgrid_ops(rng, thorough)


def snapshot_experiment(ctx):
    """search-only: nothing is proved about HDF5; a failure is reported with a replay"""
    exe, msg = None, ""
    for attempt in range(2):    # one retry: the engine library build shares the machine with other checks
        try:
            exe = snap_build()
            break
        except Exception as e:
            msg = str(e)
    if exe is None:
        ctx.cov["snapshot_experiment"] = "not run: %s" % (msg[-400:],)
        if "not configured" in msg or ".git/HEAD" in msg:
            # environment (no HDF5 / git worktree without .git directory): clause not exercised, not claimed
            ctx.notes.append("HDF5 snapshot experiment not run: " + msg[-200:])
        else:
            # the writer/reader sources no longer build: the clause can no longer be exercised
            ctx.broken_obligation("HDF5 snapshot experiment (harness c20_snap + engine library) does not build against the current tree", msg[-3000:])
        return
    ops = snap_ops(ctx.rng, ctx.budget(3, 150), ctx.budget(6, 120), ctx.thorough)
    rc, out, err = vlib.run_exe(exe, "\n".join(ops) + "\n", timeout=1200)
    ans, orc = vlib.split_oracle(out)
    ctx.cov["snapshot_experiment"] = {"grids": len(ops), "legacy_grids": len([o for o in ops if o.startswith("snap ")]),
                                      "task_based_grids": len([o for o in ops if o.startswith("snapb")]),
                                      "task_based_grids_both_readers": len([a for a in ans if "both-readers" in a]),
                                      "writer_block_sizes": writer_block_sizes(),
                                      "answers": len(ans), "oracle_failures": len(orc), "rc": rc,
                                      "max_rel_dev": max([float(a.split("maxrel=")[1].split()[0]) for a in ans if "maxrel=" in a] or [0.0])}
    for o in orc:
        i = int(re.search(r"line=(\d+)", o).group(1)) - 1
        what = re.sub(r"line=\d+\s*", "", o[len("ORACLE"):]).strip()
        ctx.violation("snapshot:" + what.split()[0], "HDF5 snapshot written by the real GadgetDensityGridWriter and read back on the same geometry differs: " + what,
                      {"stream": "snapshot", "ops": [ops[i]], "oracle": o})
    if rc != 0 or len(ans) != len(ops):
        k = min(len(ans), len(ops) - 1)
        ctx.violation("snapshot:impl-crash", "snapshot experiment stopped after %d of %d grids (rc %d): %s" % (len(ans), len(ops), rc, err[-400:]),
                      {"stream": "snapshot", "ops": [ops[k]], "stderr": err[-1500:]})
    # ---- index maps: model (Model/Snapshot.lean, theorems snapshot_layout / buffered_roundtrip /
    # plain_roundtrip) against the real writer and readers
    iops = [o for o in vlib.corpus_ops("C20") if o.startswith("snapidx")] + idx_ops(ctx.rng, ctx.budget(40, 600), ctx.thorough)
    nmis, iimpl, imodel, iorc = ctx.correspond("snapshot-index", exe, vlib.driver("drv_c20"), iops,
                                               cmp=lambda a, b, op: a == vlib.strip_branch(b).strip(),
                                               oracle_key=lambda what, grp: "snapshot:" + what.split()[0])
    for o, ml in zip(iops, imodel):
        ctx.count()
        w = o.split()
        if " #" in ml:
            for t in ml.split(" #")[1].split(","):
                ctx.branch("snapshot:" + t)
        ctx.distinct(("snapidx", o), nontrivial=(w[1] == "task" and len({w[5], w[6], w[7]}) > 1))
    # ---- stored-field combinations: model (encode / decodeBuffered / decodePlain, theorems
    # decodeBuffered_encode / decodePlain_encode) against the real Hydro + writer + readers
    fops = [o for o in vlib.corpus_ops("C20") if o.startswith("snapfields")] + field_ops(ctx.rng, ctx.thorough)
    nmis, fimpl, fmodel, forc = ctx.correspond("snapshot-fields", exe, vlib.driver("drv_c20"), fops,
                                               cmp=lambda a, b, op: a == vlib.strip_branch(b).strip(),
                                               oracle_key=lambda what, grp: "snapshot:" + what.split()[0])
    for o, ml in zip(fops, fmodel):
        ctx.count()
        w = o.split()
        if " #" in ml:
            ctx.branch("snapshot:" + ml.split(" #")[1])
        ctx.distinct(("snapfields", o), nontrivial=(w[3] == "1" or w[5] == "1"))
    ctx.cov["snapshot_experiment"]["field_combination_grids"] = len(fops)
    ctx.cov["snapshot_experiment"]["field_combinations"] = len({tuple(o.split()[1:10]) for o in fops})
    ctx.cov["snapshot_experiment"]["index_map_grids"] = len(iops)
    ctx.cov["snapshot_experiment"]["index_map_cells"] = sum(int(o.split()[2]) * int(o.split()[3]) * int(o.split()[4]) for o in iops)
    for o in ops:
        ctx.count()
        w = o.split()
        ctx.branch("snapshot:" + w[0])
        ctx.distinct(("snapshot", o), nontrivial=(w[0] == "snapb" and len({w[4], w[5], w[6]}) > 1))
        if w[0] == "snapb":
            per = (int(w[1]) // int(w[4])) * (int(w[2]) // int(w[5])) * (int(w[3]) // int(w[6]))
            B = writer_block_sizes()[-1]
            ctx.branch("snapshot:subgrid-blocks=%s" % ("1" if per <= B else "2" if per <= 2 * B else "3+"))


def readable(op):
    w = op.split()
    out = [w[0]]
    for x in w[1:]:
        if re.fullmatch(r"(-|([0-9a-f]{2})+)", x) and not (w[0] in ("tosi", "tounit") and x is w[1]) and not x.isdigit():
            out.append(repr(unhx(x)))
        else:
            out.append(x)
    return " ".join(out)


def replay(ctx, path):
    import json
    obj = json.load(open(path))
    if obj.get("stream") in ("snapshot-index", "snapshot-fields"):
        exe = snap_build()
        vlib.lake_build(["drv_c20"])
        text = "\n".join(obj["ops"]) + "\n"
        rc, out, err = vlib.run_exe(exe, text, timeout=600)
        rc2, outm, errm = vlib.run_exe(vlib.driver("drv_c20"), text, timeout=600)
        impl, orc = vlib.split_oracle(out)
        model = [vlib.strip_branch(l).strip() for l in outm.split("\n") if l]
        print("ops:\n  " + "\n  ".join(obj["ops"]))
        print("implementation (rc=%d):\n  %s" % (rc, "\n  ".join(impl + orc)))
        print("model:\n  " + "\n  ".join(model))
        bad = rc != 0 or bool(orc) or impl != model
        print("REPRODUCED" if bad else "not reproduced")
        return 1 if bad else 0
    if obj.get("stream") == "snapshot":
        exe = snap_build()
        rc, out, err = vlib.run_exe(exe, "\n".join(obj["ops"]) + "\n", timeout=600)
        print("ops:\n  " + "\n  ".join(obj["ops"]))
        print("implementation (rc=%d):\n%s%s" % (rc, out, err[-800:]))
        bad = rc != 0 or "ORACLE" in out
        print("REPRODUCED" if bad else "not reproduced")
        return 1 if bad else 0
    gen_c20_units.generate()
    stats = Stats()
    return vlib.generic_replay(ctx, path, "c20", "drv_c20", cmp=make_cmp(stats))


MANIFEST = dict(
    category="proof",
    text=("Lean theorems, all unbounded. YAML (model = lexer, parser with its level/group stacks, printer with its group-stack loops as written, std::map = list sorted in std::string order): "
          "parse_print: for EVERY dictionary with non-empty values, parsing what print_contents prints returns the dictionary (induction over the sorted key list; invariant: no later key "
          "shares a longer prefix with the printer's stack than the key just printed; uses that keys sharing a group prefix are contiguous in map order, lcp_groups_mono; the shrinking-bound "
          "pop loop only leaves harmless stale entries); print_parse_print / print_idempotent: for every token file the parser accepts, print-parse is a fixed point; parseText_printText, "
          "parseText_printUsedText: the same through the text lexer for names/values without '#' and without blanks at the ends, incl. the used-values dump 'used # (original)' fed back. "
          "Units over the exact rationals of the table's doubles (table regenerated every run by calling the real get_single_unit): units_table_consistent (kpc=1000pc, Myr=1e6yr, Gyr=1e3Myr, "
          "km=1000m, bar=1e5Pa, h=3600s exactly), units_table_consistent_decimal (100cm=m, 1000g=kg, 1e7erg=J, 1e10angstrom=m on the printed decimals, 2^-52 on the doubles), "
          "units_table_same_dimensions, units_table_dimensions, si_units_are_one, pow_spec (x^p = integer power for every integer p, exponents times p), compound_is_product, "
          "toSI_toUnit / toUnit_toSI and the two cross-quantity rows of try_conversion (inverse when factor and value are non-zero). Tie: the same Lean definitions (drv_c20) vs the real "
          "YAMLDictionary/ParameterFile/UnitConverter: printed text byte-identical, dictionaries identical, unit values bit-identical at Float and within 2e-15 of the exact model; oracles on "
          "the real code: parse(print d)=d, print idempotent, used-values dump fed back reproduces every queried value to 1e-5, to_unit(to_SI)=id to 1e-14, compound=product, x^0=1, table relations. Snapshot index maps: see note."),
    note=("HDF5 snapshot clause: proved only at the level of INDEX MAPS (Model/Snapshot.lean: block loop and offsets of the task-based and legacy writer, subgrid/cell numbering, stride arithmetic "
          "of BufferedCMacIonizeSnapshotDensityFunction, coordinate binning loop of CMacIonizeSnapshotDensityFunction; theorems snapshot_layout, buffered_roundtrip, plain_roundtrip, "
          "legacy_roundtrip, snapshot_blocksize_irrelevant for every block size and layout; decodeBuffered_encode, decodePlain_encode: for every combination of stored quantities - number and/or mass density, temperature and/or pressure, with/without neutral fractions, reader flags - the readers' fallback arithmetic inverts Hydro::ionization_to_hydro in exact arithmetic), tied by streams snapshot-fields (real Hydro + writer + both readers on all 36 hydro and 2 non-hydro combinations, values bit-identical to the Float model) and snapshot-index (real writer + both real readers on generated layouts incl. subgrids of "
          "just below/exactly/just above one and two writer blocks: position of every cell in every dataset and position fetched by each reader identical to the model). NOT modelled: HDF5 itself, "
          "stored doubles, floating point position->index computations, resolution degrading, AMR/Voronoi snapshots; the first three are exercised by a replayable experiment, search only "
          "(real writer -> both readers on random geometries, every cell compared). Also outside the theorems: number formatting of the used-values dump (operator<< of "
          "double; compared by oracle to 1e-5) and rounding of the double arithmetic in conversions (measured: bit-exact rate of the Float model, max deviation of the exact model). "
          "Trusted: Lean kernel + 3 standard axioms; hand model of YAMLDictionary.hpp / Unit.hpp / UnitConverter.hpp (tied by the differential run); translator tools/gen_c20_units.py "
          "(names by regex, values by evaluation, every name re-compared through the `single` op); characters compared by code point (ASCII generator); parser UB on a line indented less "
          "than the first level is modelled as rejection and not generated. Defect found by this check and fixed in /repo 6c2926b: Unit::operator^= kept the value for power 0."),
    technique="Lean 4 proof by induction over the sorted key list (printer stack invariant) and over token lists + generated unit table (translator by exhaustive evaluation) + differential correspondence with the real YAMLDictionary/ParameterFile/UnitConverter")
