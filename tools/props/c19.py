"""C19 — the time line never overshoots (DESIGN §6 C19)."""
import json
import math
import vlib


def gen_history(rng, nsteps):
    ops = []
    kind = rng.choice(["zero-start", "zero-start", "offset", "negative"])
    if kind == "zero-start":
        start = 0.0
    elif kind == "offset":
        start = rng.choice([1.0, 3.e-4, 12345.678, 1.e13]) * rng.random()
    else:
        start = -rng.random() * 10 ** rng.uniform(-3, 15)
    interval = rng.choice([1.0, 2.0 ** rng.randint(-20, 60), 10 ** rng.uniform(-3, 20), rng.random() * 100])
    end = start + interval
    interval = end - start
    if not (interval > 0):
        end = start + 1.0
        interval = end - start
    mk = rng.choice(["none", "none", "pow2", "generic", "huge", "tiny"])
    mn = {"none": 0.0, "pow2": interval * 2.0 ** -rng.randint(1, 30), "generic": interval * rng.random() * 10 ** -rng.randint(0, 8),
          "huge": interval * 4, "tiny": interval * 1e-25}[mk]
    mk2 = rng.choice(["none", "none", "pow2", "generic", "belowmin"])
    mx = {"none": 0.0, "pow2": interval * 2.0 ** -rng.randint(0, 12), "generic": interval * rng.random(),
          "belowmin": mn * 0.5}[mk2]
    ops.append("new %d %d %d %d" % (vlib.f2bits(start), vlib.f2bits(end), vlib.f2bits(mn), vlib.f2bits(mx)))
    pat = rng.choice(["const", "grow", "shrink", "wild", "pow2", "nearpow2", "nearpow2", "belowmin", "zero", "big"])
    base = interval * 10 ** -rng.uniform(0, 4)
    for i in range(nsteps):
        if pat == "const":
            r = base
        elif pat == "grow":
            r = base * 1.3 ** i
        elif pat == "shrink":
            r = base * 0.8 ** i
        elif pat == "wild":
            r = interval * 10 ** -rng.uniform(0, 9)
        elif pat == "pow2":
            r = interval * 2.0 ** -rng.randint(0, 40)      # exact ties of the comparison
        elif pat == "nearpow2":
            # a few ulps / a relative 1e-15 .. 1e-9 above or below a power-of-two fraction of the interval:
            # the rounding of the request must go DOWN to the next power of two, never up
            import math
            r = interval * 2.0 ** -rng.randint(0, 40)
            how = rng.choice(["ulp-", "ulp-", "ulp+", "rel-", "rel+"])
            if how.startswith("ulp"):
                for _ in range(rng.choice([1, 1, 2, 5])):
                    r = math.nextafter(r, 0.0 if how == "ulp-" else math.inf)
            else:
                r = r * (1.0 - 10 ** -rng.uniform(9, 15)) if how == "rel-" else r * (1.0 + 10 ** -rng.uniform(9, 15))
        elif pat == "belowmin":
            r = base if i < nsteps // 2 else mn * rng.choice([0.3, 0.999, 1.0])
        elif pat == "zero":
            r = base if i < 3 else 0.0
        else:
            r = interval * rng.choice([1.0, 2.0, 1e10])
        ops.append("adv %d" % vlib.f2bits(r))
        if rng.random() < 0.08:
            ops.append("rst")
    return ops, (kind, mk, mk2, pat)


def strip_branch(l):
    return l.split(" #")[0]


def run(ctx):
    ctx.level = "proof"
    ctx.assumptions += [
        "the comparison A*ts > request is exact in doubles (A = interval/2^63, ts a power of two; no underflow): generator keeps intervals in 1e-3..1e20",
        "callers stop calling advance() once it returned false (as both simulations do); the harness and the model skip later requests",
        "requests are >= 0 (a negative request makes the C++ loop spin; outside the stated domain)",
        "theorems are about the integer clock; the reported double time A*t+B is compared bit-for-bit with the model but not reasoned about",
    ]
    ok = ctx.obligations("CMacVerif.Props.C19", ["drv_c19"])
    h = vlib.build_harness("c19")
    nh = ctx.budget(400, 20000)
    ops, meta = [], []
    import os
    corpus = os.path.join(vlib.VERIF, "corpus", "C19")
    if os.path.isdir(corpus):
        for f in sorted(os.listdir(corpus)):
            ops += [l.strip() for l in open(os.path.join(corpus, f)) if l.strip()]
    for i in range(nh):
        o, m = gen_history(ctx.rng, ctx.rng.choice([3, 10, 40, 120]))
        ops += o
        meta.append(m)
    ctx.cov["rule"] = ("histories: (start,end,min,max) x request pattern {const,grow,shrink,wild,exact power-of-two ties,below-minimum,zero,larger-than-interval} "
                       "with dump/restore inserted at random; distinct = different op text; non-trivial = at least one accepted step and (a refusal or the end reached)")
    if ok:
        n, impl, model, orc = ctx.correspond("timeline", h, vlib.driver("drv_c19"), ops,
                                             cmp=lambda a, b, op: a == strip_branch(b),
                                             group_start=lambda op: op.startswith("new"))
        # histogram + distinct from the model's answers
        cur, seen_step, seen_stop = None, False, False
        hist = []
        def close():
            if cur is not None:
                ctx.count()
                ctx.distinct(" ".join(hist), nontrivial=seen_step and seen_stop)
        for op, ml in zip(ops, model):
            if op.startswith("new"):
                close()
                cur, seen_step, seen_stop, hist = op, False, False, [op]
            else:
                hist.append(op)
            if " #" in ml:
                br = ml.split(" #")[1]
                ctx.branch(br)
                if br.startswith("stepped"):
                    seen_step = True
                if br in ("stepped-end", "tooSmall", "belowMin"):
                    seen_stop = True
        close()
        i = 0
        for j, op in enumerate(ops):
            if op.startswith("new") and len(ctx.cov["samples"]) < 3:
                k = j + 1
                while k < len(ops) and not ops[k].startswith("new"):
                    k += 1
                ctx.sample({"ops": ops[j:min(k, j + 6)], "impl": impl[j:min(k, j + 6)]})
    driver_stream(ctx)
    driver_limits(ctx)
    return 0


STEP_RE = None


def step_lines(log):
    """(step number, start time text, dt text) of every 'Starting hydro step' line of a run's log"""
    import re
    global STEP_RE
    if STEP_RE is None:
        STEP_RE = re.compile(r"Starting hydro step (\d+), t = (\S+) \S+, dt = (\S+) ")
    return [(int(m.group(1)), m.group(2), m.group(3)) for m in STEP_RE.finditer(log)]


def driver_case(binary, layout, per, total, k):
    """uninterrupted run vs `--number-of-steps k` + `--restart .` of the same pure-hydro problem, one thread:
    the restarted run must take exactly the steps the uninterrupted one takes (clause 'a time line saved and
    restored in the middle of a run continues identically', at the level of the driver that owns the time line)"""
    import os, shutil, tempfile
    import simrun
    param = simrun.hydro_param(layout, per, cells_per_subgrid=(2, 2, 2), total_time=total).replace("output interval: 100000. s", "output interval: 0. s")
    d1, d2 = tempfile.mkdtemp(prefix="verif_c19a_"), tempfile.mkdtemp(prefix="verif_c19b_")
    try:
        a = simrun.run_sim(binary, param, ["--task-based-rhd"], threads=1, timeout=120, trace=False, workdir=d1)
        b1 = simrun.run_sim(binary, param, ["--task-based-rhd", "--number-of-steps", str(k)], threads=1, timeout=120, trace=False, workdir=d2)
        b2 = simrun.run_sim(binary, param, ["--task-based-rhd", "--restart", "."], threads=1, timeout=120, trace=False, workdir=d2)
        return param, a, b1, b2
    finally:
        shutil.rmtree(d1, ignore_errors=True)
        shutil.rmtree(d2, ignore_errors=True)


def driver_stream(ctx, only=None):
    """whole-binary tie of the restore clause: the driver (TaskBasedRadiationHydrodynamicsSimulation.cpp) dumps and
    restores the time line together with what it derived from it (requested / actual step, has-next flag)"""
    binary = vlib.full_binary()
    st = ctx.cov["correspondence_streams"].setdefault("driver-restart", {"lines": 0, "mismatches": 0, "oracle_failures": 0})
    cases = only or [((1, 1, 1), (True, True, True), 0.004, ctx.rng.choice([1, 2, 3])),
                     ((2, 1, 1), (False, True, True), 0.003, ctx.rng.choice([2, 4, 5]))]
    if ctx.thorough and not only:
        cases += [((1, 2, 1), (True, False, True), 0.005, kk) for kk in (1, 3, 6, 9)]
    bad = 0
    for (layout, per, total, k) in cases:
        param, a, b1, b2 = driver_case(binary, layout, per, total, k)
        ctx.count()
        ctx.branch("driver-restart-runs")
        rep = {"stream": "driver-restart", "layout": layout, "periodicity": per, "total_time": total, "stop_after": k, "param": param,
               "cmd": "CMacIonize --params run.param --threads 1 --task-based-rhd [--number-of-steps %d | --restart .]" % k}
        for (nm, r) in (("uninterrupted", a), ("first part", b1), ("restarted", b2)):
            if r["timed_out"] or r["rc"] != 0:
                st["oracle_failures"] += 1
                bad += 1
                ctx.violation("driver:run-failed", "%s run (layout %s, stop after %d) ended with %s: %s" % (nm, layout, k, "a time-out" if r["timed_out"] else "status %d" % r["rc"], r["log"][-300:]), rep)
                break
        else:
            sa, sb = step_lines(a["log"]), step_lines(b1["log"]) + step_lines(b2["log"])
            st["lines"] += len(sa)
            if len(sa) < k + 2:
                ctx.notes.append("driver-restart case %s: only %d steps in the uninterrupted run (stop after %d)" % (layout, len(sa), k))
                continue
            if sa != sb:
                st["oracle_failures"] += 1
                bad += 1
                i = next((j for j in range(min(len(sa), len(sb))) if sa[j] != sb[j]), min(len(sa), len(sb)))
                ctx.violation("driver:restarted-run-takes-different-steps",
                              "pure-hydro run, one thread, layout %s: stopped after %d steps and restarted it takes %d steps, uninterrupted %d; first difference at position %d: restarted %r, uninterrupted %r"
                              % (layout, k, len(sb), len(sa), i, sb[i] if i < len(sb) else None, sa[i] if i < len(sa) else None), rep)
    return bad


def driver_limits(ctx, only=None):
    """whole-binary tie of the clauses 'no step larger than the configured maximum' and 'a power-of-two fraction of the
    interval' at the level of the driver that derives the TimeLine's limits from its parameters (maximum timestep,
    radiation time): every dt the run logs is <= maximum timestep, <= radiation time when one is set, and T / 2^k"""
    import math, shutil, tempfile
    import simrun
    binary = vlib.full_binary()
    st = ctx.cov["correspondence_streams"].setdefault("driver-limits", {"lines": 0, "mismatches": 0, "oracle_failures": 0})
    cases = only or [(1024.0, 64.0, 512.0), (1024.0, 128.0, 32.0), (1024.0, 64.0, -1.0)]
    bad = 0
    for (total, mx, rad) in cases:
        param = simrun.hydro_param((1, 1, 1), (True, True, True), cells_per_subgrid=(2, 2, 2), total_time=total, box=(1.e9, 1.e9, 1.e9)).replace(
            "  do radiation: false\n", "  do radiation: false\n  maximum timestep: %g s\n  radiation time: %g s\n" % (mx, rad))
        d = tempfile.mkdtemp(prefix="verif_c19l_")
        try:
            r = simrun.run_sim(binary, param, ["--task-based-rhd", "--number-of-steps", "12"], threads=1, timeout=120, trace=False, workdir=d)
        finally:
            shutil.rmtree(d, ignore_errors=True)
        ctx.count()
        ctx.branch("driver-limits-runs")
        rep = {"stream": "driver-limits", "total_time": total, "maximum_timestep": mx, "radiation_time": rad, "param": param,
               "cmd": "CMacIonize --params run.param --threads 1 --task-based-rhd --number-of-steps 12"}
        if r["timed_out"] or r["rc"] != 0:
            st["oracle_failures"] += 1
            bad += 1
            ctx.violation("driver:run-failed", "run with maximum timestep %g s, radiation time %g s ended with %s: %s" % (mx, rad, "a time-out" if r["timed_out"] else "status %d" % r["rc"], r["log"][-300:]), rep)
            continue
        steps = step_lines(r["log"])
        st["lines"] += len(steps)
        limit = mx if rad <= 0 else min(mx, rad)
        for (n, t, dt) in steps:
            try:
                x = float(dt)
            except ValueError:
                continue
            frac = total / x if x > 0 else 0.0
            if x > limit * (1 + 2e-5) or x <= 0 or abs(frac - 2.0 ** round(math.log2(frac))) > 2e-5 * frac:   # the log prints 6 significant digits
                st["oracle_failures"] += 1
                bad += 1
                ctx.violation("driver:step-exceeds-configured-limit" if x > limit * (1 + 2e-5) else "driver:step-not-a-power-of-two-fraction",
                              "pure-hydro run, total time %g s, maximum timestep %g s, radiation time %g s: step %d has dt = %s s (limit %g s)" % (total, mx, rad, n, dt, limit), rep)
                break
    return bad


def replay(ctx, path):
    import json
    obj = json.load(open(path))
    if obj.get("stream") == "driver-limits":
        n = driver_limits(ctx, only=[(obj["total_time"], obj["maximum_timestep"], obj["radiation_time"])])
        print("REPRODUCED" if n else "not reproduced")
        return 1 if n else 0
    if obj.get("stream") == "driver-restart":
        n = driver_stream(ctx, only=[(tuple(obj["layout"]), tuple(obj["periodicity"]), obj["total_time"], obj["stop_after"])])
        print("REPRODUCED" if n else "not reproduced")
        return 1 if n else 0
    return vlib.generic_replay(ctx, path, "c19", "drv_c19")

MANIFEST = dict(
    category="proof",
    text="Lean theorems over the integer time line for every history of requests (power-of-two step, divides the remainder, <= request and maximum, strictly increasing, never past 2^63, ends exactly, steps sum to the interval, restore = id, largest admissible step); model tied to TimeLine.hpp by exact differential runs (integers and double bit patterns identical) plus the property oracle on the implementation; the restore clause and the step limits are also run at driver level (whole binary: stop after k steps + restart takes exactly the steps of the uninterrupted run; every logged dt is a power-of-two fraction and not larger than min(maximum timestep, radiation time)).",
    note="Trusted: Lean kernel + 3 standard axioms; hand model of TimeLine.hpp; exactness of A*2^k in doubles (no underflow); theorems concern the integer clock, the reported double time is only compared; callers stop after advance() returned false; requests >= 0.",
    technique="Lean 4 proof by induction over the request history + exact differential correspondence")
