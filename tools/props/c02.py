"""C02 — a packet crossing a subgrid deposits exactly its geometric path (DESIGN §6 C02)."""
import json
import math
import os
import re
import sys

import vlib

sys.path.insert(0, os.path.dirname(os.path.dirname(os.path.abspath(__file__))))
import gen_c02_tables

F = vlib.f2bits

# where a classification sits on the box (-1 lower face, +1 upper face, 0 free), in the order of
# the TravelDirection enum; used by the GENERATOR only (the model uses the generated tables, the
# harness oracle its own table built from the enum names)
OFFS = [(0, 0, 0),
        (1, 1, 1), (1, 1, -1), (1, -1, 1), (1, -1, -1), (-1, 1, 1), (-1, 1, -1), (-1, -1, 1), (-1, -1, -1),
        (0, 1, 1), (0, 1, -1), (0, -1, 1), (0, -1, -1),
        (1, 0, 1), (1, 0, -1), (-1, 0, 1), (-1, 0, -1),
        (1, 1, 0), (1, -1, 0), (-1, 1, 0), (-1, -1, 0),
        (1, 0, 0), (-1, 0, 0), (0, 1, 0), (0, -1, 0), (0, 0, 1), (0, 0, -1)]
DIR_OF_OFF = {o: i for i, o in enumerate(OFFS)}

REL = 1.e-10          # relative tolerance on path / estimator increments / final position
TAU_REL = 1.e-10      # remaining optical depth: relative to the TARGET optical depth


def logu(rng, lo, hi):
    return 10 ** rng.uniform(lo, hi)


def gen_block(rng):
    n = [rng.choice([1, 1, 2, 2, 3, 3, 4, 5, 6, 7, 8, 8]) for _ in range(3)]
    style = rng.choice(["dyadic", "dyadic", "decimal", "random", "physical", "aniso"])
    if style == "dyadic":
        k = rng.randint(-3, 3)
        side = [n[a] * 2.0 ** (k + rng.choice([0, 0, 1])) for a in range(3)]
    elif style == "decimal":
        c = rng.choice([0.1, 0.3, 0.7, 1.1])
        side = [n[a] * c for a in range(3)]
    elif style == "random":
        side = [rng.uniform(0.5, 3.0) for a in range(3)]
    elif style == "physical":
        s = logu(rng, 15, 18)
        side = [s * rng.choice([1.0, 1.0, 0.5, rng.uniform(0.3, 1.0)]) for a in range(3)]
    else:
        side = [logu(rng, -2, 2) for a in range(3)]
    ak = rng.choice(["zero", "zero", "centred", "offset", "negative"])
    if ak == "zero":
        anchor = [0.0, 0.0, 0.0]
    elif ak == "centred":
        anchor = [-0.5 * s for s in side]
    elif ak == "offset":
        anchor = [rng.choice([1, 3, 7]) * s for s in side]
    else:
        anchor = [-rng.uniform(0, 5) * s for s in side]
    return n, side, anchor, style


def gen_cells(rng, physical):
    m = rng.choice([1, 1, 2, 3, 4, 5, 6])
    pal = []
    for _ in range(m):
        nd = rng.choice([0.0, 1.0, logu(rng, -2, 2), logu(rng, -2, 2), logu(rng, 6, 10) if physical else logu(rng, -1, 1)])
        xh = rng.choice([0.0, 1.0, 1.e-4, rng.random(), rng.random(), logu(rng, -6, 0)])
        xhe = rng.choice([0.0, 1.0, rng.random(), logu(rng, -6, 0)])
        pal.append((nd, xh, xhe))
    mul = rng.choice([1, 1, 3, 5, 7, 11])
    add = rng.randint(0, 7)
    return pal, mul, add


def unit(v):
    r = math.sqrt(sum(x * x for x in v))
    return [x / r for x in v]


def gen_dir(rng):
    kind = rng.choice(["axis", "axis", "plane-diag", "space-diag", "generic", "generic", "generic",
                       "one-zero", "near-axis", "dyadic"])
    sg = lambda: rng.choice([-1.0, 1.0])
    if kind == "axis":
        d = [0.0, 0.0, 0.0]
        d[rng.randint(0, 2)] = sg()
    elif kind == "plane-diag":
        z = rng.randint(0, 2)
        d = [sg(), sg(), sg()]
        d[z] = 0.0
        d = unit(d)
    elif kind == "space-diag":
        d = unit([sg(), sg(), sg()])
    elif kind == "generic":
        d = unit([rng.gauss(0, 1) for _ in range(3)])
    elif kind == "one-zero":
        d = [rng.gauss(0, 1) for _ in range(3)]
        d[rng.randint(0, 2)] = 0.0
        d = unit(d)
    elif kind == "near-axis":
        d = [rng.gauss(0, 1) * 10 ** -rng.uniform(4, 13) for _ in range(3)]
        d[rng.randint(0, 2)] = sg()
        d = unit(d)
    else:   # components that are exact binary fractions: exact ties between wall distances
        d = [sg() * rng.choice([0.25, 0.5, 0.5, 0.75, 1.0]) for _ in range(3)]
        if rng.random() < 0.3:
            d[rng.randint(0, 2)] = 0.0
        if d == [0.0, 0.0, 0.0]:
            d[0] = 1.0
    return d, kind


def coord_on_axis(rng, n, side, anchor, a, mode):
    """absolute coordinate along axis a"""
    cs = side[a] / n[a]
    if mode == "interior":
        return anchor[a] + side[a] * rng.uniform(0.001, 0.999)
    if mode == "wall":         # exactly on an internal cell wall (or the lower block face)
        k = rng.randint(0, n[a] - 1)
        return anchor[a] + k * cs
    if mode == "low":
        return anchor[a]
    if mode == "near-low":
        return anchor[a] + side[a] * 10 ** -rng.uniform(9, 15)
    if mode == "near-high":
        return anchor[a] + side[a] * (1.0 - 10 ** -rng.uniform(9, 15))
    if mode == "top":
        # ON the upper boundary in the code's own arithmetic: the largest double p with
        # p - anchor <= n * cell_size (a coordinate 1 ulp beyond it is outside the closed block)
        p = anchor[a] + n[a] * cs
        while p - anchor[a] > n[a] * cs:
            p = math.nextafter(p, -math.inf)
        return p
    raise ValueError(mode)


def gen_packet(rng, n, side, anchor, pal, physical, upper=False):
    """one packet; returns (fields, meta).  upper=True: the start lies on the UPPER block boundary
    on an axis whose index is computed from the position (it belongs to the last cell)"""
    d, dkind = gen_dir(rng)
    skind = rng.choice(["interior", "interior", "walls", "low-face-inside", "near-boundary",
                        "entry-face", "entry-face", "entry-edge", "entry-corner", "entry-mixed"])
    if upper:
        skind = rng.choice(["interior", "entry-face"])
    off = [0, 0, 0]
    moving = [a for a in range(3) if d[a] != 0.0]
    if skind.startswith("entry"):
        want = {"entry-face": 1, "entry-edge": 2, "entry-corner": 3, "entry-mixed": rng.randint(1, 3)}[skind]
        axes = rng.sample(moving, min(want, len(moving)))
        for a in axes:
            off[a] = -1 if d[a] > 0 else 1      # enters through the lower face when moving up
    in_dir = DIR_OF_OFF[tuple(off)]
    pos = [0.0, 0.0, 0.0]
    for a in range(3):
        if off[a] != 0:
            # pinned by update_photon_position: whatever is passed is overwritten
            base = anchor[a] if off[a] < 0 else anchor[a] + side[a]
            pos[a] = base + rng.choice([0.0, 0.0, 1.e-13 * side[a], -1.e-13 * side[a]])
        else:
            if skind == "walls" or (skind.startswith("entry") and rng.random() < 0.25):
                mode = rng.choice(["wall", "wall", "interior"])
            elif skind == "low-face-inside":
                mode = rng.choice(["low", "interior"])
            elif skind == "near-boundary":
                mode = rng.choice(["near-low", "near-high", "interior"])
            else:
                mode = "interior"
            pos[a] = coord_on_axis(rng, n, side, anchor, a, mode)
    if upper:
        free = [a for a in range(3) if off[a] == 0]
        for a in rng.sample(free, rng.randint(1, len(free))):
            pos[a] = coord_on_axis(rng, n, side, anchor, a, "top")
    # cross sections, weight, energy
    if physical:
        sH, sHe, sX = logu(rng, -23, -21), rng.choice([0.0, logu(rng, -23, -21)]), logu(rng, -24, -21)
    else:
        sH, sHe, sX = logu(rng, -2, 1), rng.choice([0.0, logu(rng, -2, 1)]), logu(rng, -2, 1)
    w = rng.choice([1.0, 1.0, 2.0 ** rng.randint(-3, 3), rng.uniform(0.1, 3.0)])
    nu = 3.288e15 * rng.choice([1.0, rng.uniform(1.0, 4.0), rng.uniform(1.0, 4.0)])
    # target optical depth from 1e-6 of the block scale to far beyond it
    kap = [nd * (sH * xh + sHe * xhe) for (nd, xh, xhe) in pal]
    tscale = max(max(kap), 1.e-300) * max(side)
    tk = rng.choice(["tiny", "small", "mid", "mid", "large", "huge", "abs"])
    tau = {"tiny": tscale * 1.e-6, "small": tscale * logu(rng, -4, -1), "mid": tscale * logu(rng, -1, 0.7),
           "large": tscale * logu(rng, 0.7, 2), "huge": tscale * 1.e6 + 1.0, "abs": logu(rng, -6, 2)}[tk]
    if not (tau > 0.0) or tau == float("inf"):
        tau = 1.0
    return [pos[0], pos[1], pos[2], d[0], d[1], d[2], tau, sH, sHe, sX, w, nu], in_dir, (dkind, skind, tk)


def gen_exact_hit(rng):
    """axis-aligned packet in a dyadic block whose target optical depth is reached EXACTLY at a
    cell wall (tau_done == tau_target): the branch where the surplus correction is 0"""
    n = [rng.randint(1, 8) for _ in range(3)]
    k = rng.randint(-2, 2)
    side = [n[a] * 2.0 ** k for a in range(3)]
    anchor = [0.0, 0.0, 0.0]
    nd, xh, xhe = rng.choice([1.0, 0.5, 3.0]), rng.choice([1.0, 0.25]), rng.choice([0.0, 0.5])
    a = rng.randint(0, 2)
    sgn = rng.choice([-1.0, 1.0])
    d = [0.0, 0.0, 0.0]
    d[a] = sgn
    cs = 2.0 ** k
    pos = [(rng.randint(0, n[b] - 1) + 0.5) * cs for b in range(3)]
    frac = rng.choice([0.0, 0.25, 0.5])
    ia = rng.randint(0, n[a] - 1)
    pos[a] = (ia + frac) * cs
    sH, sHe = rng.choice([1.0, 0.5, 2.0]), rng.choice([1.0, 0.25])
    ncross = rng.randint(1, 3)
    # same operations as get_optical_depth, cell by cell (all cells equal)
    tau_done, p, i = 0.0, pos[a], ia
    for _ in range(ncross):
        if not (0 <= i < n[a]):
            break
        lo, hi = i * cs, (i + 1.0) * cs
        l = (hi - p) * (1.0 / sgn) if sgn > 0 else (lo - p) * (1.0 / sgn)
        tau_done += l * nd * (sH * xh + sHe * xhe)
        p = hi if sgn > 0 else lo
        i += 1 if sgn > 0 else -1
    tau = tau_done if tau_done > 0 else 1.0
    fields = [pos[0], pos[1], pos[2], d[0], d[1], d[2], tau, sH, sHe, 1.0, 1.0, 2.0 * 3.288e15]
    return n, side, anchor, [(nd, xh, xhe)], fields


def gen_lattice(rng):
    """block, cells and packets for which every geometric operation is exact in doubles (cell
    sizes powers of two, anchor and start on the quarter-cell lattice, direction components in
    {0, +-1/4, +-1/2, +-1}): exact ties at cell edges and corners, strict oracle (ex = 1)"""
    n = [rng.choice([1, 2, 2, 3, 4, 4, 5, 8]) for _ in range(3)]
    if rng.random() < 0.5:
        n = [n[0]] * 3
    k = rng.randint(-2, 2)
    cs = [2.0 ** (k + rng.choice([0, 0, 0, 1])) for _ in range(3)]
    if rng.random() < 0.6:
        cs = [cs[0]] * 3
    side = [n[a] * cs[a] for a in range(3)]
    anchor = [rng.choice([0, 0, -1, 2, -4, 8]) * cs[a] for a in range(3)]
    pal, mul, add = gen_cells(rng, False)
    pk = []
    for _ in range(rng.choice([2, 4, 8])):
        mags = rng.choice([[1.0, 1.0, 1.0], [1.0, 1.0, 1.0], [0.5, 0.5, 0.5], [1.0, 0.5, 0.5], [1.0, 1.0, 0.5], [0.25, 0.5, 1.0],
                           [1.0, 1.0, 0.0], [1.0, 0.5, 0.0], [1.0, 0.0, 0.0], [0.5, 0.25, 0.25]])
        mags = list(mags)
        rng.shuffle(mags)
        d = [m * rng.choice([-1.0, 1.0]) for m in mags]
        moving = [a for a in range(3) if d[a] != 0.0]
        want = rng.choice([0, 0, 1, 2, 3])
        off = [0, 0, 0]
        for a in rng.sample(moving, min(want, len(moving))):
            off[a] = -1 if d[a] > 0 else 1
        pos = [0.0, 0.0, 0.0]
        for a in range(3):
            if off[a] == -1:
                pos[a] = anchor[a]
            elif off[a] == 1:
                pos[a] = anchor[a] + side[a]
            else:
                j = rng.randint(0, 4 * n[a] - 1)
                if rng.random() < 0.5:
                    j -= j % 4          # on a cell wall
                pos[a] = anchor[a] + j * cs[a] / 4
        sH, sHe, sX = logu(rng, -2, 1), rng.choice([0.0, logu(rng, -2, 1)]), logu(rng, -2, 1)
        w = 2.0 ** rng.randint(-2, 2)
        nu = 3.288e15 * rng.choice([1.0, 2.0, rng.uniform(1.0, 4.0)])
        kap = [nd * (sH * xh + sHe * xhe) for (nd, xh, xhe) in pal]
        tscale = max(max(kap), 1.e-300) * max(side)
        tau = rng.choice([tscale * 1.e6 + 1.0, tscale * 1.e6 + 1.0, tscale * logu(rng, -2, 0.5)])
        if not (tau > 0.0) or tau == float("inf"):
            tau = 1.0
        pk.append(([pos[0], pos[1], pos[2], d[0], d[1], d[2], tau, sH, sHe, sX, w, nu], DIR_OF_OFF[tuple(off)]))
    return n, side, anchor, pal, mul, add, pk


def blk_line(n, side, anchor):
    return "blk %d %d %d %d %d %d %d %d %d" % (F(anchor[0]), F(anchor[1]), F(anchor[2]),
                                                F(side[0]), F(side[1]), F(side[2]), n[0], n[1], n[2])


def cells_line(pal, mul, add):
    return "cells %d %d %d " % (len(pal), mul, add) + " ".join("%d %d %d" % (F(a), F(b), F(c)) for a, b, c in pal)


def pkt_line(fields, in_dir, pid, exact=0):
    return "pkt " + " ".join(str(F(x)) for x in fields) + " %d %d %d" % (in_dir, pid, exact)


def pkt_id(op):
    return op.split()[14]


def generate(rng, npackets, upper=False, start_id=0):
    ops, meta = [], {}
    pid = start_id
    while pid - start_id < npackets:
        if not upper and rng.random() < 0.04:
            n, side, anchor, pal, fields = gen_exact_hit(rng)
            ops.append(blk_line(n, side, anchor))
            ops.append(cells_line(pal, 1, 0))
            ops.append(pkt_line(fields, 0, pid))
            meta[pid] = ("axis", "exact-hit", "exact", "dyadic")
            pid += 1
            continue
        if not upper and rng.random() < 0.12:
            n, side, anchor, pal, mul, add, pk = gen_lattice(rng)
            ops.append(blk_line(n, side, anchor))
            ops.append(cells_line(pal, mul, add))
            for fields, in_dir in pk:
                ops.append(pkt_line(fields, in_dir, pid, 1))
                meta[pid] = ("lattice", "lattice", "lattice", "lattice")
                pid += 1
            continue
        n, side, anchor, style = gen_block(rng)
        physical = style == "physical"
        pal, mul, add = gen_cells(rng, physical)
        ops.append(blk_line(n, side, anchor))
        ops.append(cells_line(pal, mul, add))
        for _ in range(rng.choice([1, 2, 4, 8])):
            fields, in_dir, m = gen_packet(rng, n, side, anchor, pal, physical, upper)
            ops.append(pkt_line(fields, in_dir, pid))
            meta[pid] = m + (style,)
            pid += 1
    return ops, meta


def clean_fields(n, side, anchor, fields, in_dir):
    """the same packet with the coordinates on the faces named by the entry classification set
    EXACTLY (propagate / compute_optical_depth do not move the position onto the faces): lower
    face = anchor, upper face = the largest double p with p - anchor <= extent both in exact
    arithmetic (extent = side) and in the code's doubles (extent = n * cell_size)"""
    from fractions import Fraction
    f = list(fields)
    off = OFFS[in_dir]
    for a in range(3):
        if off[a] == -1:
            f[a] = anchor[a]
        elif off[a] == 1:
            cs = side[a] / n[a]
            p = anchor[a] + n[a] * cs
            while p - anchor[a] > n[a] * cs or Fraction(p) - Fraction(anchor[a]) > Fraction(side[a]):
                p = math.nextafter(p, -math.inf)
            f[a] = p
    return f


def gen_variants(rng, ntriples, start_id):
    """the three traversals of DensitySubGrid on the same packet: interact, propagate,
    compute_optical_depth (ids id, id+1, id+2)"""
    ops, meta = [], {}
    pid = start_id
    made = 0
    while made < ntriples:
        if rng.random() < 0.2:
            n, side, anchor, pal, mul, add, pk = gen_lattice(rng)
            packets = [(fields, in_dir, 1, ("lattice",) * 3) for fields, in_dir in pk]
            style = "lattice"
        else:
            n, side, anchor, style = gen_block(rng)
            pal, mul, add = gen_cells(rng, style == "physical")
            packets = []
            for _ in range(rng.choice([1, 2, 4])):
                fields, in_dir, m = gen_packet(rng, n, side, anchor, pal, style == "physical", upper=rng.random() < 0.1)
                packets.append((fields, in_dir, 0, m))
        ops.append(blk_line(n, side, anchor))
        ops.append(cells_line(pal, mul, add))
        for fields, in_dir, ex, m in packets:
            f = clean_fields(n, side, anchor, fields, in_dir)
            for k, kind in enumerate(("pkt", "prp", "cod")):
                ops.append(kind + pkt_line(f, in_dir, pid + k, ex)[3:])
                meta[pid + k] = m + (style,)
            pid += 3
            made += 1
    return ops, meta


# ------------------------------------------------------------------------------- comparison

def parse_pkt(line):
    """'pkt out=.. fin=.. pos=a b c tau=t nv=k v cell path jH jHe jX cJH cJHe cJX cHH cHHe ...' -> dict
    (per visit: path, the three mean-intensity increments, the five counters of the cell after the packet)"""
    line = vlib.strip_branch(line)
    m = re.match(r"pkt out=(-?\d+) fin=(\d) pos=(\S+) (\S+) (\S+) tau=(\S+) nv=(\d+)(.*)$", line)
    if not m:
        return None
    rest = m.group(8).split()
    visits = []
    i = 0
    while i < len(rest) and rest[i] == "v":
        visits.append((rest[i + 1], rest[i + 2:i + 11]))
        i += 11
    return {"out": m.group(1), "fin": m.group(2), "pos": [m.group(3), m.group(4), m.group(5)],
            "tau": m.group(6), "nv": int(m.group(7)), "visits": visits}


def parse_var(line):
    """'prp|cod out=.. fin=.. pos=a b c tau=t' -> dict"""
    line = vlib.strip_branch(line)
    m = re.match(r"(prp|cod) out=(-?\d+) fin=(\d) pos=(\S+) (\S+) (\S+) tau=(\S+)", line)
    if not m:
        return None
    return {"kind": m.group(1), "out": m.group(2), "fin": m.group(3), "pos": [m.group(4), m.group(5), m.group(6)],
            "tau": m.group(7)}


KINDS = ("pkt", "prp", "cod")


class Comparer:
    def __init__(self, ops):
        self.ctx_of = {}       # packet id -> (blk line, cells line)
        self.scale_of = {}
        blk = cells = None
        for op in ops:
            if op.startswith("blk"):
                blk = op
            elif op.startswith("cells"):
                cells = op
            elif op.startswith(KINDS):
                self.ctx_of[pkt_id(op)] = (blk, cells)
        self.ties_accepted = 0
        self.nvals = 0
        self.nexact = 0
        self.maxrel = 0.0
        self.ratq = []         # packets whose discrete outcome differs: decided by the Rat run

    def scale(self, op):
        blk = self.ctx_of[pkt_id(op)][0].split()
        anchor = [abs(vlib.bits2f(x)) for x in blk[1:4]]
        side = [abs(vlib.bits2f(x)) for x in blk[4:7]]
        return max(anchor) + max(side)

    def val(self, a, b, rel, floor):
        self.nvals += 1
        if a == b:
            self.nexact += 1
            return True
        if a == "nan" or b == "nan":
            return False
        x, y = vlib.bits2f(a), vlib.bits2f(b)
        if x == y:
            self.nexact += 1
            return True
        den = max(abs(x), abs(y))
        if den > 0 and math.isfinite(den):
            self.maxrel = max(self.maxrel, abs(x - y) / den)
        return vlib.floats_close(a, b, rel, floor)

    def __call__(self, a, b, op):
        b = vlib.strip_branch(b)
        if op.startswith(("prp", "cod")):
            A, B = parse_var(a), parse_var(b)
            if A is None or B is None:
                return False
            w = op.split()
            tau_target = vlib.bits2f(w[7])
            L = self.scale(op)
            if not (A["kind"] == B["kind"] and A["out"] == B["out"] and A["fin"] == B["fin"]):
                if self.rat_tie(op):
                    self.ties_accepted += 1
                    return True
                return False
            ok = all(self.val(x, y, REL, REL * L) for x, y in zip(A["pos"], B["pos"]))
            if A["kind"] == "prp":
                return self.val(A["tau"], B["tau"], 0.0, TAU_REL * tau_target) and ok
            return self.val(A["tau"], B["tau"], REL, 0.0) and ok
        if not op.startswith("pkt"):
            if op.startswith("blk"):
                wa, wb = a.replace("=", " ").split(), b.replace("=", " ").split()
                return len(wa) == len(wb) and all(x == y or (x.isdigit() and y.isdigit() and self.val(x, y, REL, 0.0)) for x, y in zip(wa, wb))
            return a == b
        A, B = parse_pkt(a), parse_pkt(b)
        if A is None or B is None:
            return False
        w = op.split()
        tau_target = vlib.bits2f(w[7])
        L = self.scale(op)
        discrete = (A["out"] == B["out"] and A["fin"] == B["fin"] and A["nv"] == B["nv"]
                    and [v[0] for v in A["visits"]] == [v[0] for v in B["visits"]])
        if not discrete:
            # accepted only if the exact run shows a near tie (two wall distances / the optical
            # depth test / the start index within 4 ulp)
            if self.rat_tie(op):
                self.ties_accepted += 1
                return True
            return False
        ok = all(self.val(x, y, REL, REL * L) for x, y in zip(A["pos"], B["pos"]))
        ok = self.val(A["tau"], B["tau"], 0.0, TAU_REL * tau_target) and ok
        for (ca, va), (cb, vb) in zip(A["visits"], B["visits"]):
            # path: absolute floor tied to the block size (a path that should be 0 may be 1e-17)
            ok = self.val(va[0], vb[0], REL, REL * L * 1.e-3) and ok
            for x, y in zip(va[1:], vb[1:]):
                ok = self.val(x, y, REL, 0.0) and ok
        return ok

    def rat_tie(self, op):
        blk, cells = self.ctx_of[pkt_id(op)]
        rc, out, err = vlib.run_exe(vlib.driver("drv_c02"), "\n".join([blk, cells, op]) + "\n", args=["rat"])
        lines = [l for l in out.split("\n") if l]
        return rc == 0 and len(lines) == 3 and " tie=1" in lines[2]


# starts on the upper x face (x = 2) of a 2x1x1 block of unit cells at the origin, entry INSIDE:
# travelling in -x the packet traverses the block (absorbed after a path of 1 in cell 1),
# travelling in +x it leaves at once through FACE_X_P with zero path
MINIMAL_UPPER = [
    "blk 0 0 0 %d %d %d 2 1 1" % (F(2.0), F(1.0), F(1.0)),
    "cells 1 1 0 %d %d 0" % (F(1.0), F(1.0)),
    "pkt " + " ".join(str(F(x)) for x in [2.0, 0.5, 0.5, -1.0, 0.0, 0.0, 1.0, 1.0, 0.0, 1.0, 1.0, 4.e15]) + " 0 9999999 1",
    "pkt " + " ".join(str(F(x)) for x in [2.0, 0.5, 0.5, 1.0, 0.0, 0.0, 1.0, 1.0, 0.0, 1.0, 1.0, 4.e15]) + " 0 9999998 1",
    "pkt " + " ".join(str(F(x)) for x in [2.0, 0.5, 0.5, -1.0, 0.0, 0.0, 1.e9, 1.0, 0.0, 1.0, 1.0, 4.e15]) + " 0 9999997 1",
]


def oracle_key(what, grp):
    return "march:" + re.sub(r"\(.*?\)", "", what.split()[0])


def run(ctx):
    ctx.level = "proof"
    ctx.assumptions += [
        "theorems are about exact arithmetic (any linear ordered field); IEEE rounding is the named gap, bounded empirically by the correspondence tolerance (1e-10) and by the exact Rat run of the same definitions",
        "DBL_MAX sentinel of axes with direction component 0: theorems assume cell_size < DBL_MAX * |direction component| on every moving axis (hypothesis Valid.big)",
        "start position in the closed block on every axis whose index is computed from the position: 0 <= x <= extent (a position on the upper boundary belongs to the last cell: the computed index is clamped, std::min(index, n-1)); what the code did before the clamp is kept as old_code_upper_boundary_index_outside; exercised by the 'upper' stream",
        "the cast double -> int of position*inv_cell_size is modelled by a bounded search (floorUpTo), equal to the cast for 0 <= x < n+1 (larger values give n instead; no difference after the clamp to n-1)",
        "compiled configuration: HAS_HELIUM, no VARIABLE_ABUNDANCES, no USE_LOCKFREE, no SUBGRID_CELL_LOCK; assertions (cmac_assert) compiled out and not relied upon",
        "stops_inside_iff compares with the optical depth of the whole line as accumulated by the loop of compute_optical_depth (marchFree, now a modelled routine of the code with its own correspondence stream), for which path_sum / segments / exit geometry are proved as well (cod_spec); the harness oracle compares with an independent slab-method chord computation in long double",
        "propagate and compute_optical_depth do not move the position onto the faces named by the entry classification: their theorems assume (StartNoPin) that the position handed over lies in the closed cell get_start_index selects; the generator hands over positions exactly on the faces, the Rat run evaluates this premise on every sampled packet",
        "the premises of the theorems (Valid incl. the DBL_MAX magnitude condition, Start / StartNoPin) are evaluated exactly (Rat) on every sampled packet and counted in coverage.exact_run.premises_hold; a failed conclusion counts as a broken obligation only when the premises hold",
        "counters: the model's deposit (fold of += over the visits) is compared with the real counters accumulated over all packets of a group (no reset between packets); only the five counters H, He, one further ion, heating H, heating He are in the model, the remaining ions are checked by the harness oracle (old value + increment, bit-exact)",
    ]
    # 1. regenerate the tables from the current headers (translator), then the obligations
    _, changed = gen_c02_tables.generate()
    if changed:
        ctx.notes.append("Gen/TravelDirectionsC02.lean changed: tables regenerated from the current headers")
    ok = ctx.obligations("CMacVerif.Props.C02", ["drv_c02"])
    h = vlib.build_harness("c02", extra=["-DOMPI_SKIP_MPICXX"] + gen_c02_tables.system_includes())
    if not ok:
        # still evaluate the property oracle on the implementation (violation search)
        ops, meta = generate(ctx.rng, ctx.budget(1500, 20000))
        rc, out, err = vlib.run_exe(h, "\n".join(ops) + "\n")
        impl, orc = vlib.split_oracle(out)
        for o in orc[:20]:
            i = int(re.search(r"line=(\d+)", o).group(1)) - 1
            grp = vlib.Ctx._group(ops, i, lambda op: op.startswith("blk"))
            grp = [grp[0], grp[1], grp[-1]] if len(grp) > 3 else grp
            what = re.sub(r"line=\d+\s*", "", o[len("ORACLE"):]).strip()
            ctx.violation(oracle_key(what, grp), "property fails on the implementation: " + what,
                          {"stream": "march", "ops": grp, "oracle": o})
        return

    npk = ctx.budget(6000, 1000000)
    ops = vlib.corpus_ops("C02")
    gen_ops, meta = generate(ctx.rng, npk)
    ops += gen_ops
    ctx.cov["rule"] = ("packets through real DensitySubGrid blocks: shapes 1..8 per axis x cell sizes {dyadic, decimal, random, physical 1e15-1e18 m, anisotropic} x anchors x "
                       "palettes of cell contents incl. 0 density / 0 neutral fraction x directions {axis, plane diagonal, space diagonal, generic, one zero component, nearly axis-aligned, "
                       "binary fractions (exact ties)} x starts {interior, on internal cell walls, on lower block faces with INSIDE, 1e-9..1e-15 from the boundary, entry through face/edge/corner with "
                       "matching classification, exact optical-depth hit at a wall} x target optical depth 1e-6..1e6 of the block scale; distinct = different packet text; "
                       "non-trivial = at least two cells visited or stopped inside")
    cmp = Comparer(ops)
    nmis, impl, model, orc = ctx.correspond("march", h, vlib.driver("drv_c02"), ops, cmp=cmp,
                                            group_start=lambda op: op.startswith("blk"), oracle_key=oracle_key)
    acc = {"visits": 0, "on_nonzero_counter": 0}
    for op, ml in zip(ops, model):
        if not op.startswith("pkt"):
            continue
        ctx.count()
        P = parse_pkt(ml)
        tags = ml.split(" #")[1].split(",") if " #" in ml else []
        for t in tags:
            ctx.branch(t)
        m = meta.get(int(pkt_id(op)))
        if m:
            ctx.branch("gen-dir-" + m[0])
            ctx.branch("gen-start-" + m[1])
            ctx.branch("gen-tau-" + m[2])
            ctx.branch("gen-block-" + m[3])
        ctx.distinct(op.rsplit(" ", 1)[0], nontrivial=bool(P) and (P["nv"] >= 2 or P["out"] == "0"))
        if P:
            for _, vals in P["visits"]:
                acc["visits"] += 1
                # the counter of the cell after the packet differs from this packet's increment:
                # the increment landed on what an earlier packet of the group had left there
                acc["on_nonzero_counter"] += (vals[1] != vals[4])
    ctx.cov["counter_accumulation"] = acc
    # samples
    shown = 0
    for i, op in enumerate(ops):
        if op.startswith("pkt") and shown < 3 and i < len(impl) and len(impl[i]) < 1500:
            blk, cells = cmp.ctx_of[pkt_id(op)]
            ctx.sample({"ops": [blk, cells, op], "impl": impl[i], "model": model[i] if i < len(model) else None})
            shown += 1

    # 2. the 'upper' stream: starts exactly on the upper block boundary on an axis whose index is
    #    computed from the position (entry INSIDE or through another face).  Since the index is
    #    clamped to the last cell these starts are inside the domain of the theorems: strict
    #    oracle, no finding key.
    up_ops, up_meta = generate(ctx.rng, ctx.budget(300, 5000), upper=True, start_id=10 ** 7)
    up_ops = MINIMAL_UPPER + up_ops
    cmp_up = Comparer(up_ops)
    nmis_u, impl_u, model_u, orc_u = ctx.correspond("upper", h, vlib.driver("drv_c02"), up_ops, cmp=cmp_up,
                                                    group_start=lambda op: op.startswith("blk"),
                                                    oracle_key=lambda what, grp: "upper:" + re.sub(r"\(.*?\)", "", what.split()[0]))
    for op, ml in zip(up_ops, model_u):
        if op.startswith("pkt"):
            ctx.count()
            ctx.branch("gen-start-upper-boundary")
            if " #" in ml:
                for t in ml.split(" #")[1].split(","):
                    ctx.branch("upper-" + t)

    # 2b. the 'variants' stream: interact, propagate and compute_optical_depth on the same packet
    #     (positions exactly on the faces of the entry classification).  Model vs code for each of
    #     the three, and the cross statements of the theorems evaluated on the IMPLEMENTATION:
    #     propagate = interact without counters (propagate_eq_interact), interact stops inside iff
    #     its target <= what compute_optical_depth adds (interact_stops_iff_cod).
    var_ops, var_meta = gen_variants(ctx.rng, ctx.budget(1200, 100000), start_id=2 * 10 ** 7)
    cmp_var = Comparer(var_ops)
    nmis_v, impl_v, model_v, orc_v = ctx.correspond("variants", h, vlib.driver("drv_c02"), var_ops, cmp=cmp_var,
                                                    group_start=lambda op: op.startswith("blk"),
                                                    oracle_key=lambda what, grp: "%s:%s" % ({"pkt": "march", "prp": "propagate", "cod": "cod"}[grp[-1][:3]],
                                                                                           re.sub(r"\(.*?\)", "", what.split()[0])))
    cross = {"triples": 0, "propagate_equals_interact": 0, "stop_iff_cod": 0, "near_target": 0}
    for i, op in enumerate(var_ops):
        if op.startswith(KINDS) and i < len(model_v):
            ctx.count()
            ctx.branch("gen-variant-" + op[:3])
            if " #" in model_v[i]:
                for t in model_v[i].split(" #")[1].split(","):
                    if t.startswith(("prp-", "cod-")):
                        ctx.branch(t)
        if not (op.startswith("pkt") and i + 2 < len(impl_v) and var_ops[i + 1].startswith("prp")):
            continue
        I, P, C = parse_pkt(impl_v[i]), parse_var(impl_v[i + 1]), parse_var(impl_v[i + 2])
        if not (I and P and C):
            continue
        cross["triples"] += 1
        w = op.split()
        tt = vlib.bits2f(w[7])
        L = cmp_var.scale(op)
        blk, cells = cmp_var.ctx_of[pkt_id(op)]
        close = lambda a, b, tol: abs(vlib.bits2f(a) - vlib.bits2f(b)) <= tol
        same = (I["out"] == P["out"] and all(close(x, y, 1.e-9 * L) for x, y in zip(I["pos"], P["pos"]))
                and close(I["tau"], P["tau"], 1.e-9 * tt + 1.e-9 * abs(vlib.bits2f(I["tau"]))))
        if same:
            cross["propagate_equals_interact"] += 1
        elif not cmp_var.rat_tie(op):
            ctx.violation("cross:propagate-differs-from-interact",
                          "propagate and interact disagree on the same packet: interact %s / propagate %s" % (impl_v[i][:200], impl_v[i + 1][:200]),
                          {"stream": "variants", "ops": [blk, cells, op, var_ops[i + 1]], "impl": [impl_v[i], impl_v[i + 1]]})
        added = vlib.bits2f(C["tau"]) - tt
        near = abs(added - tt) <= 1.e-9 * max(tt, added) or not math.isfinite(added)
        inside = I["out"] == "0"
        if near:
            cross["near_target"] += 1
        elif inside == (tt <= added):
            cross["stop_iff_cod"] += 1
            if not inside and not (C["out"] == I["out"] and all(close(x, y, 1.e-9 * L) for x, y in zip(I["pos"], C["pos"]))) and not cmp_var.rat_tie(op):
                ctx.violation("cross:compute_optical_depth-leaves-elsewhere",
                              "interact and compute_optical_depth leave the block at different places: %s / %s" % (impl_v[i][:200], impl_v[i + 2][:200]),
                              {"stream": "variants", "ops": [blk, cells, op, var_ops[i + 2]], "impl": [impl_v[i], impl_v[i + 2]]})
        elif not cmp_var.rat_tie(op):
            ctx.violation("cross:stop-inside-iff-line-optical-depth",
                          "interact %s although compute_optical_depth adds %.17g for a target of %.17g" % ("stops inside" if inside else "leaves", added, tt),
                          {"stream": "variants", "ops": [blk, cells, op, var_ops[i + 2]], "impl": [impl_v[i], impl_v[i + 2]]})
    ctx.cov["cross_checks_on_implementation"] = cross

    # 3. exact run of the same definitions (Rat) on a sample: ties, theorem statements, deviation
    pk = [op for op in ops if op.startswith("pkt")]
    nrat = ctx.budget(400, 6000)
    step = max(1, len(pk) // nrat)
    rat_ops = []
    for op in pk[::step][:nrat]:
        blk, cells = cmp.ctx_of[pkt_id(op)]
        rat_ops += [blk, cells, op]
    vk = [op for op in var_ops if op.startswith(KINDS)]
    nvar = ctx.budget(240, 3000)
    vstep = max(1, (len(vk) // 3) // max(1, nvar // 3))
    for j in range(0, len(vk) - 2, 3 * vstep):
        if j // (3 * vstep) >= nvar // 3:
            break
        blk, cells = cmp_var.ctx_of[pkt_id(vk[j])]
        rat_ops += [blk, cells, vk[j], vk[j + 1], vk[j + 2]]
    cmp.ctx_of.update(cmp_var.ctx_of)
    rc, out, err = vlib.run_exe(vlib.driver("drv_c02"), "\n".join(rat_ops) + "\n", args=["rat"])
    ratl = [l for l in out.split("\n") if l]
    model_by_id = {pkt_id(op): ml for op, ml in zip(ops, model) if op.startswith("pkt")}
    model_by_id.update({pkt_id(op): ml for op, ml in zip(var_ops, model_v) if op.startswith("pkt")})
    st = {"packets": 0, "near_ties": 0, "theorem_instances_ok": 0, "same_cells_as_float": 0, "max_rel_dev_path_float_vs_exact": 0.0,
          "propagate": 0, "compute_optical_depth": 0, "premises_hold": 0, "premises_fail": {}}
    if rc != 0 or len(ratl) != len(rat_ops):
        ctx.broken_obligation("exact (Rat) run of the model failed: rc=%d %s" % (rc, err[-300:]))
    else:
        for op, rl in zip(rat_ops, ratl):
            if not op.startswith(KINDS):
                continue
            st["packets"] += 1
            st["propagate"] += op.startswith("prp")
            st["compute_optical_depth"] += op.startswith("cod")
            tie = " tie=1" in rl
            st["near_ties"] += tie
            # the premises of the theorems, evaluated exactly on this input
            hyp = re.search(r" hyp=(\S+)", rl)
            hyp = hyp.group(1) if hyp else "missing"
            if hyp == "ok":
                st["premises_hold"] += 1
            else:
                for hname in hyp.split(","):
                    st["premises_fail"][hname] = st["premises_fail"].get(hname, 0) + 1
            if rl.endswith("exact=ok"):
                st["theorem_instances_ok"] += 1
            elif hyp == "ok":
                blk, cells = cmp.ctx_of[pkt_id(op)]
                ctx.broken_obligation("exact run: the statements of the C02 theorems fail on the Rat instantiation of the model although their premises hold (%s)" % rl.split("exact=")[-1],
                                      json.dumps({"ops": [blk, cells, op], "rat": rl}))
            else:
                st["conclusion_fails_outside_premises"] = st.get("conclusion_fails_outside_premises", 0) + 1
            if not op.startswith("pkt"):
                continue
            R = parse_pkt(re.sub(r" tie=.*$", "", re.sub(r"( v \S+ \S+)", r"\1 0 0 0 0 0 0 0 0", rl)))
            Fm = parse_pkt(model_by_id.get(pkt_id(op), ""))
            if R and Fm:
                same = R["out"] == Fm["out"] and [v[0] for v in R["visits"]] == [v[0] for v in Fm["visits"]]
                st["same_cells_as_float"] += same
                if same:
                    for (c1, v1), (c2, v2) in zip(R["visits"], Fm["visits"]):
                        x, y = vlib.bits2f(v1[0]), vlib.bits2f(v2[0])
                        if max(abs(x), abs(y)) > 0:
                            L = cmp.scale(op)
                            if max(abs(x), abs(y)) > 1e-6 * L:
                                st["max_rel_dev_path_float_vs_exact"] = max(st["max_rel_dev_path_float_vs_exact"], abs(x - y) / max(abs(x), abs(y)))
                elif not tie:
                    ctx.notes.append("Float and exact run visit different cells without a 4-ulp tie: " + op)
    ctx.cov["exact_run"] = st
    tot = cmp.nvals + cmp_up.nvals + cmp_var.nvals
    ctx.cov["bit_exact_rate"] = round((cmp.nexact + cmp_up.nexact + cmp_var.nexact) / tot, 6) if tot else None
    ctx.cov["values_compared"] = tot
    ctx.cov["max_rel_dev_impl_vs_model"] = max(cmp.maxrel, cmp_up.maxrel, cmp_var.maxrel)
    ctx.cov["tolerance"] = {"path/estimators/position": REL, "remaining_tau_relative_to_target": TAU_REL,
                            "discrete": "identical unless the exact run shows a 4-ulp tie"}
    ctx.cov["ties_accepted"] = cmp.ties_accepted + cmp_up.ties_accepted + cmp_var.ties_accepted
    ctx.cov["generated_table"] = "lean/CMacVerif/Gen/TravelDirectionsC02.lean (regenerated from the headers on this run)"
    # coverage gate (thorough): every branch of the model must have been taken
    need = ["in-inside", "in-face", "in-edge", "in-corner", "static0", "static1", "static2", "out-inside", "out-face",
            "out-edge", "out-corner", "leave1", "leave2", "leave3", "stop-surplus", "stop-exact", "tau0", "zero-path", "dir-neg", "dir-pos",
            "prp-in-inside", "prp-in-face", "prp-in-edge", "prp-in-corner", "prp-out-inside", "prp-out-face", "prp-out-edge", "prp-out-corner",
            "prp-stop-surplus", "prp-leave1", "prp-leave2", "prp-leave3", "cod-out-face", "cod-out-edge", "cod-out-corner", "cod-passes1", "cod-passes2+"]
    missing = [b for b in need if ctx.cov["branch_histogram"].get(b, 0) == 0]
    if missing:
        ctx.notes.append("coverage gate: model branches never taken: " + ", ".join(missing))
        if ctx.thorough:
            ctx.cov["coverage_gate"] = "insufficient: " + ", ".join(missing)
    else:
        ctx.cov["coverage_gate"] = "all model branches taken"


def replay(ctx, path):
    gen_c02_tables.generate()
    obj = json.load(open(path))
    ops = obj.get("ops", [])
    cmp = Comparer(ops) if ops else None
    return vlib.generic_replay(ctx, path, "c02", "drv_c02", cmp=cmp,
                               harness_kw={"extra": ["-DOMPI_SKIP_MPICXX"] + gen_c02_tables.system_includes()})


MANIFEST = dict(
    category="proof",
    text="Lean theorems over any linear ordered field for the statement-by-statement model of DensitySubGrid::interact (every block shape, cell content, "
         "packet, entry classification satisfying Hyp): the loop ends within nx+ny+nz+1 condition tests (fuel_sufficient); final = start + (sum of paths)*direction, "
         "paths >= 0, (sum of paths)^2 = |final-start|^2 for unit directions, every visited cell contains both ends of its segment (path_sum, path_sum_is_distance, "
         "segments_in_cells); a leaving packet keeps tau_target - sum(kappa*path) > 0, a stopping packet deposited exactly tau_target (tau_account); per-cell estimator "
         "increments are path*sigma*w and *(nu-nu0) (estimators); INSIDE is returned iff tau_target <= optical depth of the whole line through the block "
         "(stops_inside_iff, fullTau_is_line_sum); a leaving packet gets a classification 1..26, lies exactly on the faces it names, crossing them outwards, is strictly "
         "inside on the other axes it moves along, and passes is_compatible_output_direction (exit_geometric); per-pass lemmas one_pass_leave / one_pass_stop. "
         "All of these are corollaries of theorems about the loop from ANY admissible entry state (trav_*), which also give the same statements for propagate (propagate_*: "
         "no pinning, no counters; propagate_eq_interact when the position already sits on the named faces) and for compute_optical_depth (cod_spec: ends outside within the fuel, "
         "adds exactly sum(kappa*path) of the whole line, exit geometry; cod_independent_of_target; interact_stops_iff_cod: interact stops inside iff target <= what "
         "compute_optical_depth adds). Counters: after any sequence of visits every counter is old value + sum of its increments (deposit_spec, counters_after_interact). "
         "hyp_of_inputs reduces Hyp to conditions on the constructor and call arguments. "
         "The 27-direction tables (index rule, pinning rule, mask table, compatibility) are regenerated from the headers by exhaustive evaluation on every run and their "
         "consistency is re-proved by decide. Tie: the same definitions compiled at Float agree with the real interact() on generated packets "
         "(discrete results identical, values within 1e-10, measured bit-identical), the Rat instantiation confirms the theorem statements exactly on a sample, and "
         "independent oracles (slab-method chords in long double) are evaluated on the implementation.",
    note="Exact-arithmetic theorems: IEEE rounding is not modelled (gap bounded by the correspondence tolerance 1e-10 and the exact Rat run). Hypotheses: cell sizes > 0, "
         "direction != 0, opacities >= 0, tau_target > 0, cell_size < DBL_MAX*|d_a| on moving axes, inv_cell_size*cell_size = 1, and on axes whose index is computed from the "
         "position 0 <= x <= extent (closed block; the computed index is clamped to the last cell, std::min(index, n-1)). The behaviour of the code before that clamp "
         "(start on the upper boundary -> index n -> returned at once through the upper face whatever the direction) is kept as the frozen statement "
         "old_code_upper_boundary_index_outside. "
         "stops_inside_iff measures the whole line with the same march without the optical-depth test (marchFree), not with an independent geometric chord definition "
         "(that comparison is made numerically by the harness oracle). double->int cast modelled by a bounded search (equal to the cast for 0 <= x < n+1). "
         "Compiled configuration HAS_HELIUM, no VARIABLE_ABUNDANCES/USE_LOCKFREE/SUBGRID_CELL_LOCK; cmac_assert compiled out. Trusted: Lean kernel + 3 standard axioms, "
         "table generator harness/gen_c02_tables.cpp, harness and comparison rules.",
    technique="Lean 4 proof by loop invariant over a fuelled march (per-axis lemma, per-pass lemmas, induction on fuel) + tables by exhaustive evaluation and decide "
              "+ differential correspondence Float model vs real DensitySubGrid::interact + exact Rat run + implementation-level oracles")
