"""C01 — every photon packet launched in a task-based photoionization iteration terminates exactly
once and nothing is left behind (DESIGN §6 C01).

Streams
  dps        DistributedPhotonSource (constructor split + get_photon_batch) vs the Lean model, exhaustive
             for small N / few sources / copy counts 1,2,4 and random beyond (harness/c01.cpp)
  photon     real `CMacIonize --task-based` runs of the hooked binary on generated small configurations;
             every record of the hook-H2 trace is replayed through the Lean model's `step`
  jitter     the same with seeded scheduling delays injected at the H1 yield points (LD_PRELOAD library
             harness/c01_jitter.cpp), with and without trace: a run that hangs or dies is a violation
Oracles evaluated directly on the trace (independent of the model): requested == terminated, no buffer /
task / queue entry / active buffer alive at the end of an iteration, done counter never above N, buffers
freed as often as allocated, every created task executed exactly once, no two traversals of one subgrid at
the same time, no thread leaves the loop holding a task.
"""
import json
import os
import re
import shutil
import subprocess
import tempfile

import simrun
import vlib

# ----------------------------------------------------------------------------------------------
# configuration generator (parameter file of a small task-based photoionization run)

ZERO_IONS = ["helium_0", "carbon_1", "carbon_2", "nitrogen_0", "nitrogen_1", "nitrogen_2", "oxygen_0",
             "oxygen_1", "neon_0", "neon_1", "sulphur_1", "sulphur_2", "sulphur_3"]
ZERO_REC = ["helium_1", "carbon_2", "carbon_3", "nitrogen_1", "nitrogen_2", "nitrogen_3", "oxygen_1",
            "oxygen_2", "neon_1", "neon_2", "sulphur_2", "sulphur_3", "sulphur_4"]


def b(v):
    return "true" if v else "false"


def ion_param(c):
    """c: dict(layout, per, cells, N, iters, copy, sources=[(x,y,z,lum)], continuous, diffuse, reprob, density, seed)"""
    nx, ny, nz = c["layout"]
    cs = c.get("cells", 2)
    per = c["per"]
    out = []
    out.append("SimulationBox:\n  anchor: [-5. pc, -5. pc, -5. pc]\n  sides: [10. pc, 10. pc, 10. pc]\n  periodicity: [%s, %s, %s]" % tuple(b(p) for p in per))
    out.append("DensityGrid:\n  number of cells: [%d, %d, %d]" % (nx * cs, ny * cs, nz * cs))
    out.append("DensitySubGridCreator:\n  number of subgrids: [%d, %d, %d]\n  periodicity: [%s, %s, %s]" % ((nx, ny, nz) + tuple(b(p) for p in per)))
    out.append("DensityFunction:\n  type: Homogeneous\n  density: %s cm^-3\n  temperature: 8000. K\n  neutral fraction H: 1." % c.get("density", "0.02"))
    out.append("Abundances:\n  helium: 0.")
    out.append("TemperatureCalculator:\n  do temperature calculation: false")
    srcs = c.get("sources", [])
    if len(srcs) == 0:
        out.append("PhotonSourceDistribution:\n  type: None")
    elif len(srcs) == 1:
        x, y, z, lum = srcs[0]
        out.append("PhotonSourceDistribution:\n  type: SingleStar\n  position: [%r pc, %r pc, %r pc]\n  luminosity: %s s^-1" % (x, y, z, lum))
    else:
        out.append("PhotonSourceDistribution:\n  type: AsciiFile\n  filename: sources.yml")
    out.append("PhotonSourceSpectrum:\n  type: Monochromatic\n  frequency: 3.28847e+15 Hz")
    if c.get("continuous"):
        out.append("ContinuousPhotonSource:\n  type: Isotropic")
        out.append("ContinuousPhotonSourceSpectrum:\n  type: Monochromatic\n  frequency: 3.28847e+15 Hz\n  total flux: 1.e-10 m^-2 s^-1")
    tb = ["TaskBasedIonizationSimulation:", "  number of photons: %d" % c["N"], "  number of iterations: %d" % c.get("iters", 2),
          "  source copy level: %d" % c.get("copy", 0), "  number of buffers: 4000", "  queue size per thread: 10000",
          "  shared queue size: 10000", "  number of tasks: 40000", "  random seed: %d" % c.get("seed", 42),
          "  diffuse field: %s" % b(c.get("diffuse"))]
    out.append("\n".join(tb))
    if c.get("diffuse"):
        out.append("DiffuseReemissionHandler:\n  type: FixedValue\n  reemission probability: %s" % c.get("reprob", "0.364"))
    out.append("DensityGridWriter:\n  type: AsciiFile\n  prefix: snap")
    out.append("CrossSections:\n  type: FixedValue\n  hydrogen_0: 6.3e-18 cm^2\n" + "\n".join("  %s: 0. m^2" % i for i in ZERO_IONS))
    out.append("RecombinationRates:\n  type: FixedValue\n  hydrogen_1: 4.e-13 cm^3 s^-1\n" + "\n".join("  %s: 0. m^3 s^-1" % i for i in ZERO_REC))
    return "\n".join(out) + "\n"


def sources_yml(srcs):
    s = "number of sources: %d\n" % len(srcs)
    for i, (x, y, z, lum) in enumerate(srcs):
        s += "source[%d]:\n  position: [%r pc, %r pc, %r pc]\n  luminosity: %s s^-1\n" % (i, x, y, z, lum)
    return s


def random_config(rng, quick=True):
    dims = [1, 1, 2, 2, 3, 4] if quick else [1, 2, 2, 3, 3, 4]
    layout = tuple(rng.choice(dims) for _ in range(3))
    while layout[0] * layout[1] * layout[2] > 32:
        layout = tuple(rng.choice(dims) for _ in range(3))
    per = tuple(rng.random() < 0.35 for _ in range(3))
    mode = rng.choice(["discrete", "discrete", "continuous", "both"])
    nsrc = rng.choice([1, 1, 2, 3, 4]) if mode != "continuous" else 0
    srcs = []
    for _ in range(nsrc):
        # low luminosity: the gas stays neutral, so packets are absorbed after a few subgrids in every iteration
        srcs.append((round(rng.uniform(-4.9, 4.9), 3), round(rng.uniform(-4.9, 4.9), 3), round(rng.uniform(-4.9, 4.9), 3),
                     "%.3fe+30" % rng.uniform(0.2, 5.0)))
    N = rng.choice([1, 2, 7, 199, 200, 201, 399, 400, 401, 600, 1000, 1234, 2001, 3217])
    return dict(layout=layout, per=per, N=N, iters=rng.choice([1, 2, 3]), copy=rng.choice([0, 0, 1, 2]), sources=srcs,
                continuous=(mode != "discrete"), diffuse=rng.random() < 0.5, reprob=rng.choice(["0.2", "0.364", "0.7", "0.95"]),
                density=rng.choice(["0.005", "0.02", "0.05", "0.3"]), seed=rng.randrange(1, 10000), mode=mode)


# ----------------------------------------------------------------------------------------------
# running

def jitter_lib():
    os.makedirs(vlib.BIN, exist_ok=True)
    out = os.path.join(vlib.BIN, "libc01_jitter.so")
    src = os.path.join(vlib.VERIF, "harness", "c01_jitter.cpp")
    if not os.path.exists(out) or os.path.getmtime(out) < os.path.getmtime(src):
        rc, o = vlib.sh(["g++", "-O1", "-shared", "-fPIC", "-o", out + ".tmp", src])
        if rc != 0:
            raise RuntimeError("jitter library does not compile: " + o[-1000:])
        os.replace(out + ".tmp", out)
    return out


def run_config(binary, c, threads, jitter=None, trace=True, timeout=60):
    d = tempfile.mkdtemp(prefix="verif_c01_")
    try:
        if len(c.get("sources", [])) > 1:
            with open(os.path.join(d, "sources.yml"), "w") as f:
                f.write(sources_yml(c["sources"]))
        env = {}
        if jitter:
            env["LD_PRELOAD"] = jitter_lib()
            env["CMAC_VERIF_JITTER"] = jitter
        res = simrun.run_sim(binary, ion_param(c), ["--task-based"], threads=threads, timeout=timeout, trace=trace, env=env, workdir=d)
        res["diagnostics"] = sorted(f for f in os.listdir(d) if f.startswith("diagnostics_"))
        return res
    finally:
        shutil.rmtree(d, ignore_errors=True)


# ----------------------------------------------------------------------------------------------
# trace -> iterations

def split_iterations(lines):
    its, cur = [], None
    for l in lines:
        w = l.split()
        if len(w) < 2 or not w[1].startswith("P"):
            continue
        k = w[1]
        try:
            v = [int(x) for x in w[2:]]
        except ValueError:
            continue
        if k == "PI":
            cur = dict(PI=v, events=[])
            its.append(cur)
        elif cur is not None:
            cur["events"].append((k, v))
    return its


def trace_oracles(E, it):
    """the property evaluated on the trace of one iteration; returns list of (key, text)"""
    bad = []
    iloop, N = it["PI"][0], it["PI"][1]
    T = {E[k]: k for k in E if k.startswith("TASKTYPE_")}
    done = 0
    buf_in_use = {}
    created, executed = {}, {}
    running_sub = {}      # subgrid -> thread
    cur = {}
    pe = None

    def alloc(bid, what):
        if bid in buf_in_use:
            bad.append(("photon:buffer-allocated-twice", "iteration %d: buffer %d allocated (%s) while in use (%s)" % (iloop, bid, what, buf_in_use[bid])))
        buf_in_use[bid] = what

    def free(bid, what):
        if bid not in buf_in_use:
            bad.append(("photon:buffer-freed-twice", "iteration %d: buffer %d freed (%s) while not in use" % (iloop, bid, what)))
        buf_in_use.pop(bid, None)

    def create(t):
        if t in created and created[t] != executed.get(t, 0):
            bad.append(("photon:task-slot-reused", "iteration %d: task slot %d reused before the previous task in it was executed" % (iloop, t)))
        created[t] = created.get(t, 0) + 1

    for (k, v) in it["events"]:
        if k == "PT":
            create(v[0])
        elif k == "PA":
            th, t, typ = v[0], v[1], v[2]
            executed[t] = executed.get(t, 0) + 1
            if executed[t] > created.get(t, 0):
                bad.append(("photon:task-executed-twice", "iteration %d: task %d (%s) executed %d times but created %d times" % (iloop, t, T.get(typ, typ), executed[t], created.get(t, 0))))
            cur[th] = (t, typ, v[3])
            if typ == E["TASKTYPE_PHOTON_TRAVERSAL"]:
                if v[3] in running_sub:
                    bad.append(("photon:same-subgrid-twice", "iteration %d: threads %d and %d traverse subgrid %d at the same time" % (iloop, running_sub[v[3]], th, v[3])))
                running_sub[v[3]] = th
        elif k == "PB":
            alloc(v[3], "source")
            create(v[5])
        elif k == "PN":
            alloc(v[2], "active")
        elif k == "PD":
            th, i, out, new, add, snew, sadd = v
            if add != new:
                alloc(add, "overflow")
                if sadd == 0:
                    free(add, "empty overflow")
        elif k == "PK":
            create(v[1])
        elif k == "PX":
            th, g, b0, cnt, dn = v[:5]
            free(b0, "traversal input")
            done += dn
            if running_sub.get(g) == th:
                running_sub.pop(g)
        elif k == "PR":
            th, g, b0, cnt, kept, dn = v
            if cnt != kept + dn:
                bad.append(("photon:reemit-count", "iteration %d: re-emission of buffer %d: %d in, %d kept, %d done" % (iloop, b0, cnt, kept, dn)))
            if kept == 0:
                free(b0, "reemit none left")
            done += dn
        elif k in ("PO", "PL"):
            alloc(v[3] if k == "PO" else v[4], "continuous")
            create(v[4] if k == "PO" else v[5])
        elif k == "PP":
            create(v[4])
        elif k == "PY":
            if v[1] >= 0:
                bad.append(("photon:task-left-behind", "iteration %d: thread %d left the photon loop holding task %d, which it took from a queue and never executed" % (iloop, v[0], v[1])))
        elif k == "PE":
            pe = v
        if done > N:
            bad.append(("photon:done-exceeds-requested", "iteration %d: %d packets terminated but only %d requested" % (iloop, done, N)))
    if pe is None:
        bad.append(("photon:iteration-not-finished", "iteration %d has no end record" % iloop))
        return bad
    _, req, pdone, nbuf, ntask, sq, tq, nact, ncont = pe
    if pdone != req or done != req:
        bad.append(("photon:requested-not-terminated", "iteration %d: %d packets requested, counter says %d terminated, task records say %d" % (iloop, req, pdone, done)))
    if nbuf != 0 or buf_in_use:
        bad.append(("photon:buffer-left-behind", "iteration %d ends with %d buffers in use (records: %s)" % (iloop, nbuf, sorted(buf_in_use)[:5])))
    if ntask != 0:
        bad.append(("photon:task-left-behind", "iteration %d ends with %d tasks in use" % (iloop, ntask)))
    if sq != 0 or tq != 0:
        bad.append(("photon:queue-entry-left-behind", "iteration %d ends with %d entries in the shared queue and %d in the thread queues" % (iloop, sq, tq)))
    if nact != 0:
        bad.append(("photon:active-buffer-left-behind", "iteration %d ends with %d active buffers" % (iloop, nact)))
    if ncont != 0:
        bad.append(("photon:continuous-buffer-left-behind", "iteration %d ends with %d packets in the continuous source buffers" % (iloop, ncont)))
    for t in created:
        if created[t] != executed.get(t, 0):
            bad.append(("photon:task-not-executed", "iteration %d: task slot %d: %d tasks created, %d executed" % (iloop, t, created[t], executed.get(t, 0))))
            break
    return bad


def iteration_ops(E, it):
    """one iteration of the trace -> (op lines for the Lean driver, expected answers)"""
    ops, exp = [], []

    def op(o, e):
        ops.append(o)
        exp.append(e)
    iloop, N, ndisc, ncont, nblocks, reem, nsub, norig, bufsz = it["PI"]
    ev = it["events"]
    srcs = [v for (k, v) in ev if k == "PS"]
    maxb, maxt = 0, 0
    for (k, v) in ev:
        if k == "PT":
            maxt = max(maxt, v[0])
        elif k == "PA":
            maxt = max(maxt, v[1])
        elif k == "PB":
            maxb, maxt = max(maxb, v[3]), max(maxt, v[5])
        elif k == "PN":
            maxb = max(maxb, v[2])
        elif k == "PD":
            maxb = max(maxb, v[3], v[4])
        elif k == "PK":
            maxt = max(maxt, v[1])
        elif k == "PO":
            maxb, maxt = max(maxb, v[3]), max(maxt, v[4])
        elif k == "PL":
            maxb, maxt = max(maxb, v[4]), max(maxt, v[5])
        elif k == "PP":
            maxt = max(maxt, v[4])
    op("cfg %d %d %d %d %d %d %d %d" % (N, len(srcs), norig, nblocks, reem, maxb + 1, maxt + 1, nsub), "cfg ok")
    for (k, v) in ev:
        if k == "PG":
            op("ngb " + " ".join(str(x) for x in v), "ngb ok")
    for v in srcs:
        op("src %d %d %d" % tuple(v), "src ok")
    op("init %d" % ncont, "init %d" % N)
    cur = {}                       # thread -> task
    acc = {}                       # thread -> pending PN/PD/PK records
    kname = {E["TASKTYPE_SOURCE_DISCRETE_PHOTON"]: "source", E["TASKTYPE_SOURCE_CONTINUOUS_PHOTON"]: "contsource",
             E["TASKTYPE_PHOTON_TRAVERSAL"]: "traverse", E["TASKTYPE_PHOTON_REEMIT"]: "reemit",
             E["TASKTYPE_FLUSH_CONTINUOUS_PHOTON_BUFFERS"]: "flush"}
    for (k, v) in ev:
        if k == "PT":
            if v[1] == E["TASKTYPE_SOURCE_DISCRETE_PHOTON"]:
                op("launch %d %d" % (v[0], v[2]), "launch source %d %d queued" % (v[2], v[3]))
            else:
                op("launchc %d" % v[0], "launchc contsource %d %d queued" % (v[2], v[3]))
        elif k == "PA":
            th, t, typ, sub, buf = v
            cur[th] = t
            acc[th] = []
            op("acq %d" % t, "acq %s %d %d running" % (kname.get(typ, "?"), sub, buf))
        elif k == "PY":
            if v[1] >= 0:
                op("acq %d" % v[1], "acq-by-exiting-thread")
        elif k == "PQ":
            op("enq %d" % v[1], "enq")
        elif k == "PB":
            th, src, n, bid, sub, t2, q = v
            op("srcx %d %d %d" % (cur.get(th, -1), bid, t2), "srcx buf=%d task=traverse %d %d pending" % (n, sub, bid))
        elif k in ("PN", "PD", "PK"):
            acc.setdefault(v[0], []).append((k, v))
        elif k == "PX":
            th, g, b0, cnt, dn, li, ls = v
            dirs, per = [], []
            recs = acc.get(th, [])
            newact = {r[1][1]: r[1][2] for r in recs if r[0] == "PN"}
            for j, (kk, r) in enumerate(recs):
                if kk != "PD":
                    continue
                _, i, out, new, add, snew, sadd = r
                nt = -1
                if j + 1 < len(recs) and recs[j + 1][0] == "PK":
                    nt = recs[j + 1][1][1]
                dirs.append("%d:%d:%d:%d:%d" % (i, out, newact.get(i, -1), add if add != new else -1, nt))
                per.append("d%d=%d,%s" % (i, snew, str(sadd) if add != new else "-"))
            op("trav %d %d %s" % (cur.get(th, -1), dn, " ".join(dirs)),
               ("trav sub=%d in=%d done=%d largest=%d,%d %s" % (g, cnt, dn, li, ls, " ".join(per))).rstrip())
            acc[th] = []
        elif k == "PR":
            th, g, b0, cnt, kept, dn = v
            recs = acc.get(th, [])
            t2 = recs[0][1][1] if recs and recs[0][0] == "PK" else 0
            op("reem %d %d %d" % (cur.get(th, -1), kept, t2), "reem in=%d kept=%d done=%d" % (cnt, kept, dn))
            acc[th] = []
        elif k == "PO":
            th, blk, g, bid, t2, q = v
            op("cover %d %d %d %d" % (cur.get(th, -1), g, bid, t2), "cover buf=%d task=traverse %d %d queued" % (bufsz, g, bid))
        elif k == "PC":
            th, blk, n, left = v[:4]
            sizes = v[4:]
            fl = [r[1][1] for r in acc.get(th, []) if r[0] == "PK"]
            op("cfin %d %s | %s" % (cur.get(th, -1), " ".join(str(x) for x in sizes), " ".join(str(x) for x in fl)),
               "cfin left=%d flush=%d" % (left, len(fl)))
            acc[th] = []
        elif k == "PL":
            th, blk, g, cnt, bid, t2, q = v
            op("fone %d %d %d %d" % (cur.get(th, -1), g, bid, t2), "fone buf=%d task=traverse %d %d queued" % (cnt, g, bid))
        elif k == "PH":
            op("ffin %d" % cur.get(v[0], -1), "ffin ok")
        elif k == "PP":
            g, d, bid, cnt, t2, bsub = v
            op("prem %d %d" % (g, t2), "prem dir=%d buf=%d count=%d task=%s %d %d queued" % (d, bid, cnt, "traverse" if d > 0 else "reemit", bsub, bid))
        elif k == "PM":
            op("largest %d" % v[0], "largest %d %d" % (v[1], v[2]))
        elif k == "PZ":
            op("term", "term ok")
        elif k == "PE":
            _, req, pdone, nbuf, ntask, sq, tq, nact, ncb = v
            op("end", "end done=%d bufs=%d tasks=%d queued=%d active=%d cont=%d src=0 run=0 once=ok" % (pdone, nbuf, ntask, sq + tq, nact, ncb))
    return ops, exp


def model_answer_matches(model, expected):
    m = " ".join(vlib.strip_branch(model).split())
    if expected == "enq":
        return m.startswith("enq ") and m.endswith(" queued")
    if expected == "acq-by-exiting-thread":
        return m.startswith("acq ") and m.endswith(" running")
    return m == expected
