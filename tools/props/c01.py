"""C01 — every photon packet launched in a task-based photoionization iteration terminates exactly
once and nothing is left behind (DESIGN §6 C01).

Streams
  dps        DistributedPhotonSource (constructor split + get_photon_batch) vs the Lean model, exhaustive
             for small N / few sources / copy counts 1,2,4 and random beyond (harness/c01.cpp)
  photon     real `CMacIonize --task-based` runs of the hooked binary on generated small configurations;
             every record of the hook-H2 trace is replayed through the Lean model's `step`
  jitter     the same with seeded scheduling delays injected at the H1 yield points (LD_PRELOAD library
             harness/c01_jitter.cpp), with and without trace: a run that hangs or dies is a violation
Oracles evaluated directly on the trace (independent of the model): requested == terminated, no buffer /
task / queue entry / active buffer alive at the end of an iteration, done counter never above N, buffers
freed as often as allocated, every created task executed exactly once, no two traversals of one subgrid at
the same time, no thread leaves the loop holding a task.
"""
import json
import os
import re
import shutil
import subprocess
import tempfile

import simrun
import vlib

# scratch build trees of VERIF_REPO copies are named alt_<hash> by vlib; other checks' clean-up removes
# `alt_*` wholesale, also under a running check, so this check keeps its own name for the copy's tree
if vlib.REPO != "/repo" and os.path.basename(vlib.BUILD).startswith("alt_"):
    vlib.BUILD = os.path.join(vlib.VERIF, ".build", "c01" + os.path.basename(vlib.BUILD))
    vlib.BIN = os.path.join(vlib.BUILD, "bin")
    vlib.FULL = os.path.join(vlib.BUILD, "full")

# ----------------------------------------------------------------------------------------------
# configuration generator (parameter file of a small task-based photoionization run)

ZERO_IONS = ["helium_0", "carbon_1", "carbon_2", "nitrogen_0", "nitrogen_1", "nitrogen_2", "oxygen_0",
             "oxygen_1", "neon_0", "neon_1", "sulphur_1", "sulphur_2", "sulphur_3"]
ZERO_REC = ["helium_1", "carbon_2", "carbon_3", "nitrogen_1", "nitrogen_2", "nitrogen_3", "oxygen_1",
            "oxygen_2", "neon_1", "neon_2", "sulphur_2", "sulphur_3", "sulphur_4"]


def b(v):
    return "true" if v else "false"


def ion_param(c):
    """c: dict(layout, per, cells, N, iters, copy, sources=[(x,y,z,lum)], continuous, diffuse, reprob, density, seed)"""
    nx, ny, nz = c["layout"]
    cs = c.get("cells", 2)
    per = c["per"]
    out = []
    out.append("SimulationBox:\n  anchor: [-5. pc, -5. pc, -5. pc]\n  sides: [10. pc, 10. pc, 10. pc]\n  periodicity: [%s, %s, %s]" % tuple(b(p) for p in per))
    out.append("DensityGrid:\n  number of cells: [%d, %d, %d]" % (nx * cs, ny * cs, nz * cs))
    out.append("DensitySubGridCreator:\n  number of subgrids: [%d, %d, %d]\n  periodicity: [%s, %s, %s]" % ((nx, ny, nz) + tuple(b(p) for p in per)))
    out.append("DensityFunction:\n  type: Homogeneous\n  density: %s cm^-3\n  temperature: 8000. K\n  neutral fraction H: 1." % c.get("density", "0.02"))
    out.append("Abundances:\n  helium: 0.")
    out.append("TemperatureCalculator:\n  do temperature calculation: false")
    srcs = c.get("sources", [])
    if len(srcs) == 0:
        out.append("PhotonSourceDistribution:\n  type: None")
    elif len(srcs) == 1:
        x, y, z, lum = srcs[0]
        out.append("PhotonSourceDistribution:\n  type: SingleStar\n  position: [%r pc, %r pc, %r pc]\n  luminosity: %s s^-1" % (x, y, z, lum))
    else:
        out.append("PhotonSourceDistribution:\n  type: AsciiFile\n  filename: sources.yml")
    out.append("PhotonSourceSpectrum:\n  type: Monochromatic\n  frequency: 3.28847e+15 Hz")
    if c.get("continuous"):
        out.append("ContinuousPhotonSource:\n  type: Isotropic")
        out.append("ContinuousPhotonSourceSpectrum:\n  type: Monochromatic\n  frequency: 3.28847e+15 Hz\n  total flux: 1.e-10 m^-2 s^-1")
    tb = ["TaskBasedIonizationSimulation:", "  number of photons: %d" % c["N"], "  number of iterations: %d" % c.get("iters", 2),
          "  source copy level: %d" % c.get("copy", 0), "  number of buffers: 4000", "  queue size per thread: 10000",
          "  shared queue size: 10000", "  number of tasks: %d" % c.get("ntasks", 40000), "  random seed: %d" % c.get("seed", 42),
          "  diffuse field: %s" % b(c.get("diffuse"))]
    out.append("\n".join(tb))
    if c.get("diffuse"):
        out.append("DiffuseReemissionHandler:\n  type: FixedValue\n  reemission probability: %s" % c.get("reprob", "0.364"))
    out.append("DensityGridWriter:\n  type: AsciiFile\n  prefix: snap")
    out.append("CrossSections:\n  type: FixedValue\n  hydrogen_0: 6.3e-18 cm^2\n" + "\n".join("  %s: 0. m^2" % i for i in ZERO_IONS))
    out.append("RecombinationRates:\n  type: FixedValue\n  hydrogen_1: 4.e-13 cm^3 s^-1\n" + "\n".join("  %s: 0. m^3 s^-1" % i for i in ZERO_REC))
    return "\n".join(out) + "\n"


def rhd_param(c):
    """photon part of a task-based radiation-hydrodynamics step (one hydro step, discrete source)"""
    dens = "DensityFunction:\n  type: Homogeneous\n  density: %s m^-3\n  temperature: 100. K\n  neutral fraction H: 1.\n" % c.get("density", "3.e21")
    p = simrun.hydro_param(c["layout"], c["per"], cells_per_subgrid=(2, 2, 2), total_time=0.002, density=dens)
    p = p.replace("  do radiation: false\n", "  do radiation: true\n  number of photons: %d\n  number of iterations: %d\n  source copy level: %d\n  diffuse field: %s\n"
                  % (c["N"], c.get("iters", 2), c.get("copy", 0), b(c.get("diffuse"))))
    x, y, z, lum = c["sources"][0]
    p += "PhotonSourceDistribution:\n  type: SingleStar\n  position: [%r m, %r m, %r m]\n  luminosity: 1.e10 s^-1\n" % (x, y, z)
    p += "PhotonSourceSpectrum:\n  type: Monochromatic\n  frequency: 3.28847e+15 Hz\n"
    p += "Abundances:\n  helium: 0.\nTemperatureCalculator:\n  do temperature calculation: false\n"
    if c.get("diffuse"):
        p += "DiffuseReemissionHandler:\n  type: FixedValue\n  reemission probability: %s\n" % c.get("reprob", "0.5")
    p += "CrossSections:\n  type: FixedValue\n  hydrogen_0: 6.3e-18 cm^2\n" + "\n".join("  %s: 0. m^2" % i for i in ZERO_IONS) + "\n"
    p += "RecombinationRates:\n  type: FixedValue\n  hydrogen_1: 4.e-13 cm^3 s^-1\n" + "\n".join("  %s: 0. m^3 s^-1" % i for i in ZERO_REC) + "\n"
    return p


def ion_args(c):
    """command line of a task-based photoionization run; the optional switches change the life cycle of the tasks
    (--task-plot: tasks are kept until the reset at the end of the iteration) or skip the initial snapshot"""
    return ["--task-based"] + (["--task-plot"] if c.get("plot") else []) + (["--no-initial-output"] if c.get("noinit") else [])


def sources_yml(srcs):
    s = "number of sources: %d\n" % len(srcs)
    for i, (x, y, z, lum) in enumerate(srcs):
        s += "source[%d]:\n  position: [%r pc, %r pc, %r pc]\n  luminosity: %s s^-1\n" % (i, x, y, z, lum)
    return s


def random_config(rng, quick=True):
    dims = [1, 1, 2, 2, 3, 4] if quick else [1, 2, 2, 3, 3, 4]
    layout = tuple(rng.choice(dims) for _ in range(3))
    while layout[0] * layout[1] * layout[2] > 32:
        layout = tuple(rng.choice(dims) for _ in range(3))
    per = tuple(rng.random() < 0.35 for _ in range(3))
    mode = rng.choice(["discrete", "discrete", "continuous", "both"])
    nsrc = rng.choice([1, 1, 2, 3, 4]) if mode != "continuous" else 0
    srcs = []
    for _ in range(nsrc):
        # low luminosity: the gas stays neutral, so packets are absorbed after a few subgrids in every iteration
        srcs.append((round(rng.uniform(-4.9, 4.9), 3), round(rng.uniform(-4.9, 4.9), 3), round(rng.uniform(-4.9, 4.9), 3),
                     "%.3fe+30" % rng.uniform(0.2, 5.0)))
    N = rng.choice([1, 2, 7, 199, 200, 201, 399, 400, 401, 600, 1000, 1234, 2001, 3217])
    return dict(layout=layout, per=per, N=N, iters=rng.choice([1, 2, 3]), copy=rng.choice([0, 0, 1, 2]), sources=srcs,
                continuous=(mode != "discrete"), diffuse=rng.random() < 0.5, reprob=rng.choice(["0.2", "0.364", "0.7", "0.95"]),
                density=rng.choice(["0.005", "0.02", "0.05", "0.3"]), seed=rng.randrange(1, 10000), mode=mode)


# ----------------------------------------------------------------------------------------------
# running

def jitter_lib():
    os.makedirs(vlib.BIN, exist_ok=True)
    out = os.path.join(vlib.BIN, "libc01_jitter.so")
    src = os.path.join(vlib.VERIF, "harness", "c01_jitter.cpp")
    if not os.path.exists(out) or os.path.getmtime(out) < os.path.getmtime(src):
        rc, o = vlib.sh(["g++", "-O1", "-shared", "-fPIC", "-o", out + ".tmp", src])
        if rc != 0:
            raise RuntimeError("jitter library does not compile: " + o[-1000:])
        os.replace(out + ".tmp", out)
    return os.path.realpath(out)


JITTER_LIB = [None]
MAX_TRACE_LINES = 400000
MAX_ID_PACKETS = 3000     # packet identities are logged for runs with at most this many packets


def run_config(binary, c, threads, jitter=None, trace=True, timeout=60, noserial=False):
    d = tempfile.mkdtemp(prefix="verif_c01_")
    if jitter and JITTER_LIB[0] is None:
        JITTER_LIB[0] = jitter_lib()
    try:
        if len(c.get("sources", [])) > 1:
            with open(os.path.join(d, "sources.yml"), "w") as f:
                f.write(sources_yml(c["sources"]))
        env = {}
        if jitter:
            env["LD_PRELOAD"] = JITTER_LIB[0]
            env["CMAC_VERIF_JITTER"] = jitter
        # the trace is read here (bounded): a defective run can log without end
        tr = os.path.join(d, "trace.txt")
        if trace:
            env["CMAC_VERIF_TRACE"] = tr
            if noserial:
                env["CMAC_VERIF_NOSERIAL"] = "1"
            if c["N"] <= MAX_ID_PACKETS:
                env["CMAC_VERIF_PACKET_IDS"] = "1"
        if c.get("rhd"):
            res = simrun.run_sim(binary, rhd_param(c), ["--task-based-rhd", "--number-of-steps", "1"], threads=threads, timeout=timeout, trace=False, env=env, workdir=d)
        else:
            res = simrun.run_sim(binary, ion_param(c), ion_args(c), threads=threads, timeout=timeout, trace=False, env=env, workdir=d)
        lines = []
        if trace and os.path.exists(tr):
            with open(tr, errors="replace") as f:
                for l in f:
                    lines.append(l.rstrip("\n"))
                    if len(lines) >= MAX_TRACE_LINES:
                        res["trace_truncated"] = True
                        break
        res["trace"] = lines
        res["diagnostics"] = sorted(f for f in os.listdir(d) if f.startswith("diagnostics_"))
        return res
    finally:
        shutil.rmtree(d, ignore_errors=True)


# ----------------------------------------------------------------------------------------------
# trace -> iterations

def split_iterations(lines):
    its, cur = [], None
    for l in lines:
        w = l.split()
        if len(w) < 2 or w[1][0] not in "PQ":
            continue
        k = w[1]
        try:
            v = [int(x) for x in w[2:]]
        except ValueError:
            continue
        if k == "PI":
            cur = dict(PI=v, events=[])
            its.append(cur)
        elif cur is not None:
            cur["events"].append((k, v))
    return its


def trace_oracles(E, it):
    """the property evaluated on the trace of one iteration; returns list of (key, text)"""
    bad = []
    iloop, N = it["PI"][0], it["PI"][1]
    T = {E[k]: k for k in E if k.startswith("TASKTYPE_")}
    done = 0
    buf_in_use = {}
    created, executed = {}, {}
    running_sub = {}      # subgrid -> thread
    cur = {}
    pe = None

    def alloc(bid, what):
        if bid in buf_in_use:
            bad.append(("photon:buffer-allocated-twice", "iteration %d: buffer %d allocated (%s) while in use (%s)" % (iloop, bid, what, buf_in_use[bid])))
        buf_in_use[bid] = what

    def free(bid, what):
        if bid not in buf_in_use:
            bad.append(("photon:buffer-freed-twice", "iteration %d: buffer %d freed (%s) while not in use" % (iloop, bid, what)))
        buf_in_use.pop(bid, None)

    def create(t):
        if t in created and created[t] != executed.get(t, 0):
            bad.append(("photon:task-slot-reused", "iteration %d: task slot %d reused before the previous task in it was executed" % (iloop, t)))
        created[t] = created.get(t, 0) + 1

    after_pz = set()
    THREAD_FIRST = ("PA", "PB", "PN", "PD", "PK", "PX", "PR", "PO", "PC", "PL", "PH", "PQ", "PZ", "QS", "QI", "QF", "QD", "QO", "QK")
    for (k, v) in it["events"]:
        # worker loop: a thread that cleared the run flag holds no task and leaves at the next loop test
        if k in THREAD_FIRST and v and v[0] in after_pz:
            bad.append(("photon:thread-continues-after-termination", "iteration %d: thread %d cleared the run flag and then still logged %s" % (iloop, v[0], k)))
            after_pz.discard(v[0])
        if k == "PZ":
            after_pz.add(v[0])
        if k == "PT":
            create(v[0])
        elif k == "PA":
            th, t, typ = v[0], v[1], v[2]
            executed[t] = executed.get(t, 0) + 1
            if executed[t] > created.get(t, 0):
                bad.append(("photon:task-executed-twice", "iteration %d: task %d (%s) executed %d times but created %d times" % (iloop, t, T.get(typ, typ), executed[t], created.get(t, 0))))
            cur[th] = (t, typ, v[3])
            if typ == E["TASKTYPE_PHOTON_TRAVERSAL"]:
                if v[3] in running_sub:
                    bad.append(("photon:same-subgrid-twice", "iteration %d: threads %d and %d traverse subgrid %d at the same time" % (iloop, running_sub[v[3]], th, v[3])))
                running_sub[v[3]] = th
        elif k == "PB":
            alloc(v[3], "source")
            create(v[5])
        elif k == "PN":
            alloc(v[2], "active")
        elif k == "PD":
            th, i, out, new, add, snew, sadd = v
            if add != new:
                alloc(add, "overflow")
                if sadd == 0:
                    free(add, "empty overflow")
        elif k == "PK":
            create(v[1])
        elif k == "PX":
            th, g, b0, cnt, dn = v[:5]
            free(b0, "traversal input")
            done += dn
            if running_sub.get(g) == th:
                running_sub.pop(g)
        elif k == "PR":
            th, g, b0, cnt, kept, dn = v
            if cnt != kept + dn:
                bad.append(("photon:reemit-count", "iteration %d: re-emission of buffer %d: %d in, %d kept, %d done" % (iloop, b0, cnt, kept, dn)))
            if kept == 0:
                free(b0, "reemit none left")
            done += dn
        elif k in ("PO", "PL"):
            alloc(v[3] if k == "PO" else v[4], "continuous")
            create(v[4] if k == "PO" else v[5])
        elif k == "PP":
            create(v[4])
        elif k == "PY":
            if v[1] >= 0:
                bad.append(("photon:task-left-behind", "iteration %d: thread %d left the photon loop holding task %d, which it took from a queue and never executed" % (iloop, v[0], v[1])))
        elif k == "PE":
            pe = v
        if done > N:
            bad.append(("photon:done-exceeds-requested", "iteration %d: %d packets terminated but only %d requested" % (iloop, done, N)))
    if pe is None:
        bad.append(("photon:iteration-not-finished", "iteration %d has no end record" % iloop))
        return bad
    _, req, pdone, nbuf, ntask, sq, tq, nact, ncont = pe
    if pdone != req or done != req:
        bad.append(("photon:requested-not-terminated", "iteration %d: %d packets requested, counter says %d terminated, task records say %d" % (iloop, req, pdone, done)))
    if nbuf != 0 or buf_in_use:
        bad.append(("photon:buffer-left-behind", "iteration %d ends with %d buffers in use (records: %s)" % (iloop, nbuf, sorted(buf_in_use)[:5])))
    pw = [v for (k, v) in it["events"] if k == "PW"]
    plot = bool(it.get("plot")) or any(v[5] == 1 for v in pw if len(v) > 5)
    if ntask != 0 and not plot:
        # (with --task-plot the tasks are deliberately kept until the reset at the end of the iteration)
        bad.append(("photon:task-left-behind", "iteration %d ends with %d tasks in use" % (iloop, ntask)))
    for v in pw:
        # after the task reset: this is what the next iteration starts with, whatever the switches
        if v[1] != 0:
            bad.append(("photon:task-left-behind", "after the task reset at the end of iteration %d, %d tasks are still in use%s"
                        % (iloop, v[1], " (run with --task-plot)" if plot else "")))
        if v[2] != 0:
            bad.append(("photon:buffer-left-behind", "after the reset at the end of iteration %d, %d buffers are still in use" % (iloop, v[2])))
        if v[3] != 0 or v[4] != 0:
            bad.append(("photon:queue-entry-left-behind", "after the reset at the end of iteration %d the queues hold %d + %d entries" % (iloop, v[3], v[4])))
    if sq != 0 or tq != 0:
        bad.append(("photon:queue-entry-left-behind", "iteration %d ends with %d entries in the shared queue and %d in the thread queues" % (iloop, sq, tq)))
    if nact != 0:
        bad.append(("photon:active-buffer-left-behind", "iteration %d ends with %d active buffers" % (iloop, nact)))
    if ncont != 0:
        bad.append(("photon:continuous-buffer-left-behind", "iteration %d ends with %d packets in the continuous source buffers" % (iloop, ncont)))
    for t in created:
        if created[t] != executed.get(t, 0):
            bad.append(("photon:task-not-executed", "iteration %d: task slot %d: %d tasks created, %d executed" % (iloop, t, created[t], executed.get(t, 0))))
            break
    return bad


def identity_oracles(it):
    """packet identities (hook records Q*, CMAC_VERIF_PACKET_IDS=1): every launched packet is terminated exactly once,
    no packet is in two buffers at once, a buffer delivers the packets that were put into it, in order"""
    iloop, N, bufsz = it["PI"][0], it["PI"][1], it["PI"][8]
    if not any(k[0] == "Q" for (k, v) in it["events"]):
        return []
    bad = []
    KEY = "photon:packet-identity"

    def fail(text):
        if len(bad) < 6:
            bad.append((KEY, "iteration %d: %s" % (iloop, text)))
    contents, where, launched, term = {}, {}, set(), {}
    q = {}

    def put(bid, ids, consumed=None):
        for x in ids:
            w = where.get(x)
            if w is not None and w != bid and w != consumed:
                fail("packet %d is put into buffer %d while it is still in buffer %d" % (x, bid, w))
            where[x] = bid
        if len(set(ids)) != len(ids):
            dup = sorted(set(x for x in ids if ids.count(x) > 1))[:5]
            fail("buffer %d holds packet(s) %s more than once" % (bid, dup))
        contents[bid] = list(ids)

    def finish(x, what):
        term[x] = term.get(x, 0) + 1
        if term[x] > 1:
            fail("packet %d is terminated a second time (%s)" % (x, what))
        if x not in launched:
            fail("packet %d is terminated (%s) but was never launched in this iteration" % (x, what))
    for (k, v) in it["events"]:
        if k == "QS":
            ids = v[2:]
            for x in ids:
                if x in launched:
                    fail("packet identity %d is launched twice" % x)
                launched.add(x)
            put(v[1], ids)
        elif k in ("QI", "QK"):
            q.setdefault(v[0], {})[k] = (v[1], v[2:])
        elif k in ("QF", "QO"):
            q.setdefault(v[0], {})[k] = v[1:]
        elif k == "QD":
            q.setdefault(v[0], {}).setdefault("QD", []).append((v[1], v[2:]))
        elif k == "PD":
            th, i, out, new, add, snew, sadd = v
            qq = q.get(th, {})
            if "QI" not in qq or "QF" not in qq:
                continue
            b0, entering = qq["QI"]
            fates = qq["QF"]
            outs = [x for x, f in zip(entering, fates) if f == i]
            qq.setdefault("stored", set()).add(i)
            qd = dict(qq.get("QD", []))
            qq["QD"] = []
            before = contents.get(new, [])
            combined = before + outs
            got_new, got_add = qd.get(new, []), (qd.get(add, []) if add != new else [])
            if got_new != combined[:bufsz] or got_add != combined[bufsz:]:
                lost = sorted(set(combined) - set(got_new) - set(got_add))[:5]
                twice = sorted(x for x in set(got_new + got_add) if (got_new + got_add).count(x) > 1)[:5]
                fail("traversal of buffer %d, direction %d: buffer %d held %d packets and %d were added, but afterwards buffers %d/%d hold other packets "
                     "than those (in order): missing %s, duplicated %s" % (b0, i, new, len(before), len(outs), new, add, lost, twice))
            put(new, got_new, consumed=b0)
            if add != new and got_add:
                put(add, got_add, consumed=b0)
        elif k == "PX":
            th, g, b0, cnt, dn = v[:5]
            qq = q.pop(th, {})
            if "QI" not in qq or "QF" not in qq:
                continue
            qb, entering = qq["QI"]
            fates = qq["QF"]
            if qb != b0 or entering != contents.get(b0, None):
                fail("traversal of buffer %d found packets %s..., the buffer was filled with %s..." % (b0, entering[:6], (contents.get(b0) or [])[:6]))
            if len(fates) != len(entering):
                fail("traversal of buffer %d: %d packets, %d exit directions" % (b0, len(entering), len(fates)))
            stored = qq.get("stored", set())
            gone = [x for x, f in zip(entering, fates) if f not in stored]
            if len(gone) != dn:
                fail("traversal of buffer %d: %d packets were not stored but %d were counted as done" % (b0, len(gone), dn))
            for x in gone:
                finish(x, "traversal of buffer %d" % b0)
                if where.get(x) == b0:
                    where.pop(x)
            contents.pop(b0, None)
        elif k == "PR":
            th, g, b0, cnt, kept, dn = v
            qq = q.pop(th, {})
            if "QI" not in qq or "QO" not in qq or "QK" not in qq:
                continue
            entering = qq["QI"][1]
            offered, accept = qq["QO"][0::2], qq["QO"][1::2]
            if entering != contents.get(b0, None):
                fail("re-emission of buffer %d found packets %s..., the buffer was filled with %s..." % (b0, entering[:6], (contents.get(b0) or [])[:6]))
            if offered != entering:
                n = next((j for j in range(min(len(offered), len(entering))) if offered[j] != entering[j]), min(len(offered), len(entering)))
                fail("re-emission of buffer %d: attempt %d was made for packet %s instead of packet %s (every packet of the buffer must be offered exactly once, in order)"
                     % (b0, n, offered[n] if n < len(offered) else None, entering[n] if n < len(entering) else None))
            keep = [x for x, a in zip(offered, accept) if a]
            if qq["QK"][1] != keep:
                fail("re-emission of buffer %d: the accepted packets are %s... but the buffer continues with %s..." % (b0, keep[:6], qq["QK"][1][:6]))
            for x in entering:
                if x not in qq["QK"][1]:
                    finish(x, "re-emission of buffer %d" % b0)
                    if where.get(x) == b0:
                        where.pop(x)
            if qq["QK"][1]:
                put(b0, qq["QK"][1], consumed=b0)
            else:
                contents.pop(b0, None)
        elif k == "PE":
            if len(launched) != N:
                fail("%d packet identities were launched, %d packets requested" % (len(launched), N))
            never = sorted(x for x in launched if term.get(x, 0) == 0)
            if never:
                fail("%d launched packets were never terminated, e.g. %s" % (len(never), never[:5]))
    return bad


def iteration_ops(E, it, noserial=False):
    """one iteration of the trace -> (op lines for the Lean driver, expected answers).
    noserial: the trace was written without the trace mutex (CMAC_VERIF_NOSERIAL=1), see the assumptions text"""
    ops, exp = [], []

    def op(o, e):
        ops.append(o)
        exp.append(e)
    iloop, N, ndisc, ncont, nblocks, reem, nsub, norig, bufsz = it["PI"]
    ev = it["events"]
    srcs = [v for (k, v) in ev if k == "PS"]
    maxb, maxt = 0, 0
    for (k, v) in ev:
        if k == "PT":
            maxt = max(maxt, v[0])
        elif k == "PA":
            maxt = max(maxt, v[1])
        elif k == "PB":
            maxb, maxt = max(maxb, v[3]), max(maxt, v[5])
        elif k == "PN":
            maxb = max(maxb, v[2])
        elif k == "PD":
            maxb = max(maxb, v[3], v[4])
        elif k == "PK":
            maxt = max(maxt, v[1])
        elif k == "PO":
            maxb, maxt = max(maxb, v[3]), max(maxt, v[4])
        elif k == "PL":
            maxb, maxt = max(maxb, v[4]), max(maxt, v[5])
        elif k == "PP":
            maxt = max(maxt, v[4])
    it["max_ids"] = (maxb, maxt, nblocks)
    op("cfg %d %d %d %d %d %d %d %d" % (N, len(srcs), norig, nblocks, reem, maxb + 3, maxt + 1, nsub), "cfg ok")
    for (k, v) in ev:
        if k == "PG":
            op("ngb " + " ".join(str(x) for x in v), "ngb ok")
    for v in srcs:
        op("src %d %d %d" % tuple(v), "src ok")
    op("init %d" % ncont, "init %d" % N)
    cur = {}                       # thread -> task
    acc = {}                       # thread -> pending PN/PD/PK records
    qst = {}                       # thread -> staged packet identity records (hook records Q*)

    def qbind(th, bid):
        q = qst.get(th, {}).pop("QS", None)
        if q is not None and q[0] == bid:
            op("qbind %d %s" % (bid, " ".join(str(x) for x in q[1])), "qbind ok")
    kname = {E["TASKTYPE_SOURCE_DISCRETE_PHOTON"]: "source", E["TASKTYPE_SOURCE_CONTINUOUS_PHOTON"]: "contsource",
             E["TASKTYPE_PHOTON_TRAVERSAL"]: "traverse", E["TASKTYPE_PHOTON_REEMIT"]: "reemit",
             E["TASKTYPE_FLUSH_CONTINUOUS_PHOTON_BUFFERS"]: "flush"}
    pulled = set()
    nterm = [0]

    def emit_pc(v):
        th, blk, n, left = v[:4]
        sizes = v[4:]
        fl = [r[1][1] for r in acc.get(th, []) if r[0] == "PK"]
        # non-serialised: `left` is a separate (racy) read of the counter, not compared
        op("cfin %d %s | %s" % (cur.get(th, -1), " ".join(str(x) for x in sizes), " ".join(str(x) for x in fl)),
           "cfin left=%s flush=%d" % ("*" if noserial else str(left), len(fl)))
        acc[th] = []
    def commit_pc(idx, v):
        if noserial and any(r[0] == "PK" for r in acc.get(v[0], [])):
            # this task saw the counter at zero and creates the flush tasks: every other continuous source task
            # has done its subtraction before (only its record may come later) -> their commits come first
            for j in range(idx + 1, len(ev)):
                if ev[j][0] == "PC" and j not in pulled and ev[j][1][0] != v[0]:
                    pulled.add(j)
                    emit_pc(ev[j][1])
                elif ev[j][0] == "PE":
                    break
        emit_pc(v)
    for idx, (k, v) in enumerate(ev):
        if idx in pulled:
            continue
        if noserial and k == "PA":
            # a flush task can be taken as soon as it is in the queue (its PK record), before the creating task has
            # written its commit record PC: that commit (whose data are fixed since the subtraction) comes first
            for th2, recs in list(acc.items()):
                if th2 != v[0] and any(r[0] == "PK" and r[1][1] == v[1] and r[1][2] == E["TASKTYPE_FLUSH_CONTINUOUS_PHOTON_BUFFERS"] for r in recs):
                    for j in range(idx + 1, len(ev)):
                        if ev[j][0] == "PK" and j not in pulled and ev[j][1][0] == th2:
                            pulled.add(j)          # the remaining flush tasks of the same commit
                            acc[th2].append(ev[j])
                        elif ev[j][0] == "PC" and j not in pulled and ev[j][1][0] == th2:
                            pulled.add(j)
                            commit_pc(j, ev[j][1])
                            break
        if k == "PT":
            if v[1] == E["TASKTYPE_SOURCE_DISCRETE_PHOTON"]:
                op("launch %d %d" % (v[0], v[2]), "launch source %d %d queued" % (v[2], v[3]))
            else:
                op("launchc %d" % v[0], "launchc contsource %d %d queued" % (v[2], v[3]))
        elif k == "PA":
            th, t, typ, sub, buf = v
            cur[th] = t
            acc[th] = []
            op("acq %d" % t, "acq %s %d %d running" % (kname.get(typ, "?"), sub, buf))
        elif k == "PY":
            if v[1] >= 0:
                op("acq %d" % v[1], "acq-by-exiting-thread")
        elif k == "QS":
            qst.setdefault(v[0], {})["QS"] = (v[1], v[2:])
        elif k in ("QI", "QK"):
            qst.setdefault(v[0], {})[k] = (v[1], v[2:])
        elif k in ("QF", "QO"):
            qst.setdefault(v[0], {})[k] = v[1:]
        elif k == "QD":
            qst.setdefault(v[0], {}).setdefault("QD", []).append((v[1], v[2:]))
        elif k == "PQ":
            op("enq %d" % v[1], "enq")
        elif k == "PB":
            th, src, n, bid, sub, t2, q = v
            op("srcx %d %d %d" % (cur.get(th, -1), bid, t2), "srcx buf=%d task=traverse %d %d pending" % (n, sub, bid))
            qbind(th, bid)
        elif k in ("PN", "PD", "PK"):
            acc.setdefault(v[0], []).append((k, v))
        elif k == "PX":
            th, g, b0, cnt, dn, li, ls = v
            dirs, per = [], []
            recs = acc.get(th, [])
            newact = {r[1][1]: r[1][2] for r in recs if r[0] == "PN"}
            for j, (kk, r) in enumerate(recs):
                if kk != "PD":
                    continue
                _, i, out, new, add, snew, sadd = r
                nt = -1
                if j + 1 < len(recs) and recs[j + 1][0] == "PK":
                    nt = recs[j + 1][1][1]
                nbid = (add if add != new else -1)
                if noserial and add != new and sadd == 0:
                    nbid = -2     # taken and released inside the commit: any buffer that is free in the model
                dirs.append("%d:%d:%d:%d:%d" % (i, out, newact.get(i, -1), nbid, nt))
                per.append("d%d=%d,%s" % (i, snew, str(sadd) if add != new else "-"))
            q = qst.pop(th, {})
            if "QI" in q and "QF" in q:
                op("qin %d %s" % (cur.get(th, -1), " ".join(str(x) for x in q["QI"][1])), "qin ok")
                op("qfate %s" % " ".join(str(x) for x in q["QF"]), "qfate ok")
            op("trav %d %d %s" % (cur.get(th, -1), dn, " ".join(dirs)),
               ("trav sub=%d in=%d done=%d largest=%d,%d %s" % (g, cnt, dn, li, ls, " ".join(per))).rstrip())
            for (qb, qids) in q.get("QD", []):
                op("qbuf %d %s" % (qb, " ".join(str(x) for x in qids)), "qbuf ok")
            acc[th] = []
        elif k == "PR":
            th, g, b0, cnt, kept, dn = v
            recs = acc.get(th, [])
            t2 = recs[0][1][1] if recs and recs[0][0] == "PK" else 0
            q = qst.pop(th, {})
            if "QI" in q and "QO" in q:
                op("qin %d %s" % (cur.get(th, -1), " ".join(str(x) for x in q["QI"][1])), "qin ok")
                op("qkeep %s" % " ".join(str(x) for x in q["QO"][1::2]), "qkeep ok")
            op("reem %d %d %d" % (cur.get(th, -1), kept, t2), "reem in=%d kept=%d done=%d" % (cnt, kept, dn))
            if "QK" in q and kept > 0:
                op("qbuf %d %s" % (b0, " ".join(str(x) for x in q["QK"][1])), "qbuf ok")
            acc[th] = []
        elif k == "PO":
            th, blk, g, bid, t2, q = v
            op("cover %d %d %d %d" % (cur.get(th, -1), g, bid, t2), "cover buf=%d task=traverse %d %d queued" % (bufsz, g, bid))
            qbind(th, bid)
        elif k == "PC":
            commit_pc(idx, v)
        elif k == "PL":
            th, blk, g, cnt, bid, t2, q = v
            op("fone %d %d %d %d" % (cur.get(th, -1), g, bid, t2), "fone buf=%d task=traverse %d %d queued" % (cnt, g, bid))
            qbind(th, bid)
        elif k == "PH":
            op("ffin %d" % cur.get(v[0], -1), "ffin ok")
        elif k == "PP":
            g, d, bid, cnt, t2, bsub = v
            op("prem %d %d" % (g, t2), "prem dir=%d buf=%d count=%d task=%s %d %d queued" % (d, bid, cnt, "traverse" if d > 0 else "reemit", bsub, bid))
        elif k == "PM":
            op("largest %d" % v[0], "largest %d %d" % (v[1], v[2]))
        elif k == "PZ":
            if noserial:
                # the two reads of the termination test are not one action: the flag write is replayed at the end
                nterm[0] += 1
            else:
                op("term", "term ok")
        elif k == "PE":
            _, req, pdone, nbuf, ntask, sq, tq, nact, ncb = v
            for _ in range(nterm[0]):
                op("term", "term ok")
            plot = bool(it.get("plot")) or any(kk == "PW" and len(vv) > 5 and vv[5] == 1 for (kk, vv) in ev)
            # with --task-plot the executed tasks stay in the task space until the reset (model: released at the commit)
            op("end", "end done=%d bufs=%d tasks=%s queued=%d active=%d cont=%d src=0 run=0 once=ok" % (pdone, nbuf, "*" if plot else str(ntask), sq + tq, nact, ncb))
    return ops, exp


def model_answer_matches(model, expected):
    m = " ".join(vlib.strip_branch(model).split())
    if expected == "enq":
        return m.startswith("enq ") and m.endswith(" queued")
    if expected.startswith("end ") and "tasks=*" in expected:
        return re.sub(r"tasks=\d+", "tasks=*", m) == expected
    if expected.startswith("cfin left=*"):
        return re.sub(r"left=\d+", "left=*", m) == expected
    if expected == "acq-by-exiting-thread":
        return m.startswith("acq ") and m.endswith(" running")
    return m == expected


# ----------------------------------------------------------------------------------------------
# DistributedPhotonSource stream

WEIGHT_PATTERNS = {1: [[1.0]], 2: [[1.0, 1.0], [0.3, 0.7], [1.0, 9.0]], 3: [[1.0, 1.0, 1.0], [0.5, 0.3, 0.2], [1.0, 2.0, 4.0]],
                   4: [[1.0, 1.0, 1.0, 1.0], [0.4, 0.3, 0.2, 0.1], [7.0, 1.0, 1.0, 1.0]]}


def dps_case(N, levels, subs, lums):
    tot = 0.0
    for l in lums:
        tot += l
    ws = [l / tot for l in lums]
    op = "dps %d %d | %s | %s" % (N, len(levels), " ".join(str(l) for l in levels),
                                 " ".join("%d:%d" % (s, vlib.f2bits(w)) for s, w in zip(subs, ws)))
    return op, ws


def dps_ops(ctx):
    import itertools
    ops = []
    nmax = 60
    srcmax = ctx.budget(3, 4)
    pats = ctx.budget(2, 3)
    for N in range(1, nmax + 1):
        for nsrc in range(1, srcmax + 1):
            for lv in itertools.product([0, 1, 2], repeat=nsrc):
                for lums in WEIGHT_PATTERNS[nsrc][:pats]:
                    levels = list(lv) + [0] * (4 - nsrc)
                    ops.append(dps_case(N, levels, list(range(nsrc)), lums))
    for _ in range(ctx.budget(400, 6000)):
        nsrc = ctx.rng.choice([1, 2, 3, 4, 5, 6])
        nsub = 4
        levels = [ctx.rng.choice([0, 0, 1, 2, 3]) for _ in range(nsub)]
        subs = [ctx.rng.randrange(nsub) for _ in range(nsrc)]
        lums = [ctx.rng.choice([ctx.rng.uniform(0.01, 10.), float(ctx.rng.randrange(1, 9)), 10. ** ctx.rng.uniform(-3, 3)]) for _ in range(nsrc)]
        N = ctx.rng.choice([ctx.rng.randrange(1, 70), ctx.rng.randrange(1, 2000), ctx.rng.randrange(1, 200000), 200 * ctx.rng.randrange(1, 50),
                            200 * ctx.rng.randrange(1, 50) + ctx.rng.choice([-1, 1])])
        ops.append(dps_case(N, levels, subs, lums))
    return ops


def parse_kv(line):
    d = {}
    for w in line.split()[1:]:
        if "=" in w:
            k, v = w.split("=", 1)
            d[k] = v
    return d


def dps_stream(ctx, harness):
    cases = dps_ops(ctx)
    ops = [c[0] for c in cases]
    # one OpenMP thread: the harness builds thousands of tiny grids, a thread team per grid only costs time
    rc, out, err = vlib.run_exe(harness, "\n".join(ops) + "\n", env={"OMP_NUM_THREADS": "1"})
    impl, orc = vlib.split_oracle(out)
    st = ctx.cov["correspondence_streams"].setdefault("dps", {"lines": 0, "mismatches": 0, "oracle_failures": 0})
    st["lines"] += len(ops)
    st["oracle_failures"] += len(orc)
    if rc != 0 or len(impl) != len(ops):
        ctx.violation("dps:impl-crash", "DistributedPhotonSource harness exited with status %d after %d of %d answers: %s" % (rc, len(impl), len(ops), err[-300:]),
                      {"stream": "dps", "ops": ops[max(0, len(impl) - 1):len(impl) + 1]})
        return
    for o in orc:
        m = re.search(r"line=(\d+)", o)
        i = int(m.group(1)) - 1 if m else 0
        what = re.sub(r"line=\d+\s*", "", o[len("ORACLE"):]).strip()
        ctx.violation("dps:" + what.split()[0], "DistributedPhotonSource: " + what, {"stream": "dps", "ops": [ops[i]], "oracle": o})
    # model side: totals from (nthis, ncopy, picks), batches from the totals
    mops, where = [], []
    for i, l in enumerate(impl):
        kv = parse_kv(l)
        if "totals" not in kv:
            continue
        nthis = [int(x) for x in kv["nthis"].split(",")]
        ncopy = kv["ncopy"].split(",")
        # the truncated products are recomputed here as well (same IEEE operations as the constructor)
        N = int(ops[i].split()[1])
        mine = [int(N * w) for w in cases[i][1]]
        if mine != nthis:
            st["mismatches"] += 1
            ctx.broken_obligation("stream 'dps': truncated source numbers differ: harness %s, expected %s for %r" % (nthis, mine, ops[i]))
        picks = kv["picks"].split(",") if kv["picks"] else []
        mops.append("split | %s | %s" % (" ".join("%d:%s" % (a, c) for a, c in zip(nthis, ncopy)), " ".join(picks)))
        where.append((i, "totals"))
        for t in sorted(set(int(x) for x in kv["totals"].split(","))):
            mops.append("batches %d %d" % (200, t))
            where.append((i, "batches", t))
    rc, out, err = vlib.run_exe(vlib.driver("drv_c01"), "\n".join(mops) + "\n")
    model = [l for l in out.split("\n") if l]
    if rc != 0 or len(model) != len(mops):
        ctx.broken_obligation("Lean driver drv_c01 failed on the dps stream (rc %d, %d of %d answers): %s" % (rc, len(model), len(mops), err[-300:]))
        return
    btab = {}
    for w, m in zip(where, model):
        i = w[0]
        kv = parse_kv(impl[i])
        if w[1] == "totals":
            tot_model = m.split()[1:]
            tot_impl = kv["totals"].split(",")
            ctx.count()
            nontrivial = len(tot_impl) > 1 or kv["picks"] != ""
            ctx.distinct(ops[i], nontrivial=nontrivial)
            ctx.branch("dps-overhead" if kv["picks"] else "dps-exact")
            if len(set(kv["ncopy"].split(","))) > 1 or kv["ncopy"].split(",")[0] != "1":
                ctx.branch("dps-copies")
            if tot_model != tot_impl:
                st["mismatches"] += 1
                ctx.broken_obligation("stream 'dps': per-copy totals differ for %r: implementation %s, Lean model %s" % (ops[i], tot_impl, tot_model),
                                      json.dumps({"stream": "dps", "ops": [ops[i]], "impl": impl[i], "model": m}))
                if len(ctx.cov["samples"]) < 6:
                    ctx.sample({"dps": ops[i], "impl": impl[i], "model": m})
        else:
            btab[(i, w[2])] = m.split()[1:]
    # batches: per source copy, the real round-robin sequence must be the model's batch list
    for i, l in enumerate(impl):
        kv = parse_kv(l)
        if "totals" not in kv:
            continue
        per = {}
        for b in (kv["batches"].split(",") if kv["batches"] else []):
            s, n = b.split(":")
            per.setdefault(int(s), []).append(n)
        for isrc, t in enumerate(kv["totals"].split(",")):
            if per.get(isrc, []) != btab.get((i, int(t)), None):
                st["mismatches"] += 1
                ctx.broken_obligation("stream 'dps': batches of source copy %d differ for %r: implementation %s, Lean model %s"
                                      % (isrc, ops[i], per.get(isrc, []), btab.get((i, int(t)))))
                break
    if len(ctx.cov["samples"]) < 2 and impl:
        ctx.sample({"dps_op": ops[len(ops) // 2], "impl": impl[len(ops) // 2]})


# ----------------------------------------------------------------------------------------------
# photon stream: real runs, trace replay

JITTERS_TRACE = ["verif_lock=300=2000,cas_lock=20=1500", "verif_lock=600=3000,cas_lock=40=2500,cas_unlock=10=500",
                 "verif_lock=150=800,post_increment=100=300,pre_add=300=1500"]
JITTERS_NOSERIAL = ["verif_lock=300=1500,cas_lock=20=1500,pre_add=200=800,store=100=800", "verif_lock=500=2500,cas_lock=30=2000,cas_unlock=10=500,load=2=300",
                    "verif_lock=200=1000,pre_add=400=1500,pre_subtract=500=2000,post_increment=100=300,load=1=200,store=200=1000"]
JITTERS_PLAIN = ["pre_subtract=1000=3000,cas_lock=30=4000", "pre_subtract=700=2000,cas_lock=60=2000,cas_unlock=20=1000",
                 "pre_add=500=2000,cas_lock=40=3000,pre_subtract=500=1500"]


def describe(c, threads, jitter, noserial=False):
    return "%s%s subgrids %s periodic %s N=%d iterations=%d copy level %d diffuse=%s threads=%d%s" % (
        "RHD " if c.get("rhd") else "", c.get("mode"), "x".join(str(x) for x in c["layout"]), "".join("ty"[0] if p else "n" for p in c["per"]), c["N"], c.get("iters", 2),
        c.get("copy", 0), c.get("diffuse"), threads, (" --task-plot" if c.get("plot") else "") + (" jitter=" + jitter if jitter else "") + (" non-serialised trace" if noserial else ""))


def run_and_check(ctx, E, binary, job, drv_jobs):
    """job = dict(cfg, threads, jitter (or None), trace (bool)); returns nothing, records into ctx"""
    c, threads, jitter, trace = job["cfg"], job["threads"], job.get("jitter"), job.get("trace", True)
    noserial = bool(job.get("noserial"))
    res = job["res"]
    rep = {"config": c, "threads": threads, "jitter": jitter, "trace_on": trace, "noserial": noserial, "param": rhd_param(c) if c.get("rhd") else ion_param(c),
           "sources_yml": sources_yml(c["sources"]) if len(c.get("sources", [])) > 1 else None,
           "cmd": "%s%sCMacIonize --params run.param %s --threads %d" % ("CMAC_VERIF_NOSERIAL=1 " if noserial else "", ("LD_PRELOAD=libc01_jitter.so CMAC_VERIF_JITTER=%s " % jitter) if jitter else "",
                                                                   "--task-based-rhd --number-of-steps 1" if c.get("rhd") else " ".join(ion_args(c)), threads)}
    ctx.count()
    stream = "noserial" if noserial else ("jitter" if jitter else "photon")
    rep["stream"] = stream
    st = ctx.cov["correspondence_streams"].setdefault(stream, {"runs": 0, "lines": 0, "mismatches": 0, "oracle_failures": 0})
    st["runs"] += 1
    what = describe(c, threads, jitter, noserial)
    if res["timed_out"]:
        its = split_iterations(res["trace"])
        for it in its:
            it["plot"] = bool(c.get("plot"))
        ctx.violation("photon:run-hangs", "the run did not finish within %d s (%s); %d iterations started; last log line: %s"
                      % (job["timeout"], what, len(its), res["log"].strip().split("\n")[-1][-160:]), dict(rep, trace_tail=res["trace"][-60:]))
        st["oracle_failures"] += 1
        # what the trace shows up to the point where the run got stuck
        for it in its:
            bad = [(k, tx) for (k, tx) in trace_oracles(E, it) + identity_oracles(it) if k not in ("photon:iteration-not-finished", "photon:task-not-executed")]
            for (key, text) in bad[:3]:
                ctx.violation(key, "%s (%s, run later hangs)" % (text, what), dict(rep, trace=[" ".join([k] + [str(x) for x in v]) for (k, v) in it["events"] if k != "PG"][:3000]))
            if trace and not bad:
                ops, exp = iteration_ops(E, it, noserial)
                drv_jobs.append((ops, exp, rep, what, it["PI"][0], False))
        return
    if res["rc"] != 0:
        ctx.violation("photon:run-failed", "the run exited with status %d (%s): %s" % (res["rc"], what, res["log"].strip()[-300:]),
                      dict(rep, trace_tail=res["trace"][-60:]))
        st["oracle_failures"] += 1
        return
    if not trace:
        if not c.get("rhd") and len(res.get("diagnostics", [])) != c.get("iters", 2):
            ctx.violation("photon:run-failed", "the run ended after %d of %d iterations (%s)" % (len(res.get("diagnostics", [])), c.get("iters", 2), what), rep)
        return
    its = split_iterations(res["trace"])
    for it in its:
        it["plot"] = bool(c.get("plot"))
    if res.get("trace_truncated"):
        # the bounded read stopped inside an iteration: that iteration is incomplete in OUR copy of the
        # trace, not in the run (it exited normally); only the complete iterations are evaluated
        ctx.branch("trace-truncated-at-%d-lines" % MAX_TRACE_LINES)
        its = its[:-1]
    elif len(its) != c.get("iters", 2):
        ctx.broken_obligation("photon trace of %s has %d iterations, expected %d (hook H2 missing?)" % (what, len(its), c.get("iters", 2)), res["log"][-400:])
        return
    ctx.distinct((tuple(c["layout"]), tuple(c["per"]), c["N"], c.get("copy", 0), c.get("mode"), bool(c.get("diffuse")), threads, jitter, noserial, bool(c.get("plot"))),
                 nontrivial=(c["layout"] != (1, 1, 1) or c.get("diffuse") or c["N"] > 200))
    for it in its:
        bad = trace_oracles(E, it) + identity_oracles(it)
        if c.get("rhd"):
            # the radiation-hydrodynamics loop keeps its (finished) temperature tasks until the end of the hydro step
            bad = [(("photon:rhd-task-slots-left-behind" if (k == "photon:task-left-behind" and "tasks in use" in tx) else k), tx) for (k, tx) in bad]
        for (key, text) in bad[:4]:
            st["oracle_failures"] += 1
            ctx.violation(key, "%s (%s)" % (text, what), dict(rep, trace=[" ".join([k] + [str(x) for x in v]) for (k, v) in it["events"] if k != "PG"][:3000]))
        ops, exp = iteration_ops(E, it, noserial)
        # the capacity premise of no_stuck (two free buffers, nblocks + 1 free task slots) evaluated on this run
        mb, mt, nb_ = it["max_ids"]
        cp = ctx.cov.setdefault("capacity_premise", {"iterations": 0, "premise_held": 0, "max_buffer_id": 0, "max_task_id": 0})
        cp["iterations"] += 1
        cp["max_buffer_id"], cp["max_task_id"] = max(cp["max_buffer_id"], mb), max(cp["max_task_id"], mt)
        if mb + 3 <= 4000 and (c.get("rhd") or mt + nb_ + 2 <= c.get("ntasks", 40000)):
            cp["premise_held"] += 1
        only_leak = bool(bad) and all(k == "photon:rhd-task-slots-left-behind" for (k, _) in bad)
        if only_leak:
            # the leaked slots do not disturb the protocol: replay everything, compare the end record without its task count
            exp[-1] = re.sub(r"tasks=\d+", "tasks=0", exp[-1])
        drv_jobs.append((ops, exp, rep, what, it["PI"][0], bool(bad) and not only_leak))
        if bad and not only_leak:
            break      # later iterations start from a dirty state
    if len(ctx.cov["samples"]) < 5:
        ctx.sample({"config": what, "trace_lines": len(res["trace"]), "head": [l for l in res["trace"] if " PG " not in l][:8]})


def replay_traces(ctx, drv_jobs):
    """all iterations through one driver process"""
    all_ops = []
    for (ops, exp, rep, what, iloop, dirty) in drv_jobs:
        all_ops += ops
    if not all_ops:
        return
    rc, out, err = vlib.run_exe(vlib.driver("drv_c01"), "\n".join(all_ops) + "\n")
    model = [l for l in out.split("\n") if l]
    if rc != 0:
        ctx.broken_obligation("Lean driver drv_c01 failed (rc %d): %s" % (rc, err[-300:]))
    pos = 0
    for (ops, exp, rep, what, iloop, dirty) in drv_jobs:
        st = ctx.cov["correspondence_streams"][rep.get("stream", "photon")]
        st["lines"] += len(ops)
        for i in range(len(ops)):
            m = model[pos + i] if pos + i < len(model) else "<missing>"
            if " #" in m:
                ctx.branch(m.split(" #")[1].strip())
            if not model_answer_matches(m, exp[i]):
                st["mismatches"] += 1
                if not dirty:
                    obj = dict(rep, iteration=iloop, ops=ops[:i + 1][-400:], impl=exp[i], model=m)
                    if ops[i].startswith("q") and "BAD" in m:
                        ctx.violation("photon:packet-identity", "iteration %d of %s: the packets the implementation reports ('%s ...') are not the packets the protocol model has there (%s)"
                                      % (iloop, what, ops[i][:60], vlib.strip_branch(m)[:200]), obj)
                    elif "DISABLED" in m:
                        ctx.violation("photon:event-not-allowed", "iteration %d of %s: the implementation performed '%s' (logged: %s), which the protocol model does not allow in that state (%s)"
                                      % (iloop, what, ops[i], exp[i], vlib.strip_branch(m)), obj)
                    else:
                        ctx.broken_obligation("correspondence stream 'photon': iteration %d of %s, op %r: implementation %r, Lean model %r"
                                              % (iloop, what, ops[i], exp[i], vlib.strip_branch(m)), json.dumps(obj, default=str)[:3000])
                break
        pos += len(ops)


def corpus_jobs():
    jobs = []
    d = os.path.join(vlib.VERIF, "corpus", "C01")
    if os.path.isdir(d):
        for f in sorted(os.listdir(d)):
            for l in open(os.path.join(d, f)):
                l = l.strip()
                if l and not l.startswith("#"):
                    j = json.loads(l)
                    j["cfg"]["layout"] = tuple(j["cfg"]["layout"])
                    j["cfg"]["per"] = tuple(j["cfg"]["per"])
                    j["cfg"]["sources"] = [tuple(s) for s in j["cfg"].get("sources", [])]
                    jobs.append(j)
    return jobs


def fixed_jobs():
    """configurations every run contains: the smallest ones and the ones that once failed"""
    one = dict(layout=(1, 1, 1), per=(False, False, False), copy=0, sources=[], continuous=True, diffuse=False, density="0.02", seed=7, mode="continuous")
    jobs = []
    for N in (200, 400, 1):
        jobs.append(dict(cfg=dict(one, N=N, iters=3), threads=4, jitter=None))
    star = [(0.1, 0.1, 0.1, "1.0e+30")]
    jobs.append(dict(cfg=dict(layout=(2, 2, 2), per=(False, False, False), N=1234, iters=2, copy=1, sources=star, continuous=False, diffuse=False,
                              density="0.02", seed=42, mode="discrete"), threads=4, jitter=None))
    jobs.append(dict(cfg=dict(layout=(1, 1, 2), per=(True, True, True), N=201, iters=2, copy=2, sources=star, continuous=True, diffuse=True, reprob="0.7",
                              density="0.05", seed=3, mode="both"), threads=8, jitter=None))
    jobs.append(dict(cfg=dict(layout=(4, 1, 1), per=(True, False, False), N=199, iters=2, copy=0, sources=star, continuous=False, diffuse=True, reprob="0.95",
                              density="0.3", seed=5, mode="discrete"), threads=1, jitter=None))
    return jobs


def calm(c):
    """keep a run under scheduling jitter short: few packets, no near-endless re-emission / periodic laps"""
    c["N"] = min(c["N"], 600)
    if c.get("reprob") == "0.95":
        c["reprob"] = "0.7"
    if c.get("density") == "0.005":
        c["density"] = "0.02"
    return c


def make_jobs(ctx):
    jobs = corpus_jobs() + fixed_jobs()
    for k in range(ctx.budget(24, 330)):
        c = random_config(ctx.rng, quick=not ctx.thorough)
        c["noinit"] = (k % 5 == 4)
        jobs.append(dict(cfg=c, threads=ctx.rng.choice([1, 2, 4, 8]), jitter=None))
    # optional switches that change the life cycle of the tasks: --task-plot keeps every task of an iteration in the task space
    # until the reset at its end; >= 3 iterations and a task space of ~2.5 iterations, so that a leak ends in a full task space
    star = [(0.1, 0.1, 0.1, "1.0e+30")]
    jobs.append(dict(cfg=dict(layout=(2, 2, 2), per=(False, False, False), N=1234, iters=5, copy=1, sources=star, continuous=False, diffuse=False,
                              density="0.02", seed=42, mode="discrete", plot=True, noinit=True, ntasks=150), threads=4, jitter=None))
    for k in range(ctx.budget(2, 24)):
        c = calm(random_config(ctx.rng))
        c.update(plot=True, iters=3, noinit=(k % 2 == 0))
        jobs.append(dict(cfg=c, threads=ctx.rng.choice([2, 4, 8]), jitter=None))
    # the photon loop of the radiation-hydrodynamics simulation (same contexts, discrete source only)
    for _ in range(ctx.budget(3, 40)):
        layout = tuple(ctx.rng.choice([1, 2, 2, 3]) for _ in range(3))
        c = dict(rhd=True, layout=layout, per=tuple(ctx.rng.random() < 0.4 for _ in range(3)), N=ctx.rng.choice([1, 199, 201, 401, 1000]), iters=ctx.rng.choice([1, 2, 3]),
                 copy=ctx.rng.choice([0, 1, 2]), diffuse=ctx.rng.random() < 0.5, reprob=ctx.rng.choice(["0.3", "0.5", "0.8"]),
                 sources=[(round(ctx.rng.uniform(0.05, 0.95), 3), round(ctx.rng.uniform(0.05, 0.95), 3), round(ctx.rng.uniform(0.05, 0.95), 3), "1.e10")], mode="discrete")
        jobs.append(dict(cfg=c, threads=ctx.rng.choice([1, 2, 4, 8]), jitter=None))
    # seeded scheduling jitter, traced (replayed through the model) ...
    one = dict(layout=(1, 1, 1), per=(False, False, False), copy=0, sources=[], continuous=True, diffuse=False, density="0.02", seed=7, mode="continuous")
    # ... traced WITHOUT the trace mutex (CMAC_VERIF_NOSERIAL=1: the commit regions of the hooked code are not serialised,
    # only single log lines are atomic): the interleavings of the unhooked bookkeeping, still replayed through the model
    for k in range(ctx.budget(9, 90)):
        c = dict(one, N=ctx.rng.choice([200, 400, 600, 201, 1000]), iters=2) if k % 3 == 0 else random_config(ctx.rng)
        if k % 3 != 0:
            calm(c)
            if k % 3 == 2:
                c["diffuse"] = True
        jobs.append(dict(cfg=c, threads=ctx.rng.choice([4, 8, 16]), jitter="%d:%s" % (ctx.rng.randrange(1, 10 ** 6), ctx.rng.choice(JITTERS_NOSERIAL)), noserial=True))
    for k in range(ctx.budget(5, 60)):
        c = dict(one, N=ctx.rng.choice([200, 200, 400, 600, 201]), iters=3) if k % 2 == 0 else random_config(ctx.rng)
        if k % 2 == 1:
            calm(c)
        jobs.append(dict(cfg=c, threads=ctx.rng.choice([2, 4, 4, 8]), jitter="%d:%s" % (ctx.rng.randrange(1, 10 ** 6), ctx.rng.choice(JITTERS_TRACE))))
    # ... and untraced (the trace mutex is not taken: the interleavings of the unhooked code)
    for k in range(ctx.budget(9, 100)):
        c = dict(one, N=ctx.rng.choice([200, 200, 400, 800]), iters=3) if k % 3 != 2 else random_config(ctx.rng)
        if k % 3 == 2:
            calm(c)
            c["continuous"] = True
            c["mode"] = "both" if c["sources"] else "continuous"
        jobs.append(dict(cfg=c, threads=ctx.rng.choice([2, 4, 4, 8]), jitter="%d:%s" % (ctx.rng.randrange(1, 10 ** 6), ctx.rng.choice(JITTERS_PLAIN)), trace=False))
    return jobs


EXPECTED_BRANCHES = ["launch-discrete", "launch-continuous", "acquire", "enqueue", "exec-source", "cont-overflow", "cont-finish", "cont-finish-flush",
                     "flush-one", "flush-finish", "traverse", "traverse-overflow", "traverse-newactive", "traverse-gone", "reemit-none", "reemit-some",
                     "premature-traverse", "premature-reemit", "termination", "dps-overhead", "dps-exact", "dps-copies"]


def run(ctx):
    from concurrent.futures import ThreadPoolExecutor
    ctx.level = "proof"
    ctx.assumptions += [
        "a task's bookkeeping (commit) is one atomic step of an interleaving semantics: it runs under the subgrid lock (C08 proves the locks). Serialised traced runs: hook H2 wraps the commit and its log record in one mutex region, so the log order is a valid order of the commits",
        "non-serialised traced runs (CMAC_VERIF_NOSERIAL=1, hook H3c: no trace mutex, only single log lines are atomic; the bookkeeping of different threads really interleaves): the log order is still a valid order of the model's steps because every record is written AFTER the action that enables it and BEFORE the action that enables its successors: a task creation record (PT PK PB PO PL PP) after the slot/buffer was taken and before add_task resp. before the creating task returns (PQ before add_task); PA after the queue pop that locked the dependency; the commit record (PX PR PC PH PB) after the last write of the commit and before the task's unlock_dependency, before its own task slot is released and BEFORE the input buffer is released (PX before free_buffer; PR before free_buffer needs patches/hook_c01_noserial.diff) -- so two tasks on one subgrid / block never overlap in the log, a re-used buffer or task slot is logged as free before it is logged as taken again, and a thread that sees pool empty and done = N logs PZ after all commit records; PP/PM are written while the subgrid lock is held. Values read for the log are the task's own data (buffer sizes and packet ids of buffers it owns under its lock, its local done delta). Three places where the code itself is not one atomic action are treated as such: the termination test (two reads) -- PZ is replayed at the end of the iteration, where its guard must hold; the counter test of the continuous source (pre_subtract, then a separate read): the task that creates the flush tasks is replayed after all other continuous source tasks, whose subtraction necessarily came first, and the separately read counter value in PC is not compared; an overflow buffer that is taken and released inside one commit is matched with any free buffer of the model",
        "the physics inside a task is abstracted: exit direction of every packet, re-emission decision and target subgrid of a continuous-source packet are universally quantified inputs of the labels",
        "capacities of the buffer pool, task table and queues are not exhausted (free ids are label parameters; no_stuck assumes two free buffers and nblocks+1 free task slots)",
        "sequentially consistent atomics; the non-atomic read pair (is_empty, num_photon_done) of the termination test is modelled as one read (the hook order makes every logged PZ consistent, replay checks it)",
        "packet identities are logged (CMAC_VERIF_PACKET_IDS=1) for traced runs with at most 3000 packets; the id member of PhotonPacket exists only under the guard CMACIONIZE_VERIF",
        "--task-plot (tasks are deliberately kept in the task space until the reset at the end of the iteration) is part of the run matrix: there the number of tasks in use is checked after the reset (record PW) instead of at the end of the photon loop; trackers (`enable trackers`) and --task-plot-rhd are not in the matrix",
        "the photon loop of TaskBasedRadiationHydrodynamicsSimulation.cpp (old loop condition, discrete source only) is the `loopFixed = false` variant of the loop model (theorems no_exit_with_task, nothing_left_behind under contIds = []); its traces are replayed at the protocol level like those of the ionization loop",
        "the silent steps of the loop model (polls that return NO_TASK, loop tests) leave no trace record, so the loop model is tied to the code only through its visible steps: PA/commit records (protocol replay), PY (no thread leaves with a task) and PZ (a thread that cleared the flag logs nothing but its exit)",
    ]
    import time
    t0 = time.time()
    phase = {}
    ok = ctx.obligations("CMacVerif.Props.C01", ["drv_c01"])
    phase["lean"] = round(time.time() - t0, 1)
    t0 = time.time()
    E = simrun.enums()
    if E.get("PHOTONBUFFER_SIZE") != 200:
        ctx.broken_obligation("PHOTONBUFFER_SIZE is %r in the code but 200 in the Lean model (Photon.BUFSZ)" % E.get("PHOTONBUFFER_SIZE"))
    harness = os.path.realpath(vlib.build_harness("c01"))
    binary = os.path.realpath(vlib.full_binary())
    JITTER_LIB[0] = jitter_lib()
    ctx.cov["rule"] = ("dps: N 1..60 x 1..%d sources x copy counts {1,2,4}^sources x weight patterns (exhaustive) + random (N up to 2e5, up to 6 sources, copy counts up to 8); "
                       "photon: real runs on generated configurations (1..4 subgrids per axis, periodic or not, copy level 0..2, discrete / continuous / both sources with 1..4 point sources, "
                       "diffuse field on/off, N in {1,2,7,199,200,201,399,400,401,600,1000,1234,2001,3217}, 1..3 iterations, 1/2/4/8 threads), every trace record replayed through Photon.step; "
                       "jitter: the same with seeded delays at the H1 yield points, traced (serialised and, with 4/8/16 threads, NON-serialised: CMAC_VERIF_NOSERIAL=1) and untraced; distinct = (layout, periodicity, N, copy level, source mix, diffuse, threads, jitter); "
                       "non-trivial = more than one subgrid, or diffuse field, or more than one buffer of packets" % ctx.budget(3, 4))
    phase["build"] = round(time.time() - t0, 1)
    t0 = time.time()
    if ok:
        dps_stream(ctx, harness)
    phase["dps"] = round(time.time() - t0, 1)
    t0 = time.time()
    jobs = make_jobs(ctx)
    for j in jobs:
        j["timeout"] = 90 if j.get("jitter") else 60

    def work(j):
        try:
            return run_config(binary, j["cfg"], j["threads"], jitter=j.get("jitter"), trace=j.get("trace", True), timeout=j["timeout"],
                              noserial=bool(j.get("noserial")))
        except Exception as e:  # noqa
            return dict(rc=-1, timed_out=False, log="run failed to start: %r" % (e,), trace=[], diagnostics=[])
    drv_jobs = []
    chunk = 8
    skipped = 0
    with ThreadPoolExecutor(max_workers=ctx.budget(4, 6)) as ex:
        for k in range(0, len(jobs), chunk):
            part = jobs[k:k + chunk]
            # a defect that makes runs hang costs a time-out per run: stop once it is established
            fails = sum(st.get("oracle_failures", 0) for name, st in ctx.cov["correspondence_streams"].items() if name != "dps")
            if fails >= 3 or len(ctx.violations) >= 6:
                skipped += len(part)
                continue
            for j, res in zip(part, list(ex.map(work, part))):
                j["res"] = res
                run_and_check(ctx, E, binary, j, drv_jobs)
    if skipped:
        ctx.notes.append("%d of %d runs skipped after the first violations" % (skipped, len(jobs)))
    phase["runs"] = round(time.time() - t0, 1)
    t0 = time.time()
    if ok:
        replay_traces(ctx, drv_jobs)
    phase["replay"] = round(time.time() - t0, 1)
    ctx.notes.append("wall time per phase (s): " + ", ".join("%s %s" % kv for kv in phase.items()))
    missing = [b for b in EXPECTED_BRANCHES if b not in ctx.cov["branch_histogram"]]
    ctx.cov["branches_not_reached"] = missing
    if missing and ctx.thorough:
        ctx.notes.append("coverage gate: model branches never taken in this run: %s" % ", ".join(missing))


def replay(ctx, path):
    obj = json.load(open(path))
    print(json.dumps({k: v for k, v in obj.items() if k not in ("trace", "ops", "param", "trace_tail", "config", "sources_yml")}, indent=1)[:3000])
    if obj.get("stream") == "dps":
        h = vlib.build_harness("c01")
        rc, out, err = vlib.run_exe(h, "\n".join(obj["ops"]) + "\n")
        print(out)
        bad = "ORACLE" in out or rc != 0
        print("REPRODUCED" if bad else "not reproduced")
        return 1 if bad else 0
    if "config" not in obj:
        print("replay file names a broken obligation, not an input; nothing to execute")
        return 1
    c = obj["config"]
    c["layout"], c["per"] = tuple(c["layout"]), tuple(c["per"])
    c["sources"] = [tuple(s) for s in c.get("sources", [])]
    E = simrun.enums()
    binary = vlib.full_binary()
    tries = 12 if obj.get("jitter") else 3
    for k in range(tries):
        jit = obj.get("jitter")
        if jit and k > 0:   # schedule dependent: vary the jitter seed
            jit = "%d:%s" % (int(jit.split(":")[0]) + k, jit.split(":", 1)[1])
        res = run_config(binary, c, obj.get("threads", 1), jitter=jit, trace=obj.get("trace_on", True), timeout=90, noserial=bool(obj.get("noserial")))
        bad = []
        if res["timed_out"]:
            bad = [("photon:run-hangs", "run did not finish")]
        elif res["rc"] != 0:
            bad = [("photon:run-failed", "exit status %d" % res["rc"])]
        else:
            rits = split_iterations(res["trace"])
            if res.get("trace_truncated"):
                rits = rits[:-1]
            for it in rits:
                bad += trace_oracles(E, it) + identity_oracles(it)
        print("try %d (jitter %s): %s" % (k, jit, bad[:3] if bad else "clean"))
        if bad:
            print("REPRODUCED")
            return 1
    print("not reproduced on these schedules (schedule-dependent; the recorded trace is in the replay file)")
    return 0


MANIFEST = dict(
    category="proof",
    text="Lean theorems over EVERY execution of the photon-packet protocol of a task-based photoionization iteration (arbitrary interleaving of the committed task actions, any number of threads, any subgrid layout / periodicity / copy wiring, discrete and continuous sources, re-emission on or off, any packet number, physics outcome of every task universally quantified): exact split of the requested number over sources and subgrid copies (split_total, batches_total); conservation N = done + sources + source tasks + buffers in use + continuous buffers (conservation); every buffer in use has exactly one owner, a task or one active-buffer entry, with 1..200 resp. 1..199 packets (ownership); no packet terminated twice, each exactly once when done = N (exactly_once, ghost packet identifiers); run flag cleared => done = N and no buffer, active buffer, source or continuous-buffer content left (termination_sound); the cached largest active buffer of a subgrid is always a real, largest one (premature_safe); the worker loop is modelled with the termination test as two separate reads (termination_two_reads_sound) and in both variants of the loop condition: fixed loop with any sources, old loop `while (global_run_flag)` (radiation-hydrodynamics photon loop) without a continuous source (no_exit_with_task, running_task_has_live_holder: exactly one holder per running task), and the old loop WITH a continuous source provably loses a flush task (old_loop_loses_flush_task, the defect fixed by f78e960); the continuous-source counter is exact and buffers are flushed exactly when it is zero (continuous_bookkeeping); done < N => some label is enabled while capacities are not exhausted (no_stuck); on top, the worker loop of the threads (lstep, loop condition after fix f78e960): a dequeued task always has a live holder and when all threads have left the loop NO task, queue entry, lock or buffer is left (nothing_left_behind); task space after the reset is empty in both life-cycle modes, tasks released when executed / --task-plot (next_iteration_starts_clean, clear_fast_leaks_with_plot). Tied to the code by replaying every record of the hook-H2 trace of real multi-thread CMacIonize --task-based runs (also under seeded scheduling jitter) through the same Lean step function, by the same statements evaluated directly on the trace, by PACKET IDENTITIES (hook build: every launched packet carries a unique id that is copied with the packet and kept by a re-emission; for runs with <= 3000 packets the ids entering / leaving every traversal and re-emission task are logged, fed through the model's ghost ids and checked directly: launched once, terminated exactly once, never in two buffers, every buffer delivers what was put into it, in order), and by a differential test of DistributedPhotonSource.",
    note="Trusted: Lean kernel + 3 axioms; hand model of the seven task contexts, MemorySpace::add_photons, the photon loop and DistributedPhotonSource; task-level atomicity of commits (lock discipline is C08) and sequentially consistent atomics; the trace hook serialises commit bookkeeping (not the physics) through one mutex. NOT proved: termination (with re-emission it only holds with probability 1; no_stuck is the provable part); capacities of buffer pool / task table / queues are assumed sufficient. A run that does not finish within 60-90 s or dies is reported as a violation. The RHD photon loop is covered by the protocol theorems only (discrete sources: no task exists after termination).",
    technique="Lean 4 proof (inductive invariant + weight function generic in a packet weight: length gives conservation, indicator gives exactly-once; thread-loop invariant on top) + trace refinement check against the real hooked binary under scheduling jitter + differential harness")
