"""C04 — a hydro step conserves mass, momentum, energy; states stay physical (DESIGN §6 C04).

Also the shared machinery of C10 (runs of the real hooked binary, face log decoding, state dumps)."""
import collections
import fractions
import itertools
import json
import math
import os
import vlib
import simrun

TOL_CELL = 1.e-12          # cell-level model vs implementation (relative to the scale of the answer)
TOL_TOTAL = 1.e-12         # conservation of the totals: relative, times the number of faces
GAMMAS = [5. / 3., 1.4, 2.0, 4. / 3., 1.1]
KB_OVER_MP = 1.380649e-23 / 1.67262192369e-27   # only used to choose temperatures; not compared
M_P = 1.67262192369e-27


def b(x):
    return str(vlib.f2bits(x))


# ------------------------------------------------------------------ cell-level generators
def logu(rng, lo, hi):
    return 10.0 ** rng.uniform(lo, hi)


def rand_prim(rng, scale_rho, scale_P, g, mach):
    rho = scale_rho * logu(rng, -3, 3)
    P = scale_P * logu(rng, -3, 3)
    cs = math.sqrt(g * P / rho)
    v = [rng.gauss(0, 1) * cs * mach for _ in range(3)]
    return [rho] + v + [P]


def consistent_cons(prim, vol, g):
    m = prim[0] * vol
    p = [m * prim[1 + k] for k in range(3)]
    e = prim[4] * vol / (g - 1.) + 0.5 * sum(p[k] * prim[1 + k] for k in range(3))
    return [m] + p + [e]


def rand_grad(rng, prim, other, dx, mode):
    """15 gradient components (j-major)"""
    out = []
    for j in range(5):
        for c in range(3):
            if mode == "zero":
                out.append(0.0)
            elif mode == "central":
                out.append((other[j] - prim[j]) / dx * rng.choice([0.5, 1.0, 0.25]))
            else:
                out.append(rng.uniform(-2, 2) * (abs(prim[j]) + abs(other[j])) / dx)
    return out


def gen_cell_pair(rng):
    """-> gamma, i, dx, A, dt, L(30), R(30) as floats; mixes smooth / discontinuous / near-vacuum / limiter-firing"""
    g = rng.choice(GAMMAS) if rng.random() < 0.8 else rng.uniform(1.01, 2.0)
    i = rng.randrange(3)
    dx = logu(rng, -3, 3)
    A = dx * dx * rng.choice([1.0, 1.0, 0.5, 2.0])
    vol = A * dx
    srho, sP = logu(rng, -28, 2), logu(rng, -22, 5)
    mach = rng.choice([0.0, 0.1, 0.5, 1.0, 3.0, 10.0])
    kind = rng.choice(["smooth", "smooth", "jump", "jump", "identical", "vacuumR", "vacuumL", "nearvac", "tie"])
    L = rand_prim(rng, srho, sP, g, mach)
    if kind == "smooth":
        R = [L[0] * rng.uniform(0.9, 1.1)] + [L[1 + k] + rng.gauss(0, 0.05) * math.sqrt(g * L[4] / L[0]) for k in range(3)] + [L[4] * rng.uniform(0.9, 1.1)]
    elif kind == "identical":
        R = list(L)
    elif kind == "tie":
        R = list(L)
        for j in rng.sample(range(5), rng.randrange(1, 4)):
            R[j] = L[j] * rng.uniform(0.5, 2.0) if j in (0, 4) else -L[j]
    elif kind == "vacuumR":
        R = [0.0, 0.0, 0.0, 0.0, 0.0]
    elif kind == "vacuumL":
        R = list(L)
        L = [0.0, 0.0, 0.0, 0.0, 0.0]
    elif kind == "nearvac":
        R = [L[0] * logu(rng, -12, -4)] + [rng.gauss(0, 1) * math.sqrt(g * L[4] / L[0]) for _ in range(3)] + [L[4] * logu(rng, -12, -4)]
        if rng.random() < 0.5:
            L, R = R, L
    else:
        R = rand_prim(rng, srho, sP, g, mach)
    gm = rng.choice(["zero", "central", "wild", "central"])
    GL = rand_grad(rng, L, R, dx, gm)
    GR = rand_grad(rng, R, L, dx, gm)
    cL, cR = consistent_cons(L, vol, g), consistent_cons(R, vol, g)
    # a cell that is much emptier than its primitives say (after a big outflow): fires the flux limiter
    if rng.random() < 0.25:
        f = logu(rng, -6, -1)
        tgt = rng.choice([cL, cR])
        which = rng.choice(["m", "e", "p", "all"])
        if which in ("m", "all"):
            tgt[0] *= f
        if which in ("e", "all"):
            tgt[4] *= f
        if which in ("p", "all"):
            for k in range(3):
                tgt[1 + k] *= f
    cs = math.sqrt(g * max(L[4], R[4]) / max(min(x for x in (L[0], R[0]) if x > 0) if (L[0] > 0 or R[0] > 0) else 1.0, 1e-300)) if max(L[4], R[4]) > 0 else 1.0
    vmax = max(abs(x) for x in L[1:4] + R[1:4]) + cs
    dt = 0.2 * dx / vmax * rng.choice([1.0, 1.0, 0.01, 30.0, 3000.0])
    dL = [rng.gauss(0, 1) * (abs(cL[j]) + abs(cR[j])) / max(dt, 1e-300) * 0.1 if rng.random() < 0.7 else 0.0 for j in range(5)]
    dR = [rng.gauss(0, 1) * (abs(cL[j]) + abs(cR[j])) / max(dt, 1e-300) * 0.1 if rng.random() < 0.7 else 0.0 for j in range(5)]
    return g, i, dx, A, dt, L + GL + cL + dL, R + GR + cR + dR, kind


def op_flux(rng):
    g, i, dx, A, dt, L, R, kind = gen_cell_pair(rng)
    return "flux %s %d %s %s %s %s %s" % (b(g), i, b(dx), b(A), b(dt), " ".join(b(x) for x in L), " ".join(b(x) for x in R)), kind


def op_gflux_wall(rng):
    """gas running into (or away from) a reflecting wall at a chosen Mach number: dense in (0, 1.5), the range in
    which the property promises that nothing passes the wall, a few above as controls, some receding"""
    g = rng.choice(GAMMAS) if rng.random() < 0.8 else rng.uniform(1.01, 2.0)
    i = rng.randrange(3)
    dx = logu(rng, -3, 3)
    A = dx * dx * rng.choice([1.0, 0.5, 2.0])
    vol = A * dx
    rho, P = logu(rng, -28, 2), logu(rng, -22, 5)
    cs = math.sqrt(g * P / rho)
    r = rng.random()
    mach = rng.uniform(0.0, 1.5) if r < 0.7 else (rng.uniform(1.15, 1.449) if r < 0.85 else (rng.uniform(1.5, 5.0) if r < 0.93 else -rng.uniform(0.0, 6.0)))
    sgn = rng.choice([1.0, -1.0])
    v = [rng.gauss(0, 1) * cs * rng.choice([0.0, 0.3, 3.0]) for _ in range(3)]
    v[i] = sgn * mach * cs
    L = [rho] + v + [P]
    mode = rng.choice(["zero", "zero", "small", "wild"])
    G = []
    for j in range(5):
        for c in range(3):
            G.append(0.0 if mode == "zero" else rng.uniform(-1, 1) * (abs(L[j]) + (cs if 1 <= j <= 3 else 0.0)) / dx * (0.1 if mode == "small" else 2.0))
    cons = consistent_cons(L, vol, g)
    dt = 0.2 * dx / (cs * (1 + abs(mach))) * rng.choice([1.0, 1.0, 0.01, 30.0])
    cell = L + G + cons + [0.0] * 5
    kind = "wall-receding" if mach < 0 else "wall-M<1.15" if mach < 1.15 else ("wall-M1.15-1.45" if mach < 1.45 else ("wall-M1.45-1.5" if mach < 1.5 else ("wall-M>1.5" if mach > 0 else "wall-receding")))
    return "gflux r %s %d %s %s %s %s" % (b(g), i, b(sgn * dx), b(A), b(dt), " ".join(b(x) for x in cell)), kind


def op_gflux(rng):
    if rng.random() < 0.6:
        return op_gflux_wall(rng)
    g, i, dx, A, dt, L, R, kind = gen_cell_pair(rng)
    if L[0] == 0.0 and rng.random() < 0.7:
        L = R
    sdx = dx if rng.random() < 0.5 else -dx
    bk = rng.choice("rrioo")
    return "gflux %s %s %d %s %s %s %s" % (bk, b(g), i, b(sdx), b(A), b(dt), " ".join(b(x) for x in L)), kind + "-" + bk


def rand_lim(rng, cell, other):
    lim = []
    for j in range(5):
        lo = min(cell[j], other[j]) - abs(rng.gauss(0, 1)) * abs(cell[j]) if rng.random() < 0.6 else 1.7976931348623157e308
        hi = max(cell[j], other[j]) + abs(rng.gauss(0, 1)) * abs(cell[j]) if rng.random() < 0.6 else -1.7976931348623157e308
        if rng.random() < 0.2:
            lo, hi = other[j], other[j]
        lim += [lo, hi]
    return lim


def op_grad(rng, ghost):
    g, i, dx, A, dt, L, R, kind = gen_cell_pair(rng)
    dxinv = 1.0 / dx if (not ghost or rng.random() < 0.5) else -1.0 / dx
    if ghost:
        return "ggrad %s %d %s %s %s" % (rng.choice("rio"), i, b(dxinv), " ".join(b(x) for x in L), " ".join(b(x) for x in rand_lim(rng, L, R))), kind
    return "grad %d %s %s %s %s %s" % (i, b(dxinv), " ".join(b(x) for x in L), " ".join(b(x) for x in rand_lim(rng, L, R)),
                                        " ".join(b(x) for x in R), " ".join(b(x) for x in rand_lim(rng, R, L))), kind


def op_lim(rng):
    kind = rng.choice(["gen", "gen", "eq", "zeroL", "zeroR", "opp", "tiny"])
    s = logu(rng, -20, 5)
    L = rng.gauss(0, 1) * s
    R = rng.gauss(0, 1) * s
    if kind == "eq":
        R = L
    elif kind == "zeroL":
        L = 0.0
    elif kind == "zeroR":
        R = 0.0
    elif kind == "opp":
        R = -L
    elif kind == "tiny":
        R = L * (1 + rng.choice([1, -1]) * 2.0 ** -rng.randrange(40, 53))
    mid = rng.choice([L + rng.gauss(0, 1) * abs(R - L), L + rng.gauss(0, 3) * abs(R - L), 0.5 * (L + R), L, R, L + rng.gauss(0, 1) * s])
    return "lim %s %s %s" % (b(mid), b(L), b(R)), kind


def op_slim(rng):
    """a cell, its (unlimited) gradients and the min / max of its face neighbours as the gradient sweeps leave them"""
    g = rng.choice(GAMMAS)
    dx = [logu(rng, -3, 3) * f for f in (1.0, rng.choice([1.0, 0.5, 3.0]), rng.choice([1.0, 2.0, 0.1]))]
    W = rand_prim(rng, logu(rng, -28, 2), logu(rng, -22, 5), g, rng.choice([0.0, 0.3, 3.0]))
    kind = rng.choice(["smooth", "smooth", "jump", "extremum", "extremum", "flat", "equal-one-side", "zero-gradient"])
    cs = math.sqrt(g * W[4] / W[0])
    nbs = []
    for n in range(6):
        if kind == "smooth":
            N = [W[0] * rng.uniform(0.8, 1.25)] + [W[1 + k] + rng.gauss(0, 0.1) * cs for k in range(3)] + [W[4] * rng.uniform(0.8, 1.25)]
        elif kind == "jump":
            N = rand_prim(rng, W[0], W[4], g, 1.0) if rng.random() < 0.5 else list(W)
        elif kind == "extremum":       # the cell is a local maximum (or minimum) of every variable
            up = n < 0
            N = [W[0] * rng.uniform(0.2, 0.9)] + [W[1 + k] - abs(rng.gauss(0, 0.3) * cs) - 1e-3 * cs for k in range(3)] + [W[4] * rng.uniform(0.2, 0.9)]
        elif kind == "flat":
            N = list(W)
        elif kind == "equal-one-side":
            N = list(W) if n % 2 == 0 else [W[0] * rng.uniform(1.0, 2.0)] + [W[1 + k] + abs(rng.gauss(0, 0.3)) * cs for k in range(3)] + [W[4] * rng.uniform(1.0, 2.0)]
        else:
            N = rand_prim(rng, W[0], W[4], g, 0.5)
        nbs.append(N)
    if kind == "extremum" and rng.random() < 0.5:      # local minimum instead
        nbs = [[2 * W[j] - N[j] if j in (1, 2, 3) else W[j] * W[j] / N[j] for j in range(5)] for N in nbs]
    grad = []
    for j in range(5):
        for c in range(3):
            if kind == "zero-gradient" or (kind == "flat"):
                grad.append(0.0)
            else:
                # what the sweeps accumulate: (W+ - W-) / (2 dx); sometimes an arbitrary value
                grad.append((nbs[2 * c][j] - nbs[2 * c + 1][j]) / (2 * dx[c]) if rng.random() < 0.85 else rng.uniform(-3, 3) * (abs(W[j]) + (cs if 1 <= j <= 3 else 0)) / dx[c])
    lim = []
    for j in range(5):
        lim += [min(N[j] for N in nbs), max(N[j] for N in nbs)]
    return "slim %s %s %s %s" % (" ".join(b(x) for x in dx), " ".join(b(x) for x in W), " ".join(b(x) for x in grad), " ".join(b(x) for x in lim)), kind


def op_pred(rng):
    g = rng.choice(GAMMAS) if rng.random() < 0.8 else rng.uniform(1.01, 2.0)
    dx = logu(rng, -3, 3)
    W = rand_prim(rng, logu(rng, -28, 2), logu(rng, -22, 5), g, rng.choice([0.0, 0.3, 3.0]))
    cs = math.sqrt(g * W[4] / W[0])
    vmax = max(abs(x) for x in W[1:4]) + cs
    kind = rng.choice(["limited", "limited", "limited", "steep", "overdriven", "empty", "subnormal", "gravity"])
    dt = 0.5 * 0.2 * 0.62 * dx / vmax
    amp = 1.0
    if kind == "steep":
        amp = rng.choice([5.0, 20.0])
    elif kind == "overdriven":
        dt *= rng.choice([5.0, 30.0])
    grad = []
    for j in range(5):
        sc = abs(W[j]) if j in (0, 4) else cs
        for c in range(3):
            grad.append(rng.uniform(-1, 1) * amp * sc / dx * rng.choice([1.0, 1.0, 0.1, 0.0]))
    if kind == "empty":
        W = [0.0] + W[1:4] + [rng.choice([0.0, W[4]])]
    elif kind == "subnormal":
        W[0] = rng.choice([2.0 ** -1024, 2.0 ** -1025, 2.0 ** -1024 + 2.0 ** -1074, 2.0 ** -1023, 5e-324, 2.0 ** -1030])
    acc = [rng.gauss(0, 1) * cs / dt * 0.1 for _ in range(3)] if kind == "gravity" else [0.0, 0.0, 0.0]
    return "pred %s %s %s %s %s" % (b(g), b(dt), " ".join(b(x) for x in W), " ".join(b(x) for x in grad), " ".join(b(x) for x in acc)), kind


def op_tstep(rng):
    g = rng.choice(GAMMAS) if rng.random() < 0.8 else rng.uniform(1.01, 2.0)
    W = rand_prim(rng, logu(rng, -28, 2), logu(rng, -22, 5), g, rng.choice([0.0, 0.3, 3.0]))
    kind = rng.choice(["plain", "plain", "plain", "empty", "at-rest"])
    if kind == "empty":
        W[0] = 0.0
    elif kind == "at-rest":
        W[1:4] = [0.0, 0.0, 0.0]
    return "tstep %s %s %s" % (b(g), b(logu(rng, -9, 9)), " ".join(b(x) for x in W)), kind


def op_ucons(rng):
    g = rng.choice(GAMMAS)
    vol = logu(rng, -6, 6)
    prim = rand_prim(rng, logu(rng, -28, 2), logu(rng, -22, 5), g, rng.choice([0, 0.3, 3]))
    cons = consistent_cons(prim, vol, g)
    cs = math.sqrt(g * prim[4] / prim[0])
    dt = 0.2 * vol ** (1. / 3) / (cs + max(abs(x) for x in prim[1:4]))
    kind = rng.choice(["small", "small", "drain-m", "drain-e", "drain-both", "zero", "exact"])
    if kind == "zero":
        cons = [0.0] * 5
    d = [rng.gauss(0, 0.1) * abs(cons[j]) / dt for j in range(5)]
    if kind in ("drain-m", "drain-both"):
        d[0] = -cons[0] / dt * rng.uniform(1.0, 3.0)
    if kind in ("drain-e", "drain-both"):
        d[4] = -cons[4] / dt * rng.uniform(1.0, 3.0)
    if kind == "exact":
        d[0] = -cons[0] / dt
    acc = [0.0, 0.0, 0.0] if rng.random() < 0.6 else [rng.gauss(0, 1) * cs / dt for _ in range(3)]
    eterm = 0.0 if rng.random() < 0.7 else rng.gauss(0, 0.1) * cons[4]
    return "ucons %s %s %s %s %s" % (b(dt), " ".join(b(x) for x in cons), " ".join(b(x) for x in d), " ".join(b(x) for x in acc), b(eterm)), kind


def op_uprim(rng):
    g = rng.choice(GAMMAS) if rng.random() < 0.8 else rng.uniform(1.01, 2.0)
    vol = logu(rng, -6, 6)
    prim = rand_prim(rng, logu(rng, -28, 2), logu(rng, -22, 5), g, rng.choice([0, 0.3, 3, 30]))
    cons = consistent_cons(prim, vol, g)
    cs = math.sqrt(g * prim[4] / prim[0])
    kind = rng.choice(["plain", "plain", "zero-mass", "neg-thermal", "subnormal", "capv", "capc", "zero-e"])
    vmax = 1.e99
    if kind == "zero-mass":
        cons[0] = 0.0 if rng.random() < 0.5 else -abs(cons[0])
    elif kind == "neg-thermal":
        cons[4] *= rng.uniform(0.0, 0.5)
        cons[1] *= 3.0
    elif kind == "subnormal":
        cons[0] = rng.choice([2.0 ** -1024, 2.0 ** -1025, 2.0 ** -1024 + 2.0 ** -1074, 2.0 ** -1023, 5e-324, 2.0 ** -1030])
    elif kind == "capv":
        vmax = 0.5 * (abs(prim[1]) + abs(prim[2]) + 1e-30 * cs)
    elif kind == "capc":
        vmax = cs * rng.uniform(0.1, 0.9) + 2 * math.sqrt(sum(x * x for x in prim[1:4]))
    elif kind == "zero-e":
        cons[4] = 0.0
    return "uprim %s %s %s %s" % (b(g), b(vmax), b(1. / vol), " ".join(b(x) for x in cons)), kind


def cell_ops(ctx, n):
    ops = []
    gens = [(op_flux, 0.26), (op_gflux, 0.14), (lambda r: op_grad(r, False), 0.08), (lambda r: op_grad(r, True), 0.05),
            (op_lim, 0.12), (op_ucons, 0.09), (op_uprim, 0.09), (op_slim, 0.08), (op_pred, 0.07), (op_tstep, 0.02)]
    for _ in range(n):
        x = ctx.rng.random()
        for gfn, p in gens:
            if x < p:
                op, kind = gfn(ctx.rng)
                ops.append(op)
                ctx.branch("gen-%s-%s" % (op.split()[0], kind))
                break
            x -= p
        else:
            op, kind = op_flux(ctx.rng)
            ops.append(op)
    return ops


def scale_of(op):
    """absolute scale of the answers of a cell-level op (tolerance floor), from its inputs"""
    w = op.split()
    k = w[0]
    f = lambda i: abs(vlib.bits2f(w[i]))
    if k == "lim":
        return max(f(1), f(2), f(3)) * 1e-3
    return 0.0


def cmp_cell(impl, model, op):
    a, m = impl.split(), vlib.strip_branch(model).split()
    if len(a) != len(m) or a[0] != m[0]:
        return False
    vals_a = [x for x in a[1:] if "=" not in x]
    vals_m = [x for x in m[1:] if "=" not in x]
    if [x for x in a[1:] if "=" in x] != [x for x in m[1:] if "=" in x]:
        return False
    k = op.split()[0]
    # the components of one answer share a scale: flux differences of one cell pair / one state
    fl = [abs(vlib.bits2f(x)) for x in vals_a + vals_m if x != "nan"]
    fl = [x for x in fl if x == x and x != float("inf")]
    for i, (x, y) in enumerate(zip(vals_a, vals_m)):
        if x == y:
            continue
        if k in ("flux", "gflux"):
            # compare within the same conserved quantity (mass / momentum / energy have different units)
            j = i % 5
            grp = [abs(vlib.bits2f(v)) for idx, v in enumerate(vals_a) if v != "nan" and ((idx % 5 == j) if j in (0, 4) else (idx % 5 in (1, 2, 3)))]
            inp = op.split()
            floor = TOL_CELL * max(grp + [0.0])
        else:
            floor = 0.0
        if not vlib.floats_close(x, y, TOL_CELL, floor):
            return False
    return True


def bit_exact(impl, model):
    return impl == vlib.strip_branch(model)


def oracle_key(what, grp):
    return "cell:" + what.split()[0]


# ------------------------------------------------------------------ runs of the real binary
def block_density(ncell, box, states, extra_blocks=""):
    """BlockSyntax file: one cube per cell (origin = midpoint, side = 0.6 cell) on top of a background block.
    states[(X,Y,Z)] = (n [m^-3], T [K], (vx,vy,vz) [m s^-1])"""
    dx = [box[k] / ncell[k] for k in range(3)]
    lines = ["number of blocks: %d" % (1 + len(states))]
    lines += ["block[0]:", "  origin: [%r m, %r m, %r m]" % (box[0] / 2, box[1] / 2, box[2] / 2),
              "  sides: [%r m, %r m, %r m]" % (4 * box[0], 4 * box[1], 4 * box[2]), "  type: cube",
              "  number density: 1. m^-3", "  initial temperature: 100. K", "  initial velocity: [0. m s^-1, 0. m s^-1, 0. m s^-1]"]
    for n, (X, st) in enumerate(sorted(states.items()), 1):
        lines += ["block[%d]:" % n,
                  "  origin: [%r m, %r m, %r m]" % tuple((X[k] + 0.5) * dx[k] for k in range(3)),
                  "  sides: [%r m, %r m, %r m]" % tuple(0.6 * dx[k] for k in range(3)), "  type: cube",
                  "  number density: %r m^-3" % st[0], "  initial temperature: %r K" % st[1],
                  "  initial velocity: [%r m s^-1, %r m s^-1, %r m s^-1]" % tuple(st[2])]
    return "\n".join(lines) + "\n"


def sound_speed(T, g):
    # neutral fraction 1e-6 -> mean molecular mass ~ 0.5
    return math.sqrt(g * KB_OVER_MP * T / 0.5)


def initial_state(rng, ncell, kind, g, per):
    """per-cell (n, T, v) for the whole global grid"""
    st = {}
    cs0 = sound_speed(100., g)
    k = [rng.choice([1, 1, 2]) for _ in range(3)]
    ph = [rng.uniform(0, 2 * math.pi) for _ in range(3)]
    cut = [rng.randrange(1, max(2, ncell[a])) for a in range(3)]
    jump_ax = rng.randrange(3)
    vdrift = [rng.gauss(0, 0.3) * cs0 if per[a] else 0.0 for a in range(3)]
    walls = [a for a in range(3) if not per[a]]
    if kind == "wallflow" and not walls:
        kind = "smooth"
    wf_ax, wf_sign, wf_mach = (rng.choice(walls) if walls else 0), rng.choice([1, -1]), rng.uniform(1.0, 1.37)
    for X in itertools.product(range(ncell[0]), range(ncell[1]), range(ncell[2])):
        s = sum(math.sin(2 * math.pi * k[a] * (X[a] + 0.5) / ncell[a] + ph[a]) for a in range(3)) / 3.
        if kind == "smooth":
            n, T = 1.0 + 0.3 * s, 100. * (1 + 0.2 * s)
            v = [vdrift[a] + 0.2 * cs0 * math.sin(2 * math.pi * (X[(a + 1) % 3] + 0.5) / ncell[(a + 1) % 3] + ph[a]) for a in range(3)]
        elif kind == "jump":
            hi = X[jump_ax] < cut[jump_ax]
            n, T = (1.0, 100.) if hi else (0.125, 80.)
            v = list(vdrift)
        elif kind == "blast":
            c = all(abs(X[a] - ncell[a] // 2) <= 0 for a in range(3))
            n, T = 1.0, (1.e5 if c else 100.)
            v = [0.0, 0.0, 0.0]
        elif kind == "nearvac":
            n, T = (1.0 if s > 0 else 1.e-10), 100.
            v = [0.1 * cs0 * math.cos(ph[a] + X[a]) for a in range(3)]
        elif kind == "random":
            n, T = 10 ** rng.uniform(-2, 1), 10 ** rng.uniform(1.5, 3)
            v = [rng.gauss(0, 0.5) * cs0 for _ in range(3)]
        elif kind == "negjump":
            # everything moves in the negative directions (all neighbour values of a velocity are negative) with a
            # non-linear profile, across a density / temperature jump: the slope limiter is active everywhere
            hi = X[jump_ax] < cut[jump_ax]
            n, T = ((1.0, 100.) if hi else (0.125, 80.))
            n *= 1.0 + 0.2 * s * s
            v = [-(0.25 + 0.2 * s * s + 0.1 * math.sin(ph[a] + 1.7 * X[a])) * cs0 for a in range(3)]
        elif kind == "wallflow":
            # uniform gas running into one reflecting wall at Mach 1.0 .. 1.37 (below the 1.5 of the property)
            n, T = 1.0, 100.
            v = [wf_sign * wf_mach * cs0 if a == wf_ax else 0.0 for a in range(3)]
        elif kind == "supersonic":
            n, T = 1.0 + 0.2 * s, 100.
            v = [rng.choice([-1, 1]) * 3.0 * cs0 * (1 + 0.3 * s) if a == jump_ax else 0.0 for a in range(3)]
        else:
            raise ValueError(kind)
        # walls: gas must not run into a wall at more than 1.5 c_s (reflective conservation clause)
        st[X] = (n, T, v)
    return st


def make_param(layout, per, cells, g, states, box=(1., 1., 1.), boundary="reflective", total_time=0.002, cfl=None):
    extra = ""
    dens = "DensityFunction:\n  type: BlockSyntax\n  filename: blocks.yml\n"
    p = simrun.hydro_param(layout, per, cells_per_subgrid=cells, total_time=total_time, density=dens, boundary=boundary,
                           gamma=repr(g), box=box)
    if cfl is not None:
        p = p.replace("  do radiation: false\n", "  do radiation: false\n  CFL: %r\n" % cfl)
    return p


def run_hydro(binary, layout, per, cells, g, states, threads, steps=1, box=(1., 1., 1.), facelog=True, dump=True,
              boundary="reflective", cfl=None, timeout=120):
    import tempfile
    import shutil
    ncell = [layout[a] * cells[a] for a in range(3)]
    d = tempfile.mkdtemp(prefix="verif_c04_")
    try:
        with open(os.path.join(d, "blocks.yml"), "w") as f:
            f.write(block_density(ncell, box, states))
        env = {}
        if facelog:
            env["CMAC_VERIF_FACELOG"] = "1"
        if dump:
            env["CMAC_VERIF_STATEDUMP"] = "1"
        param = make_param(layout, per, cells, g, states, box=box, boundary=boundary, cfl=cfl)
        res = simrun.run_sim(binary, param, ["--task-based-rhd", "--number-of-steps", str(steps)], threads=threads,
                             timeout=timeout, env=env, workdir=d)
        res["param"] = param
        return res
    finally:
        shutil.rmtree(d, ignore_errors=True)


class Trace:
    """decoded H3 trace of one run"""

    def __init__(self, lines):
        self.steps = []     # dict(H0, H1, dump0 {(igrid,local): rec}, dump1, calls [..], tasks)
        self.base = {}      # igrid -> (addr, stride, limaddr, ncell)
        self.tasktype = {}  # itask -> (igrid, slot, type)
        self.subs = {}      # igrid -> neighbour subgrid indices (X_P, X_N, Y_P, Y_N, Z_P, Z_N)
        self.locks = {}     # itask -> set of subgrids whose lock the task takes (Task::_dependency[0..1])
        self.children = {}  # itask -> child task indices as constructed by set_dependencies
        self.taskfoot = {}  # itask -> set of subgrids it locks (its own and, for a pair task, the neighbour)
        cur = None
        self.bad = []
        running = None
        for l in lines:
            w = l.split()
            if len(w) < 2:
                continue
            k = w[1]
            if k == "G":
                self.subs[int(w[2])] = [int(x) for x in w[3:9]]
            elif k == "T" and len(w) >= 6 and w[4] != "-1":
                self.tasktype[int(w[4])] = (int(w[2]), int(w[3]), int(w[5]))
                self.taskfoot[int(w[4])] = set(int(x) for x in (w[6], w[7], w[8]) if int(x) >= 0)
                self.locks[int(w[4])] = set(int(x) for x in (w[7], w[8]) if int(x) >= 0)
                self.children[int(w[4])] = [int(x) for x in w[10:10 + int(w[9])]]
            elif k == "S":
                cur = dict(H={}, dump={0: {}, 1: {}}, calls=[], order=[])
                self.steps.append(cur)
                running = None
            elif cur is None:
                continue
            elif k == "B":
                v = [int(x) for x in w[2:]]
                self.base[v[0]] = (v[1], v[2], v[3], v[4])
            elif k == "H":
                v = [int(x) for x in w[2:]]
                cur["H"][v[0]] = v[1:]
            elif k == "SD":
                v = [int(x) for x in w[2:]]
                cur["dump"][v[0]][(v[1], v[2])] = v[3:]
            elif k in ("f", "g", "fb", "gb"):
                cur["calls"].append((k, [int(x) for x in w[2:]], running))
            elif k == "A":
                running = int(w[3])
                cur["order"].append(("A", int(w[3])))
            elif k == "F":
                running = None
                cur["order"].append(("F", int(w[3])))

    def decode(self, addr):
        for g, (base, stride, lim, n) in self.base.items():
            if base <= addr < base + stride * n:
                off = addr - base
                if off % stride:
                    return None
                return (g, off // stride)
        return None

    def decode_lim(self, addr):
        for g, (base, stride, lim, n) in self.base.items():
            if lim <= addr < lim + 80 * n:
                off = addr - lim
                if off % 80:
                    return None
                return (g, off // 80)
        return None


def hl(pair):
    """long double total written as two doubles -> Fraction"""
    hi, lo = vlib.bits2f(pair[0]), vlib.bits2f(pair[1])
    if hi != hi or lo != lo or abs(hi) == float("inf"):
        return None
    return fractions.Fraction(hi) + fractions.Fraction(lo)


def totals_of(H):
    """H line fields -> dict"""
    dt = vlib.bits2f(H[0])
    tot = [hl(H[1 + 2 * j:3 + 2 * j]) for j in range(5)]
    mins = [vlib.bits2f(x) for x in H[11:15]]
    return dict(dt=dt, tot=tot, mins=mins, nonfinite=H[15], ncell=H[16])


def model_lists(ctx_driver, layout, per, cells):
    """ask the Lean driver for: per-subgrid call lists (index level), global cell indices, gridFaces, allFaces"""
    nx, ny, nz = layout
    head = "%d %d %d %d %d %d %d %d %d" % (nx, ny, nz, int(per[0]), int(per[1]), int(per[2]), cells[0], cells[1], cells[2])
    ops = []
    subs = list(itertools.product(range(nx), range(ny), range(nz)))
    for (a, b_, c) in subs:
        ops.append("sub %s %d %d %d" % (head, a, b_, c))
        ops.append("cells %s %d %d %d" % (head, a, b_, c))
    ops.append("grid " + head)
    ops.append("all " + head)
    rc, out, err = vlib.run_exe(ctx_driver, "\n".join(ops) + "\n")
    lines = out.split("\n")
    # answers may be empty lines (no faces): keep positions
    if len(lines) < len(ops):
        raise RuntimeError("driver drv_c04 gave %d lines for %d ops: %s" % (len(lines), len(ops), err[-300:]))
    res = dict(sub={}, cells={}, grid=None, all=None)
    for n, (a, b_, c) in enumerate(subs):
        w = lines[2 * n].split()
        ig = int(w[0])
        res["sub"][ig] = w[1:]
        res["cells"][ig] = [int(x) for x in lines[2 * n + 1].split()]
    res["grid"] = lines[2 * len(subs)].split()
    res["all"] = lines[2 * len(subs) + 1].split()
    return res


def expected_calls(model, kind):
    """multiset of calls of one kind ('f' or 'g') the model predicts, in the trace's own terms:
    ('p', igL, iL, igR, iR, ax) and ('b', ig, i, ax, orientation)"""
    exp = collections.Counter()
    for ig, items in model["sub"].items():
        for it in items:
            p = it.split(":")
            ax = int(p[0][1])
            if p[0][0] == "I":
                exp[("p", ig, int(p[1]), ig, int(p[2]), ax)] += 1
            elif p[0][0] == "O":
                exp[("p", ig, int(p[2]), int(p[1]), int(p[3]), ax)] += 1
            else:
                exp[("b", ig, int(p[2]), ax, 1 if p[1] == "+" else -1)] += 1
    return exp


def observed_calls(tr, step, kind):
    """-> Counter in the same terms, list of problems"""
    obs = collections.Counter()
    bad = []
    for (k, v, running) in step["calls"]:
        if k == kind:
            l, r = tr.decode(v[0]), tr.decode(v[1])
            if l is None or r is None:
                bad.append("%s call on an address outside every subgrid's cell array: %r" % (k, v))
                continue
            obs[("p", l[0], l[1], r[0], r[1], v[2])] += 1
            if kind == "g":
                ll, lr = tr.decode_lim(v[3]), tr.decode_lim(v[4])
                if ll != l or lr != r:
                    bad.append("gradient call for cells %r / %r updates the limiters of %r / %r" % (l, r, ll, lr))
        elif k == kind + "b":
            l = tr.decode(v[0])
            if l is None:
                bad.append("%s call on an address outside every subgrid's cell array: %r" % (k, v))
                continue
            obs[("b", l[0], l[1], v[1], v[2])] += 1
            if kind == "g":
                ll = tr.decode_lim(v[3])
                if ll != l:
                    bad.append("ghost gradient call for cell %r updates the limiters of %r" % (l, ll))
    return obs, bad


def describe_diff(exp, obs, n=4):
    miss = list((exp - obs).items())[:n]
    extra = list((obs - exp).items())[:n]
    return "model-only (not performed / too few): %r; implementation-only (not in the model / too many): %r" % (miss, extra)


def cell_coords_from_midpoints(dump, ncell, box):
    """(igrid, local) -> (X, Y, Z) from the dumped cell midpoints (independent of any index arithmetic)"""
    out = {}
    for key, rec in dump.items():
        mid = [vlib.bits2f(rec[k]) for k in range(3)]
        X = tuple(int(math.floor(mid[k] / (box[k] / ncell[k]))) for k in range(3))
        frac = [mid[k] / (box[k] / ncell[k]) - X[k] for k in range(3)]
        if any(abs(fr - 0.5) > 1e-6 for fr in frac):
            return None
        out[key] = X
    return out


def conservation_oracle(t0, t1, nfaces, per, walls_subsonic, g):
    """the property on the implementation's own totals.  -> list of (key, text)"""
    bad = []
    M0, M1 = t0["tot"][0], t1["tot"][0]
    E0, E1 = t0["tot"][4], t1["tot"][4]
    if None in t0["tot"] or None in t1["tot"]:
        return [("totals-not-finite", "a total of the conserved variables is not finite: before %r after %r" % (t0["tot"], t1["tot"]))]
    tol = TOL_TOTAL * max(1, nfaces)
    all_per = all(per)
    clamp_may_fire = t1["mins"][0] <= 0.0 or t1["mins"][1] <= 0.0
    if clamp_may_fire:
        return bad          # the statement excludes steps in which the positivity safeguard intervenes
    if all_per or walls_subsonic:
        if abs(M1 - M0) > tol * abs(M0):
            bad.append(("mass-not-conserved", "total mass changed by %.3e (relative) in one step, tolerance %.1e" % (float((M1 - M0) / M0), tol)))
        if abs(E1 - E0) > tol * abs(E0):
            bad.append(("energy-not-conserved", "total energy changed by %.3e (relative) in one step, tolerance %.1e" % (float((E1 - E0) / E0), tol)))
    pscale = math.sqrt(2 * float(M0) * float(E0)) if M0 > 0 and E0 > 0 else 0.0
    for a in range(3):
        if all_per or (per[a] and False):
            d = t1["tot"][1 + a] - t0["tot"][1 + a]
            if abs(d) > tol * pscale:
                bad.append(("momentum-not-conserved", "total %s momentum changed by %.3e of sqrt(2ME) in one step, tolerance %.1e" % ("xyz"[a], float(d) / pscale, tol)))
    return bad


def physical_oracle(t1, dump1=None):
    bad = []
    if t1["nonfinite"] != 0:
        bad.append(("not-finite", "%d non-finite conserved/primitive values after the step" % t1["nonfinite"]))
    names = ["mass", "energy", "density", "pressure"]
    for k in range(4):
        if not (t1["mins"][k] >= 0.0):
            bad.append(("negative-" + names[k], "minimum %s after the step is %r" % (names[k], t1["mins"][k])))
    return bad


# ------------------------------------------------------------------ one real run, all checks
PERS = [(True, True, True), (True, True, True), (False, False, False), (True, False, True), (False, True, True), (True, True, False), (False, False, True)]
KINDS = ["smooth", "jump", "blast", "nearvac", "random", "supersonic", "smooth", "random", "wallflow", "wallflow"]


def pick_config(ctx, max_cells):
    rng = ctx.rng
    while True:
        layout = tuple(rng.choice([1, 1, 2, 2, 3]) for _ in range(3))
        cells = tuple(rng.choice([2, 3, 4, 5, 6]) for _ in range(3))
        n = 1
        for a in range(3):
            n *= layout[a] * cells[a]
        if n <= max_cells:
            break
    per = rng.choice(PERS)
    g = rng.choice(GAMMAS[:4])
    kind = rng.choice(KINDS)
    threads = rng.choice([1, 2, 4, 8])
    box = rng.choice([(1., 1., 1.), (1., 1., 1.), (2., 1., 0.5), (1., 3., 1.)])
    # the code's default CFL factor (0.2), close to the stability limit, and deliberately overdriven steps: conservation
    # holds for every dt as long as no clamp fires, and the clamps must keep the state non-negative for every dt
    cfl = rng.choice([None] * 6 + [0.9, 2.5, 6.0])
    if kind == "wallflow":
        cfl = 0.05          # small half-step prediction: the bound on the reconstructed wall Mach number stays tight
    # the box boundaries on the non-periodic axes: mostly reflecting walls (the property's clause), sometimes inflow /
    # outflow boundaries (no conservation claim there: per-call log, non-negativity and finiteness only)
    boundary = "reflective" if (kind == "wallflow" or all(per)) else rng.choice(["reflective"] * 4 + ["inflow", "outflow"])
    return dict(layout=layout, cells=cells, per=per, g=g, kind=kind, threads=threads, box=box, cfl=cfl, boundary=boundary)


def python_grid_faces(ncell, per):
    """the faces of the global grid, straight from the definition (independent of the Lean model)"""
    exp = collections.Counter()
    for X in itertools.product(range(ncell[0]), range(ncell[1]), range(ncell[2])):
        for ax in range(3):
            Y = list(X)
            Y[ax] += 1
            if Y[ax] == ncell[ax]:
                if per[ax]:
                    Y[ax] = 0
                    exp[("p", X, tuple(Y), ax)] += 1
                else:
                    exp[("b", X, ax, 1)] += 1
            else:
                exp[("p", X, tuple(Y), ax)] += 1
            if X[ax] == 0 and not per[ax]:
                exp[("b", X, ax, -1)] += 1
    return exp


def wall_mach(dump0, coords, ncell, per, g, dt=None, box=(1., 1., 1.)):
    """upper bound, over all cells next to a reflecting wall, of (reconstructed velocity towards the wall) / (sound speed)
    at the wall face, computed from the state BEFORE the step:
      * the slope limiter keeps the extrapolated face value within half the largest difference to a face neighbour
        (ghost cell included), and Hydro::limit never raises it above the extrapolated value (or 0),
        so  v_face <= max over the cell and its face neighbours of the wall-ward velocity  +  |dv| of the prediction;
      * the half-step prediction changes v by at most dt/2 (|v_n| div v + |grad P| / rho) and rho, P by the relative
        amount eps = dt/2 (gamma div v + sum |v| |grad ln(rho, P)|), with every derivative bounded by the largest
        neighbour difference / dx (central differences, limited afterwards).
    Returns 9.9 when no bound can be given (eps too large, vacuum next to the wall)."""
    if dt is None:
        return 9.9
    dxs = [box[a] / ncell[a] for a in range(3)]
    prim = {coords[key]: [vlib.bits2f(x) for x in rec[8:13]] for key, rec in dump0.items()}
    worst = 0.0
    for X, W in prim.items():
        sides = [(ax, s) for ax in range(3) if not per[ax] for s in (1, -1) if (X[ax] == ncell[ax] - 1 if s == 1 else X[ax] == 0)]
        if not sides:
            continue
        if not (W[0] > 0 and W[4] > 0):
            return 9.9
        nb = []           # (axis, neighbour primitives), ghost cells included
        for ax in range(3):
            for s in (1, -1):
                Y = list(X)
                Y[ax] += s
                if 0 <= Y[ax] < ncell[ax]:
                    nb.append((ax, prim[tuple(Y)]))
                elif per[ax]:
                    Y[ax] %= ncell[ax]
                    nb.append((ax, prim[tuple(Y)]))
                else:
                    G = list(W)
                    G[1 + ax] = -G[1 + ax]
                    nb.append((ax, G))
        cs = math.sqrt(g * W[4] / W[0])
        # apply_slope_limiter scales the whole gradient vector of a variable by alpha = min(1, 0.5 min(maxfac, minfac))
        # (negative at a local extremum); the extrapolations to the six faces are +-ext_k, so after limiting every one
        # of them is at most 0.5 min(|max_nb - W|, |min_nb - W|) in magnitude (0 when W equals the largest or smallest
        # neighbour value, ghost cells included): |d W_j / d x_k| <= md(j) / dx_k, sign unknown
        md = lambda j: min(abs(max(N[j] for a2, N in nb) - W[j]), abs(min(N[j] for a2, N in nb) - W[j]))
        divv = sum(md(1 + ax) / dxs[ax] for ax in range(3))
        adv = sum(abs(W[1 + ax]) * max(md(0) / W[0], md(4) / W[4]) / dxs[ax] for ax in range(3))
        eps = 0.5 * dt * (g * divv + adv)
        if eps >= 0.5:
            return 9.9
        cs_pred = cs * math.sqrt((1 - eps) / (1 + eps))
        for (ax, s) in sides:
            vn = s * W[1 + ax] + 0.5 * md(1 + ax)
            gradP = md(4) / dxs[ax]
            dv = 0.5 * dt * (abs(W[1 + ax]) * divv + gradP / (W[0] * (1 - eps)))
            worst = max(worst, (max(vn, 0.0) + dv) / cs_pred)
    return worst


PAIR_SLOT_DIR = {1: 0, 3: 2, 5: 4, 10: 0, 12: 2, 14: 4}     # slot -> index of the +x / +y / +z neighbour in the G record
_OUTSIDE = [None]


def lockset_oracle(ctx, tr, cfg, rep, tag, st):
    """premise of conservation (and of C07's conflict freedom) on the real task table: a task takes the lock of every
    subgrid whose cells its sweep writes - its own subgrid and, for a pair sweep, the neighbour above.
    Evaluated on the dumped table itself (independent of the Lean model), and compared with drv_c07's lockset."""
    if _OUTSIDE[0] is None:
        _OUTSIDE[0] = simrun.enums()["NEIGHBOUR_OUTSIDE"]
    bad = 0
    for it, (g, slot, typ) in sorted(tr.tasktype.items()):
        foot = {g}
        if slot in PAIR_SLOT_DIR and g in tr.subs:
            n = tr.subs[g][PAIR_SLOT_DIR[slot]]
            if n != _OUTSIDE[0]:
                foot.add(n)
        st["lines"] += 1
        if not foot <= tr.locks.get(it, set()):
            bad += 1
            st["oracle_failures"] += 1
            ctx.violation("tasks:lock-set-does-not-cover-footprint",
                          "hydro task in slot %d of subgrid %d writes cells of subgrid(s) %s but only locks %s (%s): two threads can update the same cell at once and flux contributions are lost"
                          % (slot, g, sorted(foot), sorted(tr.locks.get(it, set())), tag), dict(rep, slot=slot, subgrid=g))
    return bad


def lockset_model_check(ctx, tr, cfg, tag, st):
    """the same table against the Lean model of C07 (drv_c07: `task g slot` -> `... locks=[..] ...`)"""
    layout, per = cfg["layout"], cfg["per"]
    ops = ["layout %d %d %d %d %d %d" % (tuple(layout) + tuple(int(p) for p in per))]
    keys = sorted((g, slot, it) for it, (g, slot, typ) in tr.tasktype.items())
    ops += ["task %d %d" % (g, slot) for (g, slot, it) in keys]
    rc, out, err = vlib.run_exe(vlib.driver("drv_c07"), "\n".join(ops) + "\n")
    lines = [l for l in out.split("\n") if l]
    for (g, slot, it), l in zip(keys, lines[1:]):
        m = l.split("locks=[")
        if len(m) < 2:
            continue
        mod = set(int(x) for x in m[1].split("]")[0].split())
        st["lines"] += 1
        if mod != tr.locks.get(it, set()):
            st["mismatches"] += 1
            ctx.broken_obligation("task table: subgrid %d slot %d locks %s in the implementation but %s in the Lean model (%s)" % (g, slot, sorted(tr.locks.get(it, set())), sorted(mod), tag), "")
            return


def check_run(ctx, cfg, res, model, stream):
    """all checks on one finished run.  Returns the decoded trace (or None)."""
    layout, cells, per, g = cfg["layout"], cfg["cells"], cfg["per"], cfg["g"]
    ncell = [layout[a] * cells[a] for a in range(3)]
    rep = dict(cfg, param=res.get("param", ""), states=[[list(k), list(v[:2]) + [list(v[2])]] for k, v in sorted(cfg["states"].items())],
               cmd="CMacIonize --params run.param --task-based-rhd --number-of-steps %d --threads %d (CMAC_VERIF_FACELOG=1 CMAC_VERIF_STATEDUMP=1)" % (cfg.get("steps", 1), cfg["threads"]))
    rep.pop("kind_states", None)
    tag = "layout %s cells/subgrid %s periodic %s gamma %.4g %s threads %d%s" % (layout, cells, per, g, cfg["kind"], cfg["threads"], "" if cfg.get("cfl") is None else " CFL %g" % cfg["cfl"])
    if res["timed_out"]:
        ctx.violation("run:timeout", "hydro run did not finish: " + tag, rep)
        return None
    if res["rc"] != 0:
        ctx.violation("run:failed", "hydro run exited with status %d (%s): %s" % (res["rc"], tag, res["log"][-300:]), rep)
        return None
    tr = Trace(res["trace"])
    if not tr.steps or 0 not in tr.steps[0]["H"]:
        ctx.broken_obligation("no hydro totals in the trace (hook H3 for C04 missing in this tree?) " + tag, res["log"][-400:])
        return None
    st = ctx.cov["correspondence_streams"].setdefault(stream, {"lines": 0, "mismatches": 0, "oracle_failures": 0})
    if tr.tasktype:
        ctx.branch("task-tables-checked")
        lockset_oracle(ctx, tr, cfg, rep, tag, st)
        lockset_model_check(ctx, tr, cfg, tag, st)
    # cell identity from the midpoints
    coords = cell_coords_from_midpoints(tr.steps[0]["dump"][0], ncell, cfg["box"]) if tr.steps[0]["dump"][0] else None
    if coords is not None:
        for ig, gl in model["cells"].items():
            for loc, gi in enumerate(gl):
                X = coords.get((ig, loc))
                st["lines"] += 1
                if X is None or gi != (X[0] * ncell[1] + X[1]) * ncell[2] + X[2]:
                    st["mismatches"] += 1
                    ctx.broken_obligation("cell (subgrid %d, index %d) lies at %r in the implementation but is global cell %d in the Lean model (%s)" % (ig, loc, X, gi, tag),
                                          json.dumps(rep, default=str)[:2000])
                    return tr
    nfaces = sum(1 for x in model["all"] if True)
    pyfaces = python_grid_faces(ncell, per)
    for si, step in enumerate(tr.steps):
        t0, t1 = totals_of(step["H"][0]), totals_of(step["H"][1])
        ctx.branch("steps")
        # ---- face log against the model, and the property itself on the log
        if step["calls"]:
            for kind in ("f", "g"):
                obs, bad = observed_calls(tr, step, kind)
                for x in bad[:2]:
                    st["oracle_failures"] += 1
                    ctx.violation("faces:wrong-memory", "%s (step %d, %s)" % (x, si, tag), rep)
                exp = expected_calls(model, kind)
                st["lines"] += sum(exp.values())
                if coords is not None:
                    glob = collections.Counter()
                    for c, n in obs.items():
                        if c[0] == "p":
                            glob[("p", coords[(c[1], c[2])], coords[(c[3], c[4])], c[5])] += n
                        else:
                            glob[("b", coords[(c[1], c[2])], c[3], c[4])] += n
                    if glob != pyfaces:
                        st["oracle_failures"] += 1
                        what = "flux" if kind == "f" else "gradient"
                        miss, extra = list((pyfaces - glob).items())[:3], list((glob - pyfaces).items())[:3]
                        ctx.violation("faces:%s-not-exactly-once" % what,
                                      "the %s sweeps of one step do not visit every face of the global grid exactly once (%s): missing or too few %r, not a face or too many %r"
                                      % (what, tag, miss, extra), rep)
                if obs != exp:
                    st["mismatches"] += 1
                    ctx.broken_obligation("face log (%s calls) differs from the Lean sweep lists (%s): %s" % (kind, tag, describe_diff(exp, obs)),
                                          json.dumps(rep, default=str)[:2000])
            # with one thread the calls between the start and the end of a task belong to it: order inside a task
        # ---- the property on the totals
        walls_ok = True
        wm = 0.0
        if not all(per):
            wm = wall_mach(step["dump"][0], coords, ncell, per, g, dt=t0["dt"], box=cfg["box"]) if (coords is not None and step["dump"][0]) else 9.9
            # wm bounds the reconstructed wall Mach number from above (see wall_mach); the property promises
            # conservation below 1.5
            walls_ok = wm < 1.45 and cfg.get("boundary", "reflective") == "reflective"
        ctx.branch("periodic-box" if all(per) else ("walls-subsonic" if walls_ok else "walls-supersonic"))
        clamp = t1["mins"][0] <= 0.0 or t1["mins"][1] <= 0.0
        ctx.branch("clamp-fired" if clamp else "no-clamp")
        for key, text in conservation_oracle(t0, t1, nfaces, per, walls_ok, g):
            st["oracle_failures"] += 1
            ctx.violation("totals:" + key, "%s (step %d, %s, wall Mach %.2f)" % (text, si, tag, wm), rep)
        for key, text in physical_oracle(t1):
            if key == "not-finite" and (cfg.get("cfl") or 0) > 1:
                continue        # finiteness is only claimed for time steps within the stability limit
            st["oracle_failures"] += 1
            ctx.violation("state:" + key, "%s (step %d, %s)" % (text, si, tag), rep)
        # ---- the hook's totals against exact sums of the dump (validates the hook)
        for ph in (0, 1):
            d = step["dump"][ph]
            if d:
                tt = totals_of(step["H"][ph])
                for j in range(5):
                    vals = [vlib.bits2f(rec[3 + j]) for rec in d.values()]
                    if all(v == v and abs(v) != float("inf") for v in vals) and tt["tot"][j] is not None:
                        ex = sum(fractions.Fraction(v) for v in vals)
                        sc = sum(abs(fractions.Fraction(v)) for v in vals)
                        if abs(ex - tt["tot"][j]) > fractions.Fraction(1, 10 ** 15) * sc:
                            ctx.broken_obligation("hook totals disagree with the exact sum of the state dump (component %d, %s)" % (j, tag), "")
    return tr


# ------------------------------------------------------------------ untraced multi-thread runs under scheduling jitter
def snapshot_totals(state, g):
    """(mass, px, py, pz, energy) per unit cell volume from the primitives of a snapshot, exact rational sums"""
    F = fractions.Fraction
    tot = [F(0)] * 5
    for v in state.values():
        if any(x != x or abs(x) == float("inf") for x in v):
            return None
        rho, vx, vy, vz, P = [F(x) for x in v]
        tot[0] += rho
        tot[1] += rho * vx
        tot[2] += rho * vy
        tot[3] += rho * vz
        tot[4] += P / F(g - 1.) + rho * (vx * vx + vy * vy + vz * vz) / 2
    return tot


def stress_conservation(ctx, binary, nsetups, njit):
    """conservation under real concurrency.  Traced runs serialise parts of the worker loop, so these runs are
    UNTRACED (no hook mutex): 4 / 8 / 16 threads with seeded delays at the atomic operations
    (LD_PRELOAD harness/c10_jitter.cpp), 10-30 steps in a periodic box; the conserved totals of the final snapshot
    the code writes itself must equal those of the one-thread run and those of the initial snapshot."""
    from props import c10
    rng = ctx.rng
    stream = ctx.cov["correspondence_streams"].setdefault("untraced-jitter-totals", {"lines": 0, "mismatches": 0, "oracle_failures": 0})
    names = ["mass", "x momentum", "y momentum", "z momentum", "energy"]
    for _ in range(nsetups):
        layout = rng.choice([(2, 2, 2), (2, 2, 3), (3, 2, 2), (2, 3, 2), (1, 2, 2), (2, 2, 2)])
        cells = rng.choice([(2, 2, 2), (3, 3, 3), (4, 4, 4)])
        per = (True, True, True)
        g = rng.choice(GAMMAS[:4])
        kind = rng.choice(["random", "jump", "smooth", "random"])
        ncell = [layout[a] * cells[a] for a in range(3)]
        box = (1., 1., 1.)
        states = initial_state(rng, ncell, kind, g, per)
        total = rng.choice([3.e-5, 6.e-5]) * 2.0 / max(cells)
        param = make_param(layout, per, cells, g, states, box=box, total_time=total).replace("  type: AsciiFile", "  type: Gadget")
        setup = dict(param=param, blocks=block_density(ncell, box, states), ncell=ncell, box=box)
        tag = "layout %s cells/subgrid %s periodic box gamma %.4g %s total time %g" % (layout, cells, g, kind, total)
        rep0 = dict(layout=layout, cells=cells, per=per, g=g, kind=kind, ncell=ncell, box=box, param=param, blocks=setup["blocks"], stress=True)
        status, ref, log, first = c10.stress_run(binary, setup, 1, None, want_first=True)
        ctx.count()
        if ref is None or first is None:
            ctx.violation("stress:one-thread-run-" + status.split("(")[0], "the one-thread run ended with %s (%s): %s" % (status, tag, log), dict(rep0, threads=1, jitter=None))
            continue
        nfaces = sum(python_grid_faces(ncell, per).values())
        nsteps = int(status.split(":")[1]) if ":" in status else 1
        tol = TOL_TOTAL * nfaces * max(1, nsteps)
        t0, t1 = snapshot_totals(first, g), snapshot_totals(ref, g)
        pscale = fractions.Fraction(math.sqrt(2 * float(t0[0]) * float(t0[4])))
        scale = [t0[0], pscale, pscale, pscale, t0[4]]
        one_thread_conserves = t1 is not None and all(abs(t1[j] - t0[j]) <= tol * scale[j] for j in range(5))
        ctx.branch("stress-setups")
        ctx.branch("stress-one-thread-conserves" if one_thread_conserves else "stress-one-thread-clamped")
        if not one_thread_conserves and t1 is not None:
            # with CFL 0.2 no clamp is expected: report (the traced runs check this step by step)
            ctx.notes.append("one-thread stress run does not conserve the totals to %.1e (%s)" % (tol, tag))
        for _ in range(njit):
            threads = rng.choice([4, 8, 16])
            jitter = "%d:%d:%d:%d:%d" % (rng.randrange(1, 10 ** 6), rng.choice([300, 600, 900]), rng.choice([20, 60, 150]), rng.choice([2, 5, 20]), rng.choice([5, 30, 100]))
            status, st, log = c10.stress_run(binary, setup, threads, jitter)
            ctx.count()
            ctx.branch("stress-runs")
            ctx.distinct(("stress", layout, cells, kind, threads, jitter))
            rep = dict(rep0, threads=threads, jitter=jitter,
                       cmd="LD_PRELOAD=libc10_jitter.so CMAC_VERIF_JITTER10=%s CMacIonize --params run.param --task-based-rhd --threads %d   (no CMAC_VERIF_TRACE)" % (jitter, threads))
            stream["lines"] += 5
            if st is None:
                stream["oracle_failures"] += 1
                ctx.violation("stress:" + status.split("(")[0].split(":")[0], "untraced run with %d threads under scheduling jitter %s ended with %s (%s): %s" % (threads, jitter, status, tag, log), rep)
                continue
            tn = snapshot_totals(st, g)
            if tn is None:
                stream["oracle_failures"] += 1
                ctx.violation("stress:not-finite", "non-finite values in the final snapshot of an untraced %d-thread run (%s)" % (threads, tag), rep)
                continue
            for j in range(5):
                d1 = abs(tn[j] - t1[j]) / scale[j]
                d0 = abs(tn[j] - t0[j]) / scale[j]
                ctx.cov["worst_relative_stress_total_difference"] = max(ctx.cov.get("worst_relative_stress_total_difference", 0.0), float(d1))
                if d1 > tol or (one_thread_conserves and d0 > tol):
                    stream["oracle_failures"] += 1
                    ctx.violation("stress:totals-not-conserved-with-threads",
                                  "total %s after %d steps on %d threads (untraced, scheduling jitter %s) differs from the one-thread run by %.3e and from the initial total by %.3e (relative; tolerance %.1e; the one-thread run conserves: %s; %s)"
                                  % (names[j], nsteps, threads, jitter, float(d1), float(d0), tol, one_thread_conserves, tag), rep)
                    break


def do_runs(ctx, nruns, max_cells, steps_choices=(1, 2, 3)):
    binary = vlib.full_binary()
    drv = vlib.driver("drv_c04")
    for _ in range(nruns):
        cfg = pick_config(ctx, max_cells)
        ncell = [cfg["layout"][a] * cfg["cells"][a] for a in range(3)]
        cfg["states"] = initial_state(ctx.rng, ncell, cfg["kind"], cfg["g"], cfg["per"])
        cfg["steps"] = ctx.rng.choice(steps_choices)
        res = run_hydro(binary, cfg["layout"], cfg["per"], cfg["cells"], cfg["g"], cfg["states"], cfg["threads"], steps=cfg["steps"], box=cfg["box"], cfl=cfg["cfl"], boundary=cfg.get("boundary", "reflective"))
        model = model_lists(drv, cfg["layout"], cfg["per"], cfg["cells"])
        ctx.count()
        ctx.branch("boundary-" + cfg.get("boundary", "reflective"))
        ctx.branch("cfl-default" if cfg["cfl"] is None else ("cfl-0.9" if cfg["cfl"] < 1 else "cfl-overdriven"))
        ctx.distinct((cfg["layout"], cfg["cells"], cfg["per"], cfg["kind"], cfg["threads"]), nontrivial=(cfg["layout"] != (1, 1, 1)))
        ctx.branch("init-" + cfg["kind"])
        ctx.branch("threads-%d" % cfg["threads"])
        tr = check_run(ctx, cfg, res, model, "hydro-runs")
        if tr is not None and len(ctx.cov["samples"]) < 4:
            t0, t1 = totals_of(tr.steps[0]["H"][0]), totals_of(tr.steps[0]["H"][1])
            ctx.sample({"layout": cfg["layout"], "cells_per_subgrid": cfg["cells"], "periodic": cfg["per"], "kind": cfg["kind"], "threads": cfg["threads"],
                        "faces": len(model["all"]), "dt": t0["dt"],
                        "relative_mass_change": float((t1["tot"][0] - t0["tot"][0]) / t0["tot"][0]) if t0["tot"][0] else None,
                        "relative_energy_change": float((t1["tot"][4] - t0["tot"][4]) / t0["tot"][4]) if t0["tot"][4] else None})


def run(ctx):
    ctx.level = "proof"
    ctx.assumptions += [
        "theorems are about exact real arithmetic; floating-point round-off is bounded empirically by the tolerances below",
        "totals_conserved: periodic box, no gravity / energy source term, no positivity clamp firing (the steps in which a clamp fires are excluded from the conservation oracle, as in the property statement)",
        "reflective_no_mass_energy: reconstructed wall-normal velocity < 1.5 c_s (cell level: every generated wall state with reconstructed Mach < 1.45; runs: every step whose upper bound of the reconstructed wall Mach number, computed from the state before the step, is < 1.45)",
        "finiteness (NaN/Inf) is a floating-point notion: searched on the real runs and cell-level cases, not proved",
        "the CFL time step is the one the code chooses; the theorems hold for every dt",
        "the Riemann solver is uninterpreted in the conservation theorems (any flux function); only reflective walls use C05's HLLC model",
        "slope limiter, per-face limiter, face reconstruction and half-step prediction are modelled statement by statement (bit-exact at Float level); the conservation / layout / schedule theorems hold for any per-cell limiter and prediction and are instantiated with them (…_code theorems)",
        "limiter_bounds needs `neighbour minimum <= neighbour maximum` (true once one gradient call has touched the cell); at a local extremum the code's alpha is negative and face values may lie beyond the extremum (theorem limiter_overshoots_local_extremum) - non-negativity of the face densities/pressures comes from Hydro::limit, not from the slope limiter",
        "the predicted density/pressure are only non-negative thanks to the clamps (theorem predict_needs_clamp); how often the clamp acts on generated states is reported in coverage.predict_clamp_by_kind",
        "boundaries: periodic, reflective, inflow and outflow are modelled (ghost states of HydroBoundary.hpp, bit-exact at Float level); the Bondi boundary (analytic profile) is not; conservation is only claimed (and asserted on runs) for periodic and reflective boxes",
        "the hypotheses `no pending changes at the start of a step` and `neighbour minimum <= neighbour maximum` are theorems now (step_resets_accumulators, limiter_premise_holds); `no gravity, no energy source` is about the configuration (pure hydro runs) and `no clamp fires` is evaluated on every run",
        "the time step is the code's: Hydro::get_timestep is modelled (std::cbrt as pow(.,1/3): compared with tolerance, so the bit-exact rate is slightly below 1) and theorem cfl_does_not_keep_mass_nonneg shows that for flat cells it does not keep the masses non-negative (the clamp then creates mass; observed on the real binary for cells 1 x 1 x 0.001)",
        "conservation under concurrency rests on `every task locks every subgrid it writes`: checked on the dumped task table of every traced run (oracle tasks:lock-set-does-not-cover-footprint, and against C07's Lean lockset), and searched by untraced 4/8/16-thread runs under scheduling jitter whose final totals must equal the one-thread run and the initial totals",
    ]
    ok = ctx.obligations("CMacVerif.Props.C04", ["drv_c04", "drv_c07"])
    h = vlib.build_harness("c04")
    drv = vlib.driver("drv_c04")
    ctx.cov["tolerance"] = {"cell_level_relative": TOL_CELL, "totals_relative_per_face": TOL_TOTAL}
    ctx.cov["rule"] = ("cell level: generated state pairs (smooth / jump / identical / vacuum / near-vacuum / ties, limiter-firing cells, 28 decades of density) through "
                       "Hydro::limit, do_flux_calculation, do_ghost_flux_calculation, do_(ghost_)gradient_calculation, update_conserved_variables, set_primitive_variables, apply_slope_limiter, predict_primitive_variables, get_timestep, ghost calls with reflective / inflow / outflow boundaries vs the Float model; "
                       "runs: real pure-hydro steps of the hooked binary on random layouts (1..3 subgrids/axis, 2..6 cells/subgrid, periodic / reflective / mixed, 1/2/4/8 threads, "
                       "smooth / jump / blast / near-vacuum / random / supersonic initial states, CFL factor 0.2 (default), 0.9 and overdriven 2.5 / 6 to make the positivity clamps fire): per-call log vs the Lean sweep lists, faces-exactly-once, totals, non-negativity, finiteness; "
                       "distinct = (layout, cells, periodicity, kind, threads); non-trivial = more than one subgrid")
    if not ok:
        return
    # ---- corpus + cell level
    ops = vlib.corpus_ops("C04") + cell_ops(ctx, ctx.budget(6000, 120000))
    n, impl, model, orc = ctx.correspond("cells", h, drv, ops, cmp=cmp_cell, oracle_key=oracle_key)
    exact = 0
    for a, m in zip(impl, model):
        ctx.count()
        if bit_exact(a, m):
            exact += 1
        if "#" in m:
            ctx.branch(m.split("#")[-1].strip())
    ctx.cov["bit_exact_rate"] = round(exact / max(1, len(ops)), 6)
    # how often does the prediction need its clamp?  (model tag 2 + 4 density + 8 pressure)
    pk = collections.defaultdict(lambda: [0, 0])
    for op, m in zip(ops, model):
        if op.startswith("pred ") and "#pr" in m:
            t = int(m.split("#pr")[-1])
            w = op.split()
            dt, rho = vlib.bits2f(w[2]), vlib.bits2f(w[3])
            P = vlib.bits2f(w[7])
            vmax = max(abs(vlib.bits2f(x)) for x in w[4:7])
            gmax = max(abs(vlib.bits2f(x)) for x in w[11:20])          # velocity gradients
            key = "dt*|grad v| < 0.1" if dt * gmax < 0.1 else ("dt*|grad v| < 0.3" if dt * gmax < 0.3 else "dt*|grad v| >= 0.3")
            pk[key][0] += 1
            pk[key][1] += 1 if t >= 6 else 0
    ctx.cov["predict_clamp_by_kind"] = {k: {"cases": v[0], "clamp_acted": v[1]} for k, v in sorted(pk.items())}
    for i, op in enumerate(ops[:3]):
        ctx.sample({"op": op[:120] + "...", "impl": impl[i][:100] if i < len(impl) else None})
    # ---- real runs
    do_runs(ctx, ctx.budget(40, 400), ctx.budget(1500, 4000))
    # fixed quick budget (not escalated by a changed source fingerprint: the runs are the expensive part)
    stress_conservation(ctx, vlib.full_binary(), 40 if ctx.thorough else 4, 5 if ctx.thorough else 3)
    need = ["fl1", "fl2", "fl4", "fl8", "fl16", "fl32", "lim0", "uc1", "uc2", "up0", "up1", "periodic-box", "walls-subsonic"]
    missing = [t for t in need if not any(k == t or (t.startswith("fl") and k.startswith("fl") and k[2:].isdigit() and int(k[2:]) & int(t[2:])) for k in ctx.cov["branch_histogram"])]
    if missing and ctx.thorough:
        ctx.notes.append("coverage gate: branches never taken: %s" % missing)


def replay(ctx, path):
    obj = json.load(open(path))
    if "ops" in obj:
        return vlib.generic_replay(ctx, path, "c04", "drv_c04", cmp=cmp_cell)
    print(json.dumps({k: v for k, v in obj.items() if k not in ("param", "states", "blocks")}, indent=1)[:3000])
    if obj.get("stress"):
        from props import c10
        binary = vlib.full_binary()
        setup = dict(param=obj["param"], blocks=obj["blocks"], ncell=obj["ncell"], box=obj["box"])
        s1, ref, log1, first = c10.stress_run(binary, setup, 1, None, want_first=True)
        s2, st, log2 = c10.stress_run(binary, setup, obj["threads"], obj.get("jitter"))
        print("one thread: %s; %d threads with jitter %s: %s %s" % (s1, obj["threads"], obj.get("jitter"), s2, log2[-200:]))
        bad = ref is None or st is None
        if not bad:
            t0, t1, tn = snapshot_totals(first, obj["g"]), snapshot_totals(ref, obj["g"]), snapshot_totals(st, obj["g"])
            rel = [float(abs(tn[j] - t1[j]) / (t0[0] if j == 0 else t0[4] if j == 4 else fractions.Fraction(math.sqrt(2 * float(t0[0]) * float(t0[4]))))) for j in range(5)]
            print("relative difference of the totals (mass, momentum x y z, energy) to the one-thread run: %r" % rel)
            bad = max(rel) > 1e-9
        print("REPRODUCED" if bad else "not reproduced on this run (schedule dependent: repeat)")
        return 1 if bad else 0
    if "states" not in obj:
        print("replay file names a broken obligation, not an input")
        return 1
    cfg = dict(obj)
    cfg["layout"], cfg["cells"], cfg["per"], cfg["box"] = tuple(obj["layout"]), tuple(obj["cells"]), tuple(obj["per"]), tuple(obj["box"])
    cfg["states"] = {tuple(k): (v[0], v[1], v[2]) for k, v in obj["states"]}
    binary = vlib.full_binary()
    vlib.lake_build(["drv_c04"])
    res = run_hydro(binary, cfg["layout"], cfg["per"], cfg["cells"], cfg["g"], cfg["states"], cfg["threads"], steps=cfg.get("steps", 1), box=cfg["box"], cfl=cfg.get("cfl"), boundary=cfg.get("boundary", "reflective"))
    model = model_lists(vlib.driver("drv_c04"), cfg["layout"], cfg["per"], cfg["cells"])
    before = len(ctx.violations)
    check_run(ctx, cfg, res, model, "replay")
    for v in ctx.violations[before:]:
        print("  ", v[0], v[1][:300])
    again = len(ctx.violations) > before or getattr(ctx, "pending_broken", [])
    print("REPRODUCED" if again else "not reproduced")
    return 1 if again else 0


MANIFEST = dict(
    category="proof",
    text="Lean theorems, for EVERY subgrid layout nx x ny x nz, every number of cells per subgrid (>= 1 per axis), every periodicity: the internal sweeps and the pair sweeps of all subgrids together visit every face of the global cell grid exactly once (permutation of the plain list of faces), the boundary sweeps every box-boundary face exactly once; one face subtracts F from the left and adds the same F to the right cell, F = one common factor in [0,1] times area times the Riemann flux (the limiter's use of the left momentum in the right-cell test does not matter); hence in a periodic box the sums of mass, momentum and energy over all cells do not change in a step as long as no positivity clamp fires, for ANY flux function, any dt, any state; at a reflective wall the mirror ghost state gives zero mass and energy flux when the reconstructed normal velocity is below 1.5 c_s (C05's HLLC model); after the clamps mass, energy, density, pressure are >= 0; the reconstruction is modelled too: after apply_slope_limiter every extrapolation to a face is at most half the smaller distance of the cell value to the neighbour minimum / maximum (inside the neighbour range when the cell value is; beyond a local extremum otherwise: proved counterexample), Hydro::limit clips the face value to an interval that never passes 3/4 of the way to the other cell and returns a non-negative value for non-negative cells (so the face clamps never act), predict_primitive_variables keeps density and pressure >= 0 only through its clamps (proved counterexample without); inflow / outflow ghost states are modelled (copy of the cell; reversed normal velocity for gas entering through an outflow boundary); the start-of-step hypotheses are re-established by every step (conservation over any number of steps) and the limiter premise holds after the gradient sweeps of any layout; the code's time step (get_timestep, volume-based) does NOT keep masses non-negative for flat cells: proved counterexample, the clamp then creates mass. Tied to the code by bit-level agreement of the Float model with Hydro::limit / do_flux_calculation / do_ghost_flux_calculation / gradient calls / apply_slope_limiter / predict_primitive_variables / update_conserved_variables / set_primitive_variables, by the per-call log (addresses of the states actually passed) of real multi-thread steps against the Lean sweep lists, and by the conservation / non-negativity / finiteness oracles on the real runs.",
    note="Trusted: Lean kernel + 3 axioms; hand model of the sweeps and of Hydro.hpp (bit-exact on all generated cases); exact real arithmetic in the theorems (round-off bounded empirically: 1e-12 x number of faces on the totals); finiteness only searched; CFL step taken from the code; only periodic and reflective boundaries; gamma > 1 branch of set_primitive_variables.",
    technique="Lean 4 proof (permutation of face lists for all layouts; algebraic conservation over an uninterpreted flux; HLLC mirror lemma of C05 for walls) + Float-model differential testing of the real cell-level functions + trace/oracle checks on runs of the real hooked binary")
