"""C03 — ray tracing does not depend on the subgrid split (DESIGN §6 C03).

Every run: (1) regenerate lean/CMacVerif/Gen/TravelDirections.lean by exhaustive evaluation of the
real headers (harness/gen_c03_tables.cpp), fail closed if that is impossible; (2) build + audit
Props/C03.lean (the `decide` theorems re-check the tables the code has NOW); (3) correspondence of the
layout / copies / fold model with real DensitySubGridCreator<DensitySubGrid> objects; (4) split-vs-unsplit
ray tracing through real subgrids (implementation-only oracle)."""
import itertools
import json
import os
import re

import vlib

GEN = os.path.join(vlib.LEAN, "CMacVerif", "Gen", "TravelDirections.lean")
DIRNAMES = ["INSIDE", "CORNER_PPP", "CORNER_PPN", "CORNER_PNP", "CORNER_PNN", "CORNER_NPP", "CORNER_NPN",
            "CORNER_NNP", "CORNER_NNN", "EDGE_X_PP", "EDGE_X_PN", "EDGE_X_NP", "EDGE_X_NN", "EDGE_Y_PP",
            "EDGE_Y_PN", "EDGE_Y_NP", "EDGE_Y_NN", "EDGE_Z_PP", "EDGE_Z_PN", "EDGE_Z_NP", "EDGE_Z_NN",
            "FACE_X_P", "FACE_X_N", "FACE_Y_P", "FACE_Y_N", "FACE_Z_P", "FACE_Z_N"]
GEN_DEFS = ["numDirections", "neighbourOutside", "dirNames", "namedOffset", "outToIn", "compatOut", "compatIn", "maskTable",
            "exitDir", "offset", "pin", "idxClass"]


# ------------------------------------------------------------------------------- building

def build_flags():
    """DensitySubGrid.hpp pulls in HDF5 and MPI headers: take the include directories and libraries the
    project itself uses from the configured build tree."""
    inc, libs = [], []
    try:
        txt = open(os.path.join(vlib.ensure_configured(), "..", "build.ninja")).read()
        m = re.search(r"^\s*INCLUDES = (.*)$", txt, flags=re.M)
        if m:
            inc = [f for f in m.group(1).split() if f.startswith("-I") and not f[2:].startswith((vlib.REPO, vlib.FULL))]
        for l in re.findall(r"^\s*LINK_LIBRARIES = (.*)$", txt, flags=re.M):
            for f in l.split():
                if f.endswith(".so") and ("mpi" in f or "hdf5" in f) and f not in libs:
                    libs.append(f)
            if libs:
                break
    except OSError:
        pass
    if not inc:
        inc = ["-I/usr/include/hdf5/serial", "-I/usr/lib/x86_64-linux-gnu/openmpi/include",
               "-I/usr/lib/x86_64-linux-gnu/openmpi/include/openmpi"]
    if not libs:
        libs = ["/usr/lib/x86_64-linux-gnu/openmpi/lib/libmpi_cxx.so", "/usr/lib/x86_64-linux-gnu/openmpi/lib/libmpi.so",
                "/usr/lib/x86_64-linux-gnu/hdf5/serial/libhdf5.so"]
    # libmpi_cxx first (it needs libmpi)
    libs.sort(key=lambda f: 0 if "mpi_cxx" in f else 1)
    return inc, libs


def regenerate_tables(ctx, inc, libs):
    """translator by exhaustive evaluation; returns True when Gen/TravelDirections.lean now reflects /repo"""
    with vlib.Lock("c03gen"):
        try:
            exe = vlib.build_harness("gen_c03_tables", extra=inc, libs=libs)
        except vlib.HarnessBuildError as e:
            ctx.broken_obligation("table generator harness/gen_c03_tables.cpp does not compile against the current headers "
                                  "(TravelDirections.hpp / DensitySubGrid.hpp interface changed): tables not regenerated", e.out[-3000:])
            return False
        try:
            rc, out, err = vlib.run_exe(exe, "", timeout=120)
        except Exception as e:  # timeout etc.
            ctx.broken_obligation("table generator did not finish: %r" % (e,))
            return False
        ok = rc == 0 and out.rstrip().endswith("end CMacVerif.Gen.TravelDirections") and all(
            re.search(r"^def %s\b" % d, out, flags=re.M) for d in GEN_DEFS)
        if not ok:
            ctx.broken_obligation("table generator failed on the current headers (rc=%d): %s" % (rc, (err or out)[-600:].strip()),
                                  (err or "") + out[-2000:])
            return False
        old = open(GEN).read() if os.path.exists(GEN) else None
        if old != out:
            tmp = GEN + ".tmp%d" % os.getpid()
            with open(tmp, "w") as f:
                f.write(out)
            os.replace(tmp, GEN)
        ctx.cov["generated_tables"] = {"file": os.path.relpath(GEN, vlib.VERIF),
                                       "sha256": __import__("hashlib").sha256(out.encode()).hexdigest()[:16],
                                       "changed_since_last_run": old != out}
        return True


# ------------------------------------------------------------------------------- op generators

def table_ops(rng, n_outdir, n_upd):
    ops = []
    for d in range(27):
        ops += ["tbl o2i %d" % d, "tbl pin %d" % d, "tbl idx %d" % d]
    for s in range(27):
        for d in range(27):
            ops += ["tbl cout %d %d" % (s, d), "tbl cin %d %d" % (s, d)]
    ops += ["tbl mask %d" % m for m in range(64)]
    # get_output_direction: every class of every small block exhaustively, then random
    for m in (1, 2, 3):
        cand = sorted(set([-m, -1, 0, m - 1, m, 2 * m - 1]))
        for i, j, k in itertools.product(cand, repeat=3):
            ops.append("outdir %d %d %d %d %d %d" % (m, m, m, i, j, k))
    for _ in range(n_outdir):
        m = [rng.randint(1, 9) for _ in range(3)]
        idx = [rng.choice([-1, m[a], rng.randint(0, m[a] - 1), rng.randint(-2 * m[a], 3 * m[a])]) for a in range(3)]
        ops.append("outdir %d %d %d %d %d %d" % tuple(m + idx))
    for d in range(27):
        for _ in range(n_upd):
            m = [rng.randint(1, 12) for _ in range(3)]
            h = [rng.choice([1.0, 0.5, 0.1, rng.random() * 3 + 1e-3]) for _ in range(3)]
            p = [rng.choice([0.0, rng.random() * m[a] * h[a], m[a] * h[a], -rng.random()]) for a in range(3)]
            ops.append("upd %d %d %d %d %s" % (d, m[0], m[1], m[2], " ".join(str(vlib.f2bits(x)) for x in h + p)))
    return ops


def level_assignment(rng, n, kind):
    if kind == "all0":
        return [0] * n
    if kind == "sparse":
        return [rng.choice([1, 2, 3]) if rng.random() < 0.2 else 0 for _ in range(n)]
    if kind == "dense":
        return [rng.randint(0, 3) for _ in range(n)]
    if kind == "uniform":
        l = rng.randint(1, 3)
        return [l] * n
    if kind == "smooth":  # as the level smoothing of the RHD driver leaves it: neighbours differ by <= 1
        base = rng.randint(0, 2)
        return [base + (1 if rng.random() < 0.3 else 0) for _ in range(n)]
    return [0] * n


def layout_ops(rng, cfg, nassign, full_rows=True):
    nx, ny, nz, mx, my, mz, px, py, pz = cfg
    n = nx * ny * nz
    ops = ["new %d %d %d %d %d %d %d %d %d" % cfg]
    for i in range(n):
        ops.append("row %d" % i)
    idxs = range(n) if n <= 64 else sorted(rng.sample(range(n), 64))
    for i in idxs:
        ops += ["pos %d" % i, "ngb6 %d" % i]
    kinds = ["dense", "sparse", "uniform", "smooth", "all0"]
    for a in range(nassign):
        lv = level_assignment(rng, n, kinds[(a + rng.randint(0, 4)) % 5] if a else rng.choice(["dense", "sparse"]))
        ops.append("copies " + " ".join(map(str, lv)))
        tot = n + sum(2 ** l - 1 for l in lv)
        rows = list(range(n, tot))
        if len(rows) > 400 and not full_rows:
            rows = sorted(rng.sample(rows, 400))
        for i in rows:
            ops.append("row %d" % i)
        for i in (range(n) if n <= 64 else idxs):
            ops.append("range %d" % i)
        ops.append("fold")
        ops.append("foldcells %d" % rng.randrange(1000))
        ops.append("pushcells %d" % rng.randrange(1000))
        if a == 0 and n > 0:
            ops.append("row %d" % rng.randrange(n))       # originals are untouched by create_copies
    return ops


def all_small_configs():
    for nx, ny, nz in itertools.product(range(1, 5), repeat=3):
        for px, py, pz in itertools.product((0, 1), repeat=3):
            yield (nx, ny, nz, px, py, pz)


SPECIAL = [(1, 1, 1, 1, 1, 1), (1, 1, 1, 0, 0, 0), (1, 2, 2, 1, 1, 1), (2, 2, 2, 1, 1, 1), (2, 1, 3, 1, 0, 1),
           (4, 4, 8, 0, 0, 0), (3, 3, 3, 1, 1, 1), (1, 1, 5, 0, 1, 1)]


def trace_ops(rng, n):
    ops = []
    for i in range(n):
        big = rng.random() < 0.15
        ns = [rng.choice([1, 2, 2, 3, 3, 4] + ([5, 6] if big else [])) for _ in range(3)]
        while ns[0] * ns[1] * ns[2] > 48:        # the real MemorySpace needs 27 buffers per subgrid (incl. copies)
            ns[rng.randrange(3)] = rng.choice([1, 2])
        m = [rng.choice([1, 2, 2, 3, 4]) for _ in range(3)]
        per = [1 if rng.random() < 0.35 else 0 for _ in range(3)]
        boxkind = rng.choice([0, 0, 1])
        npk = rng.choice([400, 800, 1500])
        maxlevel = rng.choice([0, 0, 1, 2, 3])
        ops.append("trace %d %d %d %d %d %d %d %d %d %d %d %d %d" % tuple(
            [rng.getrandbits(48)] + ns + m + per + [boxkind, npk, maxlevel]))
    return ops


# ------------------------------------------------------------------------------- streams

def okey(stream):
    def f(what, grp):
        first = what.split()[0] if what.split() else "oracle"
        return "%s:%s" % (stream, first.split("(")[0])
    return f


def impl_only(ctx, stream, harness, ops, group_start=None):
    """the Lean driver is unavailable (obligations broken): still evaluate the property oracles on the implementation"""
    rc, out, err = vlib.run_exe(harness, "\n".join(ops) + "\n")
    impl, orc = vlib.split_oracle(out)
    st = ctx.cov["correspondence_streams"].setdefault(stream, {"lines": 0, "mismatches": 0, "oracle_failures": 0})
    st["lines"] += len(ops)
    st["oracle_failures"] += len(orc)
    st["model_side"] = "not run (driver unavailable)"
    if rc != 0:
        ctx.violation("%s:impl-crash" % stream, "implementation harness exited with status %d: %s" % (rc, err[-400:]),
                      {"stream": stream, "ops": ops[max(0, len(impl) - 40):len(impl) + 1], "stderr": err[-2000:]})
    for o in orc:
        m = re.search(r"line=(\d+)", o)
        i = int(m.group(1)) - 1 if m else 0
        grp = vlib.Ctx._group(ops, min(i, len(ops) - 1), group_start)
        what = re.sub(r"line=\d+\s*", "", o[len("ORACLE"):]).strip()
        ctx.violation(okey(stream)(what, grp), "property fails on the implementation: " + what,
                      {"stream": stream, "ops": grp, "oracle": o})


def run_trace(ctx, harness, ops):
    st = ctx.cov["correspondence_streams"].setdefault("trace", {"lines": 0, "mismatches": 0, "oracle_failures": 0})
    tot = {"packets": 0, "absorbed": 0, "escaped": 0, "handovers": 0, "grids_with_copies": 0, "cells": 0,
           "tasks": 0, "premature": 0, "fullbuffers": 0}
    mx = {"maxrel": 0.0, "maxpos": 0.0, "maxtau": 0.0}
    hist = [0] * 27
    for c0 in range(0, len(ops), 200):
        chunk = ops[c0:c0 + 200]
        rc, out, err = vlib.run_exe(harness, "\n".join(chunk) + "\n", args=["trace"])
        ans, orc = vlib.split_oracle(out)
        st["lines"] += len(chunk)
        st["oracle_failures"] += len(orc)
        if rc != 0:
            k = min(len(ans), len(chunk) - 1)
            ctx.violation("trace:impl-crash", "tracing harness exited with status %d after %d grids: %s" % (rc, len(ans), err[-400:]),
                          {"stream": "trace", "ops": [chunk[k]], "stderr": err[-2000:]})
        for o in orc:
            m = re.search(r"line=(\d+)", o)
            i = int(m.group(1)) - 1 if m else 0
            what = re.sub(r"line=\d+\s*", "", o[len("ORACLE"):]).strip()
            ctx.violation(okey("trace")(what, None), "property fails on the implementation: " + what,
                          {"stream": "trace", "ops": [chunk[min(i, len(chunk) - 1)]], "oracle": o})
        for op, a in zip(chunk, ans):
            kv = dict(x.split("=", 1) for x in a.split()[1:] if "=" in x)
            if not a.startswith("trace ") or "dirs" not in kv:
                ctx.broken_obligation("tracing harness answered %r to %r" % (a[:100], op))
                continue
            for k in ("packets", "absorbed", "escaped", "handovers", "cells", "tasks", "premature", "fullbuffers"):
                tot[k] += int(kv[k])
            tot["grids_with_copies"] += 1 if int(kv["copies"]) > 0 else 0
            for k in mx:
                mx[k] = max(mx[k], float(kv[k]))
            d = [int(x) for x in kv["dirs"].split(",")]
            for i in range(27):
                hist[i] += d[i]
            ctx.count(int(kv["packets"]))
            ctx.distinct(op, nontrivial=int(kv["handovers"]) > 0)
            if len([s for s in ctx.cov["samples"] if "trace" in s]) < 2:
                ctx.sample({"trace": op, "impl": a}, cap=8)
    for i in range(1, 27):
        if hist[i]:
            ctx.branch("handover-" + DIRNAMES[i], hist[i])
    ctx.cov["trace"] = dict(tot, **{"max_rel_estimator_difference": mx["maxrel"], "max_rel_position_difference": mx["maxpos"],
                                      "max_rel_tau_difference": mx["maxtau"],
                                      "handover_directions_seen": sum(1 for i in range(1, 27) if hist[i])})
    return hist


# ------------------------------------------------------------------------------- the check

def run(ctx):
    ctx.level = "proof"
    ctx.assumptions += [
        "split_invariance (Props/C03 section 7, Lemmas/SplitInvariance.lean) is proved for C02's model of interact (step, initSt) in exact "
        "arithmetic over any linearly ordered field, for every layout/periodicity/cell contents/packet under C02's standing assumptions "
        "(cell size > 0, direction not zero, DBL_MAX sentinel condition h < DBL_MAX*|d|, opacities >= 0, tau > 0) and a start strictly "
        "inside the half-open box (not on the lower box face of an axis along which the packet moves down); split_invariance compares two "
        "runs that are both over, split_invariance_halts adds: if the split run is over so is the undivided run (after a possibly "
        "different number of steps); the converse direction (undivided over => split over) is not stated; C02's model is tied to DensitySubGrid::interact by C02's own check; "
        "the chained model (one loop pass per chain step, hand-over as in PhotonTraversalTaskContext) is validated on real subgrids by the "
        "split-vs-unsplit tracing stream (rel 1e-10)",
        "theorems are about exact integer/field arithmetic; round-off of positions at a hand-over is only measured (trace stream)",
        "fold_once / fold_cells / push_cells assume the total number of subgrids stays below 0xffffffff (the sentinel of _copies); that "
        "_copies entries left behind by update_copies are >= the number of originals is proved for every history (fold_once_history); "
        "copy levels are natural numbers with 2^level copies (the C++ `1 << level` on int is only defined for level <= 30)",
        "the compatibility functions depend on the direction only through the signs of its components (the generator checks "
        "three magnitudes per sign and fails otherwise)",
        "update_original_counters runs its outer loop in parallel; the model lists the visits in the order of one thread "
        "(the harness runs with one OpenMP thread); the theorem is about the set of visits",
    ]
    inc, libs = build_flags()
    gen_ok = regenerate_tables(ctx, inc, libs)
    # Props/C03.lean (section 7) imports C02's ray-march model, whose own generated tables
    # (Gen/TravelDirectionsC02.lean) must describe the same tree: regenerate them with C02's generator
    # (Props/C03 proves by `decide` that both generated files agree — a stale file fails closed)
    try:
        import gen_c02_tables
        _, changed02 = gen_c02_tables.generate()
        ctx.cov["generated_tables_c02"] = {"file": "lean/CMacVerif/Gen/TravelDirectionsC02.lean", "changed_since_last_run": bool(changed02)}
    except Exception as e:
        ctx.broken_obligation("C02's table generator (tools/gen_c02_tables.py) failed: %r" % (e,))
        gen_ok = False
    ok = ctx.obligations("CMacVerif.Props.C03", ["drv_c03"])
    if not gen_ok:
        ok = False
    drv = vlib.driver("drv_c03")
    have_driver = ok
    if not ok:
        # Props may fail on changed tables while the driver (core-only, no Props import) still builds
        b, _ = vlib.lake_build(["drv_c03"])
        have_driver = b and os.path.exists(drv)
    h = vlib.build_harness("c03", extra=inc, libs=libs)
    rng = ctx.rng
    cmp = lambda a, b, op: a == vlib.strip_branch(b)

    # ---- corpus first
    corpus = vlib.corpus_ops("C03")
    corpus_trace = [l for l in corpus if l.startswith("trace")]
    corpus_proto = [l for l in corpus if not l.startswith("trace")]

    # ---- stream 1: tables (Gen file as compiled into the driver == the code now), exit classification, entry pins
    t_ops = table_ops(rng, ctx.budget(400, 20000), ctx.budget(6, 60))
    # ---- stream 2: layouts, copies, fold
    small = list(all_small_configs())
    if ctx.thorough:
        chosen = small
        ctx.cov["exhaustively_enumerated_part"] = "all layouts 1..4 per axis x 8 periodicities (512), 3 copy-level assignments each"
    else:
        chosen = [c for c in small if c in SPECIAL] + rng.sample(small, 44)
    cfgs = []
    for (nx, ny, nz, px, py, pz) in chosen:
        m = tuple(rng.choice([1, 1, 2, 3]) for _ in range(3))
        cfgs.append((nx, ny, nz) + m + (px, py, pz))
    for c in SPECIAL:
        if c[0] * c[1] * c[2] > 64:
            cfgs.append(c[:3] + (1, 1, 1) + c[3:])
    for _ in range(ctx.budget(4, 60)):
        dims = [rng.choice([1, 2, 5, 6, 7, 8, 9, rng.randint(1, 12)]) for _ in range(3)]
        while dims[0] * dims[1] * dims[2] > 600:
            dims[rng.randrange(3)] = rng.randint(1, 4)
        cfgs.append(tuple(dims) + (1, 1, 1) + tuple(rng.randint(0, 1) for _ in range(3)))
    l_ops = list(corpus_proto)
    for c in cfgs:
        l_ops += layout_ops(rng, c, 3 if c[0] * c[1] * c[2] <= 64 else 2, full_rows=ctx.thorough)
    ctx.cov["rule"] = (
        "tables: every entry of the six direction tables (27 + 2*729 + 64 + 27 + 27), get_output_direction on every index class "
        "and random indices, update_photon_position on random positions (bit patterns); layouts: %s + %d random larger layouts (up to 12 per "
        "axis), per layout the 27-entry neighbour table of every subgrid, grid positions, get_neighbours, and 2-3 copy-level "
        "assignments 0..3 (create_copies then update_copies: _copies, _originals, rows of all copies, get_copies ranges, fold visits); "
        "trace: per grid a two-step history — step 1: seeded packets (generic, axis-aligned, exact lattice diagonals through cell/subgrid "
        "edges and corners, in rounds so that MemorySpace slots are recycled, then a 500-packet beam through one face that overflows a "
        "hand-over buffer) traverse the split grid (1..6 subgrids per axis, copies) through the REAL PhotonTraversalTaskContext::execute / "
        "PhotonTraversalThreadContext / MemorySpace::add_photons / TaskQueue / PrematureLaunchTaskContext, driven from one thread as the "
        "photon loop does, fold with update_original_counters, vs the same grid as one block; then density, neutral fractions and "
        "temperature of the originals change, update_copy_properties (oracle: every copy equals its original in all fields a traversal "
        "reads); step 2: a second batch through the updated copies, fold, compare.  distinct = different op text of a layout / a traced "
        "grid; non-trivial = layout with periodic wrap or copies, traced grid with at least one hand-over"
        % ("ALL layouts 1..4 per axis x 8 periodicities" if ctx.thorough else "%d seeded layouts <= 4x4x4 incl. 1 and 2 subgrids per periodic axis" % len(chosen),
           ctx.budget(4, 60)))
    ctx.cov["tolerance"] = {"tables/layout/copies/fold": "identical", "update_photon_position": "bit-identical",
                            "trace per-cell estimators": "rel 1e-10 + 1e-12 of one cell crossing",
                            "trace positions/tau": "1e-10 of the box scale / of (tau_target + optical depth across the box scale), x (1 + hand-overs/1000): round-off accumulates per hand-over"}

    if have_driver:
        n, impl, model, orc = ctx.correspond("tables", h, drv, t_ops, cmp=cmp, oracle_key=okey("tables"))
        nupd = sum(1 for o in t_ops if o.startswith("upd"))
        exact = sum(1 for o, a, b in zip(t_ops, impl, model) if o.startswith("upd") and a == vlib.strip_branch(b))
        ctx.cov["bit_exact_rate"] = exact / max(1, nupd)
        for op, ml in zip(t_ops, model):
            ctx.count()
            if " #" in ml:
                ctx.branch(ml.split(" #")[1])
        n, impl, model, orc = ctx.correspond("layout", h, drv, l_ops, cmp=cmp, group_start=lambda op: op.startswith("new"),
                                             oracle_key=okey("layout"))
        cur, nontriv = None, False

        def close():
            if cur is not None:
                ctx.distinct(cur, nontrivial=nontriv)
        for op, ml in zip(l_ops, model):
            ctx.count()
            if op.startswith("new"):
                close()
                cur, nontriv = op, False
                w = op.split()
                nontriv = "1" in w[7:10]
            elif op.startswith("copies"):
                cur = (cur or "") + "|" + op
                nontriv = nontriv or any(x != "0" for x in op.split()[1:])
            if " #" in ml:
                tag = ml.split(" #")[1]
                if tag.startswith("copy:"):
                    for t in tag[5:].split(","):
                        ctx.branch("copy-entry-" + t)
                else:
                    ctx.branch(tag)
        close()
        j = next((i for i, o in enumerate(l_ops) if o.startswith("copies")), 0)
        ctx.sample({"ops": [o[:120] for o in l_ops[max(0, j - 2):j + 3]], "impl": [a[:160] for a in impl[max(0, j - 2):j + 3]]}, cap=8)
    else:
        impl_only(ctx, "tables", h, t_ops)
        impl_only(ctx, "layout", h, l_ops, group_start=lambda op: op.startswith("new"))

    # ---- stream 3: split-vs-unsplit tracing through real subgrids (implementation-only oracle)
    tr = corpus_trace + trace_ops(rng, ctx.budget(250, 8000))
    hist = run_trace(ctx, h, tr)
    if ctx.thorough:
        missing = [DIRNAMES[i] for i in range(1, 27) if not hist[i]]
        if missing:
            ctx.notes.append("coverage gate: no hand-over through " + ", ".join(missing))
            ctx.cov["coverage_gate"] = "insufficient: " + ", ".join(missing)
        else:
            ctx.cov["coverage_gate"] = "all 26 hand-over directions exercised"
    return 0


def replay(ctx, path):
    obj = json.load(open(path))
    inc, libs = build_flags()
    if obj.get("stream") == "trace" and obj.get("ops"):
        h = vlib.build_harness("c03", extra=inc, libs=libs)
        rc, out, err = vlib.run_exe(h, "\n".join(obj["ops"]) + "\n", args=["trace"])
        print("ops:\n  " + "\n  ".join(obj["ops"]))
        print("implementation (rc=%d):\n  %s" % (rc, out.strip().replace("\n", "\n  ")))
        bad = rc != 0 or "ORACLE" in out
        print("REPRODUCED" if bad else "not reproduced")
        return 1 if bad else 0
    regenerate_tables(ctx, inc, libs)
    return vlib.generic_replay(ctx, path, "c03", "drv_c03", cmp=lambda a, b, op: a == vlib.strip_branch(b),
                               harness_kw={"extra": inc, "libs": libs})


MANIFEST = dict(
    category="proof",
    text="Lean theorems over tables regenerated from the headers on every run (out->in is an involution fixing only INSIDE and "
         "negates the offset; input/output compatibility agree for all 27x27 and equal the sign conditions of the offset; the mask "
         "table is the inverse of the offset; entry pins and start-index classes agree with the offset) and over a hand model of "
         "DensitySubGridCreator for ALL layouts nx,ny,nz >= 1, periodicities and copy levels: neighbour_geometric, neighbour_mutual "
         "(incl. 1 and 2 subgrids per periodic axis), copies_wiring (every neighbour of a copy is the original or a copy of the true "
         "neighbour, in range, onto when the neighbour has fewer copies), fold_once (update_original_counters visits every copy exactly "
         "once under its own original, also after update_copies), getNeighbours_faces, handover_position / handover_cell (same physical "
         "point and same global cell after the out->in repositioning, exact arithmetic).  split_invariance is stated in full but proved only as "
         "split_invariance_partial from the named single-step commutation hypothesis StepCommutes (needs the C02 ray-march model).",
    note="Trusted: Lean kernel + 3 standard axioms; the table generator (exhaustive evaluation of the real functions, three "
         "magnitudes per sign); hand model of create_subgrid/create_copies/update_original_counters tied by identical neighbour "
         "tables, _copies/_originals, get_copies ranges and fold visits on real DensitySubGridCreator<DensitySubGrid> objects (all "
         "layouts <= 4x4x4 x 8 periodicities in thorough mode, random larger ones, copy levels 0..3); C02's model of interact (tied by C02's "
         "check; Props/C03 proves by decide that C02's and C03's generated tables agree).  NOT proved: termination itself (a periodic box of zero "
         "opacity never ends), the converse termination transfer (undivided over => split over); the buffer bookkeeping of PhotonTraversalTaskContext/MemorySpace is not in the Lean model (driven for real in the tracing stream); floating-point round-off (validated: seeded packets through real split "
         "grids with copies — traversed by the real PhotonTraversalTaskContext/MemorySpace/TaskQueue/PrematureLaunch code with buffer "
         "overflows and recycled slots, over a two-step history with update_copy_properties in between — vs a single block, per-cell "
         "estimators rel 1e-10, same absorption/escape decisions, no packet lost, no buffer left behind); load-balancing statistics.",
    technique="translator by exhaustive evaluation + Lean 4 proofs (decide over generated tables; div/mod lemmas + omega for all layouts; "
              "induction over the level list for copies and fold) + differential table dumps + split-vs-unsplit tracing oracle")
