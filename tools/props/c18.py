"""C18 — atomic data and sampled photon frequencies are physical (DESIGN §6 C18)."""
import bisect
import math
import os
import subprocess
import sys

import vlib

sys.path.insert(0, os.path.join(vlib.VERIF, "tools"))
import gen_c18_tables as gen

REL_TOL = 1.e-10     # relative tolerance of the numeric correspondence (values are normally bit-identical)
REPO_UNITS = ["VernerCrossSections.cpp", "VernerRecombinationRates.cpp", "ChargeTransferRates.cpp",
              "PlanckPhotonSourceSpectrum.cpp", "HydrogenLymanContinuumSpectrum.cpp",
              "HeliumLymanContinuumSpectrum.cpp", "HeliumTwoPhotonContinuumSpectrum.cpp"]
# MaskedPhotonSourceSpectrum.cpp is #included by the harness itself (its two factories are stubbed)

B = vlib.f2bits


def nxt(x, k=1):
    for _ in range(abs(k)):
        x = math.nextafter(x, math.inf if k > 0 else -math.inf)
    return x


def around(x, r=2):
    return [nxt(x, k) for k in range(-r, r + 1)]


def build_c18_harness():
    """same flags as vlib.build_harness, but the translation units of /repo are compiled in
    parallel (8 units: 12 s sequentially, ~5 s in parallel)"""
    cfg = vlib.ensure_configured()
    os.makedirs(vlib.BIN, exist_ok=True)
    objd = os.path.join(vlib.BIN, "c18_obj")
    os.makedirs(objd, exist_ok=True)
    base = ["g++", "-std=c++11", "-O1", "-g", "-ffp-contract=off", "-Wno-cpp", "-fopenmp", "-D" + vlib.GUARD,
            "-I" + os.path.join(vlib.REPO, "src"), "-I" + cfg, "-I" + os.path.join(vlib.VERIF, "harness")]
    units = [os.path.join(vlib.REPO, "src", u) for u in REPO_UNITS] + [os.path.join(vlib.VERIF, "harness", "c18.cpp")]
    procs = []
    for u in units:
        o = os.path.join(objd, os.path.basename(u) + ".o")
        procs.append((u, o, subprocess.Popen(base + ["-c", u, "-o", o], stdout=subprocess.PIPE, stderr=subprocess.STDOUT, text=True)))
    objs = []
    for u, o, p in procs:
        out = p.communicate()[0]
        if p.returncode != 0:
            raise vlib.HarnessBuildError("c18 (%s)" % os.path.basename(u), out)
        objs.append(o)
    exe = os.path.join(vlib.BIN, "c18")
    rc, out = vlib.sh(base + objs + ["-o", exe])
    if rc != 0:
        raise vlib.HarnessBuildError("c18 (link)", out)
    return exe


def cmp_num(a, b, op):
    """discrete parts identical, doubles within REL_TOL"""
    b = vlib.strip_branch(b)
    if a == b:
        return True
    wa, wb = a.split(), b.split()
    if len(wa) != len(wb) or wa[0] != wb[0]:
        return False
    if wa[0] in ("loc", "tab", "tab2", "mk", "thr", "grid", "rowC"):
        return False
    if wa[0] == "gettab" and wa[1] != wb[1]:
        return False
    for x, y in zip(wa[1:], wb[1:]):
        if x == y:
            continue
        if not (x.isdigit() and y.isdigit()) and not ("nan" in (x, y)):
            return False
        if not vlib.floats_close(x, y, REL_TOL, 1.e-300):
            return False
    return True


def cmp_exact(a, b, op):
    return a == vlib.strip_branch(b)


class Tally:
    """bit-exact rate + evidence bookkeeping over one stream"""

    def __init__(self, ctx):
        self.ctx = ctx
        self.exact = 0
        self.total = 0

    def add(self, ops, impl, model, nontrivial, key=None):
        for i, op in enumerate(ops):
            if i >= len(impl) or i >= len(model):
                break
            ml = model[i]
            self.ctx.count()
            self.total += 1
            if impl[i] == vlib.strip_branch(ml):
                self.exact += 1
            tag = ml.split(" #")[1] if " #" in ml else None
            if tag:
                for t in tag.split("+"):
                    self.ctx.branch(key(op, t) if key else t)
            self.ctx.distinct(op, nontrivial=nontrivial(op, tag))


def loggrid(lo, hi, n):
    return [lo * (hi / lo) ** (i / (n - 1.)) for i in range(n)]


# ------------------------------------------------------------------------------- generators

def gen_tables(info):
    ops = ["rowA %d %d %d" % s for s in info["rowsA"]]
    ops += ["rowB %d %d" % p for p in info["pairsB"]]
    ops += ["rowC %d" % n for n in range(1, 31)]
    ops += ["rowR %d %d" % p for p in info["rec_pairs"]]
    ops += ["rowF %d" % n for n in range(1, 14)]
    return ops


def load_thresholds(info):
    """threshold frequencies (Hz) computed as the C++ constructor does: E_th * (eV / h)"""
    A = gen.parse_A(vlib.REPO)
    C = gen.parse_C(vlib.REPO)
    ev_to_hz = 1.6021766208e-19 / 6.626070040e-34
    eth = {k: float(v[2][0]) * ev_to_hz for k, v in A.items()}
    return A, C, eth


def gen_xs(ctx, info, eth, C, n_grid, n_rand):
    rng = ctx.rng
    nu_h = eth[(1, 1, 1)]
    ops = []
    for name, idx, shells in info["ions"]:
        thr = min(eth[s] for s in shells)
        ops.append("thr %d %d" % (idx, B(thr)))
    for name, idx, shells in info["ions"]:
        es = loggrid(0.5 * nu_h, 100. * nu_h, n_grid)
        edges = []
        for (Z, N, s) in shells:
            edges.append(eth[(Z, N, s)])
            ninn = C[N][0]
            if ninn >= 1 and (Z, N, ninn) in eth:
                edges.append(eth[(Z, N, ninn)])
        for e in edges:
            es += around(e, 3) + [e * (1 - 1e-9), e * (1 + 1e-9)]
        es += [nu_h * 10 ** rng.uniform(-0.5, 2.2) for _ in range(n_rand)]
        es += [0.0, 1.e-300, 3.289e15, 3.288465385e15, 1.e22]
        for e in es:
            ops.append("xs %d %d" % (idx, B(e)))
    # single shells, incl. the rows generated only for branch coverage
    for (Z, N, s) in info["rowsA"]:
        th = eth[(Z, N, s)]
        es = loggrid(0.5 * th, 200. * th, max(12, n_grid // 8)) + around(th, 2)
        ninn = C[N][0]
        if ninn >= 1 and (Z, N, ninn) in eth:
            es += around(eth[(Z, N, ninn)], 2)
        es += [th * 10 ** rng.uniform(-0.3, 3.) for _ in range(max(4, n_rand // 8))]
        for e in es:
            ops.append("xsv %d %d %d %d" % (Z, N, s, B(e)))
    return ops


def gen_rec(ctx, info, n_grid, n_rand):
    rng = ctx.rng
    ops = []
    for name, idx, shells in info["ions"]:
        Ts = loggrid(10., 1.e9, n_grid) + around(1.e5, 2) + around(1.e4, 1) + [10., 1.e9, 3., 1.e6]
        Ts += [10 ** rng.uniform(1, 9) for _ in range(n_rand)]
        Ts = sorted(set(Ts))
        ops.append("grid")
        for T in Ts:
            ops.append("rec %d %d" % (idx, B(T)))
    for (Z, N) in info["rec_pairs"]:
        for T in loggrid(10., 1.e9, max(8, n_grid // 10)) + [10 ** rng.uniform(1, 9) for _ in range(3)]:
            ops.append("recv %d %d %d" % (Z, N, B(T)))
    return ops


CT_EDGES = [0.001, 0.01, 0.1, 0.5, 0.6, 1., 3., 5., 10.]


def gen_ct(ctx, info, n_grid, n_rand):
    rng = ctx.rng
    ops = []
    for name, idx, shells in info["ions"]:
        Ts = loggrid(1.e-3, 1.e5, n_grid) + [10 ** rng.uniform(-3, 5) for _ in range(n_rand)]
        for e in CT_EDGES:
            Ts += around(e, 1)
        Ts += [0., 1.e-300]
        for T in Ts:
            for op in ("ctrh", "ctih", "ctrhe"):
                ops.append("%s %d %d" % (op, idx, B(T)))
    return ops


def gen_locate(ctx, n_cases):
    rng = ctx.rng
    ops = []
    for c in range(n_cases):
        n = rng.choice([2, 2, 3, 4, 5, 7, 8, 16, 17, 33, 41, 100])
        kind = rng.choice(["sorted", "sorted", "sorted", "ties", "cdf", "unsorted", "constant"])
        if kind == "sorted":
            a = sorted(rng.uniform(-5, 5) for _ in range(n))
        elif kind == "ties":
            a = sorted(float(rng.randint(0, max(1, n // 3))) for _ in range(n))
        elif kind == "cdf":
            inc = [rng.choice([0., 0., rng.random()]) for _ in range(n - 1)]
            tot = sum(inc) or 1.
            a = [0.]
            for x in inc:
                a.append(a[-1] + x / tot)
            a[-1] = 1.
        elif kind == "unsorted":
            a = [rng.uniform(-5, 5) for _ in range(n)]
        else:
            a = [1.5] * n
        xs = [a[0], a[-1], nxt(a[0], -1), nxt(a[-1], 1), a[0] - 1., a[-1] + 1., rng.choice(a), nxt(rng.choice(a), 1), nxt(rng.choice(a), -1)]
        xs += [rng.uniform(min(a) - 0.1, max(a) + 0.1) for _ in range(4)]
        for x in xs:
            ops.append("loc %d %d %s" % (n, B(x), " ".join(str(B(v)) for v in a)))
    return ops


U_MAX = 1. - 2. ** -48      # largest value RandomGenerator::get_uniform_random_double can return
U_MIN = 1.e-10              # floor of the first bin of the tabulated distributions (property quantifier)


def u_values(ctx, n_grid, n_rand, cdf=None):
    rng = ctx.rng
    us = [U_MIN, nxt(U_MIN, 1), 2. ** -33, U_MAX, nxt(U_MAX, -1), 0.5, 2. ** -48 * math.ceil(U_MIN * 2 ** 48)]
    us += loggrid(U_MIN, U_MAX, n_grid)
    us += [(i + 0.5) / n_grid for i in range(n_grid)]
    us += [rng.randrange(math.ceil(U_MIN * 2 ** 48), 2 ** 48) * 2. ** -48 for _ in range(n_rand)]
    if cdf:
        pick = [cdf[1], cdf[-2]] + [rng.choice(cdf) for _ in range(max(6, n_rand // 4))]
        for c in pick:
            us += around(c, 1)
    us = sorted(set(u for u in us if U_MIN <= u < 1.))
    return us


def parse_tabs(lines):
    t1, t2 = {}, {}
    for l in lines:
        w = l.split()
        if w[0] == "tab":
            t1[w[1]] = [vlib.bits2f(x) for x in w[3:]]
        elif w[0] == "tab2":
            t2.setdefault(w[1], {})[int(w[2])] = [vlib.bits2f(x) for x in w[4:]]
    return t1, t2


def dump_tables(harness, mk_line):
    rc, out, err = vlib.run_exe(harness, mk_line + "\n", args=["--dump"])
    if rc != 0:
        raise RuntimeError("harness --dump failed: " + err[-400:])
    lines = [l for l in out.split("\n") if l.startswith("tab")]
    orc = [l for l in out.split("\n") if l.startswith("ORACLE")]
    return lines, orc


def gen_samplers(ctx, harness, n_grid, n_rand, n_planck, n_lymanT):
    """returns (ops, groups) ; groups = [(kind, params, first_smp_index, last_smp_index)]"""
    rng = ctx.rng
    ops, groups = [], []

    def add_group(kind, mk, smp_fmt, temps=(None,), with_cdf=True):
        tabs, _ = dump_tables(harness, mk)
        t1, t2 = parse_tabs(tabs)
        ops.append(mk)
        if kind == "planck":
            # the model CONSTRUCTS the Planck tables (Model/Planck.lean); they are compared with the real ones
            ops.extend(["gettab planck.cdf", "gettab planck.logcdf", "gettab planck.logfreq"])
        else:
            ops.extend(tabs)
        cdf = t1.get(kind + ".cdf") if with_cdf else None
        for T in temps:
            us = u_values(ctx, n_grid, n_rand, cdf)
            i0 = len(ops)
            for u in us:
                ops.append(smp_fmt(u, T))
            groups.append((kind, mk, T, i0, len(ops), t1))
        return t1, t2

    planck_T = [4.e4, 1.e3, 3.e3, 1.e4, 1.e5, 1.e6, 1.e7] + [10 ** rng.uniform(3, 7) for _ in range(n_planck)]
    for T in planck_T[:max(3, n_planck)]:
        add_group("planck", "mk planck %d" % B(T), lambda u, _T: "smp planck %d" % B(u))
    add_group("he2p", "mk he2p", lambda u, _T: "smp he2p %d" % B(u))
    for variant in ("linear", "band", "planck20000"):
        add_group("masked", "mk masked %s" % variant, lambda u, _T: "smp masked %d" % B(u))
    for kind in ("hlyc", "helyc"):
        tabs, _ = dump_tables(harness, "mk " + kind)
        t1, t2 = parse_tabs(tabs)
        tt = t1[kind + ".T"]
        temps = [500., 1000., 1500., tt[0], nxt(tt[0], -1), nxt(tt[0], 1), 0.5 * (tt[0] + tt[1]), tt[1], nxt(tt[1], 1), nxt(tt[1], -1),
                 8000., tt[50], nxt(tt[50], 1), tt[-2], nxt(tt[-2], 1), tt[-1], nxt(tt[-1], -1), nxt(tt[-1], 1), 15000., 2.e4, 3.e4]
        temps += [rng.uniform(500., 3.e4) for _ in range(n_lymanT)] + [rng.uniform(tt[0], tt[-1]) for _ in range(n_lymanT)]
        ops.append("mk " + kind)
        ops.extend(tabs)
        some_cdf = t2[kind + ".cdf"][rng.randrange(len(tt))]
        for T in temps:
            us = u_values(ctx, max(20, n_grid // 4), max(8, n_rand // 4), some_cdf)
            i0 = len(ops)
            for u in us:
                ops.append("smp %s %d %d" % (kind, B(u), B(T)))
            groups.append((kind, "mk " + kind, T, i0, len(ops), t1))
    i0 = len(ops)
    for u in u_values(ctx, n_grid, n_rand) + [0.]:
        ops.append("smp uniform %d" % B(u))
    groups.append(("uniform", "", None, i0, len(ops), {}))
    i0 = len(ops)
    for f in (3.288465385e15, 5.e15, 1.e16):
        for u in (U_MIN, 0.5, U_MAX):
            ops.append("smp mono %d %d" % (B(u), B(f)))
    groups.append(("mono", "", None, i0, len(ops), {}))
    return ops, groups


# ------------------------------------------------- parameter-file constructors of the spectra

H_PLANCK, C_LIGHT, EV_J = 6.626070040e-34, 299792458., 1.6021766208e-19
# unit -> (kind, scale) as UnitConverter::get_single_unit defines them
NOTATIONS = {"Hz": ("f", 1.), "s^-1": ("f", 1.), "J": ("e", 1.), "erg": ("e", 1.e-7), "eV": ("e", EV_J),
             "m": ("l", 1.), "cm": ("l", 0.01), "km": ("l", 1000.), "angstrom": ("l", 1.e-10)}


def fmt_number(rng, x):
    """a decimal notation of x as a user would type it (always with a '.' or exponent; round-trips)"""
    style = rng.choice(["r", "e", "g"])
    t = repr(x) if style == "r" else ("%.16e" % x if style == "e" else "%.17g" % x)
    if "e" not in t and "." not in t and "inf" not in t:
        t += "."
    return t


def gen_params(ctx, n_values):
    """one physical frequency written in every notation (Hz, s^-1, J, erg, eV, m, cm, km, angstrom):
    ops `pmono <bits of the typed number> <unit> <text> <bits of the frequency meant>`; groups = the
    index ranges that must agree with each other"""
    rng = ctx.rng
    ops, groups = [], []
    nus = [3.288465385e15, 4. * 3.288465385e15, C_LIGHT / 700.e-10, 13.6 * EV_J / H_PLANCK, 1.e15, 1.e17]
    nus += [3.288465385e15 * 10 ** rng.uniform(0., 0.6) for _ in range(n_values)] + [10 ** rng.uniform(13, 19) for _ in range(max(2, n_values // 3))]
    for nu in nus:
        i0 = len(ops)
        for unit, (kind, scale) in NOTATIONS.items():
            x = nu / scale if kind == "f" else nu * H_PLANCK / scale if kind == "e" else C_LIGHT / nu / scale
            txt = fmt_number(rng, x)
            xv = float(txt)
            meant = xv * scale if kind == "f" else xv * scale / H_PLANCK if kind == "e" else C_LIGHT / (xv * scale)
            ops.append("pmono %d %s %s~%s %d" % (B(xv), unit, txt, unit, B(meant)))
        groups.append((nu, i0, len(ops)))
    for T in [4.e4, 1.e4, 2.5e4, 10 ** rng.uniform(3.5, 6)] + [10 ** rng.uniform(3.5, 6) for _ in range(max(1, n_values // 6))]:
        for txt in sorted(set([repr(T), "%.16e" % T, "%.17g" % T if "." in "%.17g" % T or "e" in "%.17g" % T else "%.17g." % T])):
            ops.append("pplanck %d %s~K" % (B(float(txt)), txt))
    ops.append("pplanck %d default" % B(4.e4))
    return ops, groups


# ------------------------------------------------------------- reference values of the repo

DATA_SHA256 = {  # fingerprints of the shipped tables when the check was last validated (a change is a note, never an alarm)
    "verner_A.dat": "db7e8e0200532acf0c93c08dc857e6c523fa51c8b7294bd5e02baea4cd0fef12",
    "verner_B.dat": "fccb209ca3449bc69d9195f4c994364343aae45a9a78502d54ff22099e14bc0f",
    "verner_C.dat": "c1d84cb3cb109a9168017bc5745e94a629b1e0041393a03f74f6cca35bc75018",
    "verner_rec_data.txt": "c3b5a825003a14b267e0e62c4e2cc20f8eaa77783c1ddb21484b973032622968",
}


def load_reference(info):
    """(ops, expected, scale): the ~100 tabulated (energy, sigma) and (T, alpha) lines of
    /repo/test/verner_testdata.txt and verner_rec_testdata.txt (values of Verner's original Fortran
    routines, columns in the order of the IonName enum); used as an independent oracle that the
    shipped coefficient tables and the literal constants are the published ones"""
    ev_to_hz = 1.6021766208e-19 / 6.626070040e-34
    ops, exp = [], []
    nion = info["nion"]
    for fn, op, conv, scale in (("verner_testdata.txt", "xs", lambda x: x * 13.6 * ev_to_hz, 1.e22),
                                ("verner_rec_testdata.txt", "rec", lambda x: x, 1.e6)):
        path = os.path.join(vlib.REPO, "test", fn)
        if not os.path.exists(path):
            continue
        for l in open(path):
            if l.strip().startswith("#") or not l.strip():
                continue
            w = [float(x) for x in l.split()]
            if len(w) < 1 + nion:
                continue
            for ion in range(nion):
                ops.append("%s %d %d" % (op, ion, B(conv(w[0]))))
                exp.append((w[1 + ion], scale))
    return ops, exp


# ----------------------------------------------------------- search-only checks on the samples

def planck_cdf_reference(T, ys):
    """analytic cumulative photon-number distribution of a black body between 1 and 4 x 13.6 eV
    (fine composite Simpson rule), evaluated at ys (in units of 13.6 eV)"""
    a = 6.626070040e-34 * 3.289e15 / (1.38064852e-23 * T)
    n = 6000

    def f(y):
        z = a * y
        return y * y / math.expm1(z) if z < 700. else 0.

    h = 3. / n
    cum = [0.]
    for i in range(n):
        y0 = 1. + i * h
        cum.append(cum[-1] + h / 6. * (f(y0) + 4. * f(y0 + 0.5 * h) + f(y0 + h)))
    tot = cum[-1]
    res = []
    for y in ys:
        t = min(max((y - 1.) / h, 0.), n - 1e-9)
        i = int(t)
        res.append((cum[i] + (cum[i + 1] - cum[i]) * (t - i)) / tot if tot > 0 else float("nan"))
    return res


def search_checks(ctx, ops, impl, groups):
    """necessary conditions of 'follows the cumulative distribution', evaluated on the
    implementation's answers (search only): nu(u) non-decreasing in u; Planck / uniform / linearly
    masked uniform spectrum: |F_ref(nu(u)) - u| small"""
    res = {}
    for kind, mk, T, i0, i1, t1 in groups:
        if kind == "mono":
            continue
        us, nus = [], []
        for op, a in zip(ops[i0:i1], impl[i0:i1]):
            w = a.split()
            if len(w) != 2 or not w[1].isdigit():
                continue
            us.append(vlib.bits2f(op.split()[2]))
            nus.append(vlib.bits2f(w[1]))
        for k in range(1, len(us)):
            if us[k] > us[k - 1] and nus[k] < nus[k - 1] * (1. - 1.e-13):
                ctx.violation("sampler:%s:not-monotone-in-u" % kind,
                              "inverse cumulative distribution not monotone: u=%r -> nu=%r but u=%r -> nu=%r (%s T=%r)" % (us[k - 1], nus[k - 1], us[k], nus[k], mk, T),
                              {"stream": "sampler", "ops": [mk] + ops[i0 + k - 1:i0 + k + 1], "note": "tables must be loaded first: replay the whole group with --tier"})
                break
        dev = None
        if kind == "planck":
            Tp = vlib.bits2f(mk.split()[2])
            ref = planck_cdf_reference(Tp, [v / 3.288465385e15 for v in nus])
            dev = max(abs(r - u) for r, u in zip(ref, us))
            # the sampler cannot resolve the inside of a bin (the first bin is interpolated in
            # log-log from the 1e-10 floor): tolerance = largest bin probability + quadrature error
            cdf = t1.get("planck.cdf", [0., 1.])
            tol = max(b - a for a, b in zip(cdf, cdf[1:])) + 1.e-3
        elif kind == "uniform":
            dev = max(abs((v / 3.289e15 - 1.) / 3. - u) for v, u in zip(nus, us))
            tol = 1.e-12
        elif kind == "masked" and mk.endswith("linear"):
            def F(v):
                t = (v - 3.289e15) / (3. * 3.289e15)
                return 2. * t - t * t
            dev = max(abs(F(v) - u) for v, u in zip(nus, us))
            tol = 1.2e-2      # table built from 1e5 Monte Carlo samples in 100 bins (noise ~3e-3; a shift by one bin is 2e-2)
        if dev is not None:
            k = "%s%s" % (kind, "" if T is None else "")
            res[k] = max(res.get(k, 0.), dev)
            if not (dev <= tol):
                ctx.violation("sampler:%s:cdf-deviation" % kind,
                              "sampled frequencies do not follow the cumulative distribution: max |F_ref(nu(u)) - u| = %.3g > %.3g (%s)" % (dev, tol, mk),
                              {"stream": "sampler", "ops": [mk], "deviation": dev})
    return res


# --------------------------------------------------------------------------------------- run

def run(ctx):
    ctx.level = "proof"
    ctx.assumptions += [
        "theorems are about exact real arithmetic (Real.rpow, Real.sqrt, Real.exp, Real.log); IEEE rounding, overflow and libm are not modelled — the Float instantiation of the same definitions is compared with the real classes (bit-identical on this platform, tolerance %g)" % REL_TOL,
        "tables: Gen/Verner.lean is regenerated from the shipped data files on every run; the decimal literals denote the exact rationals of the files; the constructor conversions (eV -> Hz, pre-inversion) are part of the model and compared bit for bit with _data_A/_data_B/_data_C/_rrec/_rnew/_fe of the real objects",
        "'sampled frequencies follow the cumulative distribution': proved as 'the sampler is the exact inverse of its table' for the linear samplers (piecewise-linear CDF) and the Planck sampler (log-log interpolated CDF); for the Lyman continua only the exact formula is proved (t-weighted mix of the lower bin edges containing u in the two bracketing temperature tables: no interpolation inside the frequency bin, mix of quantiles instead of quantile of a mix) — sample_follows_table_cdf_lyman_partial; that the tables are the physical CDFs is searched: monotonicity of nu(u) and the deviation from an independently integrated Planck / uniform / linearly-masked distribution are evaluated on the implementation's samples (tolerance = one table bin)",
        "Planck: the constructor is modelled (Model/Planck.lean; the driver BUILDS the three tables and they are compared bit for bit with the real ones) and planck_tables_wellformed proves every table hypothesis for every T > 0, so planck_spectrum_in_range is unconditional; for the other samplers (two-photon, masked, H/He Lyman continua) the constructors are not modelled: the theorems take the table properties as hypotheses (cumulative table sorted with ends 0 and 1, frequency / temperature tables increasing) and the harness checks them on every real table it constructs (ORACLE table-hypothesis)",
        "parameter-file constructors: MonochromaticPhotonSourceSpectrum(role, params) is driven with one frequency in 9 notations and PlanckPhotonSourceSpectrum(role, params) with temperatures in several decimal notations + the default; required: agreement with the model (bit-identical), with the plain-value constructor and across notations to 1e-12, ionizing value -> ionizing frequency. The ParameterFile constructor of MaskedPhotonSourceSpectrum needs the spectrum/mask factories (every spectrum of the code base incl. HDF5) and is not driven; the Lyman / two-photon / uniform spectra have no physical parameters",
        "random numbers: u in [1e-10, 1) as in the property statement (u < 1e-10, in particular u = 0 which RANLUX can return, leaves the first bin of the log-log Planck interpolation: outside the stated domain)",
        "locate: length >= 2 (all call sites pass 1000, 100, 41 or the number of mask bins); for length <= 1 the unsigned arithmetic of the C++ wraps around",
        "get_charge_transfer_*_rate_H(ION_H_n), ..._He(ION_He_n) and get_charge_transfer_ionization_rate_He abort by design (cmac_error) and are not called by the ionization balance; not evaluated",
    ]
    info = gen.generate()
    ctx.cov["generated"] = {"file": "lean/CMacVerif/Gen/Verner.lean", "ions": len(info["ions"]), "rows_A": len(info["rowsA"]),
                            "rows_B": len(info["pairsB"]), "rows_rec": len(info["rec_pairs"]),
                            "ion_shells": {n: sh for n, _, sh in info["ions"]}}
    ok = ctx.obligations("CMacVerif.Props.C18", ["drv_c18"])
    h = build_c18_harness()
    drv = vlib.driver("drv_c18")
    ctx.cov["tolerance_rel"] = REL_TOL
    ctx.cov["rule"] = ("tables: every generated row; xs: 14 ions x (log grid 0.5..100 nu_H + every shell threshold / inner edge +-3 ulp + random) and every generated shell separately; "
                       "rec: 14 ions x ascending log grid 10..1e9 K (+1e5 K +-2 ulp), every generated (Z,N) of the radiative fit incl. the iron branches; ct: 3 functions x 14 ions x T4 grid 1e-3..1e5 + every clamp edge +-1 ulp; "
                       "locate: random tables (sorted, ties, cdf-like with flat pieces, unsorted, constant) of 2..100 entries, x at/adjacent to entries and outside; "
                       "samplers: Planck at several temperatures, He two-photon, 3 masked spectra, H and He Lyman continua at T in [500, 30000] K incl. table temperatures +-1 ulp, uniform, monochromatic; u in [1e-10, 1-2^-48]: end points, log + uniform grids, 48-bit random, table entries +-1 ulp. "
                       "distinct = different op text; non-trivial = the model took a non-default branch (value from a fit / interior or last table bin / clamped temperature)")
    oracle_only = False
    if not ok:
        # a theorem / the generated table no longer checks: run the violation search anyway (the
        # property oracles on the implementation), with the model when the driver still builds
        gen.generate()     # (another process may have restored the committed Gen file meanwhile)
        ok2, _ = vlib.lake_build(["drv_c18"])
        oracle_only = not ok2
    A, C, eth = load_thresholds(info)
    q = ctx.budget
    tallies = {}

    def stream(name, ops, cmp, nontrivial, group_start=None, key=None, oracle_key=None):
        if oracle_only:
            rc, out, err = vlib.run_exe(h, "\n".join(ops) + "\n")
            impl, orc = vlib.split_oracle(out)
            for o in orc:
                import re
                m = re.search(r"line=(\d+)", o)
                i = int(m.group(1)) - 1 if m else 0
                what = re.sub(r"line=\d+\s*", "", o[len("ORACLE"):]).strip()
                grp = ctx._group(ops, i, group_start)
                ctx.violation(oracle_key(what, grp) if oracle_key else name + ":" + what.split()[0],
                              "property fails on the implementation: " + what, {"stream": name, "ops": grp, "oracle": o})
            return impl, ["" for _ in impl]
        # xs / rec: the model is the published fit of the shipped table rows (sigma_is_fit,
        # sigma_is_sum_of_fits; recombination fits likewise) -> a disagreement is a failing input
        n, impl, model, orc = ctx.correspond(name, h, drv, ops, cmp=cmp, group_start=group_start, oracle_key=oracle_key,
                                             model_is_spec=("differs-from-published-fit" if name in ("xs", "rec") else "differs-from-given-value" if name == "fixed" else "differs-from-the-frequency-the-parameter-denotes" if name == "params" else None))
        t = Tally(ctx)
        t.add(ops, impl, model, nontrivial, key)
        tallies[name] = t
        return impl, model

    corpus = vlib.corpus_ops("C18")

    # 1. translator render-back: generated rows after the model's constructor stage == real tables
    ops = gen_tables(info)
    impl, model = stream("tables", ops, cmp_exact, lambda op, tag: True)
    ctx.sample({"stream": "tables", "op": ops[1], "impl": impl[1] if len(impl) > 1 else None})

    # 2. cross sections
    g = gen_xs(ctx, info, eth, C, q(300, 15000), q(60, 5000))
    nthr = len(info["ions"])
    ops = g[:nthr] + [o for o in corpus if o.split()[0] in ("xs", "xsv")] + g[nthr:]
    impl, model = stream("xs", ops, cmp_num, lambda op, tag: tag is not None and ("fitA" in tag or "fitB" in tag),
                         oracle_key=lambda what, grp: "xs:" + what.split()[0])
    k = next(i for i, o in enumerate(ops) if o.startswith("xs 2 "))
    ctx.sample({"stream": "xs", "ops": ops[k + 150:k + 153], "impl": impl[k + 150:k + 153], "model": model[k + 150:k + 153]})

    # 2a. FixedValueCrossSections (constant per ion): argument order of the constructor vs IonName
    fops = []
    for k in range(q(40, 2000)):
        vals = [ctx.rng.choice([0., 6.3e-22, ctx.rng.random() * 10 ** ctx.rng.uniform(-26, -20)]) for _ in range(14)]
        for ion in range(info["nion"]):
            fops.append("fxs %d %d %s" % (ion, B(10 ** ctx.rng.uniform(14, 18)), " ".join(str(B(v)) for v in vals)))
    impl, model = stream("fixed", fops, cmp_exact, lambda op, tag: True, oracle_key=lambda what, grp: "fixed:" + what.split()[0])

    # 2c. parameter-file constructors (Monochromatic: frequency in 9 notations; Planck: temperature)
    pops, pgroups = gen_params(ctx, q(12, 400))
    impl, model = stream("params", pops, cmp_num, lambda op, tag: tag is not None and "frequency" not in tag,
                         key=lambda op, t: t.replace("CMacVerif.Notation.Kind.", ""),
                         oracle_key=lambda what, grp: what.split()[0])
    worst = 0.
    for nu, i0, i1 in pgroups:
        vals = []
        for o, a in zip(pops[i0:i1], impl[i0:i1]):
            w = a.split()
            if len(w) == 2 and w[1].isdigit():
                vals.append((vlib.bits2f(w[1]), o))
        if not vals:
            continue
        ref = vals[0][0]
        for v, o in vals:
            d = abs(v - ref) / max(abs(ref), abs(v), 1e-300)
            worst = max(worst, d)
            if not d <= 1.e-12:
                ctx.violation("param:mono:notations-disagree",
                              "the same photon frequency written in two notations gives different spectra: %r -> %r Hz but %r -> %r Hz" % (vals[0][1].split()[3].replace("~", " "), ref, o.split()[3].replace("~", " "), v),
                              {"stream": "params", "ops": [vals[0][1], o], "parameter_text": ["frequency: " + vals[0][1].split()[3].replace("~", " "), "frequency: " + o.split()[3].replace("~", " ")]})
                break
    ctx.cov["parameter_notations"] = {"values": len(pgroups), "notations": sorted(NOTATIONS), "max_relative_disagreement": worst}
    if pops:
        ctx.sample({"stream": "params", "ops": pops[16:19], "impl": impl[16:19]})

    # 2b. reference values shipped with the repo's own (unpinned) tests
    ops, exp = load_reference(info)
    if ops:
        impl, model = stream("reference", ops, cmp_num, lambda op, tag: True,
                             key=lambda op, t: "ref-" + ("xs" if op.startswith("xs") else "rec"),
                             oracle_key=lambda what, grp: "reference:" + what.split()[0])
        worst = 0.
        for o, a, (x, scale) in zip(ops, impl, exp):
            w = a.split()
            if len(w) != 2 or not w[1].isdigit():
                continue
            v = vlib.bits2f(w[1]) * scale
            d = 0. if v == x else abs(v - x) / max(abs(x), abs(v))
            worst = max(worst, d)
            if not d <= 1.e-9:
                ctx.violation("%s:differs-from-reference-values" % o.split()[0],
                              "implementation gives %r but the reference table of the repo (test/verner_*testdata.txt) gives %r for %s (relative difference %.3g)" % (v, x, o, d),
                              {"stream": "reference", "ops": [o], "expected": x, "got": v})
        ctx.cov["reference_values"] = {"lines": len(ops), "max_relative_difference": worst, "tolerance": 1.e-9}
    import hashlib
    ctx.cov["data_sha256"] = {f: hashlib.sha256(open(os.path.join(vlib.REPO, "data", f), "rb").read()).hexdigest() for f in DATA_SHA256}
    changed = [f for f, hsh in DATA_SHA256.items() if hsh and ctx.cov["data_sha256"][f] != hsh]
    if changed:
        ctx.notes.append("shipped data tables changed since the check was validated (tables were regenerated, theorems re-proved): %s" % changed)

    # 3. recombination rates
    ops = [o for o in corpus if o.split()[0] in ("rec", "recv", "grid")] + gen_rec(ctx, info, q(400, 50000), q(60, 5000))
    impl, model = stream("rec", ops, cmp_num, lambda op, tag: tag is not None and not tag.endswith("clamped0"),
                         group_start=lambda op: op == "grid",
                         key=lambda op, t: t.replace("CMacVerif.Verner.Ion.", "rec-") if op.startswith("rec ") else "recv-" + t,
                         oracle_key=lambda what, grp: "rec:" + what.split()[0])
    k = next(i for i, o in enumerate(ops) if o.startswith("rec 6 "))
    ctx.sample({"stream": "rec", "ops": ops[k + 100:k + 102], "impl": impl[k + 100:k + 102]})

    # 4. charge transfer
    ops = [o for o in corpus if o.split()[0] in ("ctrh", "ctih", "ctrhe")] + gen_ct(ctx, info, q(120, 10000), q(30, 2000))
    impl, model = stream("ct", ops, cmp_num, lambda op, tag: tag is not None,
                         key=lambda op, t: t.replace("CMacVerif.Verner.Ion.", ""),
                         oracle_key=lambda what, grp: "ct:" + what.split()[0])

    # 5. locate
    ops = [o for o in corpus if o.split()[0] == "loc"] + gen_locate(ctx, q(400, 30000))
    impl, model = stream("locate", ops, cmp_exact, lambda op, tag: tag in ("loc-mid", "loc-last", "loc-dec", "loc-first"),
                         oracle_key=lambda what, grp: "locate:" + what.split()[0])
    ctx.sample({"stream": "locate", "op": ops[-1][:200], "impl": impl[-1] if impl else None})

    # 6. samplers (two phases: the tables of the real objects are dumped, then fed to both sides)
    ops, groups = gen_samplers(ctx, h, q(60, 3000), q(40, 3000), q(4, 120), q(4, 100))
    impl, model = stream("sampler", ops, cmp_num,
                         lambda op, tag: op.startswith("smp") and tag is not None and not tag.endswith("atOrBelowFirst"),
                         group_start=lambda op: op.startswith("mk"),
                         key=lambda op, t: "smp-" + t,
                         oracle_key=lambda what, grp: ("table:" + what.split()[1]) if what.startswith("table-hypothesis") else what.split()[0])
    k = next(i for i, o in enumerate(ops) if o.startswith("smp planck"))
    ctx.sample({"stream": "sampler", "mk": ops[0], "ops": ops[k:k + 3], "impl": impl[k:k + 3]})
    if len(impl) == len(ops):
        ctx.cov["cdf_search_max_deviation"] = search_checks(ctx, ops, impl, groups)

    ctx.cov["bit_exact"] = {n: {"identical": t.exact, "lines": t.total} for n, t in tallies.items()}
    tot = sum(t.total for t in tallies.values())
    ctx.cov["bit_exact_rate"] = (sum(t.exact for t in tallies.values()) / tot) if tot else 0.
    # coverage gate (thorough): every branch of the models must have been taken
    need = ["below", "gap", "fitA", "fitB", "recv-rnew", "recv-fe", "recv-rrec", "loc-dec", "loc-mid", "loc-last", "loc-first", "loc-atOrBelowFirst"]
    missing = [b for b in need if b not in ctx.cov["branch_histogram"]]
    ctx.cov["branches_never_taken"] = missing + ["gtNout (unreachable with the shipped tables: no row of verner_A.dat has shell > nout)"]
    if missing:
        ctx.notes.append("insufficient coverage: branches never taken: %s" % missing)
    return 0


def replay(ctx, path):
    import json
    obj = json.load(open(path))
    ops = obj.get("ops", [])
    if not ops:
        print(json.dumps(obj, indent=1)[:4000])
        print("replay file names a broken obligation, not an input; nothing to execute")
        return 1
    gen.generate()
    vlib.lake_build(["drv_c18"])
    h = build_c18_harness()
    # sampler groups need the tables of the real object: regenerate them behind every mk line
    full = []
    for o in ops:
        if o.startswith("tab"):
            continue
        full.append(o)
        if o.startswith("mk "):
            full.extend(dump_tables(h, o)[0])
    text = "\n".join(full) + "\n"
    rc, out_i, err = vlib.run_exe(h, text)
    rc2, out_m, err2 = vlib.run_exe(vlib.driver("drv_c18"), text)
    impl, orc = vlib.split_oracle(out_i)
    model = [l for l in out_m.split("\n") if l]
    bad = bool(orc) or rc != 0 or len(impl) != len(model)
    for o, a, b in zip(full, impl, model):
        same = a == vlib.strip_branch(b) or cmp_num(a, b, o)
        if not o.startswith("tab"):
            print("%s\n   impl : %s\n   model: %s%s" % (o[:160], a[:160], b[:160], "" if same else "   <-- DISAGREE"))
        bad = bad or not same
    for l in orc:
        print("property oracle on the implementation: " + l)
    print("REPRODUCED" if bad else "not reproduced")
    return 1 if bad else 0


MANIFEST = dict(
    category="proof",
    text=("Lean theorems over exact real arithmetic, every input: sigma_nonneg / sigma_zero_below_threshold / sigma_is_fit / sigma_is_sum_of_fits (every cross section of the 14 tracked ions is >= 0, "
          "exactly 0 below the thresholds of its shells, and in each energy range equals the published Verner & Yakovlev 1995 resp. Verner et al. 1996 formula of the row of the shipped table, at E = h nu in eV); "
          "table_wellformed, rec_table_wellformed, ion_shells_physical, used_shells_le_nout over Gen/Verner.lean, regenerated from /repo/data and the C++ switch on every run; alphaH_pos_strictAnti, alphaHe_pos_strictAnti "
          "(positive and strictly decreasing on T > 0); rates_nonneg (recombination incl. dielectronic terms and the final max(0,.), and the three charge-transfer functions, >= 0 for every ion and T); verner_rate_pos "
          "(radiative fits > 0 for T > 0); rate_pos_upto_1e5 (the TOTAL rate radiative + dielectronic of all 14 ions is > 0 for every 0 < T <= 1e5 K; for N_p2, O_n, O_p1, whose dielectronic polynomial is negative at low T, by "
          "interval bounds exp(-f/x) <= k!(x/f)^k and rational certificates for sqrt / rpow of the radiative fit); locate_spec (index <= length-2 and bracket for every table size by induction over the bisection; "
          "last-entry-below-x, x <= first -> 0, x > last -> n-2 for sorted tables); sample_in_range_planck / _linear / _lyman / _uniform_mono (sampled frequency inside the table range; Lyman continua for EVERY temperature "
          "and random number); sample_follows_table_cdf_linear / _planck (the sampler is the exact inverse of its table's CDF, piecewise linear resp. linear in log-log). "
          "PARTIAL: sample_follows_table_cdf_lyman_partial states exactly what the two-table Lyman formula returns (t-weighted mix of the lower bin edges containing u), which matches a distribution only at bin resolution; "
          "'the tables are the CDFs of the physical spectra' is searched. "
          "planck_tables_wellformed / planck_spectrum_in_range: the tables the Planck CONSTRUCTOR builds satisfy every hypothesis of the sampler theorem for every T > 0, hence a Planck source of any temperature samples inside [13.6, 54.4] eV for u in [1e-10, 1]; "
          "notations_of_one_value_agree: a spectrum frequency written in a parameter file as frequency, energy or wavelength (Hz, s^-1, J, erg, eV, m, cm, km, angstrom) denotes value*unit, E/h resp. c/lambda, so all notations of one value give one frequency (model of to_SI<QUANTITY_FREQUENCY>, run against the ParameterFile constructors of the monochromatic and Planck spectra); "
          "coded_shells_are_spec: the shell sums of the C++ switch equal the hand-written specification ionShellsSpec (the driver evaluates the specification, so a changed switch yields a concrete (ion, energy)); fixed_value_cross_sections. "
          "Tie: Float instantiation of the same definitions vs the real classes (100% bit-identical, incl. the 3 x 1000 Planck table entries per temperature), property oracles on the implementation, reference values of the repo's own test data."),
    note=("Trusted: Lean kernel + 3 standard axioms; translator tools/gen_c18_tables.py (render-back stream `tables`: generated rows after the model's constructor stage == _data_A/_data_B/_data_C/_rrec/_rnew/_fe of the real "
          "objects, bit for bit); hand model of the fit formulae, dielectronic terms, charge-transfer fits, locate and samplers (tied by correspondence, tolerance 1e-10); theorems are about real arithmetic, not IEEE doubles "
          "(finiteness / overflow only observed on the grids); sampler theorems take sortedness and end values of the tables as hypotheses, which the harness checks on every real table; u in [1e-10, 1) as in the property "
          "(u = 0 or u < 1e-10, which RANLUX can return with probability 1e-10, leaves the Planck range: outside the stated domain); constructors of the two-photon, masked and Lyman tables are not modelled (their table properties are checked premises); Lyman samplers do not interpolate "
          "inside a frequency bin (distribution matched at bin resolution only: searched)."),
    technique="Lean 4 proof (Real.rpow / sqrt / exp / log monotonicity, interval bounds with rational certificates, nlinarith for the dielectronic polynomials, induction over the bisection) + tables generated from the shipped data + differential correspondence with oracles")
