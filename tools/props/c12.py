"""C12 — complete runs end normally without invalid memory use (partial; DESIGN §6 C12).

Three parts:
 1. Lean: life cycle of the owned pointers of LiveOutputManager, TrackerManager,
    TaskBasedIonizationSimulation and of the pointer locals of
    TaskBasedRadiationHydrodynamicsSimulation::do_simulation, for every option vector
    (descriptions regenerated from /repo on every run by tools/gen_c12_lifecycle.py).
 2. Correspondence: the real classes placement-constructed into 0xAA-poisoned storage with the
    global operator new/delete interposed (harness/c12.cpp) against the model's trace.
 3. SEARCH (not proof): whole runs of the real binary in all modes; exit status (quick) and an
    AddressSanitizer/UBSan build (thorough)."""
import binascii
import hashlib
import itertools
import json
import os
import re
import shutil
import subprocess
import sys
import tempfile
import time

sys.path.insert(0, os.path.dirname(os.path.dirname(os.path.abspath(__file__))))
import vlib
import simrun
import gen_c12_lifecycle

# local work-around: scratch build trees of alternative repositories (`VERIF_REPO=...`) are named
# .build/alt_*; other jobs remove `.build/alt_*` while a C12 run (normal + sanitizer build of the
# whole binary) is still using its trees, so C12 keeps them under another name (as C09 does)
if vlib.REPO != "/repo" and os.path.basename(vlib.BUILD).startswith("alt_"):
    vlib.BUILD = os.path.join(vlib.VERIF, ".build", "c12" + os.path.basename(vlib.BUILD))
    vlib.BIN = os.path.join(vlib.BUILD, "bin")
    vlib.FULL = os.path.join(vlib.BUILD, "full")
    gen_c12_lifecycle.OUT_HPP_DIR = os.path.join(vlib.BUILD, "gen")
    gen_c12_lifecycle.OUT_HPP = os.path.join(gen_c12_lifecycle.OUT_HPP_DIR, "c12_gen.hpp")

KEY_SOURCE_OUTSIDE = "run:source-outside-box-out-of-bounds-write"
# unequal numbers of cells per subgrid, every ordering (index bugs hide behind nx = ny = nz)
ORDERINGS = [(2, 4, 3), (3, 2, 4), (4, 3, 2), (2, 3, 4), (4, 2, 3), (3, 4, 2)]


# =========================================================================== correspondence

def hexs(s):
    return binascii.hexlify(s.encode()).decode() or "00"


def yaml_groups(d):
    out = []
    for g, kv in d.items():
        out.append("%s:" % g)
        for k, v in kv.items():
            if isinstance(v, bool):
                v = "true" if v else "false"
            out.append("  %s: %s" % (k, v))
    return "\n".join(out) + "\n"


def lom_ops(info, ctx):
    u = info["units"]["liveOutputManager"]
    opts = u["opts"]
    for o in opts:
        if o not in u["optkeys"]:
            raise RuntimeError("C12: option %r of LiveOutputManager is not read from a parameter-file key the check understands" % o)
    ops, meta = [], []
    for bits in itertools.product([0, 1], repeat=len(opts)):
        d = {}
        for o, b in zip(opts, bits):
            g, k = u["optkeys"][o][0].split(":", 1)
            d.setdefault(g, {})[k] = bool(b)
        ops.append("lom 0 %s %s" % ("".join(map(str, bits)) or "-", hexs(yaml_groups(d))))
        meta.append(("lom", bits))
    # the defaults: a parameter file without the block, and partial blocks
    defaults = tuple(int(u["optkeys"][o][1]) for o in opts)
    ops.append("lom 0 %s %s" % ("".join(map(str, defaults)) or "-", hexs("Dummy:\n  x: 1\n")))
    meta.append(("lom-defaults", defaults))
    for i, o in enumerate(opts):
        g, k = u["optkeys"][o][0].split(":", 1)
        bits = list(defaults)
        bits[i] = 1 - bits[i]
        ops.append("lom 0 %s %s" % ("".join(map(str, bits)), hexs(yaml_groups({g: {k: bool(bits[i])}}))))
        meta.append(("lom-one-key", tuple(bits)))
    return ops, meta


TRACKER_TYPES = {
    "S": "  type: Spectrum\n",
    "B": "  type: Spectrum\n  number of bins: 10\n",
    "A": "  type: Absorption\n",
    "W": "  type: WeightedSpectrum\n",
    "M": "  type: Multi\n  number of trackers: 2\n  tracker[0]:\n    type: Spectrum\n  tracker[1]:\n    type: Absorption\n",
}


def tracker_yaml(types, same_cell=False):
    t = "number of trackers: %d\n" % len(types)
    for i, c in enumerate(types):
        x = 0.3 if same_cell else 0.15 + 0.2 * i
        t += "tracker[%d]:\n  position: [%g m, 0.3 m, 0.3 m]\n%s" % (i, x, TRACKER_TYPES[c])
    return t


def tm_ops(info, ctx):
    u = info["units"]["trackerManager"]
    if u["opts"]:
        raise RuntimeError("C12: TrackerManager has options the check does not understand: %r" % u["opts"])
    ops, meta = [], []
    combos = [""] + list("SBAWM") + ["SS", "SW", "MS", "WM", "SAW", "MMM", "SBAW", "WWWW"]
    for _ in range(ctx.budget(6, 40)):
        combos.append("".join(ctx.rng.choice("SBAWM") for _ in range(ctx.rng.randint(1, 5))))
    par = yaml_groups({"TrackerManager": {"filename": "trackers.yml"}})
    for c in combos:
        ops.append("tm %d - %s %s" % (len(c), hexs(par), hexs(tracker_yaml(c))))
        meta.append(("tm", c))
    return ops, meta


TBIS_BASE = """SimulationBox:
  anchor: [0. m, 0. m, 0. m]
  sides: [1. m, 1. m, 1. m]
  periodicity: [false, false, false]
DensityGrid:
  number of cells: [8, 8, 8]
DensitySubGridCreator:
  number of subgrids: [2, 2, 2]
TemperatureCalculator:
  do temperature calculation: false
DensityGridWriter:
  type: AsciiFile
  prefix: snap
TrackerManager:
  filename: trackers.yml
"""


def tbis_variant_yaml(v):
    t = TBIS_BASE
    t += "DensityFunction:\n  type: %s\n  density: 100. cm^-3\n  temperature: 8000. K\n" % ("Homogeneous" if v["df"] else "None")
    if v["psd"]:
        t += "PhotonSourceDistribution:\n  type: SingleStar\n  position: [0.5 m, 0.5 m, 0.5 m]\n  luminosity: %s s^-1\n" % ("0." if v["lum0"] else "1.e49")
    else:
        t += "PhotonSourceDistribution:\n  type: None\n"
    t += "PhotonSourceSpectrum:\n  type: %s\n  frequency: 13.6 eV\n" % ("Monochromatic" if v["spec"] else "None")
    if v["cps"]:
        t += "ContinuousPhotonSource:\n  type: Isotropic\n"
    if v["cpsspec"] is not None:
        t += "ContinuousPhotonSourceSpectrum:\n  type: %s\n  frequency: 13.6 eV\n  total flux: %s m^-2 s^-1\n" % (
            "Monochromatic" if v["cpsspec"] else "None", "0." if v["cflux0"] else "1.e10")
    t += "TaskBasedIonizationSimulation:\n  number of iterations: 1\n  number of photons: 100\n  number of buffers: 100\n  queue size per thread: 100\n  shared queue size: 100\n  number of tasks: 1000\n"
    if v["diffuse"]:
        t += "  diffuse field: true\n"
    if v["trackers"]:
        t += "  enable trackers: true\n"
    if v["rh"] is not None:
        t += "DiffuseReemissionHandler:\n  type: %s\n" % v["rh"]
    if v["olddiffuse"] is not None:
        t += "PhotonSource:\n  diffuse field: %s\n" % ("true" if v["olddiffuse"] else "false")
    return t


def tbis_env(v, opts):
    """truth value of every generated option for variant v (fails closed on an unknown option)"""
    cps_alive = v["cps"]
    spec_c = bool(v["cpsspec"]) if v["cpsspec"] is not None else True   # default type Monochromatic
    handler_called = v["diffuse"] or v["olddiffuse"] is not None
    if v["rh"] is not None:
        rh = v["rh"] != "None"
    elif v["olddiffuse"] is not None:
        rh = bool(v["olddiffuse"])
    else:
        rh = False
    table = {
        "_density_function:=DensityFunctionFactory::generate": v["df"],
        "_photon_source_distribution:=PhotonSourceDistributionFactory::generate": v["psd"],
        "_photon_source_spectrum:=PhotonSourceSpectrumFactory::generate": v["spec"],
        "_continuous_photon_source:=ContinuousPhotonSourceFactory::generate": v["cps"],
        "_continuous_photon_source_spectrum:=PhotonSourceSpectrumFactory::generate": spec_c,
        "discrete_luminosity==0.": v["psd"] and v["lum0"],
        "_continuous_photon_source->has_total_luminosity()": False,
        "continuous_luminosity==0.": cps_alive and v["cflux0"],
        "_reemission_handler:=DiffuseReemissionHandlerFactory::generate": handler_called and rh,
        '_parameter_file.has_value("PhotonSource:diffuse field")': v["olddiffuse"] is not None,
        '_parameter_file.get_value<bool>("TaskBasedIonizationSimulation:diffuse field",false)': v["diffuse"],
        '_parameter_file.get_value<bool>("TaskBasedIonizationSimulation:enable trackers",false)': v["trackers"],
        "_abundance_model:=AbundanceModelFactory::generate": True,
        "_cross_sections:=CrossSectionsFactory::generate": True,
        "_recombination_rates:=RecombinationRatesFactory::generate": True,
        "_density_grid_writer:=DensityGridWriterFactory::generate": True,
    }
    bits = []
    for o in opts:
        if o not in table:
            raise RuntimeError("C12: option %r of TaskBasedIonizationSimulation is not understood by the check (tools/props/c12.py tbis_env)" % o)
        bits.append(int(bool(table[o])))
    return bits


def tbis_ops(info, ctx):
    u = info["units"]["taskBasedIonizationSimulation"]
    vs = []
    base = dict(df=1, psd=1, lum0=0, spec=1, cps=0, cpsspec=None, cflux0=0, diffuse=0, trackers=0, rh=None, olddiffuse=None)
    vs.append(dict(base))
    vs.append(dict(base, diffuse=1, rh="Physical"))
    vs.append(dict(base, diffuse=1))                       # flag on, handler type None
    vs.append(dict(base, olddiffuse=1))                    # deprecated block
    vs.append(dict(base, olddiffuse=0))
    vs.append(dict(base, trackers=1))
    vs.append(dict(base, trackers=1, diffuse=1, rh="Physical"))
    vs.append(dict(base, cps=1, cpsspec=1))
    vs.append(dict(base, cps=1, cpsspec=1, cflux0=1))      # continuous source deleted in the constructor
    vs.append(dict(base, cps=1, cpsspec=1, lum0=1))        # discrete source deleted in the constructor
    vs.append(dict(base, cps=0, cpsspec=1))                # spectrum without source
    vs.append(dict(base, cps=0, cpsspec=0))
    vs.append(dict(base, psd=0, spec=0, cps=1, cpsspec=1))  # only a continuous source
    vs.append(dict(base, psd=0, spec=1, cps=1, cpsspec=1))
    vs.append(dict(base, df=0))
    vs.append(dict(base, cps=1, cpsspec=1, trackers=1, diffuse=1, rh="Physical", olddiffuse=None))
    for _ in range(ctx.budget(4, 24)):
        v = dict(base)
        v["cps"] = ctx.rng.choice([0, 1])
        v["cpsspec"] = 1 if v["cps"] else ctx.rng.choice([None, 0, 1])
        v["psd"] = 1 if not v["cps"] else ctx.rng.choice([0, 1])
        v["spec"] = ctx.rng.choice([0, 1]) if not v["psd"] else 1
        v["lum0"] = ctx.rng.choice([0, 0, 1]) if (v["psd"] and v["cps"]) else 0
        v["cflux0"] = ctx.rng.choice([0, 0, 1]) if (v["cps"] and v["psd"] and not v["lum0"]) else 0
        v["diffuse"] = ctx.rng.choice([0, 1])
        v["rh"] = ctx.rng.choice([None, "Physical", "None"])
        v["olddiffuse"] = ctx.rng.choice([None, None, 0, 1]) if v["rh"] is None else None
        v["trackers"] = ctx.rng.choice([0, 1])
        vs.append(v)
    ops, meta = [], []
    for i, v in enumerate(vs):
        bits = tbis_env(v, u["opts"])
        nth = 1 + i % 4
        ops.append("tbis %d %s %s %s" % (nth, "".join(map(str, bits)) or "-", hexs(tbis_variant_yaml(v)), hexs(tracker_yaml("SW"))))
        meta.append(("tbis", tuple(sorted((k, str(x)) for k, x in v.items())) + (("threads", nth),)))
    return ops, meta


PSD_UNITS = [("urm", "uniformRandomPSD"), ("urr", "uniformRandomPSDRestart"), ("dpm", "discPatchPSD"),
             ("dpr", "discPatchPSDRestart"), ("cam", "caproniPSD"), ("car", "caproniPSDRestart")]


def psd_ops(info, ctx):
    """the three random photon source distributions, normal and restart constructor, source
    output off / on.  Options other than the output switch (loop and data conditions) only guard
    dereferences, which are not part of the comparison: they are set to 1."""
    ops, meta = [], []
    for short, lname in PSD_UNITS:
        u = info["units"][lname]
        flags = [i for i, o in enumerate(u["opts"]) if o in ("output_sources", "has_output")]
        if len(flags) != 1:
            raise RuntimeError("C12: %s: the source-output switch was not found among the options %r" % (lname, u["opts"]))
        for out in (0, 1):
            bits = ["1"] * len(u["opts"])
            bits[flags[0]] = str(out)
            ops.append("%s %d %s 00" % (short, out, "".join(bits)))
            meta.append((short, out))
    return ops, meta


def canon(line):
    """comparable part of an answer line: unit, after, owned, dtor, end"""
    l = vlib.strip_branch(line)
    m = re.match(r"(\w+) after=(\S*) owned=(\S*) ctor=(\S*) dtor=(\S*) end=(\S*)", l)
    if not m:
        return None
    return [m.group(1), m.group(2), m.group(3), m.group(5), m.group(6)]


def cmp_lines(impl, model, op):
    a, b = canon(impl), canon(model)
    if a is None or b is None:
        return False
    # a vector without elements ('x' on the implementation side) has no representative element:
    # drop that field from the model's answer
    empty = [i for i, ch in enumerate(a[1]) if ch == "x"]
    if empty:
        def drop_chars(s):
            return "".join(ch for i, ch in enumerate(s) if i not in empty)

        def drop_items(s):
            return ".".join(x for x in s.split(".") if x and int(re.sub(r"\D", "", x)) not in empty)
        a = [a[0], drop_chars(a[1]), drop_items(a[2]), drop_items(a[3]), drop_chars(a[4])]
        b = [b[0], drop_chars(b[1]), drop_items(b[2]), drop_items(b[3]), drop_chars(b[4])]
    return a == b


INFO_CACHE = os.path.join(vlib.BUILD, "gen", "c12_info.json")


def save_info(info):
    slim = {"hpp_dir": info["hpp_dir"], "units": {k: {kk: v[kk] for kk in ("name", "fields", "opts", "optkeys")} for k, v in info["units"].items()}}
    with open(INFO_CACHE, "w") as f:
        json.dump(slim, f)


def oracle_search(ctx):
    """the translator failed: no model to compare with.  Still construct the real classes (with the
    field table of the last good translation, if the harness still compiles with it) and report
    what the property's own oracle finds — a concrete failing input instead of 'no-failing-input-found'."""
    if not os.path.exists(INFO_CACHE) or not os.path.exists(os.path.join(vlib.BUILD, "gen", "c12_gen.hpp")):
        return
    info = json.load(open(INFO_CACHE))
    for u in info["units"].values():
        u["optkeys"] = {k: tuple(v) for k, v in u["optkeys"].items()}
    lib = os.path.join(vlib.FULL, "lib")
    try:
        h = vlib.build_harness("c12", extra=["-I" + info["hpp_dir"]],
                               libs=[os.path.join(lib, "libTaskBasedEngine.a"), os.path.join(lib, "libSharedEngine.a")])
        ops = []
        for f in (lom_ops, tm_ops, tbis_ops, psd_ops):
            try:
                ops += f(info, ctx)[0]
            except RuntimeError:
                pass
    except vlib.HarnessBuildError:
        return
    rc, out, err = vlib.run_exe(h, "\n".join(ops) + "\n", args=["--leak-ok=" + ",".join(LEAKS_STATED_IN_LEAN)])
    impl, orc = vlib.split_oracle(out)
    ctx.cov["correspondence_streams"]["lifecycle-oracles-only"] = {"lines": len(ops), "oracle_failures": len(orc)}
    for o in orc:
        m = re.search(r"line=(\d+)", o)
        i = int(m.group(1)) - 1 if m else 0
        what = re.sub(r"line=\d+\s*", "", o[len("ORACLE"):]).strip()
        mm = re.search(r"(\w+::\w+)", what)
        ctx.violation("lifecycle:" + what.split()[0] + ":" + (mm.group(1) if mm else ops[i].split()[0]),
                      "property fails on the implementation: " + what, {"stream": "lifecycle", "ops": [ops[i]], "oracle": o})


def correspondence(ctx, info, ok):
    lib = os.path.join(vlib.FULL, "lib")
    h = vlib.build_harness("c12", extra=["-I" + info["hpp_dir"]],
                           libs=[os.path.join(lib, "libTaskBasedEngine.a"), os.path.join(lib, "libSharedEngine.a")])
    ops, meta = [], []
    for f in (lom_ops, tm_ops, tbis_ops, psd_ops):
        o, m = f(info, ctx)
        ops += o
        meta += m
    corpus = vlib.corpus_ops("C12")
    allops = corpus + ops
    n, impl, model, orc = ctx.correspond(
        "lifecycle", h, vlib.driver("drv_c12"), allops, cmp=cmp_lines,
        harness_args=["--leak-ok=" + ",".join(LEAKS_STATED_IN_LEAN)],
        oracle_key=lambda what, grp: "lifecycle:" + what.split()[0] + ":" + (re.search(r"(\w+::\w+)", what).group(1) if re.search(r"(\w+::\w+)", what) else grp[0].split()[0]),
        describe=None)
    raw = {}
    for i, op in enumerate(allops):
        ctx.count()
        w = op.split()
        ml = model[i] if i < len(model) else ""
        il = impl[i] if i < len(impl) else ""
        c = canon(ml)
        nontriv = bool(c and ("o" in c[1]))
        ctx.distinct((w[0], w[1], w[2], hashlib.sha256(op.encode()).hexdigest()[:12]), nontrivial=nontriv)
        ctx.branch("unit-" + w[0])
        if c:
            for ch in set(c[1]):
                ctx.branch("after-ctor-" + {"o": "owned", "n": "null", "u": "uninit", "f": "freed"}.get(ch, ch))
            if c[3]:
                ctx.branch("dtor-frees")
            else:
                ctx.branch("dtor-frees-nothing")
        tag = ml.split(" #")[1] if " #" in ml else ""
        m = re.search(r"delnull=(\d+)", tag)
        if m and int(m.group(1)) > 0:
            ctx.branch("delete-of-null")
        if "ctor=F" in ml:
            ctx.branch("freed-inside-constructor")
        m = re.search(r"rawleak=(\d+):(\d+)", il)
        if m:
            raw[w[0]] = max(raw.get(w[0], 0), int(m.group(1)))
            # owners that keep their ParameterFile inside: every block allocated by the constructor
            # (also by sub-objects) must be gone after the destructor
            if w[0] in ("tbis", "urm", "urr", "cam", "car") and int(m.group(1)) > 0:
                ctx.violation("lifecycle:raw-leak:" + w[0], "%s blocks (%s bytes) allocated by the constructor are still alive after the destructor of unit %s"
                              % (m.group(1), m.group(2), w[0]), {"stream": "lifecycle", "ops": [op], "impl": il})
    # option coverage: every option seen true and false (where the generator could set it)
    for uname, short in (("liveOutputManager", "lom"), ("taskBasedIonizationSimulation", "tbis")):
        nopt = len(info["units"][uname]["opts"])
        seen = [set() for _ in range(nopt)]
        for op in ops:
            w = op.split()
            if w[0] == short and w[2] != "-":
                for j, ch in enumerate(w[2]):
                    seen[j].add(ch)
        ctx.cov.setdefault("options_seen_both_ways", {})[short] = "%d/%d" % (sum(1 for s in seen if len(s) == 2), nopt)
    ctx.cov["raw_blocks_alive_after_dtor_max"] = raw
    for j in (0, len(corpus) + 5, len(allops) - 1):
        if j < len(allops):
            ctx.sample({"op": allops[j][:60] + "...", "impl": impl[j] if j < len(impl) else None, "model": model[j] if j < len(model) else None})
    return n


# =========================================================================== helpers every worker calls

def util_oracles(ctx):
    """Utilities::argsort (the idle workers rank the per-thread queues with it; idle queues have
    size 0, so ties are the rule) on vectors of 0..100 elements with many ties, under
    AddressSanitizer: the result must be a permutation that sorts the input."""
    h = vlib.build_harness("c12_util", sanitize=True)
    ops = []
    for n in range(0, 101):
        vs = [[0] * n, [i % 2 for i in range(n)], [(n - i) // 3 for i in range(n)], [ctx.rng.randint(0, 3) for _ in range(n)]]
        if n % 10 == 0:
            vs.append([ctx.rng.randint(0, 1000) for _ in range(n)])
        for j, v in enumerate(vs):
            ops.append("argsort %s %d %s" % ("u" if j != 2 else "d", n, " ".join(map(str, v))))
    rc, out, err = vlib.run_exe(h, "\n".join(ops) + "\n", env={"ASAN_OPTIONS": "detect_leaks=0:halt_on_error=1", "UBSAN_OPTIONS": "print_stacktrace=1:halt_on_error=1"})
    ans, orc = vlib.split_oracle(out)
    st = ctx.cov["correspondence_streams"].setdefault("utilities-oracles", {"lines": 0, "mismatches": 0, "oracle_failures": 0})
    st["lines"] += len(ops)
    st["oracle_failures"] += len(orc)
    for op in ops[:len(ans)]:
        ctx.count()
        ctx.distinct(("util", op), nontrivial=int(op.split()[2]) > 1)
    ctx.branch("util-argsort", len(ans))
    for o in orc[:3]:
        m = re.search(r"line=(\d+)", o)
        i = int(m.group(1)) - 1 if m else 0
        what = re.sub(r"line=\d+\s*", "", o[len("ORACLE"):]).strip()
        ctx.violation("util:" + what.split()[0], "Utilities::argsort fails on the implementation: %s; input: %s" % (what, ops[i][:200]), {"stream": "utilities", "ops": [ops[i]], "oracle": o})
    if rc != 0:
        k = min(len(ans), len(ops) - 1)
        m = SAN_RE.search(err)
        ctx.violation("util:argsort-invalid-memory-access", "Utilities::argsort: the sanitized harness died (status %d) on the vector of %s elements: %s; input: %s"
                      % (rc, ops[k].split()[2], (err[m.start():m.start() + 200].replace("\n", " | ") if m else err[-200:]), ops[k][:200]),
                      {"stream": "utilities", "ops": [ops[k]], "stderr": re.sub(r"0x[0-9a-f]{6,}", "0x..", re.sub(r"==\d+==", "==pid==", err[:1500]))})


# =========================================================================== whole runs (SEARCH)

def b(v):
    return "true" if v else "false"


def rhd_param(c):
    """parameter file of one task-based RHD configuration c (dict)"""
    lay = c["layout"]
    cps = c.get("cells", (2, 2, 2))
    nc = [lay[i] * cps[i] for i in range(3)]
    per = c.get("per", (False, False, False))
    anchor = c.get("anchor", (0., 0., 0.))
    sides = c.get("sides", (1., 1., 1.))
    bt = lambda p: "periodic" if p else c.get("boundary", "reflective")
    centre = [anchor[i] + 0.5 * sides[i] for i in range(3)]
    t = "SimulationBox:\n  anchor: [%g m, %g m, %g m]\n  sides: [%g m, %g m, %g m]\n  periodicity: [%s, %s, %s]\n" % (
        anchor + sides + tuple(b(p) for p in per))
    t += "DensityGrid:\n  number of cells: [%d, %d, %d]\n" % tuple(nc)
    t += "DensitySubGridCreator:\n  number of subgrids: [%d, %d, %d]\n  periodicity: [%s, %s, %s]\n" % (tuple(lay) + tuple(b(p) for p in per))
    t += "HydroBoundaryManager:\n"
    for ax, p in zip("xyz", per):
        t += "  boundary %s high: %s\n  boundary %s low: %s\n" % (ax, bt(p), ax, bt(p))
    t += "DensityFunction:\n  type: Homogeneous\n  density: %s\n  temperature: 100. K\n" % c.get("density", "1. m^-3")
    if c.get("source", "inside") == "inside":
        t += "PhotonSourceDistribution:\n  type: SingleStar\n  position: [%g m, %g m, %g m]\n  luminosity: %s s^-1\n" % (tuple(centre) + (c.get("luminosity", "1.e10"),))
    elif c["source"] == "discpatch":
        # time-dependent sources well inside the box: a thin disc around the mid-plane
        t += ("PhotonSourceDistribution:\n  type: DiscPatch\n  source lifetime: %g s\n  source luminosity: %s s^-1\n  average number of sources: %d\n"
              "  anchor x: %g m\n  sides x: %g m\n  anchor y: %g m\n  sides y: %g m\n  origin z: %g m\n  scaleheight z: %g m\n  random seed: %d\n  update interval: %g s\n  starting time: 0. s\n" % (
                  c.get("lifetime", 0.001), c.get("luminosity", "1.e10"), c.get("nsources", 4), anchor[0] + 0.2 * sides[0], 0.6 * sides[0], anchor[1] + 0.2 * sides[1], 0.6 * sides[1],
                  centre[2], 0.02 * sides[2], c.get("source_seed", 42), c.get("update_interval", 0.0005)))
    elif c["source"] == "uniformrandom":
        t += ("PhotonSourceDistribution:\n  type: UniformRandom\n  source lifetime: %g s\n  source luminosity: %s s^-1\n  number of sources: %d\n"
              "  box anchor: [%g m, %g m, %g m]\n  box sides: [%g m, %g m, %g m]\n  random seed: %d\n  update interval: %g s\n  starting time: 0. s\n" % (
                  (c.get("lifetime", 0.001), c.get("luminosity", "1.e10"), c.get("nsources", 4)) + tuple(anchor[i] + 0.2 * sides[i] for i in range(3)) + tuple(0.6 * x for x in sides)
                  + (c.get("source_seed", 42), c.get("update_interval", 0.0005))))
    elif c["source"] == "none":
        t += "PhotonSourceDistribution:\n  type: None\n"
    elif c["source"] == "default":
        pass   # the default SingleStar at [0,0,0]
    t += "PhotonSourceSpectrum:\n  type: Monochromatic\n  frequency: 13.6 eV\n"
    t += "TaskBasedRadiationHydrodynamicsSimulation:\n"
    t += "  total time: %g s\n  snapshot time: %g s\n" % (c.get("total_time", 0.004), c.get("snaptime", 0.002))
    t += "  do radiation: %s\n" % b(c.get("radiation", False))
    if c.get("radiation"):
        t += "  number of iterations: %d\n  number of photons: %d\n  radiation time: %g s\n  source copy level: %d\n" % (
            c.get("iterations", 2), c.get("photons", 500), c.get("radtime", 0.002), c.get("copy_level", 1))
    for k, name in (("diffuse", "diffuse field"), ("gravity", "external gravity"), ("mask", "use mask"), ("turbulence", "turbulent forcing"),
                    ("cooling", "do radiative cooling"), ("feedback", "do stellar feedback")):
        if c.get(k) is not None:
            t += "  %s: %s\n" % (name, b(c[k]))
    t += "  number of buffers: %d\n  queue size per thread: %d\n  shared queue size: %d\n  number of tasks: %d\n" % (
        c.get("nbuf", 4000), c.get("queue", 5000), c.get("queue", 5000), c.get("ntasks", 30000))
    t += "DensityGridWriter:\n  type: Gadget\n  prefix: snap\n  padding: 3\n"
    t += "Hydro:\n  polytropic index: 1.6666666667\n"
    t += "RestartManager:\n  output interval: %s\n  maximum number of backups: %d\n" % (c.get("restart_interval", "100000. s"), c.get("backups", 1))
    if c.get("diffuse"):
        t += "DiffuseReemissionHandler:\n  type: %s\n" % c.get("reemission", "Physical")
    if c.get("gravity"):
        t += "ExternalPotential:\n  type: PointMass\n  position: [%g m, %g m, %g m]\n  mass: 1. kg\n" % tuple(centre)
    if c.get("mask"):
        mc = c.get("mask_centre") or centre
        t += "HydroMask:\n  type: RescaledIC\n  center: [%g m, %g m, %g m]\n  radius: %g m\n  delta t: 0.001 s\n" % (tuple(mc) + (c.get("mask_radius", 0.2) * min(sides),))
    if c.get("turbulence"):
        t += "TurbulenceForcing:\n  forcing power: 1.e-4 m^2 s^-3\n  time step: 0.001 s\n"
    if c.get("fields"):
        t += "DensityGridWriterFields:\n" + "".join("  %s: %d\n" % kv for kv in c["fields"].items())
    if c.get("live") is not None:
        t += "LiveOutputManager:\n  enabled: %s\n  output interval: 0.002 s\n" % b(c["live"])
        for k, name in (("live_sd", "output surface density"), ("live_isd", "output ionized surface density"),
                        ("live_dpdf", "output density PDF"), ("live_vpdf", "output velocity PDF")):
            if c.get(k) is not None:
                t += "  %s: %s\n" % (name, b(c[k]))
    return t


def tbi_cells(c):
    lay = c.get("layout", (2, 2, 2))
    if c.get("cells"):
        return tuple(lay[i] * c["cells"][i] for i in range(3))
    return (8, 8, 8)


def tbi_param(c):
    """parameter file of one task-based ionization configuration"""
    t = """SimulationBox:
  anchor: [0. m, 0. m, 0. m]
  sides: [1. m, 1. m, 1. m]
  periodicity: [false, false, false]
DensityGrid:
  number of cells: [%d, %d, %d]
DensitySubGridCreator:
  number of subgrids: [%d, %d, %d]
DensityFunction:
  type: Homogeneous
  density: 100. cm^-3
  temperature: 8000. K
TemperatureCalculator:
  do temperature calculation: %s
PhotonSourceSpectrum:
  type: Monochromatic
  frequency: 13.6 eV
DensityGridWriter:
  type: %s
  prefix: snap
  padding: 3
""" % (tbi_cells(c) + tuple(c.get("layout", (2, 2, 2))) + (b(c.get("temperature", False)), c.get("writer", "AsciiFile")))
    if c.get("source", "inside") == "inside":
        t += "PhotonSourceDistribution:\n  type: SingleStar\n  position: [0.55 m, 0.55 m, 0.55 m]\n  luminosity: 1.e40 s^-1\n"
    else:
        t += "PhotonSourceDistribution:\n  type: None\n"
    if c.get("continuous"):
        t += "ContinuousPhotonSource:\n  type: Isotropic\nContinuousPhotonSourceSpectrum:\n  type: Monochromatic\n  frequency: 13.6 eV\n  total flux: 1.e10 m^-2 s^-1\n"
    t += "TaskBasedIonizationSimulation:\n  number of iterations: %d\n  number of photons: %d\n  number of buffers: %d\n  queue size per thread: %d\n  shared queue size: %d\n  number of tasks: %d\n  source copy level: %d\n" % (
        c.get("iterations", 2), c.get("photons", 1000), c.get("nbuf", 20000), c.get("queue", 5000), c.get("queue", 5000), c.get("ntasks", 20000), c.get("copy_level", 2))
    if c.get("diffuse"):
        t += "  diffuse field: true\nDiffuseReemissionHandler:\n  type: Physical\n"
    if c.get("fields"):
        t = t.replace("TaskBasedIonizationSimulation:\n", "DensityGridWriterFields:\n" + "".join("  %s: %d\n" % kv for kv in c["fields"].items()) + "TaskBasedIonizationSimulation:\n")
    if c.get("trackers"):
        t += "  enable trackers: true\n" if not c.get("diffuse") else ""
        if c.get("diffuse"):
            t = t.replace("  diffuse field: true\n", "  diffuse field: true\n  enable trackers: true\n")
        t += "TrackerManager:\n  filename: trackers.yml\n"
    return t


def run_binary(binary, param, args, threads, aux=None, timeout=60, env=None, keepdir=None, wrapper=None):
    d = keepdir or tempfile.mkdtemp(prefix="verif_c12_")
    for name, text in (aux or {}).items():
        with open(os.path.join(d, name), "w") as f:
            f.write(text)
    if wrapper:
        # e.g. valgrind: a tiny script that execs `wrapper... binary "$@"`
        sh = os.path.join(d, "wrapped.sh")
        with open(sh, "w") as f:
            f.write("#!/bin/sh\nexec %s %s \"$@\"\n" % (" ".join(wrapper), binary))
        os.chmod(sh, 0o755)
        binary = sh
    res = simrun.run_sim(binary, param, list(args) + ["--dirty"], threads=threads, timeout=timeout, trace=False, env=env, workdir=d)
    res["files"] = sorted(os.listdir(d))
    return res, d


def live_expect(c):
    expect = [r"snap\d+\.hdf5"]
    if c.get("live"):
        for k, pat in (("live_sd", "surface_density_"), ("live_isd", "ionized_surface_density_"), ("live_dpdf", "density_PDF_"), ("live_vpdf", "velocity_PDF_")):
            if c.get(k, k != "live_isd"):
                expect.append(pat + r"\d+\.txt")
    return expect


LIVE_ALL = dict(live=True, live_sd=True, live_isd=True, live_dpdf=True, live_vpdf=True)
# capacities just above what a step of the tiny problems needs (calibrated: an 8-subgrid radiation
# step needs ~250 task slots at once, the hydro step ~160 queue entries): the pools (tasks, photon
# buffers) wrap around and are re-used many times within one step
SMALL = dict(ntasks=400, nbuf=60, queue=300)


def rhd_configs(ctx):
    """(name, config, threads, in-quick-sanitizer-subset) of the task-based RHD runs.  Every named
    configuration gets unequal numbers of cells per subgrid; over the list every ordering occurs."""
    cs = []
    base = dict(layout=(2, 2, 1), per=(False, False, False))
    named = [
        ("rhd-plain", dict(base), 1),
        ("rhd-live-default", dict(base, live=True), 2),
        ("rhd-live-off", dict(base, live=False), 2),
        ("rhd-live-all", dict(base, **LIVE_ALL), 3),
        ("rhd-live-none-of-four", dict(base, live=True, live_sd=False, live_isd=False, live_dpdf=False, live_vpdf=False), 1),
        ("rhd-mask", dict(base, mask=True), 2),
        ("rhd-turbulence", dict(base, layout=(2, 2, 2), per=(True, True, True), turbulence=True), 4),
        ("rhd-gravity", dict(base, gravity=True), 1),
        ("rhd-cooling", dict(base, cooling=True), 2),
        ("rhd-radiation", dict(base, radiation=True, layout=(2, 2, 2)), 2),
        ("rhd-radiation-diffuse-live", dict(base, radiation=True, diffuse=True, live=True, live_isd=True, layout=(2, 1, 2)), 3),
        ("rhd-radiation-mask-turbulence", dict(base, radiation=True, mask=True, turbulence=True, layout=(2, 2, 2)), 4),
        ("rhd-one-subgrid", dict(base, layout=(1, 1, 1), live=True), 1),
    ]
    for i, (name, c, th) in enumerate(named):
        c["cells"] = ORDERINGS[i % 6]
        cs.append((name, c, th, False))
    # stress: every ordering of unequal cells per subgrid with all live outputs on, the other
    # optional components rotating, radiation with small pools in several steps
    rot = [dict(radiation=True, **SMALL), dict(mask=True, turbulence=True, per=(True, True, True)), dict(radiation=True, diffuse=True, photons=3000, iterations=3, **SMALL),
           dict(gravity=True, cooling=True), dict(radiation=True, mask=True, photons=2000, **SMALL), dict(turbulence=True, per=(True, False, True))]
    for i, cells in enumerate(ORDERINGS):
        c = dict(layout=(2, 2, 2) if i % 2 == 0 else (2, 1, 2), cells=cells, total_time=0.003, radtime=0.001, snaptime=0.0015, **LIVE_ALL)
        c.update(rot[i])
        cs.append(("rhd-stress-cells-%dx%dx%d" % cells, c, 1 + i % 4, True))
    # the pools wrap around: many photons, three iterations, several radiation steps, few task slots
    cs.append(("rhd-stress-small-pools", dict(layout=(2, 2, 2), cells=(4, 4, 4), radiation=True, photons=20000, iterations=3, total_time=0.002, radtime=0.0005,
                                              snaptime=0.001, ntasks=1000, nbuf=300, queue=400, density="1.e19 m^-3", live=True), 2, True))
    cs.append(("rhd-stress-small-pools-diffuse", dict(layout=(2, 2, 1), cells=(4, 2, 6), radiation=True, diffuse=True, photons=8000, iterations=2, total_time=0.002, radtime=0.0005,
                                                      snaptime=0.001, ntasks=500, nbuf=100, queue=300, density="1.e20 m^-3", **LIVE_ALL), 4, True))
    # data races: the optional components with per-subgrid state on 8 (4) threads, repeated (a race
    # shows as crash / hang / memory checker report in some of the repetitions).  Masks with
    # subgrids entirely inside, entirely outside and straddling the mask sphere.
    rep = ctx.budget(3, 6)
    # (measured on a seeded race in per-subgrid mask state: 64 subgrids on 8 threads 0/6 failing
    # runs, 512 subgrids 5/6 - a race needs many subgrids per thread to show)
    cs.append(("rhd-race-mask-inside-outside-8t", dict(layout=(8, 8, 4), cells=(2, 2, 3), mask=True, mask_centre=(0.4375, 0.4375, 0.375), mask_radius=0.2, live=True,
                                                       total_time=0.0005, snaptime=0.0005), 8, True, rep))
    cs.append(("rhd-race-mask-small-sphere-8t", dict(layout=(8, 8, 8), cells=(2, 2, 2), mask=True, mask_radius=0.12, per=(True, True, False),
                                                     total_time=0.0005, snaptime=0.0005), 8, False, rep))
    cs.append(("rhd-race-live-8t", dict(layout=(8, 4, 8), cells=(2, 3, 2), total_time=0.0005, snaptime=0.00025, **LIVE_ALL), 8, False, rep))
    cs.append(("rhd-race-radiation-mask-4t", dict(layout=(6, 6, 4), cells=(2, 2, 2), mask=True, mask_radius=0.15, radiation=True, diffuse=True, photons=3000, copy_level=2,
                                                  total_time=0.001, radtime=0.0005, snaptime=0.001, ntasks=20000, nbuf=3000, queue=8000), 4, False, 2))
    # recycled task slots, subgrid copies that are deleted and re-created between the steps:
    # radiation + diffuse field + copies + sources that appear and disappear, >= 8 radiation steps
    moving = dict(radiation=True, diffuse=True, reemission="FixedValue", copy_level=1, source="discpatch", lifetime=0.0008, update_interval=0.0004, nsources=4,
                  photons=2000, iterations=1, total_time=0.0036, radtime=0.0004, snaptime=0.0018, ntasks=2000, nbuf=400, queue=1000)
    cs.append(("rhd-moving-sources-discpatch", dict(layout=(4, 4, 2), cells=(2, 2, 4), live=True, **moving), 2, True, 1))
    if ctx.thorough:
        cs.append(("rhd-moving-sources-uniformrandom", dict(layout=(3, 3, 3), cells=(2, 3, 2), **dict(moving, source="uniformrandom", copy_level=2, reemission="Physical")), 4, False, 1))
        cs.append(("rhd-moving-sources-discpatch-many", dict(layout=(4, 2, 4), cells=(3, 2, 2), mask=True, mask_radius=0.15, **dict(moving, nsources=8, lifetime=0.0005, update_interval=0.0002, copy_level=2)), 3, False, 1))
        cs.append(("rhd-moving-sources-iterations", dict(layout=(2, 4, 4), cells=(4, 2, 2), **dict(moving, iterations=3, photons=2000, source_seed=7)), 1, False, 1))
    if ctx.thorough:
        # every optional component with every ordering of unequal cells per subgrid
        comps = [("live", dict(LIVE_ALL)), ("mask", dict(mask=True, live=True)), ("turbulence", dict(turbulence=True, per=(True, True, True))), ("gravity", dict(gravity=True)),
                 ("cooling", dict(cooling=True)), ("radiation", dict(radiation=True, live=True, live_isd=True, **SMALL)), ("radiation-diffuse", dict(radiation=True, diffuse=True, **SMALL))]
        for cname, extra in comps:
            for j, cells in enumerate(ORDERINGS):
                c = dict(layout=[(2, 2, 1), (1, 2, 2), (2, 1, 2)][j % 3], cells=cells, total_time=0.003, radtime=0.001)
                c.update(extra)
                cs.append(("rhd-%s-cells-%dx%dx%d" % ((cname,) + cells), c, 1 + (j + len(cname)) % 4, False))
    n_extra = ctx.budget(3, 14)
    for i in range(n_extra):
        c = dict(layout=tuple(ctx.rng.choice([1, 2, 3]) for _ in range(3)), per=tuple(ctx.rng.choice([False, True]) for _ in range(3)),
                 cells=tuple(ctx.rng.choice([2, 3, 4]) for _ in range(3)))
        for k in ("mask", "turbulence", "gravity", "cooling", "radiation"):
            c[k] = ctx.rng.random() < 0.4
        if c["radiation"]:
            # photon packets in a periodic box of negligible optical depth travel for ever
            # (physics, not a defect): radiation only in boxes with open walls
            c["per"] = (False, False, False)
            if ctx.rng.random() < 0.5:
                c.update(SMALL)
                c["photons"] = ctx.rng.choice([500, 3000])
        c["diffuse"] = c["radiation"] and ctx.rng.random() < 0.5
        if ctx.rng.random() < 0.7:
            c["live"] = ctx.rng.random() < 0.7
            for k in ("live_sd", "live_isd", "live_dpdf", "live_vpdf"):
                if ctx.rng.random() < 0.6:
                    c[k] = ctx.rng.random() < 0.5
        cs.append(("rhd-random-%d" % i, c, ctx.rng.choice([1, 2, 3, 4]), False))
    return cs


def tbi_configs(ctx):
    """(name, config, tracker types, threads, in-quick-sanitizer-subset)"""
    cs = []
    cs.append(("tbi-plain", dict(cells=(4, 2, 3)), None, 1, False))
    cs.append(("tbi-diffuse", dict(diffuse=True, cells=(2, 3, 4)), None, 2, False))
    cs.append(("tbi-temperature", dict(temperature=True, cells=(3, 4, 2)), None, 3, False))
    cs.append(("tbi-continuous", dict(continuous=True, cells=(4, 3, 2)), None, 2, False))
    cs.append(("tbi-only-continuous", dict(continuous=True, source="none", cells=(2, 4, 3)), None, 1, False))
    cs.append(("tbi-trackers", dict(trackers=True, cells=(3, 2, 4)), "SBA", 2, False))
    cs.append(("tbi-trackers-same-cell", dict(trackers=True, same_cell=True), "SSA", 3, False))
    cs.append(("tbi-trackers-weighted", dict(trackers=True, diffuse=True), "WSW", 4, False))
    cs.append(("tbi-trackers-weighted-in-copied-subgrid", dict(trackers=True, copy_level=3, tracker_x=0.6), "W", 2, False))
    # small pools: buffers and tasks are re-used many times within one iteration
    cs.append(("tbi-stress-small-pools", dict(diffuse=True, trackers=True, cells=(2, 4, 3), photons=20000, iterations=3, ntasks=300, nbuf=150, queue=300, copy_level=1), "SW", 3, True))
    cs.append(("tbi-stress-small-pools-continuous", dict(continuous=True, temperature=True, cells=(4, 2, 3), layout=(2, 2, 1), photons=10000, ntasks=300, nbuf=150, queue=300, copy_level=2), None, 2, True))
    # trackers (per-cell state shared between a subgrid and its copies) on 8 threads, repeated
    cs.append(("tbi-race-trackers-8t", dict(trackers=True, diffuse=True, cells=(3, 2, 4), layout=(4, 4, 4), photons=20000, iterations=2, copy_level=2, tracker_x=None,
                                            ntasks=10000, nbuf=3000, queue=5000), "SWASB", 8, True, ctx.budget(3, 6)))
    if ctx.thorough:
        for j, cells in enumerate(ORDERINGS):
            cs.append(("tbi-cells-%dx%dx%d" % cells, dict(cells=cells, layout=[(2, 2, 1), (1, 2, 2), (2, 1, 2)][j % 3], diffuse=j % 2 == 0, continuous=j % 3 == 0,
                                                          trackers=True, photons=5000, ntasks=400, nbuf=200, queue=300, copy_level=j % 3), "SAW", 1 + j % 4, False))
    n_extra = ctx.budget(2, 10)
    for i in range(n_extra):
        c = dict(diffuse=ctx.rng.random() < 0.5, temperature=ctx.rng.random() < 0.3, continuous=ctx.rng.random() < 0.3,
                 trackers=ctx.rng.random() < 0.6, copy_level=ctx.rng.choice([0, 1, 2, 3]),
                 layout=tuple(ctx.rng.choice([1, 2, 4]) for _ in range(3)), same_cell=ctx.rng.random() < 0.3)
        if ctx.rng.random() < 0.5:
            c["cells"] = tuple(ctx.rng.choice([2, 3, 4]) for _ in range(3))
        types = "".join(ctx.rng.choice("SBAW") for _ in range(ctx.rng.randint(1, 4)))
        cs.append(("tbi-random-%d" % i, c, types if c["trackers"] else None, ctx.rng.choice([1, 2, 3, 4]), False))
    return cs


def tbi_tracker_yaml(types, c):
    t = "number of trackers: %d\n" % len(types)
    for i, ch in enumerate(types):
        x = c.get("tracker_x") or (0.3 if c.get("same_cell") else 0.1 + (0.25 * i) % 0.85)
        t += "tracker[%d]:\n  position: [%g m, 0.3 m, 0.6 m]\n%s" % (i, x, TRACKER_TYPES[ch])
    return t


SAN_RE = re.compile(r"(ERROR: AddressSanitizer|ERROR: LeakSanitizer|runtime error:|AddressSanitizer:DEADLYSIGNAL|SUMMARY: (Address|UndefinedBehavior|Leak)Sanitizer|== (Invalid|Conditional jump|Use of uninitialised|Mismatched free|Invalid free)|ERROR SUMMARY: [1-9])")


def classify_run(res, expect_files):
    """-> (ok, what)"""
    if res["timed_out"]:
        return False, "did not finish (hang or livelock: no end within the time limit)"
    m = SAN_RE.search(res["log"])
    if m:
        return False, "memory checker report: " + res["log"][m.start():m.start() + 300].replace("\n", " | ")
    if res["rc"] != 0:
        sig = ""
        if res["rc"] < 0:
            sig = " (killed by signal %d)" % (-res["rc"])
        return False, "exit status %d%s" % (res["rc"], sig)
    for pat in expect_files:
        if not any(re.fullmatch(pat, f) for f in res["files"]):
            return False, "output file %s was not written" % pat
    return True, ""


def san_summary(log):
    m = re.search(r"(==\d+==ERROR: \w+Sanitizer:[^\n]*|[^\n]*runtime error:[^\n]*|==\d+== (?:Invalid|Conditional|Use of)[^\n]*)", log)
    frames = re.findall(r"(?:#\d+ 0x[0-9a-f]+ in|==\d+==\s+(?:at|by) 0x[0-9A-F]+:) ([^\n]+)", log)[:6]
    return (m.group(1) if m else "") + " || " + " <- ".join(f.strip()[:120] for f in frames)


def source_constants(ctx):
    """sizes of the implementation's internal blocks / buffers, read from the source of the tree
    under test so that a changed constant moves the runs with it (fail soft to the literals)"""
    src = os.path.join(vlib.REPO, "src")
    out = {}
    try:
        text = open(os.path.join(src, "GadgetDensityGridWriter.cpp"), encoding="utf-8").read()
        bs = sorted({int(x) for x in re.findall(r"\bblocksize\s*=\s*(\d+)\s*;", text)})
        bs = [x for x in bs if 8 <= x <= 200000]
    except OSError:
        bs = []
    if not bs:
        ctx.notes.append("C12: the snapshot writer's blocksize was not found in GadgetDensityGridWriter.cpp; the literal 10000 is used for the block-crossing runs")
        bs = [10000]
    out["writer_blocksize"] = bs
    try:
        m = re.search(r"#define\s+PHOTONBUFFER_SIZE\s+(\d+)", open(os.path.join(src, "PhotonBuffer.hpp"), encoding="utf-8").read())
        pb = int(m.group(1)) if m else None
    except OSError:
        pb = None
    if not pb or not (2 <= pb <= 100000):
        ctx.notes.append("C12: PHOTONBUFFER_SIZE was not found in PhotonBuffer.hpp; the literal 200 is used for the photon-batch crossing runs")
        pb = 200
    out["photon_buffer_size"] = pb
    ctx.cov["source_constants"] = out
    return out


def dims_for(target, rel):
    """numbers of cells (nx, ny, nz) of one subgrid, not too elongated, whose product is the
    largest below / equal to / the smallest above `target` (None when no such box exists)"""
    r = max(2, int(round(target ** (1. / 3.))))
    best = None
    for a in range(max(2, r // 2), 2 * r + 2):
        for bb in range(a, 2 * r + 2):
            for cc in {target // (a * bb) - 1, target // (a * bb), target // (a * bb) + 1}:
                if cc < bb or cc > 4 * a:
                    continue
                n = a * bb * cc
                ok = n < target if rel == "below" else n == target if rel == "at" else n > target
                if not ok:
                    continue
                score = (abs(n - target), cc - a)
                if best is None or score < best[0]:
                    best = (score, (a, bb, cc))
    return best[1] if best else None


def block_crossing_items(ctx):
    """subgrids whose number of cells crosses the snapshot writer's internal block size (just
    below / exactly at / just above one block, above two blocks), for both writer overloads the
    task-based modes reach; photon numbers that cross the photon buffer size"""
    k = source_constants(ctx)
    items = []
    for B in k["writer_blocksize"]:
        cases = [("below", dims_for(B, "below")), ("at", dims_for(B, "at")), ("above", dims_for(B, "above")), ("above-two-blocks", dims_for(2 * B, "above"))]
        for i, (rel, dims) in enumerate(cases):
            if dims is None:
                continue
            thorough_only = rel == "above-two-blocks"
            if thorough_only and not ctx.thorough:
                continue
            dims = tuple(dims[(j + i) % 3] for j in range(3))     # the long axis rotates
            # task-based RHD, HydroDensitySubGrid overload: two hydro steps, the final snapshot is always written
            c = dict(layout=(1, 1, 1), cells=dims, live=True, total_time=0.004, snaptime=0.004)
            items.append(dict(name="rhd-writer-block-%s-%d-cells" % (rel, dims[0] * dims[1] * dims[2]), kind="rhd-block", param=rhd_param(c), threads=2,
                              stages=[(["--task-based-rhd", "--number-of-steps", "2"], [r"snap\d+\.hdf5"])], san_quick=True))
            # task-based photoionization, DensitySubGrid overload of the same writer
            c = dict(layout=(1, 1, 1), cells=dims, writer="Gadget", photons=k["photon_buffer_size"] + 1, iterations=1, copy_level=0, ntasks=2000, nbuf=500, queue=1000)
            items.append(dict(name="tbi-writer-block-%s-%d-cells" % (rel, dims[0] * dims[1] * dims[2]), kind="tbi-block", param=tbi_param(c), threads=1,
                              stages=[(["--task-based"], [r"snap\d+\.hdf5"])], san_quick=True))
        if ctx.thorough:
            d = dims_for(B, "above")
            if d:
                c = dict(layout=(2, 1, 1), cells=d, live=True, mask=True, total_time=0.004, snaptime=0.004)
                items.append(dict(name="rhd-writer-block-above-two-subgrids", kind="rhd-block", param=rhd_param(c), threads=2,
                                  stages=[(["--task-based-rhd", "--number-of-steps", "2"], [r"snap\d+\.hdf5"])], san_quick=False))
                c = dict(layout=(1, 2, 1), cells=d, writer="Gadget", diffuse=True, photons=1000, iterations=1, copy_level=1, ntasks=3000, nbuf=800, queue=1500)
                items.append(dict(name="tbi-writer-block-above-two-subgrids", kind="tbi-block", param=tbi_param(c), threads=2,
                                  stages=[(["--task-based"], [r"snap\d+\.hdf5"])], san_quick=False))
    P = k["photon_buffer_size"]
    for n in [P - 1, P, P + 1] + ([2 * P, 2 * P + 1] if ctx.thorough else []):
        c = dict(cells=(2, 3, 2), layout=(2, 2, 2), photons=n, iterations=2, diffuse=True, copy_level=1, ntasks=2000, nbuf=300, queue=1000)
        items.append(dict(name="tbi-photon-batch-%d" % n, kind="tbi", param=tbi_param(c), threads=2, stages=[(["--task-based"], [r"snap\d+\.txt"])], san_quick=(n == P + 1)))
    c = dict(layout=(2, 2, 1), cells=(2, 2, 3), radiation=True, diffuse=True, photons=2 * P + 1, iterations=2, total_time=0.002, radtime=0.001, snaptime=0.001, **SMALL)
    items.append(dict(name="rhd-photon-batch-%d" % (2 * P + 1), kind="rhd-radiation", param=rhd_param(c), threads=2, stages=[(["--task-based-rhd"], [r"snap\d+\.hdf5"])], san_quick=False))
    return items


FIELDS_FALLBACK = """field 0 Coordinates single 0 vector 1 1
field 1 NumberDensity single 0 scalar 1 0
field 2 Temperature single 0 scalar 0 1
field 3 NeutralFraction ion 0 scalar 1 1
field 5 Density single 1 scalar 0 1
field 6 Velocities single 1 vector 0 1
field 7 Pressure single 1 scalar 0 1
ion 0 H
ion 1 He
heating 0 H
heating 1 He
"""


def output_field_table(ctx):
    """the keys DensityGridWriterFields accepts, by calling the real static functions of the tree
    under test (harness/c12_fields.cpp); literal fallback with a note"""
    text = None
    try:
        h = vlib.build_harness("c12_fields")
        rc, out, err = vlib.run_exe(h, "")
        if rc == 0 and "field" in out:
            text = out
    except vlib.HarnessBuildError:
        pass
    if text is None:
        ctx.notes.append("C12: the output field table could not be obtained from DensityGridWriterFields.hpp (harness/c12_fields.cpp does not build/run); a literal table is used")
        text = FIELDS_FALLBACK
    fields, ions, heat = [], [], []
    for l in text.split("\n"):
        w = l.split()
        if len(w) >= 6 and w[0] == "field":
            fields.append(dict(name=w[2], kind=w[3], hydro=w[4] == "1", vector=w[5] == "vector"))
        elif len(w) == 3 and w[0] == "ion":
            ions.append(w[2])
        elif len(w) == 3 and w[0] == "heating":
            heat.append(w[2])
    ctx.cov["output_fields"] = {"fields": [f["name"] for f in fields], "ions": ions, "heating_terms": heat}
    return fields, ions, heat


def field_keys(f, ions, heat):
    return [f["name"] + i for i in ions] if f["kind"] == "ion" else [f["name"] + i for i in heat] if f["kind"] == "heating" else [f["name"]]


KEY_ION_GAP = "run:output-ion-selected-without-lower-ions-buffer-overflow"


def has_ion_gap(flds, fields, ions, heat):
    """the configuration class of the recorded finding: an ion (heating term) of a field is
    switched on while a lower-numbered one of the same field is off"""
    for f in fields:
        if f["kind"] == "single":
            continue
        keys = field_keys(f, ions, heat)
        vals = [flds.get(k, 1 if (i == 0 and f["name"] == "NeutralFraction") else 0) for i, k in enumerate(keys)]
        on = [i for i, v in enumerate(vals) if v]
        if on and not all(vals[:max(on)]):
            return True
    return False


def output_option_items(ctx):
    """the snapshot writers' output options: several ions per field, everything on, (thorough) each
    field alone / with all its ions / everything off but the coordinates; Gadget writer in both
    task-based modes, the AsciiFile writer (which has a fixed field list) once"""
    fields, ions, heat = output_field_table(ctx)
    allkeys = [(f, k) for f in fields for k in field_keys(f, ions, heat)]
    sets = []
    many = {k: 1 for f, k in allkeys if f["kind"] != "single"}
    sets.append(("many-ions", many, True))
    sets.append(("everything-on", {k: 1 for f, k in allkeys}, True))
    if ctx.thorough:
        sets.append(("everything-off-but-coordinates", {k: int(f["name"] == "Coordinates") for f, k in allkeys}, False))
        sets.append(("two-ions", {k: 1 for f, k in allkeys if f["kind"] == "ion" and k in [f["name"] + i for i in ions[:2]]}, False))
        for f in fields:
            keys = field_keys(f, ions, heat)
            alone = {k: 0 for _, k in allkeys}
            alone.update({k: 1 for k in keys})
            alone.update({k: 1 for g, k in allkeys if g["name"] == "Coordinates"})
            sets.append(("only-" + f["name"], alone, False))
            if len(keys) > 2:
                last = {k: 0 for _, k in allkeys}
                last.update({keys[-1]: 1, keys[len(keys) // 2]: 1})
                sets.append(("two-far-" + f["name"], last, False))
    # recorded finding (found by this sweep): an ion selected without all lower-numbered ions
    ionf = [f for f in fields if f["kind"] == "ion"]
    if ionf and len(ions) >= 2:
        sets.insert(2, ("ion-without-lower-ions", {ionf[0]["name"] + ions[0]: 0, ionf[0]["name"] + ions[1]: 1}, True))
    items = []
    for i, (name, flds, sq) in enumerate(sets):
        gap = has_ion_gap(flds, fields, ions, heat)
        c = dict(layout=(2, 1, 2), cells=ORDERINGS[i % 6], writer="Gadget", fields=flds, photons=500, iterations=2, diffuse=i % 2 == 0, temperature=i % 3 == 0,
                 copy_level=1, ntasks=3000, nbuf=600, queue=1500)
        items.append(dict(name="tbi-fields-" + name, kind="tbi-fields", param=tbi_param(c), threads=1 + i % 3, stages=[(["--task-based"], [r"snap\d+\.hdf5"])], san_quick=sq,
                          **({"key": KEY_ION_GAP, "key_stage": 0} if gap else {})))
        c = dict(layout=(2, 2, 1), cells=ORDERINGS[(i + 3) % 6], fields=flds, live=True, radiation=i % 2 == 1, photons=401, total_time=0.001, radtime=0.0005, snaptime=0.0005,
                 ntasks=3000, nbuf=600, queue=1500)
        items.append(dict(name="rhd-fields-" + name, kind="rhd-fields", param=rhd_param(c), threads=1 + (i + 1) % 3, stages=[(["--task-based-rhd"], [r"snap\d+\.hdf5"])], san_quick=sq,
                          **({"key": KEY_ION_GAP, "key_stage": 0} if gap else {})))
    c = dict(cells=(3, 2, 4), fields=sets[1][1], photons=500)
    items.append(dict(name="tbi-fields-everything-on-asciifile", kind="tbi-fields", param=tbi_param(c), threads=2, stages=[(["--task-based"], [r"snap\d+\.txt"])], san_quick=False))
    return items


# command-line switches that select another simulation mode or are given to every run anyway
CLI_NOT_A_SWITCH = {"params", "threads", "dirty", "dusty-radiative-transfer", "rhd", "emission", "task-based", "task-based-rhd", "file"}
# how the check exercises each optional switch it knows: (mode, extra arguments)
CLI_KNOWN = {
    "verbose": ("both", ["--verbose"]), "logfile": ("both", ["--logfile", "run.log"]), "every-iteration-output": ("tbi", ["--every-iteration-output"]),
    "output-statistics": ("tbi", ["--output-statistics"]), "task-plot": ("tbi", ["--task-plot"]), "no-initial-output": ("tbi", ["--no-initial-output"]),
    "task-plot-rhd": ("rhd", ["--task-plot-rhd", "2"]), "output-time-unit": ("rhd", ["--output-time-unit", "Myr"]),
    "number-of-steps": ("rhd", ["--number-of-steps", "3"]),
}
CLI_ELSEWHERE = {"dry-run": "rhd-dry-run, tbi-dry-run", "restart": "restart-*", "number-of-steps": "restart-*, rhd-writer-block-*"}


def cli_switch_items(ctx, binary=None):
    """every optional switch of the command line (read from the add_option calls of the sources of
    the tree under test) appears in at least one run; coverage.cli_switches says where"""
    found = []
    for fn in ("CMacIonize.cpp", "TaskBasedRadiationHydrodynamicsSimulation.cpp", "TaskBasedIonizationSimulation.cpp", "RadiationHydrodynamicsSimulation.cpp"):
        try:
            text = open(os.path.join(vlib.REPO, "src", fn), encoding="utf-8").read()
        except OSError:
            continue
        text = re.sub(r"//[^\n]*", "", re.sub(r"/\*.*?\*/", "", text, flags=re.S))
        found += re.findall(r"add_(?:required_)?option(?:\s*<[^>]*>)?\s*\(\s*\"([\w-]+)\"", text)
    found = [x for i, x in enumerate(found) if x not in found[:i]]
    if not found:
        ctx.notes.append("C12: no add_option call found in the sources; the literal list of command-line switches is used")
        found = sorted(set(CLI_KNOWN) | {"dry-run", "restart", "use-version"})
    where = {}
    tbi_args, rhd_args = ["--task-based"], ["--task-based-rhd"]
    for o in found:
        if o in CLI_NOT_A_SWITCH:
            continue
        if o in CLI_ELSEWHERE:
            where[o] = CLI_ELSEWHERE[o]
        if o in CLI_KNOWN:
            mode, args = CLI_KNOWN[o]
            if mode in ("both", "tbi"):
                tbi_args += args
                where[o] = (where.get(o, "") + ", tbi-cli-switches").strip(", ")
            if mode in ("both", "rhd"):
                rhd_args += args
                where[o] = (where.get(o, "") + ", rhd-cli-switches").strip(", ")
        elif o == "use-version":
            where[o] = "cli-use-version-mismatch (must be refused with an error message)"
        elif o not in where:
            where[o] = "NOT exercised: the check does not know this switch"
    items = []
    c = dict(cells=(2, 4, 3), layout=(2, 2, 1), diffuse=True, trackers=True, photons=1000, iterations=3, copy_level=1)
    exp = [r"snap\d+\.txt"] + ([r"run\.log"] if "--logfile" in tbi_args else [])
    items.append(dict(name="tbi-cli-switches", kind="tbi", param=tbi_param(c), threads=3, aux={"trackers.yml": tbi_tracker_yaml("SA", c)}, stages=[(tbi_args, exp)], san_quick=True))
    c = dict(layout=(2, 2, 1), cells=(3, 2, 4), radiation=True, photons=401, live=True, total_time=0.002, radtime=0.0005, snaptime=0.0005, ntasks=3000, nbuf=600, queue=1500)
    exp = [r"snap\d+\.hdf5"] + ([r"run\.log"] if "--logfile" in rhd_args else [])
    items.append(dict(name="rhd-cli-switches", kind="rhd", param=rhd_param(c), threads=3, stages=[(rhd_args, exp)], san_quick=True))
    if "use-version" in found:
        items.append(dict(name="cli-use-version-mismatch", kind="tbi", param=tbi_param(dict()), threads=1, stages=[(["--task-based", "--use-version", "not-the-version-of-this-binary"], [])],
                          san_quick=False, must_refuse="Wrong code version"))
    ctx.cov["cli_switches"] = where
    return items


def run_plan(ctx):
    """every whole run of this tier: list of dicts (name, kind, stages [(args, expect)], param, threads, aux, key, san_quick)"""
    plan = []
    for item in rhd_configs(ctx):
        (name, c, threads, sq), repeat = item[:4], (item[4] if len(item) > 4 else 1)
        kind = "rhd-race" if "-race-" in name else "rhd-radiation" if c.get("radiation") else "rhd"
        plan.append(dict(name=name, kind=kind, param=rhd_param(c), threads=threads,
                         stages=[(["--task-based-rhd"], live_expect(c))], san_quick=sq, repeat=repeat))
    plan += block_crossing_items(ctx)
    plan += output_option_items(ctx)
    plan += cli_switch_items(ctx)
    # recorded finding: a source outside the box (exactly one such configuration, stable key)
    c = dict(layout=(2, 2, 1), anchor=(0.1, -0.3, 0.7), sides=(1.1, 1.1, 1.1), source="default")
    plan.append(dict(name="rhd-source-outside-box", kind="finding", param=rhd_param(c), threads=1, stages=[(["--task-based-rhd", "--number-of-steps", "2"], [])],
                     key=KEY_SOURCE_OUTSIDE, san_quick=False))
    # recorded finding: PhotonSourceDistribution: None in the RHD mode
    plan.append(dict(name="rhd-source-distribution-none", kind="finding", param=rhd_param(dict(layout=(1, 1, 1), source="none")), threads=1,
                     stages=[(["--task-based-rhd"], [r"snap\d+\.hdf5"])], key="run:rhd-null-source-distribution", san_quick=False))
    # restart: dump at every step, stop after 2 steps, restart and finish
    for (name, c, threads, sq) in [("restart-plain", dict(layout=(2, 2, 1), cells=(3, 4, 2)), 2, False),
                                   ("restart-live-mask-turbulence", dict(layout=(2, 2, 2), cells=(4, 2, 3), per=(True, True, True), mask=True, turbulence=True, **LIVE_ALL), 3, False),
                                   ("restart-radiation", dict(layout=(2, 1, 1), cells=(2, 3, 4), radiation=True, live=True, **SMALL), 1, False)][:ctx.budget(2, 3)]:
        c = dict(c, restart_interval="0. s", total_time=0.003)
        plan.append(dict(name=name, kind="restart", param=rhd_param(c), threads=threads, san_quick=sq,
                         stages=[(["--task-based-rhd", "--number-of-steps", "2"], [r"restart\.dump"]), (["--task-based-rhd", "--restart", "."], live_expect(c))]))
    # restart dumps: every configured number of backups, >= 4 dumps in one process (a dump at every
    # step) and more dumps after the restart; the restarted process has MORE threads than the one
    # that wrote the dump
    for nb in (0, 1, 2, 3):
        c = dict(layout=(2, 2, 1), cells=ORDERINGS[nb], live=True, restart_interval="0. s", total_time=0.003, backups=nb)
        files = [r"restart\.dump"] + [r"restart\.%d\.back" % i for i in range(nb)]
        plan.append(dict(name="restart-%d-backups" % nb, kind="restart", param=rhd_param(c), threads=1 + nb % 2, san_quick=(nb == 2),
                         stages=[(["--task-based-rhd", "--number-of-steps", "5"], files, 1 + nb % 2),
                                 (["--task-based-rhd", "--restart", ".", "--number-of-steps", "9"], files, 3 + nb),
                                 (["--task-based-rhd", "--restart", "."], files + live_expect(c), 4 + nb)]))
    # restart with more threads than the dumping run, with radiation (must pass)
    c = dict(layout=(2, 1, 2), cells=(2, 4, 3), radiation=True, live=True, restart_interval="0. s", total_time=0.003, **SMALL)
    plan.append(dict(name="restart-radiation-more-threads", kind="restart", param=rhd_param(c), threads=1, san_quick=False,
                     stages=[(["--task-based-rhd", "--number-of-steps", "2"], [r"restart\.dump"], 1), (["--task-based-rhd", "--restart", "."], live_expect(c), 3)]))
    # recorded finding: restart with FEWER threads than the run that wrote the dump (the subgrids'
    # owning thread is restored from the dump and indexes the per-thread queues).  Exactly this
    # configuration class carries the key; with the repair applied it is an ordinary passing run.
    c = dict(layout=(2, 2, 2), cells=(2, 2, 2), restart_interval="0. s", total_time=0.004)
    plan.append(dict(name="restart-fewer-threads", kind="finding", param=rhd_param(c), threads=4, san_quick=True, key="run:restart-with-fewer-threads-queue-index-out-of-range", key_stage=1,
                     stages=[(["--task-based-rhd", "--number-of-steps", "2"], [r"restart\.dump"], 4), (["--task-based-rhd", "--restart", ".", "--number-of-steps", "4"], [], 2)]))
    # thread counts above the number of cores and above the small-size thresholds of the standard
    # library (sorting networks / insertion sort up to 16 elements, ...): tiny problems
    for nth in ([17, 33] if not ctx.thorough else [17, 24, 33, 64]):
        c = dict(cells=(2, 3, 2), layout=(2, 2, 1), photons=1000, iterations=2, diffuse=True, copy_level=1, ntasks=3000, nbuf=600, queue=1500)
        plan.append(dict(name="tbi-%d-threads" % nth, kind="tbi-threads", param=tbi_param(c), threads=nth, stages=[(["--task-based"], [r"snap\d+\.txt"])], san_quick=(nth == 17)))
        c = dict(layout=(2, 2, 1), cells=(2, 3, 2), live=True, total_time=0.001, snaptime=0.001)
        if nth < 64:
            c.update(radiation=True, photons=401, iterations=1, radtime=0.0005, ntasks=3000, nbuf=600, queue=1500)
        plan.append(dict(name="rhd-%d-threads" % nth, kind="rhd-threads", param=rhd_param(c), threads=nth, stages=[(["--task-based-rhd"], live_expect(c))], san_quick=(nth == 17)))
    plan.append(dict(name="rhd-dry-run", kind="rhd", param=rhd_param(dict(layout=(2, 2, 1), live=True)), threads=1, stages=[(["--task-based-rhd", "--dry-run"], [])], san_quick=False))
    for item in tbi_configs(ctx):
        (name, c, types, threads, sq), repeat = item[:5], (item[5] if len(item) > 5 else 1)
        aux = {"trackers.yml": tbi_tracker_yaml(types, c)} if types else None
        plan.append(dict(name=name, kind="tbi-race" if "-race-" in name else "tbi", param=tbi_param(c), threads=threads, aux=aux,
                         stages=[(["--task-based"], [r"snap\d+\.txt"])], san_quick=sq, repeat=repeat))
    plan.append(dict(name="tbi-dry-run", kind="tbi", param=tbi_param(dict(diffuse=True)), threads=1, stages=[(["--task-based", "--dry-run"], [])], san_quick=False))
    # recorded finding: a `type: Multi` tracker followed by another tracker in the same cell
    c = dict(trackers=True, same_cell=True, copy_level=0)
    plan.append(dict(name="tbi-multi-tracker-shares-cell", kind="tbi", param=tbi_param(c), threads=1, aux={"trackers.yml": tbi_tracker_yaml("MS", c)},
                     stages=[(["--task-based"], [r"snap\d+\.txt"])], key="run:tracker-multi-shares-cell-double-delete", san_quick=False))
    return plan


def whole_runs(ctx, binary, label, plan, env=None, timeout=60, wrapper=None):
    """runs the plan on one binary; a failing run (exit status, memory checker report, missing
    output, no end within the time limit) is a VIOLATION with the parameter file + command as replay.
    After the first run of a kind that does not end, no further run of that kind is started."""
    stats = {"runs": 0, "failed": 0, "skipped_after_hang": 0}
    t_start = time.time()
    more = []
    hung = set()

    def report(name, what, param, cmd, res, aux=None, key=None):
        stats["failed"] += 1
        if key is None:
            stats["generic"] = stats.get("generic", 0) + 1
            if stats["generic"] > 3:
                # one defect usually breaks many configurations: the first three get their own
                # replay file, the rest is listed in one more
                more.append({"run": name, "what": what, "cmd": cmd, "param": param, "aux_files": aux or {}})
                return
        tail = res["log"][-1800:]
        # keep the replay file (and its name) the same from run to run
        for pat, sub in ((r"\d\d:\d\d:\d\d", "hh:mm:ss"), (r"/tmp/verif_\w+", "/tmp/verif_X"), (r"\[\w+:\d+\]", "[pid]"), (r"==\d+==", "==pid=="),
                         (r"0x[0-9a-fA-F]{6,}", "0x.."), (r"\(\+0x[0-9a-f]+\)", "(+0x..)"), (r"\d+(\.\d+)?(e[-+]\d+)?\s?(s|ms|MB|KB|%)\b", "<n>")):
            tail = re.sub(pat, sub, tail)
        lines = [l for l in tail.split("\n") if re.search(r"rror|Sanitizer|ignal|free\(\)|corrupt|Assert|abort|Invalid", l) and "[pid] [" not in l]
        rep = {"run": name, "binary": label, "param": param, "cmd": cmd, "aux_files": aux or {}, "error_lines": lines[:4]}
        if SAN_RE.search(res["log"]):
            rep["memory_checker"] = re.sub(r"0x[0-9a-fA-F]{6,}", "0x..", re.sub(r"==\d+==", "==pid==", san_summary(res["log"])))
        ctx.violation(key or ("run:%s:%s" % (label, name)), "%s [%s binary]: %s; command: %s" % (name, label, what, cmd), rep)

    rates = {}
    for it in plan:
        if it["kind"] in hung:
            stats["skipped_after_hang"] += 1
            continue
        nrep = it.get("repeat", 1)
        if label != "normal":
            nrep = min(nrep, 2 if ctx.thorough else 1)
        hits, okall = 0, True
        for irep in range(nrep):
            d = tempfile.mkdtemp(prefix="verif_c12_")
            cmds = []
            for istage, stage in enumerate(it["stages"]):
                (args, expect), nth = stage[:2], (stage[2] if len(stage) > 2 else it["threads"])
                # the worker loops spin: on an oversubscribed machine an 8-thread run that takes 1 s
                # can take minutes.  The limit grows with the load, and a run that hits it is
                # repeated once with four times the limit before it is called a hang.
                ncpu = os.cpu_count() or 1
                tmo = timeout * max(1.0, min(4.0, os.getloadavg()[0] / ncpu))
                if nth > ncpu:
                    tmo *= 2        # more spinning workers than cores
                res, _ = run_binary(binary, it["param"], args, nth, aux=it.get("aux"), env=env, keepdir=d, timeout=tmo, wrapper=wrapper)
                if res["timed_out"] and os.getloadavg()[0] > 0.75 * ncpu:
                    stats["retried_after_timeout_under_load"] = stats.get("retried_after_timeout_under_load", 0) + 1
                    res, _ = run_binary(binary, it["param"], args, nth, aux=it.get("aux"), env=env, keepdir=d, timeout=4 * tmo, wrapper=wrapper)
                stats["runs"] += 1
                ctx.count()
                cmds.append("CMacIonize --params run.param --threads %d %s --dirty" % (nth, " ".join(args)))
                ok, what = classify_run(res, expect)
                if it.get("must_refuse"):
                    # the binary has to refuse this command line with its error message (cmac_error
                    # aborts): anything else - acceptance, a crash without the message, a memory
                    # checker report - is the failure
                    refused = (not res["timed_out"]) and res["rc"] != 0 and it["must_refuse"] in res["log"] and not SAN_RE.search(res["log"])
                    ok, what = refused, ("the command line was not refused with the message %r (exit status %s)" % (it["must_refuse"], res["rc"]))
                if not ok:
                    okall = False
                    hits += 1
                    if hits == 1:
                        report(it["name"], what + (" (repetition %d of %d of the same command)" % (irep + 1, nrep) if nrep > 1 else ""),
                               it["param"], " ; ".join(cmds), res, it.get("aux"),
                               key=it.get("key") if (it.get("key_stage") is None or (it["key_stage"] == istage and not res["timed_out"])) else None)
                    break
            shutil.rmtree(d, ignore_errors=True)
            if not okall and res["timed_out"]:
                hung.add(it["kind"])
                break
        if nrep > 1:
            rates[it["name"]] = "%d/%d" % (hits, irep + 1)
        ctx.branch("run-" + it["kind"] + "-" + label)
        ctx.distinct(("run", label, it["name"], it["threads"], hashlib.sha256(it["param"].encode()).hexdigest()[:10]), nontrivial=True)
        if it["name"] == "rhd-source-outside-box":
            ctx.cov["source_outside_box_run"] = "completed without a detected error" if okall else "failed as recorded (%s)" % KEY_SOURCE_OUTSIDE
    if rates:
        stats["failing_repetitions_of_repeated_runs"] = rates
    if more:
        ctx.violation("run:%s:more-failing-runs" % label, "%d more runs of the %s binary fail (%s)" % (len(more), label, ", ".join(m["run"] + ": " + m["what"][:60] for m in more)[:1500]),
                      {"runs": more, "binary": label, "param": more[0]["param"], "cmd": more[0]["cmd"], "aux_files": more[0]["aux_files"]})
    stats["wall_s"] = round(time.time() - t_start, 1)
    if hung:
        stats["kinds_with_a_hang"] = sorted(hung)
    ctx.cov.setdefault("whole_runs", {})[label] = stats
    return stats


# =========================================================================== sanitizer build

ASAN_DIR = os.path.join(vlib.BUILD, "asan")
ASAN_FLAGS = "-Wno-cpp -D%s -fsanitize=address,undefined -fno-omit-frame-pointer -g1" % vlib.GUARD
ASAN_ENV = {
    "ASAN_OPTIONS": "detect_leaks=0:halt_on_error=1:abort_on_error=0:exitcode=97:detect_stack_use_after_return=0:allocator_may_return_null=1",
    "UBSAN_OPTIONS": "print_stacktrace=1:halt_on_error=1:exitcode=98",
}


def private_copy(path):
    """the build trees are shared and every `cmake --build` relinks the binary (CompilerInfo.cpp is
    regenerated each time): run a copy that is replaced atomically, so that a relink by another
    job cannot pull the file away under a running check"""
    run = path + ".c12run"
    tmp = "%s.%d.tmp" % (run, os.getpid())
    shutil.copy2(path, tmp)
    os.replace(tmp, run)
    return run


def normal_binary():
    path = vlib.full_binary(targets=("CMacIonize",))
    with vlib.Lock("cmake"):
        return private_copy(path)


def asan_binary():
    """AddressSanitizer + UBSan build of the whole binary from the current tree (own build
    directory per repository path, incremental: only the first build is expensive; when no
    source changed nothing is compiled or linked)"""
    with vlib.Lock("asan"):
        os.makedirs(ASAN_DIR, exist_ok=True)
        t0 = time.time()
        binary = os.path.join(ASAN_DIR, "rundir", "CMacIonize")
        if os.path.exists(os.path.join(ASAN_DIR, "build.ninja")):
            rc, out = vlib.sh(["cmake", ASAN_DIR])
        else:
            rc, out = vlib.sh(["cmake", "-G", "Ninja", "-S", vlib.REPO, "-B", ASAN_DIR, "-DCMAKE_BUILD_TYPE=Release",
                               "-DCMAKE_CXX_FLAGS=" + ASAN_FLAGS, "-DCMAKE_EXE_LINKER_FLAGS=-fsanitize=address,undefined",
                               "-DCMAKE_SHARED_LINKER_FLAGS=-fsanitize=address,undefined"])
        if rc != 0:
            raise RuntimeError("cmake configure of the sanitizer build failed:\n" + out[-3000:])
        # the project regenerates CompilerInfo.cpp on every build (and relinks 200 MB): skip the
        # build when that is all there is to do
        rc, dry = vlib.sh(["ninja", "-C", ASAN_DIR, "-n", "CMacIonize"])
        todo = [l for l in dry.split("\n") if "Building CXX object" in l and "CompilerInfo.cpp.o" not in l]
        if rc != 0 or todo or not os.path.exists(binary) or not os.path.exists(binary + ".c12run"):
            rc, out = vlib.sh(["cmake", "--build", ASAN_DIR, "-j16", "--target", "CMacIonize"])
            if rc != 0:
                raise RuntimeError("sanitizer build failed:\n" + out[-6000:])
            private_copy(binary)
        return binary + ".c12run", time.time() - t0


def lsan_rhd_leaks(ctx, binary, info):
    """tie of the RHD locals (no harness can construct a function's locals): one complete RHD run
    under LeakSanitizer; the allocation sites inside do_simulation that leak must be exactly the
    fields the Lean theorem exempts (timeline)."""
    env = dict(ASAN_ENV)
    env["ASAN_OPTIONS"] = env["ASAN_OPTIONS"].replace("detect_leaks=0", "detect_leaks=1")
    env["LSAN_OPTIONS"] = "exitcode=0:print_suppressions=0"
    c = dict(layout=(2, 2, 1), live=True, mask=True, turbulence=True, per=(True, True, True), restart_interval="0. s", total_time=0.01)
    d = tempfile.mkdtemp(prefix="verif_c12_")
    res, _ = run_binary(binary, rhd_param(c), ["--task-based-rhd", "--number-of-steps", "2"], 2, env=env, timeout=300, keepdir=d)
    log = res["log"]
    if res["rc"] == 0 and not res["timed_out"]:
        # and the process restarted from that dump (its RestartReader must be deleted too)
        res2, _ = run_binary(binary, rhd_param(c), ["--task-based-rhd", "--restart", "."], 2, env=env, timeout=300, keepdir=d)
        log = log + "\n" + res2["log"]
    shutil.rmtree(d, ignore_errors=True)
    if "LeakSanitizer has encountered a fatal error" in log or ("ERROR: LeakSanitizer" not in log and "SUMMARY" not in log):
        ctx.cov["lsan_rhd"] = "LeakSanitizer could not run here (ptrace not permitted?) or reported nothing: " + log[-200:].replace("\n", " | ")
        if "ERROR: LeakSanitizer" not in log and res["rc"] == 0 and "fatal error" not in log:
            ctx.broken_obligation("LeakSanitizer reports no leak in a complete task-based RHD run although the Lean theorem rhdSimulation_timeline_leaked says the TimeLine is never deleted (model and code disagree)", log[-1500:])
        return
    src = open(os.path.join(vlib.REPO, "src", "TaskBasedRadiationHydrodynamicsSimulation.cpp"), encoding="utf-8").read().split("\n")
    fields = info["units"]["rhdSimulation"]["fields"]
    leaked = set()
    others = 0
    for blk in re.split(r"\n(?=(?:Direct|Indirect) leak of )", log):
        if not blk.startswith("Direct leak"):
            continue
        m = re.search(r"#[123] 0x[0-9a-f]+ in TaskBasedRadiationHydrodynamicsSimulation::do_simulation[^\n]*?TaskBasedRadiationHydrodynamicsSimulation\.cpp:(\d+)", blk)
        if not m:
            others += 1
            continue
        ln = int(m.group(1))
        var = None
        for k in range(ln - 1, max(ln - 6, 0), -1):
            mm = re.search(r"(\w+)\s*=\s*(?:$|new\b|\w+::\w+\()", src[k].strip()) if k < len(src) else None
            if mm:
                var = mm.group(1)
                break
        leaked.add(var or ("line %d" % ln))
    ctx.cov["lsan_rhd"] = {"leaking_allocation_sites_in_do_simulation": sorted(leaked), "other_direct_leaks": others}
    expected = {"timeline"}
    if leaked != expected:
        extra = sorted(leaked - expected)
        if extra:
            ctx.violation("run:asan:rhd-leak:" + ",".join(extra), "LeakSanitizer: pointer local(s) %s of do_simulation are never deleted in a complete task-based RHD run (the Lean theorem only exempts the TimeLine)" % extra,
                          {"leaked": sorted(leaked), "log_tail": log[-3000:], "fields": fields})
        else:
            ctx.broken_obligation("LeakSanitizer does not report the TimeLine leak that the Lean model states (rhdSimulation_timeline_leaked): model and code disagree", log[-1500:])


# =========================================================================== ThreadSanitizer (thorough)

TSAN_DIR = os.path.join(vlib.BUILD, "tsan")
ARCHER = "/usr/lib/llvm-14/lib/libarcher.so"
TSAN_ENV = {"TSAN_OPTIONS": "halt_on_error=0:exitcode=0:ignore_noninstrumented_modules=1", "OMP_TOOL_LIBRARIES": ARCHER}
# g++/libgomp is unusable for this (libgomp's barriers are invisible to TSan: > 100 false reports
# per run on the unchanged code).  clang++-14 + libomp + the Archer OMPT tool understands the OpenMP
# synchronisation; what is left on the unchanged code are the plain (non-atomic) accesses the
# design knowingly makes outside locks (DESIGN §4), listed here by file and function:
TSAN_KNOWN = [
    (r"TaskQueue\.hpp", r"^(size|add_task|TaskQueue::get_task\(.*|TaskQueue::try_get_task\(.*)$", "queue size / task slot read outside the queue lock (DESIGN §4)"),
    (r"DensitySubGrid\.hpp", r"^(get_owning_thread|set_owning_thread|set_largest_buffer|get_largest_buffer_size)$", "scheduling hints, plain reads/writes by design"),
    (r"\w*Tracker\.hpp", r"::count_photon\(", "trackers attached to a subgrid and to its copies are counted into by several threads without a lock (lost counts, no invalid memory access; reported)"),
]


def tsan_binary():
    if not shutil.which("clang++-14") or not os.path.exists(ARCHER):
        raise RuntimeError("clang++-14 / libarcher.so not installed")
    with vlib.Lock("tsan"):
        os.makedirs(TSAN_DIR, exist_ok=True)
        t0 = time.time()
        binary = os.path.join(TSAN_DIR, "rundir", "CMacIonize")
        if os.path.exists(os.path.join(TSAN_DIR, "build.ninja")):
            rc, out = vlib.sh(["cmake", TSAN_DIR])
        else:
            rc, out = vlib.sh(["cmake", "-G", "Ninja", "-S", vlib.REPO, "-B", TSAN_DIR, "-DCMAKE_CXX_COMPILER=clang++-14", "-DCMAKE_C_COMPILER=clang-14",
                               "-DCMAKE_BUILD_TYPE=Release", "-DCMAKE_CXX_FLAGS=-Wno-cpp -D%s -fsanitize=thread -fno-omit-frame-pointer -g1" % vlib.GUARD,
                               "-DCMAKE_CXX_FLAGS_RELEASE=-O1 -DNDEBUG -Wno-error", "-DCMAKE_EXE_LINKER_FLAGS=-fsanitize=thread"])
        if rc != 0:
            raise RuntimeError("cmake configure of the ThreadSanitizer build failed:\n" + out[-2000:])
        rc, dry = vlib.sh(["ninja", "-C", TSAN_DIR, "-n", "CMacIonize"])
        todo = [l for l in dry.split("\n") if "Building CXX object" in l and "CompilerInfo.cpp.o" not in l]
        if rc != 0 or todo or not os.path.exists(binary + ".c12run"):
            rc, out = vlib.sh(["cmake", "--build", TSAN_DIR, "-j16", "--target", "CMacIonize"])
            if rc != 0:
                raise RuntimeError("ThreadSanitizer build failed:\n" + out[-4000:])
            private_copy(binary)
        return binary + ".c12run", time.time() - t0


def tsan_runs(ctx, plan):
    """a few multi-threaded runs under ThreadSanitizer; every data race that is not one of the
    known unlocked accesses is a violation"""
    try:
        binary, secs = tsan_binary()
    except RuntimeError as e:
        ctx.cov["tsan"] = "not run: " + str(e)[:200]
        return
    byname = {it["name"]: it for it in plan}
    items = [dict(byname[n]) for n in ("rhd-race-live-8t", "tbi-race-trackers-8t", "rhd-stress-small-pools") if n in byname]
    items.insert(0, dict(name="tsan-mask", kind="tsan", threads=4, stages=[(["--task-based-rhd"], [])],
                         # many subgrids: with few, the first thread finishes a parallel loop before the others have started
                         param=rhd_param(dict(layout=(8, 8, 4), cells=(2, 2, 2), mask=True, mask_radius=0.12, live=True, total_time=0.0003, snaptime=0.0003))))
    stats = {"build_s": round(secs, 1), "runs": 0, "reports": 0, "known": {}, "new": 0}
    for it in items:
        res, d = run_binary(binary, it["param"], it["stages"][0][0], 4, aux=it.get("aux"), env=TSAN_ENV, timeout=240)
        shutil.rmtree(d, ignore_errors=True)
        stats["runs"] += 1
        ctx.count()
        cmd = "CMacIonize --params run.param --threads 4 %s --dirty" % " ".join(it["stages"][0][0])
        if res["timed_out"] or res["rc"] != 0:
            ctx.violation("run:tsan:%s" % it["name"], "%s [tsan binary]: %s; command: %s" % (it["name"], "did not finish" if res["timed_out"] else "exit status %d" % res["rc"], cmd),
                          {"run": it["name"], "binary": "tsan", "param": it["param"], "cmd": cmd, "aux_files": it.get("aux") or {}})
            continue
        for blk in res["log"].split("WARNING: ThreadSanitizer")[1:]:
            stats["reports"] += 1
            m = re.search(r"SUMMARY: ThreadSanitizer: ([\w -]+?) (\S+?):(\d+)(?::\d+)? in ([^\n]*)", blk)
            if not m:
                continue
            kind, path, line, func = m.group(1), m.group(2), int(m.group(3)), m.group(4).strip()
            fname = os.path.basename(path)
            known = None
            for (fre, fure, why) in TSAN_KNOWN:
                if re.fullmatch(fre, fname) and re.search(fure, func):
                    known = fname + ":" + func.split("(")[0]
            if known is None and "omp_outlined" in func:
                try:
                    src = open(os.path.join(vlib.REPO, "src", fname), encoding="utf-8").read().split("\n")[line - 1]
                except (OSError, IndexError):
                    src = ""
                if "global_run_flag" in src:
                    known = fname + ":global_run_flag"
            if known:
                stats["known"][known] = stats["known"].get(known, 0) + 1
                continue
            stats["new"] += 1
            stack = [re.sub(r"\s*\(CMacIonize\+0x[0-9a-f]+\).*", "", l.strip()) for l in blk.split("\n") if re.match(r"\s+#[0-3] ", l)][:8]
            ctx.violation("run:tsan:%s:%s" % (fname, func.split("(")[0][:60]),
                          "%s [tsan binary, 4 threads]: ThreadSanitizer: %s at %s:%d in %s; command: %s" % (it["name"], kind, fname, line, func, cmd),
                          {"run": it["name"], "binary": "tsan", "param": it["param"], "cmd": cmd, "aux_files": it.get("aux") or {}, "stacks": stack})
    ctx.cov["tsan"] = stats


# =========================================================================== entry points

# leaks that the Lean theorems state per class (Props/C12.lean): not reported by the harness
LEAKS_STATED_IN_LEAN = ["DiscPatchPhotonSourceDistribution::_output_file"]


def run(ctx):
    ctx.level = "other"
    ctx.assumptions += [
        "PROVED (Lean, every option vector): the pointer life cycle of the anchored owners only — LiveOutputManager, TrackerManager (constructor/destructor), TaskBasedIonizationSimulation (constructor/destructor), the pointer locals of TaskBasedRadiationHydrodynamicsSimulation::do_simulation, the output stream of the three random photon source distributions (normal and restart constructor)",
        "NOT proved, only SEARCHED by whole runs (exit status in the quick tier, AddressSanitizer/UBSan in the thorough tier): out-of-bounds accesses, use after free and uninitialised DATA reads anywhere else in the code, exit status 0 and outputs of complete runs",
        "the class descriptions are extracted textually by tools/gen_c12_lifecycle.py (trusted, fails closed); a std::vector<T*> member that is resized, filled and deleted element-wise in loops over the whole vector is modelled by one representative element; TrackerManager::_multi_trackers is filled by add_trackers (not modelled: searched by runs with several trackers in one cell)",
        "conditions that are not pointer tests are Boolean options; the same condition text is the same option (it is assumed not to change between constructor and destructor); cmac_error (abort) is treated as falling through (more paths, sound)",
        "dereferences of null component pointers are only excluded under the stated assumptions on the parameter file (density function, source distribution and spectra present); the dry run of the RHD mode returns early and frees nothing",
        "uninitialised-memory reads are only detected through 0xAA poisoning of the object storage and heap in the harness; MemorySanitizer is not used",
    ]
    try:
        info = gen_c12_lifecycle.generate()
    except gen_c12_lifecycle.GenError as e:
        ctx.broken_obligation("translator: %s" % e, str(e))
        info = None
    if info is not None:
        ctx.cov["translator"] = {k: {"fields": len(v["fields"]), "options": len(v["opts"]), "statements": v["nodes"],
                                      "never_null_factories": v["never_null"]} for k, v in info["units"].items()}
        ctx.cov["translator"]["regenerated"] = info["changed"]
    ok = info is not None and ctx.obligations("CMacVerif.Props.C12", ["drv_c12"])
    binary = normal_binary()
    ctx.cov["rule"] = ("life cycle: every option vector of LiveOutputManager (2^5 + defaults + single keys), tracker lists of 0..5 trackers of all types, "
                       "constructor variants of TaskBasedIonizationSimulation (sources / spectra / diffuse field / trackers / zero luminosities, 1..4 threads), the three random photon source "
                       "distributions x {normal, restart} constructor x {output off, on}; distinct = different op line, non-trivial = at least one pointer owned after the constructor. "
                       "whole runs (search): task-based RHD with/without radiation x live output / mask / turbulence / gravity / cooling x layouts x 1..4 threads, restart in two stages, dry runs, "
                       "task-based photoionization x diffuse / continuous source / trackers (incl. several per cell, weighted, in a copied subgrid); every named configuration has unequal numbers of "
                       "cells per subgrid (all 6 orderings of 2,3,4 occur; thorough: every optional component x every ordering); stress runs with all live outputs, radiation in several steps and "
                       "small pools (number of tasks 400-1000, buffers 60-300, queues 300-400: the task and buffer pools wrap around within a step); data-race runs: mask (subgrids inside / "
                       "outside / straddling the sphere), live output, trackers, radiation+mask on 8 (4) threads with 256-512 subgrids, each repeated 3x (thorough 6x), hit rate in "
                       "whole_runs.*.failing_repetitions_of_repeated_runs; recycled task slots: radiation + diffuse field + subgrid copies + time-dependent sources (DiscPatch; thorough also "
                       "UniformRandom, more sources, 3 iterations) over >= 8 radiation steps; sizes that cross the implementation's internal blocks, read from the source of the tree under test "
                       "(coverage.source_constants): single subgrids with a number of cells just below / exactly at / just above the snapshot writer's blocksize (thorough: above two blocks, "
                       "two such subgrids) for the RHD (HydroDensitySubGrid) and the photoionization (DensitySubGrid, Gadget writer) overloads, photon numbers PHOTONBUFFER_SIZE-1 / = / +1 "
                       "(thorough 2x, 2x+1), all also under ASan; thread counts above the number of cores and above the standard library's small-size thresholds (17 and 33; thorough also 24 and 64) "
                       "for both task-based modes; restart dumps with 0/1/2/3 configured backups, 5 dumps in the first process, more after each of two restarts, the restarted process with MORE "
                       "threads (restart with fewer threads is a recorded finding with its own key); Utilities::argsort on 415 vectors of 0..100 elements with many ties in a sanitized harness "
                       "(harness/c12_util.cpp); output options: DensityGridWriterFields with all ions of every ion field, everything on, an ion without the lower ions (recorded finding), thorough: "
                       "each field alone, two far ions, everything off but the coordinates - keys obtained from the real static functions of the tree (harness/c12_fields.cpp, "
                       "coverage.output_fields), Gadget writer in both modes + AsciiFile once; every optional command-line switch found in the add_option calls of the sources in at least one run "
                       "(coverage.cli_switches; a wrong --use-version must be refused). Quick: all runs on the normal binary + the stress/race/moving-source subset (15 configurations) on the "
                       "ASan/UBSan binary; thorough: every run on both + LeakSanitizer on the RHD locals + 4 runs under ThreadSanitizer (clang/libomp/Archer build; known unlocked accesses listed in "
                       "TSAN_KNOWN). A run that does not end within 60 s (75 s under ASan) is a violation and stops further runs of its kind; distinct = (binary, configuration)")
    if info is None:
        oracle_search(ctx)
    else:
        save_info(info)
        okd = ok
        if not ok:
            # the theorems no longer check: still run the real classes to find a concrete failing input
            okd, out = vlib.lake_build(["drv_c12"])
            if not okd:
                ctx.broken_obligation("Lean driver drv_c12 does not build", out[-1500:])
        if ok or okd:
            correspondence(ctx, info, ok)
    util_oracles(ctx)
    plan = run_plan(ctx)
    whole_runs(ctx, binary, "normal", plan, timeout=60)
    # memory checker: the ASan/UBSan build of the whole binary (kept incremental in .build; an
    # up-to-date tree costs seconds).  Quick: the stress subset; thorough: the whole plan.
    sub = plan if ctx.thorough else [it for it in plan if it["san_quick"]]
    try:
        abin, secs = asan_binary()
        ctx.cov["asan_build_s"] = round(secs, 1)
        whole_runs(ctx, abin, "asan", sub, env=ASAN_ENV, timeout=75)
        if ctx.thorough and info is not None:
            lsan_rhd_leaks(ctx, abin, info)
        if ctx.thorough:
            tsan_runs(ctx, plan)
    except RuntimeError as e:
        # no sanitizer binary (it does not build): valgrind memcheck on the normal binary for three
        # tiny runs instead, and say so
        ctx.notes.append("sanitizer build failed (%s): valgrind memcheck on the normal binary used instead" % str(e)[:200])
        if shutil.which("valgrind"):
            whole_runs(ctx, binary, "valgrind", [it for it in plan if it["san_quick"]][:3], wrapper=["valgrind", "-q", "--error-exitcode=96"], timeout=400)
        if ctx.thorough:
            ctx.broken_obligation("sanitizer build: %s" % str(e)[:300], str(e))
    # vlib reports theorems / streams that no longer check only when no failing input was found at
    # all; C12 has recorded findings that fail on every run (and would mask them): report them
    # explicitly
    broken = getattr(ctx, "pending_broken", [])
    if broken and any(v[3] for v in ctx.violations):
        what = "; ".join(x[0] for x in broken)[:3000]
        ctx.violation("unproved:" + hashlib.sha256(what.encode()).hexdigest()[:8], what,
                      {"broken": [x[0] for x in broken], "detail": [x[1][-3000:] for x in broken],
                       "note": "the named theorem / translator / correspondence stream no longer checks"}, found_input=False)
        ctx.pending_broken = []
    ctx.cov["explanation"] = ("mechanism proved in Lean (pointer life cycle of the owners of optional components, every option vector), tied to the real classes by an "
                              "allocation-trace differential; the system-level claim (complete runs exit 0 without invalid memory use) is validated by replayable whole runs "
                              "(exit status; ASan/UBSan in the thorough tier), not proved")


def replay(ctx, path):
    obj = json.load(open(path))
    print(json.dumps({k: v for k, v in obj.items() if k not in ("param", "log_tail", "aux_files", "detail")}, indent=1)[:3000])
    if "param" in obj:
        label = obj.get("binary", "normal")
        wrapper = None
        if label == "asan":
            binary, _ = asan_binary()
            env = ASAN_ENV
        elif label == "tsan":
            binary, _ = tsan_binary()
            env = TSAN_ENV
        else:
            binary, env = normal_binary(), None
            if label == "valgrind":
                wrapper = ["valgrind", "-q", "--error-exitcode=96"]
        d = tempfile.mkdtemp(prefix="verif_c12_replay_")
        bad = False
        for cmd in obj["cmd"].split(" ; "):
            w = cmd.split()
            args = [a for a in w[1:] if a != "--dirty"]
            # drop "--params run.param --threads n": run_sim adds them
            th = int(args[args.index("--threads") + 1]) if "--threads" in args else 1
            rest, skip = [], 0
            for a in args:
                if skip:
                    skip -= 1
                    continue
                if a in ("--params", "--threads"):
                    skip = 1
                    continue
                rest.append(a)
            res, _ = run_binary(binary, obj["param"], rest, th, aux=obj.get("aux_files") or None, env=env, keepdir=d, timeout=600, wrapper=wrapper)
            okk, what = classify_run(res, [])
            print("%s -> rc=%s %s" % (cmd, res["rc"], what))
            print(res["log"][-1200:])
            bad = bad or not okk
        shutil.rmtree(d, ignore_errors=True)
        print("REPRODUCED" if bad else "not reproduced")
        return 1 if bad else 0
    if obj.get("stream") == "utilities":
        h = vlib.build_harness("c12_util", sanitize=True)
        rc, out, err = vlib.run_exe(h, "\n".join(obj["ops"]) + "\n", env={"ASAN_OPTIONS": "detect_leaks=0"})
        print("ops:\n  " + "\n  ".join(obj["ops"]))
        print("implementation (rc=%d):\n%s%s" % (rc, out, err[-1500:]))
        bad = rc != 0 or "ORACLE" in out
        print("REPRODUCED" if bad else "not reproduced")
        return 1 if bad else 0
    if obj.get("ops"):
        info = gen_c12_lifecycle.generate()
        lib = os.path.join(vlib.FULL, "lib")
        vlib.full_binary(targets=("CMacIonize",))
        return vlib.generic_replay(ctx, path, "c12", "drv_c12", cmp=cmp_lines,
                                   harness_kw={"extra": ["-I" + info["hpp_dir"]],
                                               "libs": [os.path.join(lib, "libTaskBasedEngine.a"), os.path.join(lib, "libSharedEngine.a")]})
    print("replay file names a broken obligation, not an input; nothing to execute")
    return 1


MANIFEST = dict(
    category="other",
    text="PARTIAL. Proved in Lean (generic theorem over every class description that passes a decidable check, instantiated by `decide` on descriptions regenerated from the source on every run; "
         "unbounded in the option vector): for LiveOutputManager, TrackerManager, TaskBasedIonizationSimulation, the pointer locals of TaskBasedRadiationHydrodynamicsSimulation::do_simulation and the "
         "output stream of the Uniform-random / DiscPatch / Caproni source distributions (normal and restart constructors) the destructor frees only pointers the constructor allocated, each once, "
         "tests or deletes no uninitialised pointer, uses none after its delete, and leaks nothing except what is stated per class (TimeLine of the RHD run, DiscPatch output stream); every constructor "
         "initialises every owned pointer; the descriptions before /repo commits 4acd754 and d5ef870 are shown unsafe. Tied to the code by constructing the real classes in 0xAA-poisoned storage with "
         "interposed operator new/delete for all option combinations (field-level allocation/free traces identical to the model's). NOT proved: out-of-bounds, use-after-free and uninitialised data "
         "reads elsewhere and the exit status of whole runs — these are only searched by whole runs of all modes with unequal cells per subgrid in every ordering and pools small enough to wrap "
         "around, repeated 8-thread runs of the components with per-subgrid state on hundreds of subgrids, and radiation with diffuse field, subgrid copies and time-dependent sources over many steps "
         "(exit status, expected outputs, no hang on the normal binary; an ASan/UBSan build of the whole binary on a stress subset in the quick tier and on every run in the thorough tier; "
         "ThreadSanitizer on four runs in the thorough tier). Subgrid sizes and photon numbers cross the writer's blocksize and PHOTONBUFFER_SIZE (both read from the source at run time); thread counts go up to 33 (64 in thorough); "
         "restart chains cover 0-3 backups and more threads after the restart; the writers' output-field options and the optional command-line switches are swept (names read from the tree). "
         "A data race is only found when it shows in one of the repetitions or under ThreadSanitizer.",
    note="Trusted: Lean kernel + 3 axioms; textual translator tools/gen_c12_lifecycle.py (fails closed); uniform-vector abstraction; same condition text = same option; null dereferences excluded only under "
         "stated parameter-file assumptions (theorem rhdSimulation_null_source_distribution_is_dereferenced shows one is necessary: genuine crash). Whole-run part is a search with replayable parameter files, not a proof; "
         "the sanitizer build lives in .build/asan (per repository path, incremental; `python3 tools/props/c12.py --prebuild` builds it ahead of time; valgrind memcheck on three runs is the fallback when it does not build); ThreadSanitizer needs clang++-14 + libomp + libarcher (g++/libgomp gives > 100 false reports per run) "
         "and ignores the unlocked accesses the design makes knowingly (queue size, owning-thread and buffer hints, global_run_flag, unlocked tracker counters).",
    technique="Lean 4 proof (sound per-field abstract interpretation of a small constructor/destructor language, generic theorem + decide on generated descriptions) + allocation-trace differential "
              "against the real classes + whole-run search with exit status and AddressSanitizer/UBSan")


if __name__ == "__main__":
    # python3 tools/props/c12.py --prebuild : build (or refresh) the normal and the sanitizer build of
    # the whole binary so that the quick tier finds both up to date
    if "--prebuild" in sys.argv:
        t0 = time.time()
        normal_binary()
        t1 = time.time()
        _, secs = asan_binary()
        print("C12 prebuild: normal binary %.0f s, ASan/UBSan binary %.0f s (%s)" % (t1 - t0, secs, ASAN_DIR))
    else:
        print("usage: python3 tools/props/c12.py --prebuild")
