"""C14 — restart dumps rotate safely (DESIGN §6 C14)."""
import vlib


def gen(rng, exhaustive_n, exhaustive_k, with_reboot):
    ops = []
    for n in exhaustive_n:
        ops.append("new %d" % n)
        for k in range(1, exhaustive_k + 1):
            # a crash at every file-system operation of dump k (0 .. renames+3), then the dump
            for p in range(0, n + 6):
                ops.append("crash %d %d" % (k, p))
            ops.append("dump %d" % k)
            if k % 5 == 0:
                ops.append("ls")
    # final dumps requested by a stop file / by the wall-clock limit: same guarantees
    for n in exhaustive_n:
        for mode in ("stop", "newt"):
            ops.append(("new %d" if mode == "stop" else "newt %d") % n)
            kmax = min(exhaustive_k, n + 2)
            for k in range(1, kmax + 1):
                ops.append("dump %d" % k)
            if mode == "stop":
                ops.append("stop")
            for p in range(0, n + 6):
                ops.append("crash %d %d" % (kmax + 1, p))
            ops.append("dump %d" % (kmax + 1))
            ops.append("ls")
    if with_reboot:
        for n in exhaustive_n:
            for kb in (1, 2, n + 1):
                ops.append("new %d" % n)
                for k in range(1, kb + 1):
                    ops.append("dump %d" % k)
                ops.append("reboot")
                for k in range(kb + 1, kb + 4):
                    for p in range(0, n + 6):
                        ops.append("crash %d %d" % (k, p))
                    ops.append("dump %d" % k)
    return ops


def run(ctx):
    ctx.level = "proof"
    ctx.assumptions += [
        "POSIX rename is atomic; a file that was closed is complete on disk (ofstream flushing not modelled)",
        "crash = process death after a prefix of the operations rename*, truncating open, write, close; injected in the real RestartManager by interposing rename() and by exiting after open / after a flushed partial write",
        "the crash-safety theorem is about a process that made the previous dump itself; the first dump of a restarted process is a recorded finding (known_findings.txt)",
    ]
    ok = ctx.obligations("CMacVerif.Props.C14", ["drv_c14"])
    h = vlib.build_harness("c14", libs=["-ldl"])
    if ctx.thorough:
        ops = gen(ctx.rng, range(0, 9), 20, True)
    else:
        ops = gen(ctx.rng, range(0, 9), 6, True)
    ops = vlib.corpus_ops("C14") + ops
    ctx.cov["rule"] = ("exhaustive: backup counts 0..8 x dumps 1..%d, a crash injected at every operation index of every dump, plus histories with a process restart; "
                       "distinct = (n, k, crash point); non-trivial = the dump renamed at least one file" % (20 if ctx.thorough else 6))
    ctx.cov["exhaustive"] = True
    if ok:
        n, impl, model, orc = ctx.correspond("rotation", h, vlib.driver("drv_c14"), ops,
                                             cmp=lambda a, b, op: a == vlib.strip_branch(b),
                                             group_start=lambda op: op.startswith("new"),  # also matches "newt"
                                             oracle_key=lambda what, grp: "rotation:" + what.split("(")[0].split()[0])
        cur_n, k = 0, 0
        for op, ml in zip(ops, model):
            w = op.split()
            if w[0] in ("new", "newt"):
                cur_n, k = int(w[1]), 0
            ctx.count()
            if w[0] == "dump":
                k += 1
                nren = int(ml.split("#renames=")[1]) if "#renames=" in ml else 0
                ctx.branch("dump-renames-%d" % nren)
                ctx.distinct(("dump", cur_n, k), nontrivial=nren > 0)
            elif w[0] == "crash":
                ctx.branch("crash")
                ctx.distinct(("crash", cur_n, k, w[2]), nontrivial=cur_n > 0 and k > 0)
        ctx.sample({"ops": ops[:12], "impl": impl[:12]})
        j = next((i for i, o in enumerate(ops) if o == "new 3"), 0)
        ctx.sample({"ops": ops[j:j + 30], "impl": impl[j:j + 30]})


def replay(ctx, path):
    return vlib.generic_replay(ctx, path, "c14", "drv_c14", harness_kw={"libs": ["-ldl"]})

MANIFEST = dict(
    category="proof",
    text="Lean theorems for every backup count n and dump count k: the dump sequence never fails, leaves dump = newest and backups newest-first with count min(n,k-1) and no other file (after_k_dumps); every crash prefix of a dump keeps a complete copy of the previous state when n >= 1 (crash_safe); for EVERY history of dumps and process restarts (hrun): no dump ever aborts (history_never_aborts), the newest state is complete in the dump file (history_newest_in_dump), every dump except the first one of a restarted process is crash safe in any reachable directory (crash_safe_history, invariant HInv); the exception is a theorem too (restarted_first_dump_not_crash_safe = the recorded finding); model tied to RestartManager.hpp by running the real class in a scratch directory with a crash injected at every file-system operation (interposed rename), n=0..8, k up to 20, listings identical.",
    note="Trusted: Lean kernel + 3 axioms; hand model of get_restart_writer; POSIX rename atomic, closed file = complete; first dump of a restarted process is a recorded finding (known_findings.txt), stated as restarted_first_dump_not_crash_safe; the driver executes the same hstep the history theorems are about.",
    technique="Lean 4 proof by induction over dumps and over the shifting loop + exhaustive small-scope differential with crash injection")
